(* Model/Xfr.v — xfr.go: the receiving side of a zone transfer
   (Transfer.In -> inAxfr / inIxfr, Transfer.ReadMsg, isSOAFirst, isSOALast),
   modelled loop by loop.  Definitions only.

   What is abstracted: a resource record is (is it an SOA, its serial, a
   payload id); a message read from the connection is either an envelope
   (id, rcode, answer records, description of its TSIG) or a failed read
   (EOF, short frame, read deadline, unpack error) carrying its error class.
   One loop iteration of the Go code = one element of the read list; when the
   list is exhausted the next read fails (the peer closed the connection).
   Every iteration sends exactly one Envelope{RR, Error} on the channel: the
   result is the list of these items.  After the last item the Go code closes
   the connection and then the channel (deferred), on every path. *)
From Dns Require Export Base.Bytes.
Open Scope N_scope.

Record rr := mkRR { r_soa : bool; r_serial : N; r_pid : N }.

(* Description of the TSIG record of an envelope, used by the concrete
   verification function of the correspondence runner (Corr/C15.v).  The
   theorems quantify over an arbitrary verification function instead. *)
Record sigd := mkSig {
  s_key : N;        (* 0 right key, 1 known name but other secret, 2 unknown key name *)
  s_prev : N;       (* tag of the MAC this envelope was chained to when it was signed *)
  s_to : bool;      (* signed in timers-only form *)
  s_tag : N;        (* tag of this envelope's own MAC *)
  s_tamper : bool;  (* octets changed after signing *)
  s_timeok : bool   (* time signed within fudge *)
}.

Record env := mkEnv { e_id : N; e_rcode : N; e_rrs : list rr; e_sig : option sigd }.

Inductive rd := RMsg (e : env) | RFail (c : string).

(* one Envelope{RR, Error} received from the channel *)
Record item := mkItem { i_rrs : list rr; i_err : option string }.

Inductive vres (M : Type) := VOk (m : M) | VErr (c : string).
Arguments VOk {M} m.
Arguments VErr {M} c.

(* isSOAFirst / isSOALast *)
Definition is_soa_first (l : list rr) : bool :=
  match l with r :: _ => r_soa r | [] => false end.
Fixpoint is_soa_last (l : list rr) : bool :=
  match l with
  | [] => false
  | r :: t => match t with [] => r_soa r | _ => is_soa_last t end
  end.
Definition hd_serial (l : list rr) : N :=
  match l with r :: _ => r_serial r | [] => 0 end.

(* the inner loop of inIxfr over the answer records of one envelope:
     if v.Serial == serial { n++; if axfr && n == 2 || n == 3 { return } }
     else if axfr { axfr = false }
   result: (stop, axfr, n) *)
Fixpoint scan (serial : N) (axfr : bool) (n : nat) (l : list rr) : bool * bool * nat :=
  match l with
  | [] => (false, axfr, n)
  | r :: t =>
    if r_soa r then
      if r_serial r =? serial then
        let n' := S n in
        if (axfr && Nat.eqb n' 2) || Nat.eqb n' 3 then (true, axfr, n')
        else scan serial axfr n' t
      else scan serial false n t
    else scan serial axfr n t
  end.

(* RFC 1982 serial number arithmetic on 32 bits, as  int32(s - q) > 0  computes
   it: s is newer than q iff (s - q) mod 2^32 is in 1 .. 2^31 - 1 *)
Definition serial_newer (s q : N) : bool :=
  let d := (s mod 4294967296 + 4294967296 - q mod 4294967296) mod 4294967296 in
  (0 <? d) && (d <? 2147483648).

Section Xfr.
  Variable mac : Type.
  (* TsigVerifyWithProvider(p, provider, requestMAC, timersOnly) followed by
     requestMAC = MAC of the message's TSIG: the new running MAC, or the error *)
  Variable verify : mac -> bool -> env -> vres mac.
  Variable tsig_on : bool.    (* Transfer.tsigProvider() != nil *)
  Variable qid : N.           (* q.Id *)
  Variable qser : N.          (* serial of the SOA in the query authority section (IXFR only) *)

  (* Transfer.ReadMsg *)
  Definition read_msg (m : mac) (to : bool) (r : rd) : vres (env * mac) :=
    match r with
    | RFail c => VErr c
    | RMsg e =>
      if tsig_on then
        match verify m to e with
        | VOk m' => VOk (e, m')
        | VErr c => VErr c
        end
      else VOk (e, m)
    end.

  (* inAxfr: [first] is the Go variable, [m]/[to] are t.tsigRequestMAC and
     t.tsigTimersOnly *)
  Fixpoint axfr_loop (first : bool) (m : mac) (to : bool) (rs : list rd) : list item :=
    match rs with
    | [] => [mkItem [] (Some "read"%string)]
    | r :: rs' =>
      match read_msg m to r with
      | VErr c => [mkItem [] (Some c)]
      | VOk (e, m') =>
        let rrs := e_rrs e in
        if negb (e_id e =? qid) then [mkItem rrs (Some "id"%string)]
        else if negb (e_rcode e =? 0) then [mkItem rrs (Some "rcode"%string)]
        else if first then
          if negb (is_soa_first rrs) then [mkItem rrs (Some "soa"%string)]
          else if Nat.eqb (length rrs) 1 then mkItem rrs None :: axfr_loop false m' true rs'
          else if is_soa_last rrs then [mkItem rrs None]
          else mkItem rrs None :: axfr_loop false m' true rs'
        else if is_soa_last rrs then [mkItem rrs None]
        else mkItem rrs None :: axfr_loop false m' true rs'
      end
    end.

  Definition in_axfr (m0 : mac) (rs : list rd) : list item := axfr_loop true m0 false rs.

  (* inIxfr *)
  Fixpoint ixfr_loop (n : nat) (axfr : bool) (serial : N) (m : mac) (to : bool)
           (rs : list rd) : list item :=
    match rs with
    | [] => [mkItem [] (Some "read"%string)]
    | r :: rs' =>
      match read_msg m to r with
      | VErr c => [mkItem [] (Some c)]
      | VOk (e, m') =>
        let rrs := e_rrs e in
        if negb (e_id e =? qid) then [mkItem rrs (Some "id"%string)]
        else if negb (e_rcode e =? 0) then [mkItem rrs (Some "rcode"%string)]
        else
          match (match n with
                 | O => if negb (is_soa_first rrs) then inl [mkItem rrs (Some "soa"%string)]
                        else if negb (serial_newer (hd_serial rrs) qser) then inl [mkItem rrs None]
                        else inr (hd_serial rrs)
                 | S _ => inr serial
                 end) with
          | inl its => its
          | inr serial' =>
            match scan serial' axfr n rrs with
            | (true, _, _) => [mkItem rrs None]
            | (false, axfr', n') => mkItem rrs None :: ixfr_loop n' axfr' serial' m' true rs'
            end
          end
      end
    end.

  Definition in_ixfr (m0 : mac) (rs : list rd) : list item := ixfr_loop 0 true 0 m0 false rs.

  (* the transfer was reported complete and error-free *)
  Definition complete (its : list item) : bool :=
    forallb (fun i => match i_err i with None => true | Some _ => false end) its.

  (* verification of a sequence of envelopes against the running MAC chain:
     the first with the flag [to], all later ones in timers-only form *)
  Fixpoint chain_ok (m : mac) (to : bool) (es : list env) : Prop :=
    match es with
    | [] => True
    | e :: es' => exists m', verify m to e = VOk m' /\ chain_ok m' true es'
    end.

  (* the running MAC and form flag after a chain of envelopes that all verify *)
  Fixpoint chain_end (m : mac) (to : bool) (es : list env) : option (mac * bool) :=
    match es with
    | [] => Some (m, to)
    | e :: es' =>
      match verify m to e with
      | VOk m' => chain_end m' true es'
      | VErr _ => None
      end
    end.

  (* TSIG factored out of the loops: the read list as the loops see it when
     every envelope is first checked against the chain *)
  Fixpoint vfilter (m : mac) (to : bool) (rs : list rd) : list rd :=
    match rs with
    | [] => []
    | RFail c :: _ => [RFail c]
    | RMsg e :: rs' =>
      match verify m to e with
      | VOk m' => RMsg e :: vfilter m' true rs'
      | VErr c => [RFail c]
      end
    end.
End Xfr.

(* an envelope as a well-behaved sender produces it when TSIG is not in use *)
Definition plain (qid : N) (rrs : list rr) : rd := RMsg (mkEnv qid 0 rrs None).
Definition ok_item (rrs : list rr) : item := mkItem rrs None.

(* ---- the concrete verification function of the correspondence runner ----
   Idealised HMAC: a MAC verifies iff key, chained MAC, form (full / timers
   only) and octets are those it was computed over.  MACs are named by tags. *)
Definition verify_tag (m : N) (to : bool) (e : env) : vres N :=
  match e_sig e with
  | None => VErr "nosig"%string
  | Some s =>
    if e_rcode e =? 9 then VErr "auth"%string   (* stripTsig: RcodeNotAuth -> ErrAuth *)
    else if s_key s =? 2 then VErr "secret"%string
    else if negb (s_key s =? 0) || negb (s_prev s =? m) || negb (Bool.eqb (s_to s) to) || s_tamper s
    then VErr "sig"%string
    else if negb (s_timeok s) then VErr "time"%string
    else VOk (s_tag s)
  end.
