package main

// C12, the ID rule for EVERY exported way of making an exchange.
//
// "a client exchange over a stream fails with an ID error when the reply's ID
// differs, and over datagrams skips replies with other IDs until the matching
// one or the deadline arrives". The package offers an exchange under several
// names: the functions Exchange, ExchangeContext, ExchangeConn and the methods
// Client.Exchange, Client.ExchangeContext, Client.ExchangeWithConn,
// Client.ExchangeWithConnContext. runExchange plays its scripted reply schedules
// (foreign, stale, duplicate, short, undecodable, over-long replies in any order
// before the real one) against Client.ExchangeWithConn only; the other names
// were used, if at all, against well-behaved peers that answer every query with
// its own ID (loopback cross-talk runs) or in the timed scenarios (foreign
// floods over datagrams). An entry point with its own read-and-compare code
// (ExchangeConn) was never given a reply with another ID.
//
// This file
//   * ENUMERATES the exported exchange entry points from the source of the
//     library the harness is linked with (go/parser over the directory that
//     runtime.FuncForPC reports for dns.Exchange: exported functions and methods
//     of exported types that take a *Msg and return (*Msg, ..., error)), cross-
//     checked by reflection over the method sets of the exported client-side
//     types, and refuses to pass when one of them has no driver here
//     (C12/Exchange/entry-point-not-driven);
//   * drives every one of them with the schedules of xSchedule (the generator of
//     runExchange): the ones that take a connection over scripted stream conns
//     (every chunking class of genSizes, early EOF) and scripted datagram conns;
//     the ones that take an address against a scripted peer on 127.0.0.1 (UDP:
//     the peer answers the query with the scheduled datagrams in order; TCP: it
//     writes the scheduled frames and keeps the connection open until the client
//     closes it, or closes it early for the early-EOF schedules);
//   * oracle, from the property text, the same for every name: never a reply
//     with another ID without an error; stream: the FIRST frame decides (ErrId
//     when its ID differs); datagrams: replies with other IDs are skipped until
//     the matching one (returned intact) or the deadline. Over real sockets only
//     outcomes that do not depend on time are judged (a reply, ErrId, a decode
//     error, EOF); a timeout where a reply was due is counted as infrastructure.
//   * each judged exchange is also a model case (xstream / xdgram: the exchange
//     model of Model/Frame.v is the same whatever the entry point is called).

import (
	"bytes"
	"context"
	"encoding/binary"
	"fmt"
	"go/ast"
	"go/parser"
	"go/token"
	"io"
	"net"
	"path/filepath"
	"reflect"
	"runtime"
	"sort"
	"strings"
	"time"

	"github.com/miekg/dns"
	. "verif/harness/common"
	"verif/harness/netfake"
)

// ------------------------------------------------------------------ the exported API

func isStarMsg(e ast.Expr) bool {
	s, ok := e.(*ast.StarExpr)
	if !ok {
		return false
	}
	id, ok := s.X.(*ast.Ident)
	return ok && id.Name == "Msg"
}

func flatTypes(fl *ast.FieldList) []ast.Expr {
	var o []ast.Expr
	if fl == nil {
		return o
	}
	for _, f := range fl.List {
		n := len(f.Names)
		if n == 0 {
			n = 1
		}
		for i := 0; i < n; i++ {
			o = append(o, f.Type)
		}
	}
	return o
}

// exchangeAPIFromSource: exported functions / methods of exported types with a
// *Msg parameter and results (*Msg, ..., error).
func exchangeAPIFromSource() ([]string, string) {
	f := runtime.FuncForPC(reflect.ValueOf(dns.Exchange).Pointer())
	if f == nil {
		return nil, ""
	}
	file, _ := f.FileLine(f.Entry())
	dir := filepath.Dir(file)
	fset := token.NewFileSet()
	pkgs, err := parser.ParseDir(fset, dir, nil, parser.SkipObjectResolution)
	if err != nil || pkgs["dns"] == nil {
		return nil, dir
	}
	seen := map[string]bool{}
	for name, af := range pkgs["dns"].Files {
		base := filepath.Base(name)
		if strings.HasSuffix(base, "_test.go") || strings.HasPrefix(base, "verif_hooks") {
			continue
		}
		for _, d := range af.Decls {
			fd, ok := d.(*ast.FuncDecl)
			if !ok || !fd.Name.IsExported() {
				continue
			}
			name := fd.Name.Name
			if fd.Recv != nil && len(fd.Recv.List) == 1 {
				t := fd.Recv.List[0].Type
				if s, ok := t.(*ast.StarExpr); ok {
					t = s.X
				}
				id, ok := t.(*ast.Ident)
				if !ok || !id.IsExported() {
					continue
				}
				name = id.Name + "." + name
			}
			ps, rs := flatTypes(fd.Type.Params), flatTypes(fd.Type.Results)
			takes := false
			for _, p := range ps {
				takes = takes || isStarMsg(p)
			}
			if !takes || len(rs) < 2 || !isStarMsg(rs[0]) {
				continue
			}
			if id, ok := rs[len(rs)-1].(*ast.Ident); !ok || id.Name != "error" {
				continue
			}
			seen[name] = true
		}
	}
	var o []string
	for k := range seen {
		o = append(o, k)
	}
	sort.Strings(o)
	return o, dir
}

// exchangeAPIFromReflection: the same shape among the methods of the exported
// client-side types.
func exchangeAPIFromReflection() []string {
	msgT := reflect.TypeOf(&dns.Msg{})
	errT := reflect.TypeOf((*error)(nil)).Elem()
	var o []string
	for _, v := range []any{&dns.Client{}, &dns.Conn{}, &dns.Transfer{}, &dns.Server{}, &dns.ServeMux{}, &dns.Msg{}} {
		t := reflect.TypeOf(v)
		for i := 0; i < t.NumMethod(); i++ {
			m := t.Method(i)
			ft := m.Type
			takes := false
			for k := 1; k < ft.NumIn(); k++ {
				takes = takes || ft.In(k) == msgT
			}
			if takes && ft.NumOut() >= 2 && ft.Out(0) == msgT && ft.Out(ft.NumOut()-1) == errT {
				o = append(o, t.Elem().Name()+"."+m.Name)
			}
		}
	}
	sort.Strings(o)
	return o
}

// ------------------------------------------------------------------ expectations (the property text)

// wantDgram: the exchange over datagrams, receive buffer of bufsize octets.
// Foreign IDs are skipped; as runExchange (and the model) have it, a short or
// undecodable datagram met on the way ends the exchange with that error.
func wantDgram(reps [][]byte, qid uint16, bufsize int) (want string, idx int, bad []string) {
	want, idx = "err:timeout", -1
	for i, d := range reps {
		p := d
		if len(p) > bufsize {
			p = p[:bufsize]
		}
		if len(p) < 12 {
			return "err:short-read", -1, bad
		}
		if !decodesOK(p) {
			return "err:unpack", -1, append(bad, Hx(p))
		}
		if binary.BigEndian.Uint16(p) == qid {
			return "ok:" + render(p), i, bad
		}
	}
	return
}

// wantStream: the FIRST frame of the stream decides.
func wantStream(data []byte, qid uint16) (want string, first []byte, bad []string) {
	ms, end := refParse(data, 1)
	switch {
	case len(ms) == 0:
		return "err:" + end, nil, nil
	case len(ms[0]) < 12:
		return "err:short-read", ms[0], nil
	case !decodesOK(ms[0]):
		return "err:unpack", ms[0], []string{Hx(ms[0])}
	case binary.BigEndian.Uint16(ms[0]) != qid:
		return "err:id", ms[0], nil
	}
	return "ok:" + render(ms[0]), ms[0], nil
}

// gotOf renders the outcome; expected is the packet the property designates (nil: none).
func gotOf(rep *dns.Msg, err error, expected []byte, want string) string {
	if err == nil {
		if rep == nil {
			return "ok:NIL-REPLY"
		}
		var um dns.Msg
		if expected != nil && um.Unpack(expected) == nil && rep.String() == um.String() {
			return "ok:" + render(expected)
		}
		return "ok:OTHER-REPLY-id" + Itoa(int(rep.Id))
	}
	c := classify(err)
	if c == "other" && want == "err:unpack" {
		return "err:unpack"
	}
	return "err:" + c
}

type epIn struct {
	Entry     string   `json:"entry_point"`
	Transport string   `json:"transport"`
	Qid       uint16   `json:"query_id"`
	Replies   []string `json:"replies_hex"`
	Sizes     string   `json:"chunk_sizes,omitempty"`
	EarlyEOF  int      `json:"stream_cut_after_octets,omitempty"`
	Got       string   `json:"got"`
	Want      string   `json:"want"`
}

// ------------------------------------------------------------------ drivers

// A driver performs ONE exchange of q. Conn drivers get the scripted conn;
// address drivers get the peer's address and the network. `short` asks for a
// short deadline (the schedule holds no matching reply).
type epDriver struct {
	conn func(q *dns.Msg, c net.Conn, short bool) (*dns.Msg, error)
	addr func(q *dns.Msg, network, a string, short bool) (*dns.Msg, error)
	nets []string // networks an address driver can use
}

const (
	epShort = 60 * time.Millisecond
	epLong  = 10 * time.Second
)

func epTimeout(short bool) time.Duration {
	if short {
		return epShort
	}
	return epLong
}

var epDrivers = map[string]epDriver{
	"Client.ExchangeWithConn": {conn: func(q *dns.Msg, c net.Conn, short bool) (*dns.Msg, error) {
		cl := &dns.Client{Timeout: epTimeout(short)}
		rep, _, err := cl.ExchangeWithConn(q, &dns.Conn{Conn: c})
		return rep, err
	}},
	"Client.ExchangeWithConnContext": {conn: func(q *dns.Msg, c net.Conn, short bool) (*dns.Msg, error) {
		// the deadline comes from the context, the client's own is far away
		cl := &dns.Client{Timeout: epLong}
		ctx, cancel := context.WithTimeout(context.Background(), epTimeout(short))
		defer cancel()
		rep, _, err := cl.ExchangeWithConnContext(ctx, q, &dns.Conn{Conn: c})
		return rep, err
	}},
	"ExchangeConn": {conn: func(q *dns.Msg, c net.Conn, short bool) (*dns.Msg, error) {
		c.SetReadDeadline(time.Now().Add(epTimeout(short))) // ExchangeConn sets none
		return dns.ExchangeConn(c, q)
	}},
	"Client.Exchange": {nets: []string{"udp", "tcp"}, addr: func(q *dns.Msg, network, a string, short bool) (*dns.Msg, error) {
		cl := &dns.Client{Net: network, Timeout: epTimeout(short)}
		rep, _, err := cl.Exchange(q, a)
		return rep, err
	}},
	"Client.ExchangeContext": {nets: []string{"udp", "tcp"}, addr: func(q *dns.Msg, network, a string, short bool) (*dns.Msg, error) {
		cl := &dns.Client{Net: network, Timeout: epLong}
		ctx, cancel := context.WithTimeout(context.Background(), epTimeout(short))
		defer cancel()
		rep, _, err := cl.ExchangeContext(ctx, q, a)
		return rep, err
	}},
	"Exchange": {nets: []string{"udp"}, addr: func(q *dns.Msg, network, a string, short bool) (*dns.Msg, error) {
		return dns.Exchange(q, a) // UDP, the default 2 s timeout, nothing to configure
	}},
	"ExchangeContext": {nets: []string{"udp"}, addr: func(q *dns.Msg, network, a string, short bool) (*dns.Msg, error) {
		ctx, cancel := context.WithTimeout(context.Background(), epTimeout(short))
		defer cancel()
		return dns.ExchangeContext(ctx, q, a)
	}},
}

// staticAPI is used only when the source of the library cannot be read.
var staticAPI = []string{"Client.Exchange", "Client.ExchangeContext", "Client.ExchangeWithConn", "Client.ExchangeWithConnContext", "Exchange", "ExchangeConn", "ExchangeContext"}

// ------------------------------------------------------------------ judging

// judge applies the oracle to one exchange and emits the model case. real: the
// exchange went over kernel sockets, outcomes that depend on time are not judged.
// It reports whether the exchange was judged.
func judge(entry, tr string, real, firstForeign bool, qid uint16, rep *dns.Msg, err error, want string, expected []byte, in epIn, emit func(got string)) {
	got := gotOf(rep, err, expected, want)
	in.Got, in.Want = got, want
	stat["entry_"+entry+"_"+tr]++
	if err == nil && (rep == nil || rep.Id != qid) {
		key := "C12/Exchange/udp-foreign-id-returned"
		if tr == "tcp" {
			key = "C12/Exchange/tcp-foreign-id-returned"
		}
		Viol(key, entry+": the exchange returned a reply with another ID without an error", in)
	}
	if got == want {
		stat["entry_point_oracle_checked"]++
		emit(got)
		return
	}
	if real && (got == "err:timeout" || got == "err:other") {
		// the reply did not make it in time (Exchange has a fixed 2 s), or the
		// environment failed: nothing to conclude
		stat["entry_real_socket_inconclusive"]++
		return
	}
	if entry == "ExchangeConn" && tr == "udp" && got == "err:id" && firstForeign {
		// KNOWN FINDING (known_findings.json, docs/C12.md): ExchangeConn does a
		// single read whatever the transport is, so over a datagram conn a reply
		// with another ID ends it with ErrId instead of being skipped. It fails
		// safe (the clause above: never a foreign reply without an error). Narrow
		// key: this entry point, datagrams, ErrId, first datagram a well-formed
		// reply with another ID. Anything else goes to the general keys below.
		stat["exchangeconn_udp_errid_instead_of_skip_observed"]++
		Viol("C12/Exchange/ExchangeConn-udp-no-skip", "ExchangeConn over a datagram conn returned ErrId for the first reply (another ID) instead of skipping it until the matching reply or the deadline", in)
		return
	}
	stat["entry_point_oracle_checked"]++
	key := "C12/Exchange/udp-skip"
	desc := "datagram exchange did not skip foreign IDs until the matching reply / deadline"
	if tr == "tcp" {
		key, desc = "C12/Exchange/tcp-id", "stream exchange: wrong outcome for the first reply frame"
	}
	Viol(key, entry+": "+desc, in)
	emit(got)
}

// ------------------------------------------------------------------ the peers on 127.0.0.1

// udpPeer answers ONE query with the scheduled datagrams, in order.
func udpPeer(reps [][]byte) (addr string, gotQuery chan []byte, stop func(), ok bool) {
	pc, err := net.ListenPacket("udp", "127.0.0.1:0")
	if err != nil {
		return "", nil, nil, false
	}
	gotQuery = make(chan []byte, 1)
	done := make(chan struct{})
	go func() {
		defer close(done)
		buf := make([]byte, 65535)
		pc.SetReadDeadline(time.Now().Add(infraWait))
		n, src, err := pc.ReadFrom(buf)
		if err != nil {
			return
		}
		gotQuery <- append([]byte(nil), buf[:n]...)
		for _, d := range reps {
			pc.WriteTo(d, src)
		}
	}()
	return pc.LocalAddr().String(), gotQuery, func() { pc.SetReadDeadline(time.Now()); <-done; pc.Close() }, true
}

// tcpPeer reads ONE framed query, writes data, then waits for the client to
// close (or closes at once when closeAfter is set).
func tcpPeer(data []byte, closeAfter bool) (addr string, gotQuery chan []byte, stop func(), ok bool) {
	l, err := net.Listen("tcp", "127.0.0.1:0")
	if err != nil {
		return "", nil, nil, false
	}
	gotQuery = make(chan []byte, 1)
	done := make(chan struct{})
	go func() {
		defer close(done)
		l.(*net.TCPListener).SetDeadline(time.Now().Add(infraWait))
		c, err := l.Accept()
		if err != nil {
			return
		}
		defer c.Close()
		c.SetDeadline(time.Now().Add(infraWait))
		var lb [2]byte
		if _, err := io.ReadFull(c, lb[:]); err != nil {
			return
		}
		q := make([]byte, binary.BigEndian.Uint16(lb[:]))
		if _, err := io.ReadFull(c, q); err != nil {
			return
		}
		gotQuery <- append(lb[:], q...)
		c.Write(data)
		if closeAfter {
			return
		}
		io.Copy(io.Discard, c) // until the client closes
	}()
	return l.Addr().String(), gotQuery, func() { l.Close(); <-done }, true
}

// ------------------------------------------------------------------ the run

func runEntryPoints(r *Rng, tier string) {
	api, dir := exchangeAPIFromSource()
	if len(api) == 0 {
		stat["entry_api_source_unreadable"]++
		api = staticAPI
	}
	have := map[string]bool{}
	for _, n := range api {
		have[n] = true
	}
	for _, n := range exchangeAPIFromReflection() {
		if !have[n] {
			have[n] = true
			api = append(api, n)
		}
	}
	sort.Strings(api)
	stat["entry_points_enumerated"] = len(api)
	for _, n := range api {
		if _, ok := epDrivers[n]; !ok {
			Viol("C12/Exchange/entry-point-not-driven", "the library exports an exchange entry point (takes a *Msg, returns (*Msg, ..., error)) that this check does not drive with foreign-ID / stale / duplicate reply schedules", map[string]any{"entry_point": n, "source": dir, "all": api})
		}
	}
	for _, n := range staticAPI {
		if !have[n] {
			stat["entry_point_gone_"+n]++
		}
	}

	rounds, realEvery := 90, 3
	if tier == "thorough" {
		rounds, realEvery = 1200, 4
	}
	exchangeTimeoutsLeft := 1 // dns.Exchange can only wait its full 2 s
	for round := 0; round < rounds; round++ {
		qid := uint16(r.Next())
		q := new(dns.Msg)
		q.SetQuestion("x.example.", dns.TypeA)
		q.Id = qid
		qb, _ := q.Pack()
		reps := xSchedule(r, qid)
		if round%5 == 0 && len(reps) > 0 && binary.BigEndian.Uint16(reps[0]) == qid && len(reps[0]) >= 12 {
			// make sure the class "the very first reply is somebody else's" is frequent
			b, _ := mkReply(qid+uint16(1+r.Intn(3)), "other.example.", r).Pack()
			reps = append([][]byte{b}, reps...)
		}
		var repHex []string
		for _, b := range reps {
			repHex = append(repHex, Hx(b))
		}
		// the stream form of the schedule
		var items []item
		var bounds []int
		pos := 0
		for _, b := range reps {
			it := itMsgFrame(b)
			bounds = append(bounds, pos)
			pos += len(it.data)
			items = append(items, it)
		}
		spec, data := specOf(items)
		cutAt := 0
		if r.Intn(6) == 0 && len(data) > 0 { // early EOF
			cutAt = r.Intn(len(data))
			data = data[:cutAt]
			spec = "x" + Hx(data)
		}
		wantS, firstS, badS := wantStream(data, qid)
		const bufsize = 512 // no OPT in the query, no Client.UDPSize
		wantD, idxD, badD := wantDgram(reps, qid, bufsize)
		var expD []byte
		if idxD >= 0 {
			expD = reps[idxD]
			if len(expD) > bufsize {
				expD = expD[:bufsize]
			}
		}
		var expS []byte
		if strings.HasPrefix(wantS, "ok:") {
			expS = firstS
		}
		// the first datagram is a well-formed reply to somebody else
		firstForeign := false
		if len(reps) > 0 {
			p := reps[0]
			if len(p) > bufsize {
				p = p[:bufsize]
			}
			firstForeign = len(p) >= 12 && decodesOK(p) && binary.BigEndian.Uint16(p) != qid
		}
		dg := make([]string, len(repHex))
		for i, h := range repHex {
			dg[i] = "d" + h
		}
		emitD := func(got string) {
			Emit("xdgram", []string{Itoa(int(qid)), Itoa(bufsize), strings.Join(dg, ","), strings.Join(badD, ",")}, got)
			stat["entry_cases"]++
		}

		for _, name := range api {
			d, ok := epDrivers[name]
			if !ok {
				continue
			}
			if d.conn != nil {
				// scripted datagram conn
				{
					dc := netfake.NewDgramConn(reps)
					var rep *dns.Msg
					var err error
					if Protect(func() string { rep, err = d.conn(q, dc, wantD == "err:timeout"); return "" }) == "panic" {
						Viol("C12/Exchange/panic", name+" panicked", epIn{Entry: name, Transport: "udp", Qid: qid, Replies: repHex})
						continue
					}
					in := epIn{Entry: name, Transport: "udp", Qid: qid, Replies: repHex}
					judge(name, "udp", false, firstForeign, qid, rep, err, wantD, expD, in, emitD)
					if w := dc.Writes(); len(w) != 1 || !bytes.Equal(w[0].Data, qb) {
						Viol("C12/Exchange/udp-request", name+": the request was not sent as exactly one datagram", in)
					}
				}
				// scripted stream conn, a fresh chunking per entry point
				{
					sizes := genSizes(r, len(data), bounds)
					fc := netfake.NewConn(cut(sizes, data))
					var rep *dns.Msg
					var err error
					in := epIn{Entry: name, Transport: "tcp", Qid: qid, Replies: repHex, Sizes: sizesString(sizes), EarlyEOF: cutAt}
					if Protect(func() string { rep, err = d.conn(q, fc, false); return "" }) == "panic" {
						Viol("C12/Exchange/panic", name+" panicked", in)
						continue
					}
					judge(name, "tcp", false, firstForeign, qid, rep, err, wantS, expS, in, func(got string) {
						Emit("xstream", []string{Itoa(int(qid)), spec, sizesString(sizes), strings.Join(badS, ",")}, got)
						stat["entry_cases"]++
					})
					if w := fc.Writes(); len(w) != 1 || !bytes.Equal(w[0], frame(qb)) {
						Viol("C12/Exchange/tcp-request", name+": the request was not written as exactly one length-prefixed frame", in)
					}
				}
			}
			if d.addr != nil && round%realEvery == 0 {
				for _, network := range d.nets {
					short := false
					var addr string
					var gotQuery chan []byte
					var stop func()
					var up bool
					if network == "udp" {
						short = wantD == "err:timeout"
						if short && name == "Exchange" {
							if exchangeTimeoutsLeft == 0 {
								continue
							}
							exchangeTimeoutsLeft--
						}
						addr, gotQuery, stop, up = udpPeer(reps)
					} else {
						addr, gotQuery, stop, up = tcpPeer(data, cutAt > 0 || len(data) == 0)
					}
					if !up {
						stat["infra_loopback_unavailable"]++
						continue
					}
					var rep *dns.Msg
					var err error
					res := Protect(func() string { rep, err = d.addr(q, network, addr, short); return "" })
					var sent []byte
					select {
					case sent = <-gotQuery:
					default:
					}
					stop()
					in := epIn{Entry: name, Transport: network, Qid: qid, Replies: repHex}
					if res == "panic" {
						Viol("C12/Exchange/panic", name+" panicked", in)
						continue
					}
					if sent == nil { // the query never reached the peer: nothing was played back
						stat["entry_real_socket_inconclusive"]++
						continue
					}
					if network == "udp" {
						judge(name, "udp", true, firstForeign, qid, rep, err, wantD, expD, in, emitD)
						if !bytes.Equal(sent, qb) {
							Viol("C12/Exchange/udp-request", name+": the datagram the peer received is not the packed request", in)
						}
					} else {
						in.EarlyEOF = cutAt
						judge(name, "tcp", true, firstForeign, qid, rep, err, wantS, expS, in, func(got string) {
							Emit("xstream", []string{Itoa(int(qid)), spec, "", strings.Join(badS, ",")}, got)
							stat["entry_cases"]++
						})
						if !bytes.Equal(sent, frame(qb)) {
							Viol("C12/Exchange/tcp-request", name+": the peer did not receive the request as one length-prefixed frame", in)
						}
					}
				}
			}
		}
	}
	_ = fmt.Sprint
}
