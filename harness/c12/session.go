package main

// C12, sequences of exchanges on ONE dns.Conn / dns.Client.
//
// Every other part of the harness performs one exchange per connection object
// (or several of the same shape over a stream). Here a session is a sequence of
// 2-6 exchanges over the same datagram dns.Conn with the same dns.Client where
// the things that decide how much of a reply can be received change from one
// exchange to the next: the EDNS0 size the query advertises (none, below 512,
// 511..513, 600, 800, 1232, sometimes 4096, 8192, 65535), Client.UDPSize (0,
// below 512, 512, 600, 1232, sometimes 4096 or 8192), the UDPSize the Conn
// starts with (0, what Client.Dial copies, something else),
// and the size of the reply, directed at both sides of each of those limits.
// Whatever an exchange leaves unread (stale and duplicate replies behind the
// matching one) is still queued on the socket for the next exchange, as on a
// real socket.
//
// Oracle from the property text: an exchange whose query advertises N octets
// (OPT size, else Client.UDPSize, at least 512) and whose matching reply of at
// most N octets arrives (behind any number of well-formed replies with other
// IDs, earlier exchanges' IDs included) returns exactly that reply, whatever
// the exchanges before it on this Conn asked for or received; it never returns
// a reply with another ID. The whole session is also a model case
// (exchange_session in Model/Frame.v: the receive size carried by the Conn from
// one exchange to the next, the queue of unread datagrams).

import (
	"bytes"
	"encoding/binary"
	"errors"
	"fmt"
	"net"
	"strings"
	"sync"
	"time"

	"github.com/miekg/dns"
	. "verif/harness/common"
	"verif/harness/netfake"
)

// nullReply is the recipe "n<id>.<L>.<seed>": a response header with ANCOUNT 1
// and one NULL record (owner root) whose L octets of RDATA come from a 16-bit
// congruential generator started at seed (Corr/C12.v fill).
// It is 23+L octets long, Msg.Pack reproduces it octet for octet, and no proper
// prefix of it decodes (checked where it is generated).
func nullReply(id uint16, l int, seed uint64) []byte {
	b := make([]byte, 0, 23+l)
	b = append(b, byte(id>>8), byte(id), 0x80, 0, 0, 0, 0, 1, 0, 0, 0, 0)
	b = append(b, 0, 0, 10, 0, 1, 0, 0, 0, 0, byte(l>>8), byte(l))
	x := seed & 0xffff
	for i := 0; i < l; i++ {
		x = (5*x + 1) & 0xffff
		b = append(b, byte(x>>8))
	}
	return b
}

type sessDgram struct {
	spec string
	data []byte
}

type sessExchange struct {
	qid      uint16
	opt      int // -1: no OPT record
	arrivals []sessDgram
	timeout  bool // the harness expects the deadline (short client timeout)
}

type sessIn struct {
	ClientUDPSize int      `json:"client_udpsize"`
	ConnUDPSize   int      `json:"conn_udpsize_at_start"`
	Exchanges     []string `json:"exchanges"` // qid;opt;datagram recipes
	Index         int      `json:"failing_exchange"`
	Got           string   `json:"got"`
	Want          string   `json:"want,omitempty"`
}

// Only 512 is a constant of the library; the other sizes stand for any receive
// size, so most are kept small (model cases cost time in proportion to the
// octets) and the large ones are rare.
var sessOptSizes = []int{-1, -1, -1, 100, 511, 512, 513, 600, 800, 1232, 1232}
var sessClientSizes = []int{0, 0, 0, 300, 512, 600, 1232}

func pickSize(r *Rng, small []int) int {
	switch {
	case r.Intn(300) == 0:
		return 65535
	case r.Intn(40) == 0:
		return 8192
	case r.Intn(12) == 0:
		return 4096
	}
	return small[r.Intn(len(small))]
}

func advertised(clientSize, opt int) int {
	a := 512
	if opt >= 512 {
		a = opt
	} else if opt < 0 && clientSize >= 512 {
		a = clientSize
	}
	return a
}

// sessQuery builds the query of an exchange.
func sessQuery(qid uint16, opt int) *dns.Msg {
	q := new(dns.Msg)
	q.SetQuestion("s.example.", dns.TypeNULL)
	q.Id = qid
	if opt >= 0 {
		q.SetEdns0(uint16(opt), false)
	}
	return q
}

// replyLen picks the length of a matching reply around the limits in play.
func replyLen(r *Rng, limits []int) int {
	l := limits[r.Intn(len(limits))]
	switch r.Intn(8) {
	case 0:
		l++
	case 1:
		l--
	case 2:
		l -= 1 + r.Intn(40)
	case 3:
		l += 1 + r.Intn(40)
	case 4:
		l = 23 + r.Intn(400)
	}
	if l < 23 {
		l = 23
	}
	if l > 65535 {
		l = 65535
	}
	return l
}

func runSessionsScripted(r *Rng, n int) {
	for s := 0; s < n; s++ {
		clientSize := pickSize(r, sessClientSizes)
		if clientSize == 65535 {
			clientSize = 4096
		}
		connInit := 0
		switch r.Intn(4) {
		case 0:
			connInit = clientSize // what Client.Dial does
		case 1:
			connInit = []int{512, 600, 1232, 4096}[r.Intn(4)]
		}
		nx := 2 + r.Intn(5)
		var xs []sessExchange
		var prevIDs []uint16
		limits := []int{512, 600, 800, 1232}
		for i := 0; i < nx; i++ {
			x := sessExchange{qid: uint16(r.Next()), opt: pickSize(r, sessOptSizes)}
			adv := advertised(clientSize, x.opt)
			// well-formed replies with other IDs first (IDs of earlier exchanges on this Conn among them)
			for k := r.Intn(3); k > 0; k-- {
				id := uint16(r.Next())
				if len(prevIDs) > 0 && r.Bool() {
					id = prevIDs[r.Intn(len(prevIDs))]
				}
				if id == x.qid {
					id++
				}
				fl, fseed := r.Intn(200), r.Next()%100000
				x.arrivals = append(x.arrivals, sessDgram{fmt.Sprintf("n%d.%d.%d", id, fl, fseed), nullReply(id, fl, fseed)})
			}
			switch r.Intn(10) {
			case 0: // nothing matches: the deadline
				x.timeout = true
			default:
				var l int
				switch r.Intn(3) {
				case 0: // as large as this exchange allows
					l = adv - r.Intn(3)
				case 1: // around the limits of this and the other exchanges
					l = replyLen(r, append([]int{adv}, limits...))
				default:
					l = replyLen(r, []int{adv})
				}
				if l < 23 {
					l = 23
				}
				if l > 65535 {
					l = 65535
				}
				seed := r.Next() % 100000
				d := nullReply(x.qid, l-23, seed)
				x.arrivals = append(x.arrivals, sessDgram{fmt.Sprintf("n%d.%d.%d", x.qid, l-23, seed), d})
				if r.Intn(3) == 0 { // a duplicate and a stale reply stay queued for the next exchange
					sl, sseed := r.Intn(100), r.Next()%100000
					x.arrivals = append(x.arrivals, sessDgram{fmt.Sprintf("n%d.%d.%d", x.qid+1, sl, sseed), nullReply(x.qid+1, sl, sseed)}, x.arrivals[len(x.arrivals)-1])
				}
			}
			prevIDs = append(prevIDs, x.qid)
			xs = append(xs, x)
		}
		runOneSession(clientSize, connInit, xs)
	}
}

func runOneSession(clientSize, connInit int, xs []sessExchange) {
	// the assumptions of the recipe: every scripted datagram decodes and packs back to itself
	for _, x := range xs {
		for _, d := range x.arrivals {
			var m dns.Msg
			if err := m.Unpack(d.data); err != nil {
				stat["session_recipe_rejected"]++
				return
			}
			if p, err := m.Pack(); err != nil || !bytes.Equal(p, d.data) {
				stat["session_recipe_rejected"]++
				return
			}
			// ... and no cut of it does (the model's [decodes] for these cases)
			for _, b := range []int{512, 513, 600, 800, 1232, 4096, 8192, clientSize, connInit} {
				if b >= 12 && b < len(d.data) && decodesOK(d.data[:b]) {
					stat["session_recipe_rejected"]++
					return
				}
			}
		}
	}
	dc := netfake.NewDgramConn(nil)
	co := &dns.Conn{Conn: dc, UDPSize: uint16(connInit)}
	var queue [][]byte // what the socket still holds, as the oracle sees it
	in := sessIn{ClientUDPSize: clientSize, ConnUDPSize: connInit}
	args := []string{Itoa(clientSize), Itoa(connInit)}
	for _, x := range xs {
		var sp []string
		for _, d := range x.arrivals {
			sp = append(sp, d.spec)
		}
		opt := "none"
		if x.opt >= 0 {
			opt = Itoa(x.opt)
		}
		e := fmt.Sprintf("%d;%s;%s", x.qid, opt, strings.Join(sp, ","))
		in.Exchanges = append(in.Exchanges, e)
		args = append(args, e)
	}
	var outs []string
	sent := 0
	for i, x := range xs {
		for _, d := range x.arrivals {
			dc.Push(d.data, nil)
			queue = append(queue, d.data)
		}
		c := &dns.Client{UDPSize: uint16(clientSize), Timeout: 10 * time.Second}
		// the property's expectation, where it has one
		adv := advertised(clientSize, x.opt)
		want := ""
		for j, d := range queue {
			if len(d) > 512 && binary.BigEndian.Uint16(d) != x.qid {
				break // (not generated) a long foreign reply: no expectation
			}
			if binary.BigEndian.Uint16(d) == x.qid {
				if len(d) <= adv {
					want = "ok:" + render(d)
				}
				break
			}
			if j == len(queue)-1 {
				want = "err:timeout"
			}
		}
		if len(queue) == 0 {
			want = "err:timeout"
		}
		if want == "err:timeout" || (want == "" && x.timeout) {
			c.Timeout = 40 * time.Millisecond
		}
		q := sessQuery(x.qid, x.opt)
		qb, _ := q.Pack()
		before := dc.Delivered()
		rep, _, err := c.ExchangeWithConn(q, co)
		used := dc.Delivered() - before
		got := ""
		if err == nil {
			got = "ok:OTHER-REPLY-id" + Itoa(int(rep.Id))
			if p, perr := rep.Pack(); perr == nil {
				for _, d := range queue[:min(used, len(queue))] {
					if bytes.Equal(p, d) {
						got = "ok:" + render(d)
					}
				}
			}
		} else {
			got = "err:" + classify(err)
			if got == "err:other" {
				got = "err:unpack"
			}
		}
		outs = append(outs, got)
		in.Index, in.Got, in.Want = i, got, want
		stat["session_exchanges"]++
		if err == nil && rep.Id != x.qid {
			Viol("C12/Exchange/session-foreign-id-returned", "an exchange on a reused Conn returned a reply with another ID", in)
		}
		if want != "" {
			stat["session_oracle_checked"]++
			if got != want {
				Viol("C12/Exchange/session-reply", fmt.Sprintf("exchange %d on a reused datagram Conn (query advertises %d octets): the matching reply of at most that size was not returned intact / the deadline was not reported", i, adv), in)
			}
		} else {
			stat["session_reply_above_advertised"]++
		}
		w := dc.Writes()
		if len(w) != sent+1 || !bytes.Equal(w[len(w)-1].Data, qb) {
			Viol("C12/Exchange/session-request", "the request of an exchange on a reused Conn was not sent as exactly one datagram", in)
		}
		sent = len(w)
		if used > len(queue) {
			used = len(queue)
		}
		queue = queue[used:]
		if strings.HasPrefix(got, "ok:") {
			stat["session_ok"]++
		} else {
			stat["session_"+got]++
		}
	}
	Emit("xsession", args, strings.Join(outs, ","))
	stat["xsession_cases"]++
}

// ------------------------------------------------------------------ the same over real sockets

// A real UDP (and TCP) server on 127.0.0.1 whose handler answers "p<N>.<k>.sess."
// with a reply of exactly N octets (never more than the request allows: the OPT
// size, else 512; over TCP 65535) and remembers what it wrote per client and
// sequence number; every client keeps ONE dns.Conn and ONE dns.Client for a
// sequence of exchanges with changing OPT sizes and reply sizes.
func runSessionsLoopback(r *Rng, nclients, per int) {
	for _, network := range []string{"udp", "tcp"} {
		var mu sync.Mutex
		wrote := map[string][]byte{}
		var hbad []string
		h := dns.HandlerFunc(func(w dns.ResponseWriter, req *dns.Msg) {
			var n, k, c int
			if len(req.Question) != 1 {
				return
			}
			if _, err := fmt.Sscanf(req.Question[0].Name, "p%d.k%d.c%d.sess.", &n, &k, &c); err != nil {
				return
			}
			allowed := 512
			if network == "tcp" {
				allowed = 65535
			} else if o := req.IsEdns0(); o != nil && int(o.UDPSize()) > allowed {
				allowed = int(o.UDPSize())
			}
			rep := new(dns.Msg)
			rep.SetReply(req)
			rep.Question = nil // the reply is sized exactly below
			if n > allowed {
				n = allowed
			}
			if n < 23 {
				n = 23
			}
			rep.Answer = []dns.RR{&dns.NULL{Hdr: dns.RR_Header{Name: ".", Rrtype: dns.TypeNULL, Class: 1}, Data: string(prng(n-23, uint64(1000*c+k)))}}
			b, err := rep.Pack()
			mu.Lock()
			if err != nil || len(b) != n {
				if len(hbad) < 3 {
					hbad = append(hbad, fmt.Sprintf("reply of %d octets built as %d (%v)", n, len(b), err))
				}
				mu.Unlock()
				return
			}
			wrote[fmt.Sprintf("%d/%d", c, k)] = b
			mu.Unlock()
			w.Write(b)
		})
		srv := &dns.Server{Handler: h, MaxTCPQueries: -1, UDPSize: 4096}
		started := make(chan struct{})
		srv.NotifyStartedFunc = func() { close(started) }
		var addr string
		if network == "udp" {
			pc, err := net.ListenPacket("udp", "127.0.0.1:0")
			if err != nil {
				stat["infra_loopback_unavailable"]++
				continue
			}
			srv.PacketConn, addr = pc, pc.LocalAddr().String()
		} else {
			l, err := net.Listen("tcp", "127.0.0.1:0")
			if err != nil {
				stat["infra_loopback_unavailable"]++
				continue
			}
			srv.Listener, addr = l, l.Addr().String()
		}
		done := make(chan error, 1)
		go func() { done <- srv.ActivateAndServe() }()
		if !netfake.WaitChan(started, infraWait) {
			stat["infra_timeout"]++
			continue
		}
		type plan struct {
			clientSize int
			opts, lens []int
			ids        []uint16
		}
		plans := make([]plan, nclients)
		for c := range plans {
			p := &plans[c]
			p.clientSize = []int{0, 0, 512, 1232, 4096}[r.Intn(5)]
			for k := 0; k < per; k++ {
				opt := []int{-1, 512, 1232, 4096, 8192}[r.Intn(5)]
				adv := advertised(p.clientSize, opt)
				if opt < 0 {
					adv = 512 // all the server may assume without an OPT record
				}
				if network == "tcp" {
					adv = []int{600, 5000, 30000, 65535}[r.Intn(4)]
				}
				l := adv - r.Intn(3)
				if r.Intn(3) == 0 {
					l = 23 + r.Intn(adv-22)
				}
				p.opts, p.lens, p.ids = append(p.opts, opt), append(p.lens, l), append(p.ids, uint16(r.Next()))
			}
		}
		var wg sync.WaitGroup
		var bad []string
		counts := map[string]int{}
		for c := 0; c < nclients; c++ {
			wg.Add(1)
			go func(c int) {
				defer wg.Done()
				p := plans[c]
				cl := &dns.Client{Net: network, Timeout: 10 * time.Second, UDPSize: uint16(p.clientSize)}
				co, err := cl.Dial(addr)
				if err != nil {
					mu.Lock()
					counts["infra_timeout"]++
					mu.Unlock()
					return
				}
				defer co.Close()
				for k := 0; k < per; k++ {
					q := new(dns.Msg)
					q.SetQuestion(fmt.Sprintf("p%d.k%d.c%d.sess.", p.lens[k], k, c), dns.TypeNULL)
					q.Id = p.ids[k]
					if p.opts[k] >= 0 {
						q.SetEdns0(uint16(p.opts[k]), false)
					}
					rep, _, err := cl.ExchangeWithConn(q, co)
					mu.Lock()
					w := wrote[fmt.Sprintf("%d/%d", c, k)]
					var ne net.Error
					switch {
					case err != nil && errors.As(err, &ne) && ne.Timeout(), err != nil && strings.Contains(err.Error(), "connection re"):
						counts["infra_timeout"]++
						mu.Unlock()
						return // later replies could be taken for stale ones: stop this client
					case w == nil:
						counts["infra_timeout"]++
						mu.Unlock()
						return
					case err != nil:
						if len(bad) < 5 {
							bad = append(bad, fmt.Sprintf("%s client %d (Client.UDPSize %d) exchange %d (OPT %d): the handler wrote %d octets, the exchange failed: %v", network, c, p.clientSize, k, p.opts[k], len(w), err))
						}
					default:
						counts["session_loopback_checked"]++
						if b, perr := rep.Pack(); perr != nil || !bytes.Equal(b, w) {
							if len(bad) < 5 {
								bad = append(bad, fmt.Sprintf("%s client %d (Client.UDPSize %d) exchange %d (OPT %d): the handler wrote %d octets (%s), the client received id %d, %d octets", network, c, p.clientSize, k, p.opts[k], len(w), render(w), rep.Id, len(b)))
							}
						}
					}
					mu.Unlock()
				}
			}(c)
		}
		wg.Wait()
		sd := make(chan error, 1)
		go func() { sd <- srv.Shutdown() }()
		select {
		case <-sd:
		case <-time.After(infraWait):
			stat["infra_timeout"]++
		}
		for k, v := range counts {
			stat[k] += v
		}
		if len(hbad) > 0 {
			stat["session_loopback_recipe_rejected"] += len(hbad)
		}
		if len(bad) > 0 {
			Viol("C12/Exchange/session-loopback-"+network, "a sequence of exchanges on one Conn against a real "+network+" server: a reply within the advertised size was not received as the handler wrote it", bad)
		}
	}
}

func runSessions(r *Rng, tier string) {
	n, k := 110, 1
	if tier == "thorough" {
		n, k = 2500, 6
	}
	runSessionsScripted(r, n)
	runSessionsLoopback(r, 6, 8*k)
}
