(* Model/Sig0.v — sig0.go on octet strings: SIG.Sign (buffer sizing from the uncompressed length,
   in-place packing of message and SIG record, RDLENGTH and ARCOUNT patching)
   and SIG.Verify (manual section skipping by offsets, validity window, signer
   check, digest input).  Definitions only.

   Every Go slice/index expression of SIG.Verify is a [be_at] or [slice] here,
   both of which yield [Panic] exactly where Go would panic; so "Verify never
   panics" is a theorem about this function.  Hash-then-sign and
   hash-then-verify are Section variables over the digest INPUT octets. *)
From Dns Require Export Model.Wire.
Open Scope N_scope.

(* the SIG record the caller hands to Sign / unpacked from the message for Verify *)
Record sigrr := {
  s_alg : N; s_expire : N; s_incept : N; s_keytag : N;
  s_named : bool;                 (* SignerName <> "" *)
  s_signer : list label }.

Definition TypeSIG : N := 24.

(* dnssec.go AlgorithmToHash: the algorithm numbers with a hash *)
Definition has_hash (alg : N) : bool :=
  (alg =? 1) || (alg =? 3) || (alg =? 5) || (alg =? 7) || (alg =? 8) || (alg =? 10) ||
  (alg =? 13) || (alg =? 14) || (alg =? 15).

(* RDATA without the signature: type covered, algorithm, labels, original TTL
   (all zero but the algorithm), expiration, inception, key tag, signer name *)
Definition sig_rdata (r : sigrr) : bytes :=
  u16 0 ++ u8 (s_alg r) ++ u8 0 ++ u32 0 ++ u32 (s_expire r) ++ u32 (s_incept r) ++
  u16 (s_keytag r) ++ wire_name (s_signer r).
(* owner ".", type SIG, class ANY, TTL 0, RDLENGTH, RDATA *)
Definition sig_rr_hdr (rdlen : N) : bytes := [0] ++ u16 TypeSIG ++ u16 255 ++ u32 0 ++ u16 rdlen.
Definition sig_rr_wire (r : sigrr) : bytes := sig_rr_hdr (lenN (sig_rdata r)) ++ sig_rdata r.

Definition key_fields_bad (r : sigrr) : bool :=
  (s_keytag r =? 0) || negb (s_named r) || (s_alg r =? 0).

Section WithSig.
  (* hash (chosen by the SIG's algorithm) then sign with the private key:
     the signature octets, or the signer's / format conversion's error *)
  Variable sig_sign : N -> bytes -> res bytes.
  (* hash (chosen by the SIG's algorithm) then verify under the KEY (algorithm
     and public key fixed by the caller's KEY record): Ok, or the error class *)
  Variable sig_check : N -> bytes -> bytes -> res unit.   (* SIG algorithm, data, signature *)

  (* ---------- SIG.Sign ----------
     [ulen] = msgLenWithCompressionMap(m, nil), the uncompressed length
     PackBuffer sizes its buffer from; [mbuf] = what m.PackBuffer returns. *)
  Definition sig0_sign (ulen : N) (mbuf : bytes) (r : sigrr) : res bytes :=
    if key_fields_bad r then Err "key" else
    let lrr := lenN (sig_rr_wire r) in                (* Len(rr): the Signature is still empty *)
    (* buf := make(uncompressed length + 1 + Len(rr)); PackBuffer allocates a
       new buffer only when len(buf) < uncompressedLen+1 (then &buf[0] != &mbuf[0]) *)
    let buflen := ulen + 1 + lrr in
    if buflen <? ulen + 1 then Err "buf" else
    (* PackRR(rr, buf, len(mbuf), nil, false) *)
    if negb (valid_wire (s_signer r)) then Err "rdata" else
    if buflen <? lenN mbuf + lrr then Err "packrr" else
    if negb (has_hash (s_alg r)) then Err "alg" else
    do sg <- sig_sign (s_alg r) (sig_rdata r ++ mbuf);
    let out := mbuf ++ sig_rr_wire r ++ sg in
    if 65535 <? lenN out then Err "buf" else
    let rdoff := lenN mbuf + 1 + 2 + 2 + 4 in
    do rdlen <- be_at 2 out rdoff;
    do out <- put_u16 out rdoff ((rdlen + lenN sg) mod 65536);
    do adc <- be_at 2 out 10;
    put_u16 out 10 ((adc + 1) mod 65536).

  (* ---------- SIG.Verify ---------- *)
  (* for i < qdc && offset < buflen: name, then 4 octets skipped unchecked *)
  Fixpoint q_loop (n : nat) (buf : bytes) (off : N) : res N :=
    match n with
    | O => Ok off
    | S k =>
      if lenN buf <=? off then Ok off else
      do (_, o) <- unpack_name buf off;
      q_loop k buf (o + 4)
    end.
  (* for i := 1; i < anc+auc+adc && offset < buflen: name, 8 octets, then
     RDLENGTH (only if two octets remain) and that many octets, unchecked *)
  Fixpoint rr_loop (n : nat) (buf : bytes) (off : N) : res N :=
    match n with
    | O => Ok off
    | S k =>
      if lenN buf <=? off then Ok off else
      do (_, o) <- unpack_name buf off;
      let o := o + 8 in
      if lenN buf <=? o + 1 then rr_loop k buf o
      else do rdlen <- be_at 2 buf o; rr_loop k buf (o + 2 + rdlen)
    end.

  (* labels.go equal on names: ASCII case-insensitive *)
  Definition name_equal (a b : list label) : bool :=
    list_eqb bytes_eqb (map lower_bytes a) (map lower_bytes b).

  (* the octets SIG.Verify hashes, given the offsets it has computed.  The
     octet pair in the middle is ARCOUNT-1 (uint16 arithmetic), big endian:
     byte((adc-1)>>8), byte(adc-1). *)
  Definition verify_data (buf : bytes) (adc bodyend sigstart sigend : N) : res bytes :=
    do rd <- slice buf sigstart sigend;
    do h10 <- slice buf 0 10;
    do body <- slice buf 12 bodyend;
    Ok (rd ++ h10 ++ [((adc + 65535) mod 65536) / 256; ((adc + 65535) mod 65536) mod 256] ++ body).

  (* [r]: the SIG as unpacked by the caller; [kname]: owner name of the KEY;
     [now]: uint32(time.Now().Unix()) *)
  Definition sig0_verify (r : sigrr) (kname : list label) (buf : bytes) (now : N) : res unit :=
    if key_fields_bad r then Err "key" else
    if negb (has_hash (s_alg r)) then Err "alg" else
    let buflen := lenN buf in
    do qdc <- be_at 2 buf 4;
    do anc <- be_at 2 buf 6;
    do auc <- be_at 2 buf 8;
    do adc <- be_at 2 buf 10;
    do offset <- q_loop (N.to_nat qdc) buf 12;
    do offset <- rr_loop (N.to_nat ((anc + auc + adc) mod 65536 - 1)) buf offset;
    if buflen <=? offset then Err "overflow" else
    let bodyend := offset in
    do (_, offset) <- unpack_name buf offset;
    let sigstart := offset + 10 in
    let offset := sigstart + 8 in
    if buflen <=? offset + 8 then Err "overflow" else
    do expire <- be_at 4 buf offset;
    do incept <- be_at 4 buf (offset + 4);
    if (now <? incept) || (expire <? now) then Err "time" else
    do (signer, sigend) <- unpack_name buf (offset + 8 + 2);
    if negb (name_equal signer kname) then Err "signer" else
    do data <- verify_data buf adc bodyend sigstart sigend;
    do sg <- slice buf sigend buflen;
    sig_check (s_alg r) data sg.
End WithSig.
