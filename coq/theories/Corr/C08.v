(* Corr/C08.v — case runner for C08 (shares the wire-level case functions), plus
   the value-level cases of Model/OptVal.v: an EDNS0 option / SVCB parameter
   value as Go struct fields -> what pack() returns and the length Len adds. *)
From Dns Require Import Base.Bytes Corr.Wire Model.OptVal.
Open Scope N_scope.

(* list elements are written x<hex> so that an empty element differs from an empty list *)
Definition parse_xlist (s : string) : list bytes := map (fun e => unhex (tl_str e)) (split_list "," s).
Definition parse_optval (s : string) : option optval :=
  let p := split_on ":" s in
  let k := arg p 0 in
  let a i := arg p i in
  let n i := undec (arg p i) in
  let h i := unhex (arg p i) in
  if String.eqb k "LLQ" then Some (O_LLQ (n 1%nat) (n 2%nat) (n 3%nat) (n 4%nat) (n 5%nat))
  else if String.eqb k "UL" then Some (O_UL (n 1%nat) (n 2%nat))
  else if String.eqb k "NSID" then Some (O_NSID (h 1%nat))
  else if String.eqb k "ESU" then Some (O_ESU (h 1%nat))
  else if String.eqb k "DAU" then Some (O_DAU (h 1%nat))
  else if String.eqb k "DHU" then Some (O_DHU (h 1%nat))
  else if String.eqb k "N3U" then Some (O_N3U (h 1%nat))
  else if String.eqb k "SUBNET" then Some (O_SUBNET (n 1%nat) (n 2%nat) (n 3%nat) (h 4%nat))
  else if String.eqb k "EXPIRE" then Some (O_EXPIRE (n 1%nat) (String.eqb (a 2%nat) "1"))
  else if String.eqb k "COOKIE" then Some (O_COOKIE (h 1%nat))
  else if String.eqb k "KEEPALIVE" then Some (O_KEEPALIVE (n 1%nat))
  else if String.eqb k "PADDING" then Some (O_PADDING (h 1%nat))
  else if String.eqb k "EDE" then Some (O_EDE (n 1%nat) (h 2%nat))
  else if String.eqb k "REPORTING" then Some (O_REPORTING (h 1%nat))
  else if String.eqb k "ZONEVERSION" then Some (O_ZONEVERSION (n 1%nat) (n 2%nat) (h 3%nat))
  else if String.eqb k "LOCAL" then Some (O_LOCAL (n 1%nat) (h 2%nat))
  else None.
Definition parse_svcbval (s : string) : option svcbval :=
  let p := split_on ":" s in
  let k := arg p 0 in
  let a i := arg p i in
  let n i := undec (arg p i) in
  let h i := unhex (arg p i) in
  if String.eqb k "MANDATORY" then Some (S_MANDATORY (map undec (split_list "," (a 1%nat))))
  else if String.eqb k "ALPN" then Some (S_ALPN (parse_xlist (a 1%nat)))
  else if String.eqb k "NODEFAULTALPN" then Some S_NODEFAULTALPN
  else if String.eqb k "PORT" then Some (S_PORT (n 1%nat))
  else if String.eqb k "IPV4HINT" then Some (S_IPV4HINT (parse_xlist (a 1%nat)))
  else if String.eqb k "ECH" then Some (S_ECH (h 1%nat))
  else if String.eqb k "IPV6HINT" then Some (S_IPV6HINT (parse_xlist (a 1%nat)))
  else if String.eqb k "DOHPATH" then Some (S_DOHPATH (h 1%nat))
  else if String.eqb k "OHTTP" then Some S_OHTTP
  else if String.eqb k "SLOCAL" then Some (S_LOCAL (n 1%nat) (h 2%nat))
  else None.

Definition c_optval (s : string) : string :=
  match parse_optval s with
  | Some v => (show_res hex (opt_pack v) +++ ";" +++ dec (opt_len v))%string
  | None => "bad-optval"%string
  end.
Definition c_svcbval (s : string) : string :=
  match parse_svcbval s with
  | Some v => (show_res hex (svcb_pack v) +++ ";" +++ dec (svcb_len v))%string
  | None => "bad-svcbval"%string
  end.

Definition run (fn : string) (args : list string) : string :=
  if String.eqb fn "optval" then c_optval (arg args 0)
  else if String.eqb fn "svcbval" then c_svcbval (arg args 0)
  else match run_wire fn args with Some s => s | None => "unknown-fn"%string end.
