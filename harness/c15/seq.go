package main

// C15, histories: sequences of transfers made by one process while the TSIG
// configuration changes from one transfer to the next - the secret of a key
// name is replaced (key roll-over), another key name is used, TSIG is switched
// off and on again, another algorithm is used - incoming (Transfer.In on a
// scripted connection) and outgoing (Transfer.Out inside a dns.Server that
// listens on an in-memory listener, the peer being this harness with its own
// RFC 8945 signer and verifier, or Transfer.In).
//
// Oracle (property text: "When TSIG is configured every envelope is verified
// against the running MAC chain, so an ... unsigned or wrongly keyed envelope
// yields an error, and no transfer is reported complete and error-free unless
// every envelope verified"): every transfer is authenticated with the secret
// that is configured for it, whatever earlier transfers were configured with.
// A sender holding the secret configured now is delivered exactly; a sender
// holding any other secret - in particular the one that was configured under
// the same name before - gets an error at its first envelope; the query that
// Transfer.In writes and the envelopes that Transfer.Out writes carry MACs
// computed with the secret configured now.

import (
	"crypto/hmac"
	"encoding/binary"
	"encoding/hex"
	"fmt"
	"io"
	"net"
	"os"
	"strings"
	"sync"
	"time"

	"github.com/miekg/dns"
	. "verif/harness/common"
)

const (
	secret3 = "dGhpcmQtc2VjcmV0LW9mLXRoZS1oYXJuZXNzLTMzMzM="
	secret4 = "Zm91cnRoLCBhIGxvbmdlciBzZWNyZXQgdGhhbiB0aGUgb3RoZXJzLCA2NCBvY3RldHMgbG9uZyAuLi4uLi4uLi4uLi4="

	kQuery = "C15/query-not-signed-with-configured-secret"
	kSeq   = "C15/tsig-configuration-of-an-earlier-transfer-used"
)

var secretPool = []string{secret, secret2, secret3, secret4}

func secretName(s string) string {
	switch s {
	case "":
		return "-"
	case secret:
		return "A"
	case secret2:
		return "B"
	case secret3:
		return "C"
	case secret4:
		return "D"
	}
	return "?"
}

// ---------------------------------------------------------------- wire helpers
// skipAnyName: end of a possibly compressed name
func skipAnyName(b []byte, off int) (int, bool) {
	for {
		if off >= len(b) {
			return 0, false
		}
		l := int(b[off])
		switch {
		case l == 0:
			return off + 1, true
		case l&0xc0 == 0xc0:
			if off+2 > len(b) {
				return 0, false
			}
			return off + 2, true
		case l > 63:
			return 0, false
		}
		off += 1 + l
	}
}

// lastRR: offset and type of the last record of a packed message (ok = false
// when it has no record or is malformed)
func lastRR(b []byte) (off int, typ uint16, ok bool) {
	if len(b) < 12 {
		return 0, 0, false
	}
	p := 12
	for i := int(binary.BigEndian.Uint16(b[4:])); i > 0; i-- {
		e, ok := skipAnyName(b, p)
		if !ok || e+4 > len(b) {
			return 0, 0, false
		}
		p = e + 4
	}
	n := int(binary.BigEndian.Uint16(b[6:])) + int(binary.BigEndian.Uint16(b[8:])) + int(binary.BigEndian.Uint16(b[10:]))
	if n == 0 {
		return 0, 0, false
	}
	for i := 0; i < n; i++ {
		e, ok := skipAnyName(b, p)
		if !ok || e+10 > len(b) {
			return 0, 0, false
		}
		off, typ = p, binary.BigEndian.Uint16(b[e:])
		p = e + 10 + int(binary.BigEndian.Uint16(b[e+8:]))
		if p > len(b) {
			return 0, 0, false
		}
	}
	return off, typ, p == len(b)
}

// tsigOf: the TSIG record that ends the message and the message without it
// (ARCOUNT - 1), as the digest of RFC 8945 4.3 wants it
func tsigOf(b []byte) (p tsigParts, stripped []byte, ok bool) {
	if binary.BigEndian.Uint16(b[10:]) == 0 {
		return p, nil, false
	}
	off, typ, ok := lastRR(b)
	if !ok || typ != dns.TypeTSIG {
		return p, nil, false
	}
	p, ok = parseTsig(b, off)
	if !ok {
		return p, nil, false
	}
	stripped = clone(b[:off])
	addCount(stripped, 10, -1)
	return p, stripped, true
}

func algOfWire(w []byte) (algDesc, bool) {
	for _, a := range algTable {
		if string(lowerWire(w)) == string(nameWire(a.name)) {
			return a, true
		}
	}
	return algDesc{}, false
}

// refVerify: does the MAC of the TSIG record p verify with this secret over
// (prior MAC, message, variables or timers)?  Independent of tsig.go.
func refVerify(stripped []byte, p tsigParts, secretB64 string, prev []byte, timers bool) bool {
	a, ok := algOfWire(p.alg)
	if !ok {
		return false
	}
	h := hmac.New(a.h, rawSecret(secretB64))
	h.Write(refDigest(stripped, p, prev, timers))
	return hmac.Equal(h.Sum(nil), p.mac)
}

// ---------------------------------------------------------------- the query of Transfer.In
// checkQuery: whenever a secret is configured the query carries a TSIG record
// under the configured key name whose MAC (request form: no prior MAC, all
// variables) is computed with the secret configured for THIS transfer.
func checkQuery(c xcase, o obs, in map[string]any) {
	if !c.Tsig || !c.QSigned || len(o.query) < 14 {
		return
	}
	if c.Reused {
		return // see seqIn: a Transfer value that made a transfer before keeps its timers-only flag
	}
	n := int(binary.BigEndian.Uint16(o.query))
	if 2+n > len(o.query) {
		return
	}
	q := o.query[2 : 2+n]
	st["queries_checked"]++
	p, stripped, ok := tsigOf(q)
	if !ok {
		Viol(kQuery, "a secret is configured and the query asks for TSIG, but what Transfer.In wrote does not end in a TSIG record", in)
		return
	}
	if string(lowerWire(p.name)) != string(lowerWire(nameWire(c.kname()))) {
		Viol(kQuery, "the TSIG record of the query has another key name than the query asked for", in)
		return
	}
	if !refVerify(stripped, p, c.rsecret(), nil, false) {
		why := "the MAC of the query written by Transfer.In is not the HMAC of the query under the secret configured in Transfer.TsigSecret for its key name"
		if c.kname() != strings.ToLower(c.kname()) || c.algName() != strings.ToLower(c.algName()) {
			why += fmt.Sprintf(" (RFC 8945 4.3.3 digest, in which key name and algorithm name stand in canonical form - lower case, uncompressed - however they are spelled; the caller spelled them %q and %q)", c.kname(), c.algName())
		}
		for _, s := range secretPool {
			if s != c.rsecret() && refVerify(stripped, p, s, nil, false) {
				why += " (it is the HMAC under secret " + secretName(s) + ", which is not configured for this transfer)"
			}
		}
		Viol(kQuery, why, in)
	}
}

// ---------------------------------------------------------------- incoming sequences
type inStep struct {
	name string // key name ("" = default)
	recv string // secret the receiver is configured with ("" = TSIG off)
	send string // secret the sender signs with ("" = unsigned envelopes)
	// from: the sender holds recv for the envelopes before this one and send from it on (0 = from the start)
	from int
	more map[string]string // other key names the receiver holds
	alg  string
}

func (s inStep) String() string {
	n := s.name
	if n == "" {
		n = keyName
	}
	x := fmt.Sprintf("%s:recv=%s,send=%s", n, secretName(s.recv), secretName(s.send))
	if s.from > 0 {
		x += fmt.Sprintf("@%d", s.from)
	}
	if s.alg != "" {
		x += "," + strings.TrimSuffix(s.alg, ".")
	}
	return x
}

type sstream struct {
	kind   string
	stream []rrd
}

var seqStreams = []sstream{
	{"axfr", axfrStream(5, 2)},
	{"ixfr", ixfrStream(5, []diffd{{3, 5, 1, 1}})},
	{"ixfr", axfrStream(7, 1)},
	{"axfr", axfrStream(9, 0)},
}

// stepCase: the xcase of one step and what the property demands of it
func stepCase(r *Rng, s inStep, fam, hist string, reused bool) (xcase, *expect) {
	fs := seqStreams[r.Intn(len(seqStreams))]
	var envs [][]rrd
	if r.Intn(3) == 0 {
		envs = [][]rrd{fs.stream} // everything in one envelope
	} else {
		envs = randomComposition(r, fs.stream)
	}
	c := base(fs.kind, s.recv != "", fam, r)
	c.KeyName, c.RecvSecret, c.RecvKeys, c.Alg, c.Step, c.Reused = s.name, s.recv, s.more, s.alg, hist, reused
	c.Reads = goodReads(c, envs, s.send != "")
	n := len(envs)
	ex := &expect{deliver: n, then: "done", key: kSeq, why: "transfer " + hist}
	from := s.from
	if from >= n {
		from = n - 1
	}
	switch {
	case s.recv == "":
		// no secret configured: nothing is verified, whatever the sender does
		if s.send != "" {
			c.SendSecret = s.send
			for i := range c.Reads {
				c.Reads[i].Sig.Key = 1
			}
		}
		ex.why += ": no secret is configured now, the stream is a complete one"
	case s.send == "":
		ex = &expect{deliver: 0, then: "error", key: kSeq, why: "transfer " + hist + ": a secret is configured and the envelopes are unsigned"}
	case s.send == s.recv:
		ex.why += ": the sender signs with the secret configured now"
	default:
		c.SendSecret = s.send
		for i := from; i < n; i++ {
			c.Reads[i].Sig.Key = 1
		}
		ex = &expect{deliver: from, then: "error", key: kSeq, why: fmt.Sprintf("transfer %s: from envelope %d on the sender signs with secret %s, the receiver is configured with %s", hist, from, secretName(s.send), secretName(s.recv))}
	}
	return c, ex
}

var seqNo int

func freshName() string {
	seqNo++
	return fmt.Sprintf("k%d.seq.", seqNo)
}

// runInSeq: the steps one after the other; oneValue = all of them with the same Transfer value
func runInSeq(r *Rng, fam string, steps []inStep, oneValue bool, emitEvery int) {
	st["sequences_"+fam]++
	t := new(dns.Transfer)
	dirty := false // the Transfer value has received an envelope in an earlier transfer
	var hist []string
	for i, s := range steps {
		hist = append(hist, s.String())
		h := fmt.Sprintf("%d of [%s]", i+1, strings.Join(hist, " ; "))
		if oneValue {
			h += " (one Transfer value)"
		}
		c, ex := stepCase(r, s, fam, h, oneValue && dirty)
		if !oneValue {
			t = new(dns.Transfer)
		}
		if c.Reused && c.Tsig {
			// Transfer.tsigTimersOnly is set by the first transfer and never cleared: a Transfer value
			// used again signs its query in the timers-only form.  The property speaks of a transfer,
			// not of what a Transfer value is good for afterwards: no verdict, counted.
			ex = nil
		}
		o := runScriptedOn(t, c)
		check(c, o, ex)
		if c.Reused && c.Tsig {
			if len(o.errs) > 0 && o.errs[0] != "-" {
				st["deviation_reused_transfer_value_with_tsig_fails"]++
			} else {
				st["reused_transfer_value_with_tsig_ok"]++
			}
		} else if emitEvery > 0 && caseNo%emitEvery == 0 {
			emit(c, o)
		}
		st["family_"+fam]++
		for _, e := range o.errs {
			if e == "-" {
				dirty = true
			}
		}
	}
}

func seqIn(r *Rng, thorough bool) {
	A, B := secret, secret2
	conf := []string{A, B, ""}
	// (a) every pair of configurations (receiver A / B / off, sender A / B / unsigned) under one
	// new key name, new Transfer values and one Transfer value
	for _, one := range []bool{false, true} {
		for _, r1 := range conf {
			for _, s1 := range conf {
				for _, r2 := range conf {
					for _, s2 := range conf {
						if one && !thorough && (r1 == "") == (r2 == "") && r1 != "" && s1 != "" && s2 != "" && r.Intn(2) == 0 {
							continue
						}
						n := freshName()
						fam := "seq-in-pairs"
						if one {
							fam = "seq-in-pairs-one-value"
						}
						runInSeq(r, fam, []inStep{{name: n, recv: r1, send: s1}, {name: n, recv: r2, send: s2}}, one, 3)
					}
				}
			}
		}
	}
	// (b) every triple with TSIG on: the secret changes, changes back, stays
	for _, r1 := range conf[:2] {
		for _, s1 := range conf[:2] {
			for _, r2 := range conf[:2] {
				for _, s2 := range conf[:2] {
					for _, r3 := range conf[:2] {
						for _, s3 := range conf[:2] {
							n := freshName()
							runInSeq(r, "seq-in-triples", []inStep{{name: n, recv: r1, send: s1}, {name: n, recv: r2, send: s2}, {name: n, recv: r3, send: s3}}, false, 4)
						}
					}
				}
			}
		}
	}
	// (c) the key name every other family of this run has used with secret A, now rolled over;
	// the sender switches to the old secret at every envelope position
	for _, s := range []string{B, secret3} {
		for from := 0; from < 4; from++ {
			runInSeq(r, "seq-in-default-name", []inStep{
				{recv: s, send: s}, {recv: s, send: A, from: from}, {recv: A, send: s, from: from}, {recv: A, send: A}, {recv: s, send: s}}, false, 2)
		}
	}
	// (d) longer histories: three names (two new ones and a third the receiver only holds), four
	// secrets, the five algorithms, the sender one step behind or ahead of the receiver
	nseq := 60
	if thorough {
		nseq = 1500
	}
	for q := 0; q < nseq; q++ {
		names := []string{freshName(), freshName(), freshName()}
		cur := map[string]string{} // what the receiver holds now
		old := map[string]string{} // what it held before the last change
		var steps []inStep
		for i := 3 + r.Intn(6); i > 0; i-- {
			n := names[r.Intn(2)]
			s := inStep{name: n}
			if q%3 == 0 {
				s.alg = algTable[r.Intn(len(algTable))].name
			}
			switch r.Intn(8) {
			case 0: // TSIG off for this transfer
				s.recv = ""
			case 1, 2, 3: // roll the key over
				nw := secretPool[r.Intn(len(secretPool))]
				if cur[n] != "" && cur[n] != nw {
					old[n] = cur[n]
				}
				cur[n], s.recv = nw, nw
			default:
				if cur[n] == "" {
					cur[n] = secretPool[r.Intn(len(secretPool))]
				}
				s.recv = cur[n]
			}
			switch r.Intn(6) {
			case 0:
				s.send = ""
			case 1, 2: // the peer still has the previous secret (or some other)
				s.send = old[n]
				if s.send == "" {
					s.send = secretPool[r.Intn(len(secretPool))]
				}
				s.from = r.Intn(3)
			default:
				s.send = s.recv
				if s.send == "" {
					s.send = secretPool[r.Intn(len(secretPool))]
				}
			}
			// the receiver also holds the other names, with the secrets they have now (or any)
			s.more = map[string]string{}
			for _, o := range names {
				if o != n {
					if v := cur[o]; v != "" {
						s.more[o] = v
					} else if r.Intn(2) == 0 {
						s.more[o] = secretPool[r.Intn(len(secretPool))]
					}
				}
			}
			steps = append(steps, s)
		}
		runInSeq(r, "seq-in-history", steps, q%5 == 4, 3)
	}
}

// ---------------------------------------------------------------- outgoing sequences
// pipeListener: a net.Listener whose connections are net.Pipe ends handed over
// by the harness - nothing depends on sockets or timing.
type pipeListener struct {
	conns  chan net.Conn
	closed chan struct{}
	once   sync.Once
}

func newPipeListener() *pipeListener {
	return &pipeListener{conns: make(chan net.Conn), closed: make(chan struct{})}
}
func (l *pipeListener) Accept() (net.Conn, error) {
	select {
	case c := <-l.conns:
		return c, nil
	case <-l.closed:
		return nil, net.ErrClosed
	}
}
func (l *pipeListener) Close() error   { l.once.Do(func() { close(l.closed) }); return nil }
func (l *pipeListener) Addr() net.Addr { return &net.TCPAddr{IP: net.IPv4(127, 0, 0, 1), Port: 53} }

// dial: a connection to the server behind l ("" error = ok)
func (l *pipeListener) dial() (net.Conn, string) {
	a, b := net.Pipe()
	select {
	case l.conns <- b:
		return a, ""
	case <-time.After(20 * time.Second):
		a.Close()
		b.Close()
		return nil, "the server does not accept"
	}
}

// primary: a dns.Server whose handler sends the envelopes it is given with
// Transfer.Out; the TSIG status the handler saw is reported on status
type primary struct {
	l      *pipeListener
	srv    *dns.Server
	done   chan error
	mu     sync.Mutex
	envs   [][]rrd
	status chan string
}

func startPrimary(keys map[string]string) (*primary, string) {
	p := &primary{l: newPipeListener(), done: make(chan error, 1), status: make(chan string, 16)}
	started := make(chan struct{})
	mux := dns.NewServeMux()
	mux.HandleFunc(zone, func(w dns.ResponseWriter, req *dns.Msg) {
		p.mu.Lock()
		envs := p.envs
		p.mu.Unlock()
		p.status <- errClass(w.TsigStatus())
		ch := make(chan *dns.Envelope)
		go func() {
			for _, e := range envs {
				var rrs []dns.RR
				for _, x := range e {
					rrs = append(rrs, x.RR())
				}
				ch <- &dns.Envelope{RR: rrs}
			}
			close(ch)
		}()
		new(dns.Transfer).Out(w, req, ch)
		w.Close()
	})
	p.srv = &dns.Server{Listener: p.l, Handler: mux, NotifyStartedFunc: func() { close(started) }, TsigSecret: keys,
		ReadTimeout: 30 * time.Second}
	go func() { p.done <- p.srv.ActivateAndServe() }()
	select {
	case <-started:
	case <-time.After(20 * time.Second):
		p.l.Close()
		return nil, "server did not start"
	}
	return p, ""
}
func (p *primary) stop() {
	p.srv.Shutdown()
	select {
	case <-p.done:
	case <-time.After(20 * time.Second):
	}
}

type outStep struct {
	name string
	srv  string // secret of the primary for the name ("" = the primary has no TSIG configuration)
	cli  string // secret of the peer ("" = unsigned query)
	more map[string]string
	alg  string
	lib  bool // the peer is Transfer.In instead of the harness's own client
	// algSpell: the algorithm name as the peer spells it in its request ("" = the lower
	// case constant); name is the key name as both sides spell it (names.go)
	algSpell string
}

func (s outStep) String() string {
	x := fmt.Sprintf("%s:primary=%s,peer=%s", s.name, secretName(s.srv), secretName(s.cli))
	if s.lib {
		x += ",Transfer.In"
	}
	if s.alg != "" {
		x += "," + strings.TrimSuffix(s.alg, ".")
	}
	if s.algSpell != "" {
		x += ",spelled " + s.algSpell
	}
	return x
}
func (s outStep) keys() map[string]string {
	if s.srv == "" {
		return nil
	}
	m := map[string]string{s.name: s.srv}
	for k, v := range s.more {
		m[k] = v
	}
	return m
}

type outEnv struct {
	Records  string `json:"records"`
	Tsig     bool   `json:"tsig_record"`
	Verifies bool   `json:"verifies_with_peer_secret"`
	Other    string `json:"verifies_with_other_secret,omitempty"`
	KeyName  bool   `json:"key_name_ok"`
	TimeOK   bool   `json:"time_within_fudge"`
}

func readFrame(c net.Conn) ([]byte, error) {
	var l [2]byte
	if _, err := io.ReadFull(c, l[:]); err != nil {
		return nil, err
	}
	b := make([]byte, int(l[0])<<8|int(l[1]))
	if _, err := io.ReadFull(c, b); err != nil {
		return nil, io.ErrUnexpectedEOF
	}
	return b, nil
}

// rawPeer: the secondary is this harness - query signed by refSign, every
// envelope verified by refVerify against the running MAC chain
func rawPeer(conn net.Conn, c xcase, s outStep) (envs []outEnv, infra string) {
	defer conn.Close()
	conn.SetDeadline(time.Now().Add(30 * time.Second))
	q := mkQuery(c)
	q.Extra = nil
	packed, err := q.Pack()
	if err != nil {
		panic(err)
	}
	var prev []byte
	if s.cli != "" {
		var mac string
		packed, mac = refSign(packed, s.name, c.algName(), s.cli, uint64(time.Now().Unix()), 300, "", false)
		prev, _ = hex.DecodeString(mac)
	}
	frame := append([]byte{byte(len(packed) >> 8), byte(len(packed))}, packed...)
	if _, err := conn.Write(frame); err != nil {
		return nil, "write: " + err.Error()
	}
	t := c.table()
	for i := 0; ; i++ {
		b, err := readFrame(conn)
		if err == io.EOF {
			return envs, ""
		}
		if err != nil {
			return envs, "read: " + err.Error()
		}
		m := new(dns.Msg)
		e := outEnv{Records: "unpack-error"}
		if m.Unpack(b) == nil {
			e.Records = t.showRRs(m.Answer)
			if m.Id != c.Qid {
				e.Records += ":id"
			}
			if m.Rcode != 0 {
				e.Records += ":rcode"
			}
		}
		if p, stripped, ok := tsigOf(b); ok {
			e.Tsig = true
			e.KeyName = string(lowerWire(p.name)) == string(lowerWire(nameWire(s.name)))
			now := uint64(time.Now().Unix())
			e.TimeOK = p.time+uint64(p.fudge) >= now && now+uint64(p.fudge) >= p.time
			if s.cli != "" {
				e.Verifies = refVerify(stripped, p, s.cli, prev, i > 0)
			}
			for _, o := range secretPool {
				if o != s.cli && refVerify(stripped, p, o, prev, i > 0) {
					e.Other = secretName(o)
				}
			}
			prev = p.mac
		}
		envs = append(envs, e)
	}
}

var outNo int

func outCase(r *Rng, s outStep, fam, hist string) (xcase, [][]rrd) {
	fs := seqStreams[r.Intn(len(seqStreams))]
	envs := randomComposition(r, fs.stream)
	c := base(fs.kind, s.cli != "", fam, r)
	c.Chunk, c.Stall = 0, false
	c.KeyName, c.RecvSecret, c.Alg, c.Step, c.AlgSpell = s.name, s.cli, s.alg, hist, s.algSpell
	c.Reads = goodReads(c, envs, s.cli != "" && s.cli == s.srv)
	return c, envs
}

// runOutSeq: the steps one after the other; restart = a new dns.Server for
// every step (otherwise one server whose TsigSecret field is replaced between
// two connections, while no connection is open)
func runOutSeq(r *Rng, fam string, steps []outStep, restart bool) {
	st["sequences_"+fam]++
	kOut := kSeq + "/out"
	if strings.HasPrefix(fam, "names-") {
		kOut = "C15/tsig-names-in-mixed-case/out"
	}
	var p *primary
	defer func() {
		if p != nil {
			p.stop()
		}
	}()
	var hist []string
	for i, s := range steps {
		hist = append(hist, s.String())
		h := fmt.Sprintf("%d of [%s]", i+1, strings.Join(hist, " ; "))
		if !restart {
			h += " (one dns.Server, TsigSecret replaced between connections)"
		}
		c, envs := outCase(r, s, fam, h)
		infraFail := func(what string) {
			st["out_infra_failures"]++
			fmt.Fprintln(os.Stderr, "seq-out infrastructure failure:", what)
		}
		if p != nil && restart {
			p.stop()
			p = nil
		}
		if p == nil {
			var bad string
			if p, bad = startPrimary(s.keys()); bad != "" {
				infraFail(bad)
				return
			}
		} else {
			p.srv.TsigSecret = s.keys() // no connection is open; the next one is handed over after this
		}
		p.mu.Lock()
		p.envs = envs
		p.mu.Unlock()
		for len(p.status) > 0 { // nothing is left over from a step that ended in an infrastructure failure
			<-p.status
		}
		conn, bad := p.l.dial()
		if bad != "" {
			infraFail(bad)
			return
		}
		st["transfers_checked"]++
		st["family_"+fam]++
		in := map[string]any{"case": c, "via": "Transfer.Out in a dns.Server on an in-memory listener"}
		status := func() string {
			select {
			case x := <-p.status:
				return x
			case <-time.After(20 * time.Second):
				return "?"
			}
		}
		srvHas := s.srv != ""
		if s.lib {
			// secondary = Transfer.In with the peer's secret
			t := &dns.Transfer{Conn: &dns.Conn{Conn: conn}, ReadTimeout: 30 * time.Second}
			if s.cli != "" {
				t.TsigSecret = map[string]string{s.name: s.cli}
			}
			ch, err := t.In(mkQuery(c), "pipe")
			if err != nil {
				infraFail("Transfer.In: " + err.Error())
				conn.Close()
				continue
			}
			o := collect(c, ch, func() int { return 1 })
			status()
			in["observed"] = o.items
			if o.infra != "" {
				infraFail(o.infra)
				continue
			}
			good := len(o.items) == len(envs)
			for k := 0; good && k < len(envs); k++ {
				good = o.items[k] == showRrds(envs[k])+":-"
			}
			// complete exactly when the secondary verifies nothing, or both sides hold the same secret
			want := s.cli == "" || s.cli == s.srv
			switch {
			case want && !good:
				Viol(kOut, "transfer "+h+": primary and secondary are configured alike (or the secondary verifies nothing) and the zone is not delivered exactly", in)
			case !want && (len(o.errs) == 0 || o.errs[len(o.errs)-1] == "-"):
				Viol(kOut, "transfer "+h+": the secondary holds a secret the primary is not configured with and the transfer is reported complete and error-free", in)
			case !want && len(o.items) != 1:
				Viol(kOut, "transfer "+h+": envelopes were delivered although primary and secondary hold different secrets", in)
			}
			continue
		}
		got, bad := rawPeer(conn, c, s)
		stat := status()
		in["tsig_status_seen_by_the_handler"] = stat
		in["envelopes"] = got
		if bad != "" {
			infraFail(bad)
			continue
		}
		// content: Transfer.Out writes one message per envelope, whatever the keys
		okc := len(got) == len(envs)
		for k := 0; okc && k < len(envs); k++ {
			okc = got[k].Records == showRrds(envs[k])
		}
		if !okc {
			Viol("C15/out/exact", "transfer "+h+": Transfer.Out did not write exactly the envelopes it was given", in)
			continue
		}
		switch {
		case srvHas && s.cli != "" && s.cli == s.srv:
			// the peer holds the secret configured now: request accepted, every envelope verifies in the chain
			if stat != "-" {
				Viol(kOut, "transfer "+h+": the request is signed with the secret the primary is configured with and TsigStatus is "+stat, in)
			}
			for k, e := range got {
				if !e.Tsig || !e.Verifies || !e.KeyName || !e.TimeOK {
					Viol(kOut, fmt.Sprintf("transfer %s: envelope %d written by Transfer.Out does not verify (running MAC chain, RFC 8945) with the secret the primary is configured with", h, k), in)
					break
				}
			}
		case srvHas && s.cli != "":
			// the peer holds another secret (the old one, or one the primary never had)
			if stat == "-" {
				Viol(kOut, "transfer "+h+": the request is signed with a secret the primary is not configured with and TsigStatus is nil", in)
			}
			for k, e := range got {
				if e.Verifies {
					Viol(kOut, fmt.Sprintf("transfer %s: envelope %d written by Transfer.Out verifies with secret %s, which the primary is not configured with", h, k, secretName(s.cli)), in)
					break
				}
			}
		}
		// whatever the peer holds: an envelope never carries a MAC made with a secret that is not configured now
		for k, e := range got {
			if e.Other != "" && (!srvHas || secretName(s.srv) != e.Other) {
				Viol(kOut, fmt.Sprintf("transfer %s: envelope %d written by Transfer.Out carries a MAC made with secret %s, the primary is configured with %s", h, k, e.Other, secretName(s.srv)), in)
				break
			}
		}
	}
}

func seqOut(r *Rng, thorough bool) {
	A, B := secret, secret2
	conf := []string{A, B, ""}
	k := 0
	for _, s1 := range conf {
		for _, c1 := range conf {
			for _, s2 := range conf {
				for _, c2 := range conf {
					k++
					if !thorough && s1 == "" && s2 == "" {
						continue
					}
					n := freshName()
					steps := []outStep{{name: n, srv: s1, cli: c1}, {name: n, srv: s2, cli: c2}}
					runOutSeq(r, "seq-out-pairs", steps, true)
					if thorough || k%2 == 0 {
						n = freshName()
						steps = []outStep{{name: n, srv: s1, cli: c1, lib: true}, {name: n, srv: s2, cli: c2, lib: true}}
						runOutSeq(r, "seq-out-pairs-transfer-in", steps, true)
					}
					if thorough || k%2 == 1 {
						n = freshName()
						steps = []outStep{{name: n, srv: s1, cli: c1}, {name: n, srv: s2, cli: c2}}
						runOutSeq(r, "seq-out-pairs-one-server", steps, false)
					}
				}
			}
		}
	}
	// the key name of the loopback family
	for _, s := range []string{B, secret3} {
		runOutSeq(r, "seq-out-default-name", []outStep{{name: keyName, srv: s, cli: s}, {name: keyName, srv: s, cli: A}, {name: keyName, srv: A, cli: s},
			{name: keyName, srv: A, cli: A}, {name: keyName, srv: s, cli: s, lib: true}, {name: keyName, srv: A, cli: s, lib: true}}, true)
	}
	nseq := 24
	if thorough {
		nseq = 400
	}
	for q := 0; q < nseq; q++ {
		names := []string{freshName(), freshName()}
		cur, old := map[string]string{}, map[string]string{}
		var steps []outStep
		for i := 3 + r.Intn(5); i > 0; i-- {
			n := names[r.Intn(2)]
			s := outStep{name: n, lib: r.Intn(3) == 0}
			if q%3 == 0 {
				s.alg = algTable[r.Intn(len(algTable))].name
			}
			switch r.Intn(8) {
			case 0:
				s.srv = ""
			case 1, 2, 3:
				nw := secretPool[r.Intn(len(secretPool))]
				if cur[n] != "" && cur[n] != nw {
					old[n] = cur[n]
				}
				cur[n], s.srv = nw, nw
			default:
				if cur[n] == "" {
					cur[n] = secretPool[r.Intn(len(secretPool))]
				}
				s.srv = cur[n]
			}
			switch r.Intn(6) {
			case 0:
				s.cli = ""
			case 1, 2:
				if s.cli = old[n]; s.cli == "" {
					s.cli = secretPool[r.Intn(len(secretPool))]
				}
			default:
				if s.cli = s.srv; s.cli == "" {
					s.cli = secretPool[r.Intn(len(secretPool))]
				}
			}
			s.more = map[string]string{}
			for _, o := range names {
				if o != n && cur[o] != "" {
					s.more[o] = cur[o]
				}
			}
			steps = append(steps, s)
		}
		runOutSeq(r, "seq-out-history", steps, q%4 != 3)
	}
}
