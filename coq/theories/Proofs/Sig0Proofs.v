(* Proofs/Sig0Proofs.v — lemmas about Model/Sig0.v *)
From Coq Require Import Lia ZifyN ZifyNat ZifyBool.
From Dns Require Import Base.ListX Model.Sig0 Proofs.WireProofs.
Open Scope N_scope.

Lemma key_fields_bad_err sc r kname buf now :
  key_fields_bad r = true -> sig0_verify sc r kname buf now = Err "key".
Proof. unfold sig0_verify. now intros ->. Qed.
