(* Proofs/PresentCodeProofs.v — decimal numbers, type and class code points
   (C05, layer 2): strconv.Itoa / ParseUint round trip for every number,
   Type.String / Class.String and TYPEnnn / CLASSnnn are read back as the same
   code by the lexer for every one of the 65536 code points (with the three
   exceptions that the faithful model refutes). *)
From Dns Require Import Base.ListX Model.Present Proofs.EscapeProofs.
From Coq Require Import Lia ZifyN ZifyNat ZifyBool.
Ltac Zify.zify_post_hook ::= Z.div_mod_to_equations.
Open Scope N_scope.

Arguments N.add : simpl never.
Arguments N.mul : simpl never.
Arguments N.sub : simpl never.
Arguments N.div : simpl never.
Arguments N.modulo : simpl never.
Arguments N.eqb : simpl never.
Arguments N.leb : simpl never.
Arguments N.ltb : simpl never.
Arguments N.pow : simpl never.

(* ------------------------------------------------------------------ *)
(* decimal                                                             *)
(* ------------------------------------------------------------------ *)

Lemma digit_char n : N_of_ascii (ascii_of_N (48 + n mod 10)) = 48 + n mod 10.
Proof. apply N_ascii_embedding. lia. Qed.

Lemma dec_aux_val fuel : forall n acc, (1 <= fuel)%nat -> n < 2 ^ N.of_nat fuel ->
  digits_val (bytes_of_string (dec_aux fuel n acc)) 0 = digits_val (bytes_of_string acc) n.
Proof.
  induction fuel as [|f IH]; intros n acc Hf Hn; [lia|].
  cbn [dec_aux]. destruct (n <? 10) eqn:H10.
  - cbn [bytes_of_string digits_val]. rewrite digit_char. f_equal. lia.
  - assert (Hf1 : (1 <= f)%nat).
    { destruct f; [|lia]. cbn in Hn. lia. }
    rewrite IH; [|exact Hf1|].
    + cbn [bytes_of_string digits_val]. rewrite digit_char. f_equal. lia.
    + rewrite Nat2N.inj_succ, N.pow_succ_r' in Hn. lia.
Qed.

Lemma dec_aux_digits fuel : forall n acc,
  forallb is_digit (bytes_of_string (dec_aux fuel n acc)) = forallb is_digit (bytes_of_string acc).
Proof.
  induction fuel as [|f IH]; intros n acc; [reflexivity|].
  cbn [dec_aux].
  assert (Hd : is_digit (N_of_ascii (ascii_of_N (48 + n mod 10))) = true).
  { rewrite digit_char. unfold is_digit. lia. }
  destruct (n <? 10).
  - cbn [bytes_of_string forallb]. now rewrite Hd.
  - rewrite IH. cbn [bytes_of_string forallb]. now rewrite Hd.
Qed.

Lemma dec_aux_len fuel : forall n acc,
  (length (bytes_of_string acc) + (if Nat.eqb fuel 0 then 0 else 1) <= length (bytes_of_string (dec_aux fuel n acc)))%nat.
Proof.
  induction fuel as [|f IH]; intros n acc; [cbn; lia|].
  cbn [dec_aux Nat.eqb]. destruct (n <? 10).
  - cbn [bytes_of_string length]. lia.
  - specialize (IH (n / 10) (String (ascii_of_N (48 + n mod 10)) acc)).
    cbn [bytes_of_string length] in IH. destruct (Nat.eqb f 0); lia.
Qed.

Lemma log2_fuel n : n < 2 ^ N.of_nat (S (N.to_nat (N.log2 n))).
Proof.
  rewrite Nat2N.inj_succ, N2Nat.id.
  destruct (N.eq_dec n 0) as [->|Hn]; [cbn; lia|].
  apply N.log2_spec. lia.
Qed.

Lemma dec_bytes_val n : digits_val (dec_bytes n) 0 = n.
Proof.
  unfold dec_bytes, dec. rewrite dec_aux_val; [reflexivity|lia|apply log2_fuel].
Qed.
Lemma dec_bytes_digits n : forallb is_digit (dec_bytes n) = true.
Proof. unfold dec_bytes, dec. now rewrite dec_aux_digits. Qed.
Lemma dec_bytes_nonempty n : dec_bytes n <> [].
Proof.
  unfold dec_bytes, dec. intro H.
  pose proof (dec_aux_len (S (N.to_nat (N.log2 n))) n EmptyString) as L.
  rewrite H in L. cbn in L. lia.
Qed.

(* strconv.ParseUint(strconv.Itoa(n), 10, bits) = n: every n, by induction *)
Theorem parse_uint_dec n bits : n < 2 ^ bits -> parse_uint (dec_bytes n) bits = Some n.
Proof.
  intro H. unfold parse_uint.
  destruct (dec_bytes n) eqn:E; [now apply dec_bytes_nonempty in E|].
  rewrite <- E, dec_bytes_digits, dec_bytes_val.
  destruct (n <? 2 ^ bits) eqn:L; [reflexivity|lia].
Qed.

(* and a number beyond the field width is refused *)
Theorem parse_uint_dec_range n bits : 2 ^ bits <= n -> parse_uint (dec_bytes n) bits = None.
Proof.
  intro H. unfold parse_uint.
  destruct (dec_bytes n) eqn:E; [reflexivity|].
  rewrite <- E, dec_bytes_digits, dec_bytes_val.
  destruct (n <? 2 ^ bits) eqn:L; [lia|reflexivity].
Qed.

(* the first character of a decimal number is a digit *)
Lemma dec_bytes_head n : exists c r, dec_bytes n = c :: r /\ is_digit c = true.
Proof.
  pose proof (dec_bytes_digits n) as D. pose proof (dec_bytes_nonempty n) as E.
  destruct (dec_bytes n) as [|c r]; [congruence|]. exists c, r. split; [reflexivity|].
  cbn in D. now apply andb_prop in D.
Qed.

(* ---- stringToTTL on a plain decimal number ---- *)
Lemma digits_val_mono s : forall i, forallb is_digit s = true -> i <= digits_val s i.
Proof.
  induction s as [|c r IH]; intros i H; cbn [digits_val]; [lia|].
  cbn in H. apply andb_prop in H. destruct H as [Hc Hr].
  specialize (IH (i * 10 + (c - 48)) Hr). unfold is_digit in Hc. lia.
Qed.

Lemma ttl_loop_digits s : forall i, forallb is_digit s = true ->
  digits_val s i < 18446744073709551616 -> ttl_loop s 0 i = Some (0, digits_val s i).
Proof.
  induction s as [|c r IH]; intros i H Hv; [reflexivity|].
  cbn in H. apply andb_prop in H. destruct H as [Hc Hr].
  cbn [ttl_loop digits_val] in *.
  pose proof (digits_val_mono r (i * 10 + (c - 48)) Hr) as M.
  assert (Hd := Hc). unfold is_digit in Hd.
  replace ((c =? 115) || (c =? 83)) with false by lia.
  replace ((c =? 109) || (c =? 77)) with false by lia.
  replace ((c =? 104) || (c =? 72)) with false by lia.
  replace ((c =? 100) || (c =? 68)) with false by lia.
  replace ((c =? 119) || (c =? 87)) with false by lia.
  rewrite Hc.
  assert (E : w64 (w64 (i * 10) + (c - 48)) = i * 10 + (c - 48)).
  { unfold w64. rewrite (N.mod_small (i * 10)) by lia. apply N.mod_small. lia. }
  rewrite E. apply IH; assumption.
Qed.

Theorem string_to_ttl_dec n : n < 4294967296 -> string_to_ttl (dec_bytes n) = Some n.
Proof.
  intro H. unfold string_to_ttl.
  rewrite ttl_loop_digits; [|apply dec_bytes_digits|rewrite dec_bytes_val; lia].
  rewrite dec_bytes_val. cbn [N.add]. unfold w64.
  replace (0 + n) with n by lia. rewrite N.mod_small by lia.
  destruct (4294967295 <? n) eqn:L; [lia|reflexivity].
Qed.

(* ------------------------------------------------------------------ *)
(* table lookups                                                       *)
(* ------------------------------------------------------------------ *)

Lemma has_prefix_app p s : has_prefix p (p ++ s) = true.
Proof. induction p as [|a p IH]; cbn; [reflexivity|]. now rewrite N.eqb_refl. Qed.

Lemma lookup_name_no_prefix tbl p s :
  forallb (fun e => negb (has_prefix p (snd e))) tbl = true -> has_prefix p s = true ->
  lookup_name tbl s = None.
Proof.
  induction tbl as [|[k v] tbl IH]; intros H Hp; [reflexivity|].
  cbn in H. apply andb_prop in H. destruct H as [H1 H2].
  cbn [lookup_name]. destruct (bytes_eqb v s) eqn:E.
  - apply bytes_eqb_eq in E. subst. rewrite Hp in H1. discriminate.
  - now apply IH.
Qed.

Lemma lookup_code_in tbl c m : lookup_code tbl c = Some m -> In (c, m) tbl.
Proof.
  induction tbl as [|[k v] tbl IH]; cbn; [discriminate|].
  destruct (N.eqb_spec k c) as [->|_].
  - intro H. injection H as ->. now left.
  - intro H. right. now apply IH.
Qed.

Lemma upper_digit c : is_digit c = true -> upper c = c.
Proof. unfold is_digit, upper. intro H. replace ((97 <=? c) && (c <=? 122)) with false by lia. reflexivity. Qed.
Lemma upper_digits s : forallb is_digit s = true -> upper_bytes s = s.
Proof.
  unfold upper_bytes. induction s as [|c r IH]; [reflexivity|]. cbn [forallb map]. intro H.
  apply andb_prop in H. destruct H as [Hc Hr]. now rewrite upper_digit, IH.
Qed.

(* ------------------------------------------------------------------ *)
(* TYPEnnn and CLASSnnn: every code point, by reasoning (no sweep)     *)
(* ------------------------------------------------------------------ *)

Lemma type_table_no_TYPE : forallb (fun e => negb (has_prefix b_TYPE (snd e))) type_table = true.
Proof. vm_compute. reflexivity. Qed.
Lemma type_table_no_CLASS : forallb (fun e => negb (has_prefix b_CLASS (snd e))) type_table = true.
Proof. vm_compute. reflexivity. Qed.
Lemma class_table_no_TYPE : forallb (fun e => negb (has_prefix b_TYPE (snd e))) class_table = true.
Proof. vm_compute. reflexivity. Qed.
Lemma class_table_no_CLASS : forallb (fun e => negb (has_prefix b_CLASS (snd e))) class_table = true.
Proof. vm_compute. reflexivity. Qed.

Lemma upper_app a b : upper_bytes (a ++ b) = upper_bytes a ++ upper_bytes b.
Proof. apply map_app. Qed.

(* any spelling of the prefix whose upper-case form is TYPE: TYPE, type, Type ... *)
Theorem classify_TYPEnnn t p : t < 65536 -> upper_bytes p = b_TYPE ->
  classify false (p ++ dec_bytes t) = (TRrtype t (p ++ dec_bytes t), true).
Proof.
  intros Ht Hp. unfold classify.
  assert (Hup : upper_bytes (p ++ dec_bytes t) = b_TYPE ++ dec_bytes t).
  { rewrite upper_app, Hp, upper_digits by apply dec_bytes_digits. reflexivity. }
  rewrite Hup.
  assert (Hlen : length p = 4%nat).
  { apply (f_equal (@length N)) in Hp. unfold upper_bytes in Hp. rewrite map_length in Hp. exact Hp. }
  unfold string_to_type. rewrite (lookup_name_no_prefix _ b_TYPE) by (apply type_table_no_TYPE || apply has_prefix_app).
  rewrite has_prefix_app.
  assert (Hti : type_to_int (p ++ dec_bytes t) = Some t).
  { unfold type_to_int. rewrite app_length, Hlen.
    destruct (dec_bytes_head t) as (c & r & E & _).
    replace (4 + length (dec_bytes t) <? 5)%nat with false by (rewrite E; cbn; lia).
    replace 4%nat with (length p) by exact Hlen. rewrite skipn_app_exact.
    apply parse_uint_dec. cbn. lia. }
  rewrite Hti.
  unfold string_to_class. rewrite (lookup_name_no_prefix _ b_TYPE) by (apply class_table_no_TYPE || apply has_prefix_app).
  reflexivity.
Qed.

Theorem classify_CLASSnnn c p : c < 65536 -> upper_bytes p = b_CLASS ->
  classify false (p ++ dec_bytes c) = (TClass c (p ++ dec_bytes c), false).
Proof.
  intros Hc Hp. unfold classify.
  assert (Hup : upper_bytes (p ++ dec_bytes c) = b_CLASS ++ dec_bytes c).
  { rewrite upper_app, Hp, upper_digits by apply dec_bytes_digits. reflexivity. }
  rewrite Hup.
  assert (Hlen : length p = 5%nat).
  { apply (f_equal (@length N)) in Hp. unfold upper_bytes in Hp. rewrite map_length in Hp. exact Hp. }
  unfold string_to_type. rewrite (lookup_name_no_prefix _ b_CLASS) by (apply type_table_no_CLASS || apply has_prefix_app).
  replace (has_prefix b_TYPE (b_CLASS ++ dec_bytes c)) with false by reflexivity.
  unfold string_to_class. rewrite (lookup_name_no_prefix _ b_CLASS) by (apply class_table_no_CLASS || apply has_prefix_app).
  rewrite has_prefix_app.
  assert (Hci : class_to_int (p ++ dec_bytes c) = Some c).
  { unfold class_to_int. rewrite app_length, Hlen.
    destruct (dec_bytes_head c) as (d & r & E & _).
    replace (5 + length (dec_bytes c) <? 6)%nat with false by (rewrite E; cbn; lia).
    replace 5%nat with (length p) by exact Hlen. rewrite skipn_app_exact.
    apply parse_uint_dec. cbn. lia. }
  now rewrite Hci.
Qed.

(* a code beyond 16 bits is refused, not wrapped *)
Theorem classify_TYPEnnn_range t : 65536 <= t ->
  classify false (b_TYPE ++ dec_bytes t) = (TErr "unknown RR type", false).
Proof.
  intro Ht. unfold classify.
  rewrite upper_app, (upper_digits (dec_bytes t)) by apply dec_bytes_digits.
  replace (upper_bytes b_TYPE) with b_TYPE by reflexivity.
  unfold string_to_type. rewrite (lookup_name_no_prefix _ b_TYPE) by (apply type_table_no_TYPE || apply has_prefix_app).
  rewrite has_prefix_app.
  assert (Hti : type_to_int (b_TYPE ++ dec_bytes t) = None).
  { unfold type_to_int. rewrite app_length.
    destruct (dec_bytes_head t) as (c & r & E & _).
    replace (length b_TYPE + length (dec_bytes t) <? 5)%nat with false by (rewrite E; cbn; lia).
    replace 4%nat with (length b_TYPE) by reflexivity. rewrite skipn_app_exact.
    apply parse_uint_dec_range. cbn. lia. }
  now rewrite Hti.
Qed.

(* ------------------------------------------------------------------ *)
(* mnemonics: a complete check of the two tables                       *)
(* ------------------------------------------------------------------ *)

Definition lower (b : N) : N := if (65 <=? b) && (b <=? 90) then b + 32 else b.
Definition tok_is_type (r : tok * bool) (t : N) : bool :=
  match r with (TRrtype t' _, true) => t' =? t | _ => false end.
Definition tok_is_class (r : tok * bool) (c : N) : bool :=
  match r with (TClass c' _, _) => c' =? c | _ => false end.

(* the three type mnemonics the lexer does not read back as that type *)
Definition odd_type (t : N) : bool := (t =? 0) || (t =? 255) || (t =? 65535).

Lemma type_mnemonics_checked :
  forallb (fun e => odd_type (fst e) ||
                    (tok_is_type (classify false (snd e)) (fst e) &&
                     tok_is_type (classify false (map lower (snd e))) (fst e))) type_table = true.
Proof. vm_compute. reflexivity. Qed.

Lemma class_mnemonics_checked :
  forallb (fun e => match string_to_type (snd e) with
                    | Some _ => true
                    | None => tok_is_class (classify false (snd e)) (fst e) &&
                              tok_is_class (classify false (map lower (snd e))) (fst e)
                    end) class_table = true.
Proof. vm_compute. reflexivity. Qed.

Lemma tok_is_type_eq w t : tok_is_type (classify false w) t = true ->
  exists s, classify false w = (TRrtype t s, true).
Proof.
  unfold tok_is_type. destruct (classify false w) as [[] []]; try discriminate.
  intro H. apply N.eqb_eq in H. subst. eauto.
Qed.

(* Type.String of every code point is read back as that code *)
Theorem type_string_reread t : t < 65536 -> odd_type t = false ->
  exists s, classify false (show_type t) = (TRrtype t s, true).
Proof.
  intros Ht Ho. unfold show_type. destruct (lookup_code type_table t) as [m|] eqn:L.
  - apply lookup_code_in in L.
    pose proof type_mnemonics_checked as C. rewrite forallb_forall in C. specialize (C _ L). cbn [fst snd] in C.
    rewrite Ho in C. cbn [orb] in C. apply andb_prop in C. destruct C as [C _].
    now apply tok_is_type_eq.
  - eexists. apply classify_TYPEnnn; [exact Ht|reflexivity].
Qed.

(* Class.String of every code point is read back as that code *)
Theorem class_string_reread c : c < 65536 ->
  exists s b, classify false (show_class c) = (TClass c s, b).
Proof.
  intros Hc. unfold show_class. destruct (lookup_code class_table c) as [m|] eqn:L.
  - apply lookup_code_in in L.
    pose proof class_mnemonics_checked as C. rewrite forallb_forall in C. specialize (C _ L). cbn [fst snd] in C.
    destruct (string_to_type m).
    + do 2 eexists. apply classify_CLASSnnn; [exact Hc|reflexivity].
    + apply andb_prop in C. destruct C as [C _]. unfold tok_is_class in C.
      destruct (classify false m) as [[] b]; try discriminate. apply N.eqb_eq in C. subst. eauto.
  - do 2 eexists. apply classify_CLASSnnn; [exact Hc|reflexivity].
Qed.

(* what the faithful model refutes: these three mnemonics are not read back *)
Theorem type_string_refuted :
  classify false (show_type 0) = (TClass 254 (show_type 0), false) /\
  classify false (show_type 255) = (TClass 255 (show_type 255), true) /\
  classify false (show_type 65535) = (TStr (show_type 65535), false).
Proof. repeat split; vm_compute; reflexivity. Qed.

(* the ANY class mnemonic is not usable either: Class.String avoids it *)
Theorem class_any_mnemonic :
  show_class 255 = b_CLASS ++ dec_bytes 255 /\
  classify false (bytes_of_string "ANY") = (TClass 255 (bytes_of_string "ANY"), true).
Proof. split; vm_compute; reflexivity. Qed.

(* ---- the type lists of NSEC / NSEC3 / CSYNC ---- *)
Definition bitmap_tok (s : bytes) : option N :=
  match string_to_type (upper_bytes s) with
  | Some k => Some k
  | None => type_to_int s
  end.

Lemma bitmap_mnemonics_checked :
  forallb (fun e => (fst e =? 0) || (fst e =? 65535) ||
                    match bitmap_tok (snd e) with Some k => k =? fst e | None => false end) type_table = true.
Proof. vm_compute. reflexivity. Qed.

Theorem bitmap_tok_show t : t < 65536 -> t <> 0 -> t <> 65535 -> bitmap_tok (show_type t) = Some t.
Proof.
  intros Ht H0 H1. unfold show_type. destruct (lookup_code type_table t) as [m|] eqn:L.
  - apply lookup_code_in in L.
    pose proof bitmap_mnemonics_checked as C. rewrite forallb_forall in C. specialize (C _ L). cbn [fst snd] in C.
    replace (t =? 0) with false in C by lia. replace (t =? 65535) with false in C by lia. cbn [orb] in C.
    destruct (bitmap_tok m); [|discriminate]. apply N.eqb_eq in C. now subst.
  - unfold bitmap_tok.
    rewrite upper_app, (upper_digits (dec_bytes t)) by apply dec_bytes_digits.
    replace (upper_bytes b_TYPE) with b_TYPE by reflexivity.
    unfold string_to_type. rewrite (lookup_name_no_prefix _ b_TYPE) by (apply type_table_no_TYPE || apply has_prefix_app).
    unfold type_to_int. rewrite app_length.
    destruct (dec_bytes_head t) as (c & r & E & _).
    replace (length b_TYPE + length (dec_bytes t) <? 5)%nat with false by (rewrite E; cbn; lia).
    replace 4%nat with (length b_TYPE) by reflexivity. rewrite skipn_app_exact.
    apply parse_uint_dec. cbn. lia.
Qed.

(* non-vacuity *)
Example codes_example :
  classify false (show_type 15) = (TRrtype 15 (bytes_of_string "MX"), true) /\
  classify false (show_type 4711) = (TRrtype 4711 (bytes_of_string "TYPE4711"), true) /\
  classify false (show_class 3) = (TClass 3 (bytes_of_string "CH"), false) /\
  classify false (bytes_of_string "class42") = (TClass 42 (bytes_of_string "class42"), false) /\
  parse_uint (dec_bytes 4294967295) 32 = Some 4294967295 /\
  parse_uint (dec_bytes 65536) 16 = None.
Proof. repeat split; vm_compute; reflexivity. Qed.
