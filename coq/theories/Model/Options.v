(* Model/Options.v — the EDNS0 option codecs of edns.go and the SVCB parameter
   codecs of svcb.go, as "unpack, then what pack() and len() report":
   [opt_view code data] / [svcb_view key data] = None when the option's unpack
   rejects the octets, else Some (octets pack() returns afterwards, length).
   Definitions only. *)
From Dns Require Export Model.NameWire.
Open Scope N_scope.

Definition all_zero (b : bytes) : bool := forallb (N.eqb 0) b.
Fixpoint pad_zero (l : bytes) (n : nat) : bytes :=
  match n with
  | O => []
  | S k => match l with [] => 0 :: pad_zero [] k | x :: r => x :: pad_zero r k end
  end.

(* ip.Mask(net.CIDRMask(prefix, 8*len ip)) *)
Fixpoint mask_bytes (ip : bytes) (prefix : N) : bytes :=
  match ip with
  | [] => []
  | b :: r =>
    if 8 <=? prefix then b :: mask_bytes r (prefix - 8)
    else (N.land b (256 - N.shiftl 1 (8 - prefix))) :: mask_bytes r 0
  end.

Definition subnet_view (data : bytes) : option bytes :=
  if lenN data <? 4 then None
  else
    let fam := be (firstn 2 data) 0 in
    let mask := nthN data 2 0 in
    let scope := nthN data 3 0 in
    let rest := skipn 4 data in
    if fam =? 0 then (if mask =? 0 then Some [0; 0; 0; scope] else None)
    else if fam =? 1 then
      if (32 <? mask) || (32 <? scope) then None
      else Some ([0; 1; mask; scope] ++ takeN ((mask + 7) / 8) (mask_bytes (pad_zero rest 4) mask))
    else if fam =? 2 then
      if (128 <? mask) || (128 <? scope) then None
      else Some ([0; 2; mask; scope] ++ takeN ((mask + 7) / 8) (mask_bytes (pad_zero rest 16) mask))
    else None.

Definition opt_view (code : N) (data : bytes) : option (bytes * N) :=
  let ret (o : option bytes) := match o with Some b => Some (b, lenN b) | None => None end in
  let n := lenN data in
  if code =? 1 then ret (if n <? 18 then None else Some (firstn 18 data))                 (* LLQ *)
  else if code =? 2 then                                                                (* UL *)
    ret (if n =? 4 then Some data
         else if n =? 8 then (if all_zero (skipn 4 data) then Some (firstn 4 data) else Some data)
         else None)
  else if code =? 8 then ret (subnet_view data)                                          (* SUBNET *)
  else if code =? 9 then ret (if n =? 0 then Some [] else if n <? 4 then None else Some (firstn 4 data))  (* EXPIRE *)
  else if code =? 11 then                                                               (* TCP KEEPALIVE *)
    ret (if n =? 0 then Some [] else if n =? 2 then (if all_zero data then Some [] else Some data) else None)
  else if code =? 15 then ret (if n <? 2 then None else Some data)                        (* EDE *)
  else if code =? 18 then                                                               (* REPORTING *)
    ret (match unpack_name data 0 with
         | Ok (name, _) => match pack_name_plain name 255 with Ok w => Some w | _ => None end
         | _ => None
         end)
  else if code =? 19 then ret (if n <? 2 then None else Some data)                        (* ZONEVERSION *)
  else ret (Some data).    (* NSID, ESU, DAU, DHU, N3U, COOKIE, PADDING, local: the octets themselves *)

(* ---- SVCB ---- *)
Fixpoint pairs16 (b : bytes) : list N :=
  match b with x :: y :: r => (x * 256 + y) :: pairs16 r | _ => [] end.
Fixpoint ins_n (x : N) (l : list N) : list N :=
  match l with [] => [x] | y :: r => if y <=? x then y :: ins_n x r else x :: l end.
Definition sort_n (l : list N) : list N := fold_left (fun a x => ins_n x a) l [].

(* alpn: length-prefixed ids; None on overflow; flag = some id is empty (refused by svcb_view) *)
Fixpoint alpn_scan (fuel : nat) (b : bytes) : option bool :=
  match fuel with
  | O => None
  | S f =>
    match b with
    | [] => Some false
    | l :: r =>
      if lenN r <? l then None
      else match alpn_scan f (dropN l r) with
           | Some e => Some (e || (l =? 0))
           | None => None
           end
    end
  end.

Fixpoint chunks16_has_v4 (fuel : nat) (b : bytes) : bool :=
  match fuel with
  | O => false
  | S f =>
    match b with
    | [] => false
    | _ => bytes_eqb (firstn 12 b) [0;0;0;0;0;0;0;0;0;0;255;255] || chunks16_has_v4 f (skipn 16 b)
    end
  end.

Definition svcb_view (key : N) (data : bytes) : option (bytes * N) :=
  let n := lenN data in
  if key =? 65535 then None                                                   (* svcb_RESERVED: bad SVCB key *)
  else if key =? 0 then                                                       (* mandatory *)
    if n mod 2 =? 0 then Some (flat_map u16 (sort_n (pairs16 data)), n) else None
  else if key =? 1 then                                                       (* alpn *)
    match alpn_scan (S (length data)) data with
    | Some has_empty => if has_empty then None else Some (data, n)   (* an empty id is refused (fix 59da914) *)
    | None => None
    end
  else if key =? 2 then (if n =? 0 then Some ([], 0) else None)               (* no-default-alpn *)
  else if key =? 3 then (if n =? 2 then Some (data, 2) else None)             (* port *)
  else if key =? 4 then (if (n =? 0) || negb (n mod 4 =? 0) then None else Some (data, n))    (* ipv4hint *)
  else if key =? 6 then                                                       (* ipv6hint *)
    if (n =? 0) || negb (n mod 16 =? 0) || chunks16_has_v4 (S (length data)) data then None else Some (data, n)
  else if key =? 8 then (if n =? 0 then Some ([], 0) else None)               (* ohttp *)
  else Some (data, n).                                                        (* ech, dohpath, local *)
