(* Corr/C06.v — case runner for C06: the functions of Corr/C07.v (token dumps,
   whole parser runs, helpers) plus the denotation of an abstract zone
   (Model/ZoneSpec.v), so that the specification itself is compared with the
   harness's independent denotation and with the implementation. *)
From Dns Require Import Model.ZoneSpec Corr.C07.
Open Scope N_scope.

Definition opt_hex (s : string) : option bytes :=
  if String.eqb s "-" then None else Some (unhex s).
Definition opt_dec (s : string) : option N :=
  if String.eqb s "-" then None else Some (undec s).
Definition items (s : string) : list bytes :=
  match s with
  | EmptyString => []
  | _ => map (fun x => if String.eqb x "e" then [] else unhex x) (split_on "_"%char s EmptyString)
  end.
Definition parse_rdw (s : string) : rdw :=
  match s with
  | String c r =>
    if Ascii.eqb c "N"%char then WName (unhex r)
    else if Ascii.eqb c "A"%char then WAddr (unhex r)
    else if Ascii.eqb c "T"%char then WTxt (items r)
    else match items r with
         | len :: hs => WGen len hs
         | [] => WGen [] []
         end
  | EmptyString => WGen [] []
  end.
Definition parse_entry (s : string) : entry :=
  match split_on ","%char s EmptyString with
  | [k; a] => if String.eqb k "o" then DOrigin (unhex a) else DTtl (unhex a)
  | [_; ow; tl; cl; ord; ty; rd] =>
    DRec (mkRecd (opt_hex ow) (opt_hex tl) (opt_dec cl) (String.eqb ord "t") (undec ty) (parse_rdw rd))
  | _ => DTtl []
  end.
Definition parse_zone_spec (s : string) : list entry :=
  match s with
  | EmptyString => []
  | _ => map parse_entry (split_on ";"%char s EmptyString)
  end.

Definition show_denote (o : option (list rr)) : string :=
  match o with
  | None => "undef"%string
  | Some l => show_evs (map ERec l)
  end.

(* the iterator values of a $GENERATE range as the specification lists them
   (gen_values over gen_count): how many, the first, the last *)
Definition show_values (start stop step : Z) : string :=
  let vs := gen_values (gen_count start stop step) start stop step in
  (dec (lenN vs) +++ "," +++ decZ (hd 0%Z vs) +++ "," +++ decZ (last vs 0%Z))%string.

Definition run0 (fn : string) (args : list string) : string :=
  if String.eqb fn "denote" then
    show_denote (denote (unhex (arg args 0)) (opt_dec (arg args 1)) (parse_zone_spec (arg args 2)))
  else if String.eqb fn "skel" then
    showb (forall2b realizes_b (lex (expand (arg args 1))) (sk_zone (parse_zone_spec (arg args 0))))
  else if String.eqb fn "ttlspec" then show_optn (ttl_of_text (unhex (arg args 0)))
  else if String.eqb fn "genvalues" then
    show_values (undecZ (arg args 0)) (undecZ (arg args 1)) (undecZ (arg args 2))
  else if String.eqb fn "complete" then hex (complete (unhex (arg args 0)) (unhex (arg args 1)))
  else Corr.C07.run0 fn args.
Definition run (fn : string) (args : list string) : string := digest (run0 fn args).
