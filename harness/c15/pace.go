package main

// Family P: the deadline discipline of a transfer.
//
// The property quantifies over every zone and every way the sender splits it
// into envelopes; nothing in it bounds how long a transfer may take as a whole
// or how long the consumer of the channel may take per envelope.  ReadTimeout
// is, by its documentation, the time Transfer.In waits for data on the
// connection.  So a transfer in which every envelope arrives less than
// ReadTimeout after the one before it (the first one: after the query) must be
// delivered exactly, however many envelopes there are, however long the whole
// transfer lasts and however long the consumer pauses between two items.
//
// All other families run on a connection that ignores deadlines and delivers at
// once; a transfer there lasts microseconds and no deadline ever matters.  Here
// the scripted connection honours the read deadline the way a socket does (a
// read fails with a timeout when the deadline in force passes before the data
// is there, also when it has already passed when the read begins) and
//   - the sender paces: envelope k arrives Gap[k] (< ReadTimeout) after envelope
//     k-1 arrived (k = 0: after the query was written);
//   - the consumer pauses Pause[j] (any length) before it asks for item j.
//
// The verdict never depends on scheduling.  Times are real (the library reads
// the real clock), but the connection is lenient about everything that is not
// the library's doing: the moment it holds against the deadline of read k is
//
//	eff_k = max(S_k, E_k)
//	S_k   = (moment envelope k-1 was handed over) + Gap[k]   scheduled arrival
//	E_k   = max(C_{k-1}, P_{k-1})
//
// C_{k-1} = the moment the last octet of envelope k-1 was handed to the library,
// P_{k-1} = the moment the consumer, its pause over, turned to the channel for
// item k-1.  Both happen before the library can have looked at the clock for
// read k (the first by program order, the second because the channel is
// unbuffered: the send of item k-1 cannot complete before the consumer is at
// the channel), so a deadline computed as "now + ReadTimeout" for read k is at
// least E_k + ReadTimeout > eff_k whatever the scheduler does in between: the
// unchanged discipline can never time out here.  Delays between the library
// setting the deadline and calling Read are not held against it either (they
// are after E_k).  A deadline that is older than the previous envelope (computed
// once per transfer, refreshed only now and then, computed before the item was
// handed to the consumer) is at most (an earlier moment) + ReadTimeout, and the
// real sleeps of sender and consumer, which last at least as long as asked,
// push eff_k beyond it.
//
// The transfers run concurrently in the background while the other families
// run (they sleep most of the time); verdicts and model cases are drawn on the
// main goroutine afterwards, in generation order.

import (
	"fmt"
	"sync"
	"time"

	. "verif/harness/common"
)

type paceSpec struct {
	// ReadTimeoutMs: Transfer.ReadTimeout; 0 = the field is left zero and the
	// documented default of 2 s applies
	ReadTimeoutMs int `json:"read_timeout_ms"`
	// GapPct[k]: envelope k arrives this many percent of the read timeout after
	// envelope k-1 arrived (k = 0: after the query was written); always < 100
	GapPct []int `json:"arrival_gap_percent_of_read_timeout,omitempty"`
	// PausePct[j]: the consumer waits this many percent of the read timeout before
	// it asks for item j
	PausePct []int  `json:"consumer_pause_percent_of_read_timeout,omitempty"`
	Pattern  string `json:"pattern"`
}

const defaultReadTimeout = 2 * time.Second // documented default of Transfer.ReadTimeout

func (p *paceSpec) readTimeoutField() time.Duration {
	return time.Duration(p.ReadTimeoutMs) * time.Millisecond
}
func (p *paceSpec) timeout() time.Duration {
	if p.ReadTimeoutMs == 0 {
		return defaultReadTimeout
	}
	return p.readTimeoutField()
}
func (p *paceSpec) pct(xs []int, i int) time.Duration {
	if i >= len(xs) {
		return 0
	}
	return p.timeout() * time.Duration(xs[i]) / 100
}

// paceRow: what the connection saw at the first Read of one envelope
// (milliseconds since the query was written)
type paceRow struct {
	Read        int     `json:"envelope"`
	DeadlineSet float64 `json:"deadline_installed_at_ms"`
	Deadline    float64 `json:"deadline_ms"` // -1: none
	PrevDone    float64 `json:"previous_envelope_read_at_ms"`
	ConsumerAt  float64 `json:"consumer_asked_for_previous_item_at_ms"`
	Arrival     float64 `json:"envelope_arrives_at_ms"`
	ReadAt      float64 `json:"read_begun_at_ms"`
	Outcome     string  `json:"outcome"`
}

type pacer struct {
	spec    *paceSpec
	wq      time.Time   // the query was written (last Write)
	handed  time.Time   // first octet of the previous envelope handed over (wq before envelope 0)
	done    time.Time   // last octet of the previous envelope handed over (wq before envelope 0)
	ready   []time.Time // ready[j]: the consumer turned to the channel for item j
	expired bool
	log     []paceRow
}

func newPacer(p *paceSpec) *pacer { return &pacer{spec: p} }

// wrote: s.mu held
func (p *pacer) wrote() {
	p.wq = time.Now()
	p.handed, p.done = p.wq, p.wq
}

// consumerBefore: the consumer's pause before item j, then the moment it turns
// to the channel
func (p *pacer) consumerBefore(s *scriptConn, j int) {
	if d := p.spec.pct(p.spec.PausePct, j); d > 0 {
		time.Sleep(d)
	}
	s.mu.Lock()
	for len(p.ready) <= j {
		p.ready = append(p.ready, time.Time{})
	}
	p.ready[j] = time.Now()
	s.mu.Unlock()
}

func later(a, b time.Time) time.Time {
	if b.After(a) {
		return b
	}
	return a
}

// beginRead: the first Read of envelope k (s.mu held; released while waiting
// for the envelope to arrive)
func (p *pacer) beginRead(s *scriptConn, k int) error {
	if p.expired {
		return timeoutErr{}
	}
	now := time.Now()
	ms := func(t time.Time) float64 {
		if t.IsZero() {
			return -1
		}
		return float64(t.Sub(p.wq).Microseconds()) / 1000
	}
	e := p.done
	var consumerAt time.Time
	if k >= 1 && len(p.ready) >= k {
		consumerAt = p.ready[k-1]
		e = later(e, consumerAt)
	}
	arrival := p.handed.Add(p.spec.pct(p.spec.GapPct, k))
	eff := later(e, arrival)
	row := paceRow{Read: k, DeadlineSet: ms(s.rdlSet), Deadline: ms(s.rdl), PrevDone: ms(p.done), ConsumerAt: ms(consumerAt),
		Arrival: ms(arrival), ReadAt: ms(now), Outcome: "delivered"}
	if !s.rdl.IsZero() && s.rdl.Before(eff) {
		row.Outcome = "i/o timeout: the deadline in force passed before the envelope was there and asked for"
		p.log = append(p.log, row)
		p.expired = true
		return timeoutErr{}
	}
	p.log = append(p.log, row)
	if d := arrival.Sub(now); d > 0 {
		s.mu.Unlock()
		time.Sleep(d)
		s.mu.Lock()
	}
	p.handed = later(time.Now(), arrival)
	return nil
}

// delivered: octets were handed over (s.mu held); when they end a frame, that
// envelope is done
func (p *pacer) delivered(s *scriptConn) {
	for _, e := range s.ends {
		if e == s.off {
			p.done = time.Now()
			return
		}
	}
}

// ---------------------------------------------------------------- the family
type pacedJob struct {
	c  xcase
	ex *expect
	o  obs
}
type pacedRun struct {
	jobs []*pacedJob
	wg   sync.WaitGroup
}

const kPaced = "C15/exact/every-envelope-in-time"

func pacedStreams(thorough bool) []struct {
	kind   string
	stream []rrd
} {
	type ks = struct {
		kind   string
		stream []rrd
	}
	out := []ks{
		{"axfr", axfrStream(5, 2)},
		{"ixfr", axfrStream(5, 2)},
		{"ixfr", ixfrStream(5, []diffd{{3, 5, 1, 1}})},
	}
	if thorough {
		out = append(out, ks{"axfr", axfrStream(5, 4)}, ks{"ixfr", ixfrStream(5, []diffd{{3, 4, 1, 0}, {4, 5, 0, 1}})})
	}
	return out
}

func fill(n, v int) []int {
	xs := make([]int, n)
	for i := range xs {
		xs[i] = v
	}
	return xs
}

// patterns for a transfer of n envelopes
func pacePatterns(r *Rng, n, nRandom int) []paceSpec {
	ps := []paceSpec{
		// the sender paces: every envelope arrives shortly before the timeout
		{Pattern: "sender-paces", GapPct: fill(n, 90)},
		// the consumer takes longer than the read timeout over every item
		{Pattern: "slow-consumer", PausePct: fill(n, 130)},
		// both, each step well below the timeout, two steps beyond it
		{Pattern: "sender-paces-and-slow-consumer", GapPct: fill(n, 60), PausePct: fill(n, 60)},
	}
	// one long wait and one long pause around each envelope k, the rest at once
	for k := 0; k < n; k++ {
		g, p := fill(n, 0), fill(n, 0)
		g[k] = 95
		if k+1 < n {
			g[k+1] = 95
		}
		ps = append(ps, paceSpec{Pattern: fmt.Sprintf("two-long-waits-from-envelope-%d", k), GapPct: g})
		p[k] = 160
		ps = append(ps, paceSpec{Pattern: fmt.Sprintf("long-pause-before-item-%d", k), PausePct: p})
	}
	for i := 0; i < nRandom; i++ {
		g, p := make([]int, n), make([]int, n)
		for k := range g {
			g[k] = []int{0, 0, 30, 60, 95, 99}[r.Intn(6)]
			p[k] = []int{0, 0, 50, 100, 150, 250}[r.Intn(6)]
		}
		ps = append(ps, paceSpec{Pattern: "random", GapPct: g, PausePct: p})
	}
	return ps
}

func startPaced(r0 *Rng, thorough bool) *pacedRun {
	// its own stream of random numbers: the cases of the other families stay what
	// they were for every seed
	r := &Rng{S: r0.S ^ 0x5eed0c15}
	pr := &pacedRun{}
	add := func(kind string, tsig bool, envs [][]rrd, p paceSpec, fam string) {
		c := base(kind, tsig, fam, r)
		c.Stall = false
		c.Reads = goodReads(c, envs, tsig)
		// something after the closing SOA that must not be read
		c.Reads = append(c.Reads, readSpec{Id: c.Qid, RRs: []rrd{A(99)}})
		pp := p
		c.Pace = &pp
		pr.jobs = append(pr.jobs, &pacedJob{c: c, ex: &expect{deliver: len(envs), then: "done", key: kPaced,
			why: "every envelope arrived less than the read timeout after the one before it (pattern " + p.Pattern +
				"): the transfer must deliver exactly the transmitted envelopes and end at the closing SOA, however long it lasts as a whole and however long the consumer takes"}})
	}

	// the documented default (ReadTimeout left zero: 2 s) and a timeout above the
	// default; these last 2-3 s and go first
	three := func(s []rrd) [][]rrd { return [][]rrd{s[:1], s[1 : len(s)-1], s[len(s)-1:]} }
	two := func(s []rrd) [][]rrd { return [][]rrd{s[:2], s[2:]} }
	for _, ks := range pacedStreams(false)[:3] {
		tsig := ks.kind == "ixfr"
		add(ks.kind, tsig, three(ks.stream), paceSpec{Pattern: "default-timeout-sender-paces", GapPct: []int{0, 60, 60}}, "paced-default-timeout")
		add(ks.kind, !tsig, two(ks.stream), paceSpec{Pattern: "default-timeout-slow-consumer", PausePct: []int{115}}, "paced-default-timeout")
		// ReadTimeout 3 s: an envelope 2.4 s after the previous one is in time
		add(ks.kind, tsig, two(ks.stream), paceSpec{Pattern: "timeout-above-default", ReadTimeoutMs: 3000, GapPct: []int{0, 80}}, "paced-timeout-above-default")
	}

	timeouts := []int{80, 120}
	nRandom := 1
	if thorough {
		timeouts = []int{40, 80, 120, 250}
		nRandom = 6
	}
	i := 0
	for _, ks := range pacedStreams(thorough) {
		comps := compositions(ks.stream)
		for ci, envs := range comps {
			if thorough && len(ks.stream) > 6 && ci%4 != 0 {
				continue
			}
			for _, tsig := range []bool{false, true} {
				for _, p := range pacePatterns(r, len(envs), nRandom) {
					// quick tier: the per-envelope patterns on every second case
					if !thorough && p.Pattern[0] != 's' && p.Pattern != "random" && (i+ci)%2 != 0 {
						i++
						continue
					}
					p.ReadTimeoutMs = timeouts[i%len(timeouts)]
					i++
					add(ks.kind, tsig, envs, p, "paced-"+familyOf(p.Pattern))
				}
			}
		}
	}

	// run them: at most 256 at a time (they sleep nearly all the time)
	sem := make(chan struct{}, 256)
	for _, j := range pr.jobs {
		j := j
		pr.wg.Add(1)
		go func() {
			defer pr.wg.Done()
			sem <- struct{}{}
			defer func() { <-sem }()
			j.o = runScripted(j.c)
		}()
	}
	return pr
}

func familyOf(pattern string) string {
	switch {
	case len(pattern) > 4 && pattern[:4] == "two-":
		return "two-long-waits"
	case len(pattern) > 5 && pattern[:5] == "long-":
		return "long-pause"
	}
	return pattern
}

// finish: wait for the paced transfers, then verdicts and model cases in
// generation order
func (pr *pacedRun) finish() {
	pr.wg.Wait()
	for _, j := range pr.jobs {
		check(j.c, j.o, j.ex)
		emit(j.c, j.o)
		st["family_"+j.c.Family]++
		st["paced_transfers_checked"]++
		st["paced_envelope_reads"] += len(j.o.paceLog)
	}
}
