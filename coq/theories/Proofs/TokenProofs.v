(* Proofs/TokenProofs.v — token structure of presentation names: an induction
   principle following the reader's four token kinds (\DDD, \c, dot, plain), the
   relation between the token reading and the backslash-parity reading used by
   IsFqdn, and facts about the printed form of octets as token sequences. *)
From Dns Require Import Base.ListX Model.Name Spec.NameSpec Proofs.EscapeProofs.
From Coq Require Import Lia ZifyN ZifyNat ZifyBool.
Open Scope N_scope.

Definition ddd3 (a b c : N) : bool := is_digit a && is_digit b && is_digit c.

Lemma tok_ind (P : bytes -> Prop) :
  P [] ->
  (forall a b c r3, ddd3 a b c = true -> P r3 -> P (92 :: a :: b :: c :: r3)) ->
  (forall a r1, is_ddd (a :: r1) = false -> P r1 -> P (92 :: a :: r1)) ->
  P [92] ->
  (forall r, P r -> P (46 :: r)) ->
  (forall x r, x <> 92 -> x <> 46 -> P r -> P (x :: r)) ->
  forall s, P s.
Proof.
  intros Hnil Hddd Hesc Hdang Hdot Hplain s.
  assert (H : forall n s, (length s <= n)%nat -> P s).
  { clear s. induction n as [|n IH]; intros s Hl.
    - destruct s; [exact Hnil|cbn in Hl; lia].
    - destruct s as [|x r]; [exact Hnil|]. cbn in Hl.
      destruct (N.eq_dec x 92) as [->|H92].
      + destruct r as [|a r1]; [exact Hdang|].
        destruct (is_ddd (a :: r1)) eqn:Hd.
        * destruct r1 as [|b [|c r3]]; try discriminate.
          apply Hddd; [exact Hd|]. apply IH. cbn in Hl. lia.
        * apply Hesc; [exact Hd|]. apply IH. cbn in Hl. lia.
      + destruct (N.eq_dec x 46) as [->|H46].
        * apply Hdot. apply IH. lia.
        * apply Hplain; auto. apply IH. lia. }
  apply (H (length s)). lia.
Qed.

(* matching an octet that is neither backslash nor dot falls to the default *)
Ltac plain_octet x :=
  destruct x as [|x]; [try reflexivity|];
  repeat (destruct x as [x|x|]; try reflexivity); try congruence.

(* ---------- unfolding parse_go per token ---------- *)
Lemma parse_go_ddd a b c r3 lab acc : ddd3 a b c = true ->
  parse_go (92 :: a :: b :: c :: r3) lab acc = parse_go r3 (lab ++ [ddd_to_byte (a :: b :: c :: r3)]) acc.
Proof. intro H. cbn. unfold ddd3 in H. now rewrite H. Qed.
Lemma parse_go_esc a r1 lab acc : is_ddd (a :: r1) = false ->
  parse_go (92 :: a :: r1) lab acc = parse_go r1 (lab ++ [a]) acc.
Proof.
  intro H. destruct r1 as [|b [|c r3]]; try reflexivity.
  cbn. unfold is_ddd in H. now rewrite H.
Qed.
Lemma parse_go_plain x r lab acc : x <> 92 -> x <> 46 ->
  parse_go (x :: r) lab acc = parse_go r (lab ++ [x]) acc.
Proof. intros H1 H2. plain_octet x. Qed.

Lemma parse_go_acc s : forall lab acc,
  parse_go s lab acc = option_map (app (rev acc)) (parse_go s lab []).
Proof.
  induction s as [| a b c r3 Hd IH | a r1 Hd IH | | r IH | x r H1 H2 IH] using tok_ind; intros lab acc.
  - cbn. destruct lab; cbn; [now rewrite app_nil_r|reflexivity].
  - rewrite !parse_go_ddd by auto. apply IH.
  - rewrite !parse_go_esc by auto. apply IH.
  - reflexivity.
  - cbn [parse_go]. rewrite (IH [] (lab :: acc)), (IH [] [lab]).
    destruct (parse_go r [] []); cbn; [|reflexivity]. now rewrite <- app_assoc.
  - rewrite !parse_go_plain by auto. apply IH.
Qed.

(* ---------- the text ends with an unescaped dot (token reading) ---------- *)
Fixpoint lid (s : bytes) (wd : bool) : bool :=
  match s with
  | [] => wd
  | 92 :: r =>
    match r with
    | a :: ((b :: c :: r3) as r1) => if is_digit a && is_digit b && is_digit c then lid r3 false else lid r1 false
    | a :: r1 => lid r1 false
    | [] => false
    end
  | 46 :: r => lid r true
  | x :: r => lid r false
  end.
Lemma lid_ddd a b c r3 wd : ddd3 a b c = true -> lid (92 :: a :: b :: c :: r3) wd = lid r3 false.
Proof. intro H. cbn. unfold ddd3 in H. now rewrite H. Qed.
Lemma lid_esc a r1 wd : is_ddd (a :: r1) = false -> lid (92 :: a :: r1) wd = lid r1 false.
Proof.
  intro H. destruct r1 as [|b [|c r3]]; try reflexivity.
  cbn. unfold is_ddd in H. now rewrite H.
Qed.
Lemma lid_plain x r wd : x <> 92 -> x <> 46 -> lid (x :: r) wd = lid r false.
Proof. intros H1 H2. plain_octet x. Qed.

Lemma is_digit_not_special a : is_digit a = true -> a <> 92 /\ a <> 46.
Proof. unfold is_digit. lia. Qed.

Lemma is_ddd_app_dot a r1 : is_ddd (a :: r1) = false -> is_ddd (a :: r1 ++ [46]) = false.
Proof.
  destruct r1 as [|b [|c r3]]; cbn; intro H; try exact H;
    rewrite ?andb_false_r; reflexivity.
Qed.

(* reading p ++ "." : the final dot is a separator iff the parity automaton is
   unescaped after p *)
Lemma lid_app_dot (p : bytes) : forall wd, lid (p ++ [46]) wd = negb (scan false p).
Proof.
  induction p as [| a b c r3 Hd IH | a r1 Hd IH | | r IH | x r H1 H2 IH] using tok_ind; intros wd.
  - reflexivity.
  - cbn [app]. rewrite lid_ddd by auto. rewrite IH.
    unfold ddd3 in Hd. apply andb_prop in Hd. destruct Hd as [Hd Hc]. apply andb_prop in Hd. destruct Hd as [Ha Hb].
    destruct (is_digit_not_special b Hb) as [Hb1 _]. destruct (is_digit_not_special c Hc) as [Hc1 _].
    cbn [scan]. unfold esc_step. cbn.
    replace (b =? 92) with false by lia. replace (c =? 92) with false by lia. reflexivity.
  - cbn [app]. rewrite lid_esc by (apply is_ddd_app_dot; exact Hd). rewrite IH. reflexivity.
  - reflexivity.
  - cbn [app lid]. rewrite IH. reflexivity.
  - cbn [app]. rewrite lid_plain by auto. rewrite IH. cbn [scan]. unfold esc_step.
    replace (x =? 92) with false by lia. reflexivity.
Qed.

Lemma is_fqdn_lid s : is_fqdn s = true -> lid s false = true.
Proof.
  unfold is_fqdn. destruct (rev s) as [|c r] eqn:Hr; [discriminate|].
  destruct (N.eq_dec c 46) as [->|Hc].
  2:{ assert (E : match c with 46 => Nat.even (bs_run r) | _ => false end = false) by (plain_octet c).
      rewrite E. discriminate. }
  intro Hev. assert (Hs : s = rev r ++ [46]).
  { rewrite <- (rev_involutive s), Hr. reflexivity. }
  rewrite Hs, lid_app_dot. rewrite <- bs_run_even, rev_involutive. exact Hev.
Qed.
