(* Proofs/PresentAtomProofs.v — the atoms of the irregular printers and
   parsers (C05, B05): each atom's printed form is one good word (or good
   quoted strings) and its reader gives back the value in the printer's
   normal form.  Used by PresentGrammarProofs. *)
From Dns Require Import Base.ListX Model.Present Proofs.EscapeProofs Proofs.PresentEscProofs
     Proofs.PresentCodeProofs Proofs.PresentLexProofs Proofs.PresentTxtProofs Proofs.PresentWordProofs.
From Coq Require Import Lia ZifyN ZifyNat ZifyBool.
Open Scope N_scope.

(* ------------------------------------------------------------------ *)
(* mnemonic tables of CERT                                             *)
(* ------------------------------------------------------------------ *)

Lemma mtab_inverse m :
  forallb (fun e => match lookup_name (mtab m) (snd e) with Some k => k =? fst e | None => false end) (mtab m) = true.
Proof. destruct m; vm_compute; reflexivity. Qed.
Lemma mtab_no_digit_head m :
  forallb (fun e => match snd e with [] => false | x :: _ => negb (is_digit x) end) (mtab m) = true.
Proof. destruct m; vm_compute; reflexivity. Qed.
Lemma mtab_ordinary m : forallb (fun e => forallb ordinary (snd e)) (mtab m) = true.
Proof. destruct m; vm_compute; reflexivity. Qed.

Lemma lookup_name_digit tbl c r :
  forallb (fun e => match snd e with [] => false | x :: _ => negb (is_digit x) end) tbl = true ->
  is_digit c = true -> lookup_name tbl (c :: r) = None.
Proof.
  induction tbl as [|[k v] tbl IH]; intros H Hc; [reflexivity|].
  cbn [forallb snd] in H. apply andb_prop in H. destruct H as [H1 H2].
  cbn [lookup_name]. destruct (bytes_eqb v (c :: r)) eqn:E.
  - apply bytes_eqb_eq in E. subst v. rewrite Hc in H1. discriminate.
  - now apply IH.
Qed.

Lemma parse_uint_nondigit_head c r bits : is_digit c = false -> parse_uint (c :: r) bits = None.
Proof. intro H. unfold parse_uint. cbn [forallb]. now rewrite H. Qed.

Lemma show_mnem_word_ok m n : word_ok (show_mnem m n) = true.
Proof.
  unfold show_mnem. destruct (lookup_code (mtab m) n) as [s|] eqn:L; [|apply dec_word_ok].
  apply lookup_code_in in L.
  pose proof (mtab_ordinary m) as O. rewrite forallb_forall in O. specialize (O _ L). cbn [snd] in O.
  pose proof (mtab_no_digit_head m) as D. rewrite forallb_forall in D. specialize (D _ L). cbn [snd] in D.
  apply word_ok_ordinary; [|exact O]. destruct s; [discriminate|discriminate].
Qed.

(* CERT.parse order: the mnemonic first, then the number *)
Lemma read_mnem m n bits : n < 2 ^ bits ->
  match lookup_name (mtab m) (show_mnem m n) with
  | Some k => k = n
  | None => parse_uint (show_mnem m n) bits = Some n
  end.
Proof.
  intro Hn. unfold show_mnem. destruct (lookup_code (mtab m) n) as [s|] eqn:L.
  - apply lookup_code_in in L.
    pose proof (mtab_inverse m) as I. rewrite forallb_forall in I. specialize (I _ L). cbn [fst snd] in I.
    destruct (lookup_name (mtab m) s); [|discriminate]. now apply N.eqb_eq in I.
  - destruct (dec_bytes_head n) as (c & r & E & Hc). rewrite E.
    rewrite (lookup_name_digit _ c r (mtab_no_digit_head m) Hc). rewrite <- E. now apply parse_uint_dec.
Qed.

(* RRSIG.parse reads the algorithm as a number first *)
Lemma read_algnum n : n < 256 ->
  parse_uint (dec_bytes n) 8 = Some n.
Proof. intro H. apply parse_uint_dec. cbn. lia. Qed.

(* ------------------------------------------------------------------ *)
(* RRSIG type covered                                                  *)
(* ------------------------------------------------------------------ *)
Definition read_type (text : bytes) : option N :=
  let up := upper_bytes text in
  match string_to_type up with
  | Some t => Some t
  | None => if has_prefix b_TYPE up then type_to_int text else None
  end.

Lemma read_type_mnemonics_checked :
  forallb (fun e => (fst e =? 0) || (fst e =? 65535) ||
                    match read_type (snd e) with Some k => k =? fst e | None => false end) type_table = true.
Proof. vm_compute. reflexivity. Qed.

Lemma read_type_show t : t < 65536 -> t <> 0 -> t <> 65535 -> read_type (show_type t) = Some t.
Proof.
  intros Ht H0 H1. unfold show_type. destruct (lookup_code type_table t) as [m|] eqn:L.
  - apply lookup_code_in in L.
    pose proof read_type_mnemonics_checked as C. rewrite forallb_forall in C. specialize (C _ L). cbn [fst snd] in C.
    replace (t =? 0) with false in C by lia. replace (t =? 65535) with false in C by lia. cbn [orb] in C.
    destruct (read_type m); [|discriminate]. apply N.eqb_eq in C. now subst.
  - pose proof (bitmap_tok_show t Ht H0 H1) as B. unfold bitmap_tok, show_type in B. rewrite L in B.
    unfold read_type.
    destruct (string_to_type (upper_bytes (b_TYPE ++ dec_bytes t))) as [k|] eqn:E; [exact B|].
    rewrite upper_app, (upper_digits (dec_bytes t)) by apply dec_bytes_digits.
    replace (upper_bytes b_TYPE) with b_TYPE by reflexivity. rewrite has_prefix_app. exact B.
Qed.

(* ------------------------------------------------------------------ *)
(* splitN and endingToString on several words (SMIMEA)                 *)
(* ------------------------------------------------------------------ *)
Lemma splitn_loop_concat fuel : forall s n, (0 < n)%nat -> (length s < fuel)%nat ->
  concat (splitn_loop fuel s n) = s.
Proof.
  induction fuel as [|f IH]; intros s n Hn Hf; [lia|].
  cbn [splitn_loop]. destruct (n <=? length s)%nat eqn:E.
  - cbn [concat]. rewrite IH; [apply firstn_skipn|exact Hn|].
    rewrite skipn_length. apply Nat.leb_le in E. lia.
  - cbn [concat]. apply app_nil_r.
Qed.
Lemma split_n_concat s n : (0 < n)%nat -> concat (split_n s n) = s.
Proof.
  intro Hn. unfold split_n. destruct (length s <? n)%nat; [cbn; apply app_nil_r|].
  apply splitn_loop_concat; [exact Hn|lia].
Qed.
Lemma split_n_nonempty s n : split_n s n <> [].
Proof.
  unfold split_n. destruct (length s <? n)%nat; [discriminate|].
  cbn [splitn_loop]. destruct (n <=? length s)%nat; discriminate.
Qed.

Lemma join_words_items ws : join_bytes [32] ws = render_items (map IWord ws).
Proof.
  induction ws as [|w r IH]; [reflexivity|]. cbn [map join_bytes render_items render_item].
  destruct r as [|w2 r2]; [reflexivity|]. cbn [map] in *. rewrite IH. reflexivity.
Qed.

Lemma ets_words ws : forall acc,
  ets_go (items_toks (map IWord ws) ++ [TNewline]) acc = Ok (acc ++ concat ws).
Proof.
  induction ws as [|w r IH]; intro acc.
  - cbn. now rewrite app_nil_r.
  - cbn [map items_toks item_toks]. destruct r as [|w2 r2].
    + cbn [map app ets_go concat]. now rewrite app_nil_r.
    + cbn [map app ets_go]. change (IWord w2 :: map IWord r2) with (map IWord (w2 :: r2)).
      rewrite IH. cbn [concat]. now rewrite <- app_assoc.
Qed.

(* ------------------------------------------------------------------ *)
(* RRSIG times                                                         *)
(* ------------------------------------------------------------------ *)
Fixpoint zrange_from (fuel : nat) (z : Z) : list Z :=
  match fuel with O => [] | S f => z :: zrange_from f (z + 1)%Z end.
Definition zrange (n : N) : list Z := zrange_from (N.to_nat n) 0%Z.
Lemma zrange_from_in fuel : forall z d, (z <= d < z + Z.of_nat fuel)%Z -> In d (zrange_from fuel z).
Proof.
  induction fuel as [|f IH]; intros z d H; [lia|].
  cbn [zrange_from]. destruct (Z.eq_dec z d) as [->|Hne]; [now left|]. right. apply IH. lia.
Qed.
Lemma zrange_in n d : (0 <= d < Z.of_N n)%Z -> In d (zrange n).
Proof. intro H. unfold zrange. apply zrange_from_in. lia. Qed.

(* every day from 1970-01-01 to 2106-02-07 (the 32-bit range), swept *)
Lemma days_checked :
  forallb (fun d => let '(y, m, dd) := civil_from_days d in
                    (1970 <=? y) && (y <=? 2106) && (1 <=? m) && (m <=? 12) && (1 <=? dd) &&
                    (dd <=? days_in m y) && (days_from_civil y m dd =? d))%Z (zrange 49711) = true.
Proof. vm_compute. reflexivity. Qed.

Definition two_ok (n : N) : bool :=
  match pad_dec 2 n with
  | [a; b] => is_digit a && is_digit b && ((a - 48) * 10 + (b - 48) =? n)
  | _ => false
  end.
Definition four_ok (n : N) : bool :=
  match pad_dec 4 n with
  | [a; b; c; d] => is_digit a && is_digit b && is_digit c && is_digit d &&
                    (((a - 48) * 10 + (b - 48)) * 100 + ((c - 48) * 10 + (d - 48)) =? n)
  | _ => false
  end.
Lemma two_checked : forallb (fun z => two_ok (Z.to_N z)) (zrange 100) = true.
Proof. vm_compute. reflexivity. Qed.
Lemma four_checked : forallb (fun z => (z <? 1970)%Z || four_ok (Z.to_N z)) (zrange 2107) = true.
Proof. vm_compute. reflexivity. Qed.

Lemma two_digits z : (0 <= z < 100)%Z ->
  exists a b, append_int z 2 = [a; b] /\ is_digit a = true /\ is_digit b = true /\ dval a b = z.
Proof.
  intro H. pose proof two_checked as C. rewrite forallb_forall in C. specialize (C z (zrange_in 100 z ltac:(lia))).
  unfold append_int. replace (z <? 0)%Z with false by lia. unfold two_ok in C.
  destruct (pad_dec 2 (Z.to_N z)) as [|a [|b [|c r]]]; try discriminate.
  apply andb_prop in C. destruct C as [C C3]. apply andb_prop in C. destruct C as [C1 C2].
  exists a, b. repeat split; try assumption. unfold dval. apply N.eqb_eq in C3. rewrite C3. lia.
Qed.

Lemma four_digits z : (1970 <= z <= 2106)%Z ->
  exists a b c d, append_int z 4 = [a; b; c; d] /\ is_digit a = true /\ is_digit b = true /\
                  is_digit c = true /\ is_digit d = true /\ (dval a b * 100 + dval c d)%Z = z.
Proof.
  intro H. pose proof four_checked as C. rewrite forallb_forall in C. specialize (C z (zrange_in 2107 z ltac:(lia))).
  replace (z <? 1970)%Z with false in C by lia. cbn [orb] in C.
  unfold append_int. replace (z <? 0)%Z with false by lia. unfold four_ok in C.
  destruct (pad_dec 4 (Z.to_N z)) as [|a [|b [|c [|d [|e r]]]]]; try discriminate.
  apply andb_prop in C. destruct C as [C C5]. apply andb_prop in C. destruct C as [C C4].
  apply andb_prop in C. destruct C as [C C3]. apply andb_prop in C. destruct C as [C1 C2].
  exists a, b, c, d. repeat split; try assumption. unfold dval. apply N.eqb_eq in C5.
  unfold is_digit in *. lia.
Qed.

(* at any clock reading from 1970 on, the serial-number correction is zero *)
Lemma time_to_string_now now t : (0 <= now)%Z -> t < 4294967296 ->
  time_to_string now t = format_time (Z.of_N t).
Proof.
  intros Hn Ht. unfold time_to_string.
  assert (Hq : (Z.quot (Z.of_N t - now) year68 <= 1)%Z).
  { unfold year68. destruct (Z_lt_le_dec (Z.of_N t - now) 0) as [Hneg|Hpos].
    - pose proof (Z.quot_opp_l (now - Z.of_N t) 2147483648 ltac:(lia)) as Q.
      replace (- (now - Z.of_N t))%Z with (Z.of_N t - now)%Z in Q by lia. rewrite Q.
      pose proof (Z.quot_pos (now - Z.of_N t) 2147483648 ltac:(lia) ltac:(lia)). lia.
    - rewrite Z.quot_div_nonneg by lia. apply Z.lt_succ_r. apply Z.div_lt_upper_bound; lia. }
  destruct (Z.quot (Z.of_N t - now) year68 - 1 <? 0)%Z eqn:E.
  - f_equal. lia.
  - assert (Z.quot (Z.of_N t - now) year68 - 1 = 0)%Z as -> by lia. f_equal. lia.
Qed.

Lemma serial_id t : (0 <= t < 4294967296)%Z ->
  ((t - (if Z.quot t year68 - 1 <? 0 then 0 else Z.quot t year68 - 1) * year68) mod 4294967296 = t)%Z.
Proof.
  intro Ht.
  assert (Hq : (Z.quot t year68 <= 1)%Z).
  { unfold year68. rewrite Z.quot_div_nonneg by lia. apply Z.lt_succ_r. apply Z.div_lt_upper_bound; lia. }
  destruct (Z.quot t year68 - 1 <? 0)%Z eqn:E.
  - rewrite Z.mul_0_l, Z.sub_0_r. apply Z.mod_small. exact Ht.
  - assert (Z.quot t year68 - 1 = 0)%Z as -> by (clear - Hq E; lia).
    rewrite Z.mul_0_l, Z.sub_0_r. apply Z.mod_small. exact Ht.
Qed.

Lemma sod_split sod : (0 <= sod < 86400)%Z ->
  exists hh mm ss, (sod / 3600 = hh /\ sod / 60 mod 60 = mm /\ sod mod 60 = ss /\
                    0 <= hh < 24 /\ 0 <= mm < 60 /\ 0 <= ss < 60 /\ hh * 3600 + mm * 60 + ss = sod)%Z.
Proof.
  intro H. exists (sod / 3600)%Z, (sod / 60 mod 60)%Z, (sod mod 60)%Z.
  repeat split; try (apply Z.mod_pos_bound; lia); try (apply Z.div_pos; lia); try (apply Z.div_lt_upper_bound; lia).
  replace (sod / 3600)%Z with (sod / 60 / 60)%Z by (rewrite Z.div_div by lia; reflexivity).
  pose proof (Z.div_mod sod 60 ltac:(lia)) as A. pose proof (Z.div_mod (sod / 60) 60 ltac:(lia)) as B.
  remember (sod / 60)%Z as q. remember (sod mod 60)%Z as r. remember (q / 60)%Z as q2. remember (q mod 60)%Z as r2.
  clear - A B. lia.
Qed.

Theorem string_to_time_format t : (0 <= t < 4294967296)%Z ->
  string_to_time (format_time t) = Some (Z.to_N t).
Proof.
  intro Ht. unfold format_time.
  assert (Hd : (0 <= t / 86400 < 49711)%Z) by (split; [apply Z.div_pos; lia|apply Z.div_lt_upper_bound; lia]).
  pose proof (Z.mod_pos_bound t 86400 ltac:(lia)) as Hs.
  pose proof (Z.div_mod t 86400 ltac:(lia)) as Hdm.
  remember (t / 86400)%Z as days eqn:Edays. remember (t mod 86400)%Z as sod eqn:Esod. clear Edays Esod.
  destruct (sod_split sod Hs) as (hh & mm & ss & -> & -> & -> & Hh & Hm & Hse & HT).
  pose proof days_checked as C. rewrite forallb_forall in C. specialize (C days (zrange_in 49711 days ltac:(lia))).
  destruct (civil_from_days days) as [[y m] d].
  repeat (apply andb_prop in C; let C' := fresh "C" in destruct C as [C C']).
  apply Z.eqb_eq in C0.
  assert (Hy : (1970 <= y <= 2106)%Z) by (clear - C C5; lia).
  assert (Hmo : (1 <= m <= 12)%Z) by (clear - C4 C3; lia).
  assert (Hd1 : (1 <= d)%Z) by (clear - C2; lia).
  assert (Hd2 : (d <= days_in m y)%Z) by (clear - C1; lia).
  assert (Hd3 : (days_in m y <= 31)%Z).
  { unfold days_in. destruct (m =? 2)%Z; [destruct (is_leap y); lia|].
    destruct ((m =? 4) || (m =? 6) || (m =? 9) || (m =? 11))%Z; lia. }
  destruct (four_digits y Hy) as (y1 & y2 & y3 & y4 & -> & Y1 & Y2 & Y3 & Y4 & Yv).
  destruct (two_digits m ltac:(clear - Hmo; lia)) as (m1 & m2 & -> & M1 & M2 & Mv).
  destruct (two_digits d ltac:(clear - Hd1 Hd2 Hd3; lia)) as (d1 & d2 & -> & D1 & D2 & Dv).
  destruct (two_digits hh ltac:(clear - Hh; lia)) as (h1 & h2 & -> & H1 & H2 & Hv).
  destruct (two_digits mm ltac:(clear - Hm; lia)) as (i1 & i2 & -> & I1 & I2 & Iv).
  destruct (two_digits ss ltac:(clear - Hse; lia)) as (s1 & s2 & -> & S1 & S2 & Sv).
  cbn [app string_to_time forallb].
  rewrite Y1, Y2, Y3, Y4, M1, M2, D1, D2, H1, H2, I1, I2, S1, S2. cbn [andb negb].
  rewrite Yv, Mv, Dv, Hv, Iv, Sv. unfold stt_core.
  replace ((m <? 1) || (12 <? m) || (24 <=? hh) || (60 <=? mm) || (60 <=? ss) || (d <? 1) || (days_in m y <? d))%Z
    with false by (clear - Hmo Hh Hm Hse Hd1 Hd2; lia).
  rewrite C0.
  assert (HT2 : (days * 86400 + hh * 3600 + mm * 60 + ss = t)%Z) by (clear - HT Hdm; lia).
  rewrite HT2.
  f_equal. f_equal. now apply serial_id.
Qed.

Lemma format_time_word_ok t : (0 <= t < 4294967296)%Z -> word_ok (format_time t) = true.
Proof.
  intro Ht. pose proof (string_to_time_format t Ht) as S.
  (* fourteen digits *)
  unfold string_to_time in S.
  destruct (format_time t) as [|y1 [|y2 [|y3 [|y4 [|m1 [|m2 [|d1 [|d2 [|h1 [|h2 [|i1 [|i2 [|s1 [|s2 rest]]]]]]]]]]]]]];
    try discriminate.
  destruct (forallb is_digit [y1; y2; y3; y4; m1; m2; d1; d2; h1; h2; i1; i2; s1; s2]) eqn:E; [|discriminate].
  cbn [negb] in S.
  destruct rest as [|c ds].
  - apply word_ok_ordinary; [discriminate|]. now apply digits_ordinary.
  - (* cannot happen, but a fraction is ordinary too *)
    destruct (((c =? 46) || (c =? 44)) && negb (is_nil ds) && forallb is_digit ds) eqn:F; [|discriminate].
    apply andb_prop in F. destruct F as [F F3]. apply andb_prop in F. destruct F as [F1 F2].
    apply word_ok_ordinary; [discriminate|].
    change (y1 :: y2 :: y3 :: y4 :: m1 :: m2 :: d1 :: d2 :: h1 :: h2 :: i1 :: i2 :: s1 :: s2 :: c :: ds)
      with ([y1; y2; y3; y4; m1; m2; d1; d2; h1; h2; i1; i2; s1; s2] ++ c :: ds).
    rewrite ordinary_app. rewrite (digits_ordinary _ E). cbn [andb forallb].
    rewrite (digits_ordinary _ F3). rewrite andb_true_r.
    apply orb_prop in F1. destruct F1 as [F1|F1]; apply N.eqb_eq in F1; subst c; reflexivity.
Qed.

(* ------------------------------------------------------------------ *)
(* hexadecimal numbers: EUI48, EUI64, NID, L64                         *)
(* ------------------------------------------------------------------ *)
Lemma be_app' a b acc : be (a ++ b) acc = be b (be a acc).
Proof. revert acc. induction a as [|x a IH]; intros acc; cbn; [reflexivity|apply IH]. Qed.
Lemma be_u16' n : n < 65536 -> be (u16 n) 0 = n.
Proof. intro H. unfold u16. cbn [be]. lia. Qed.
Lemma be_u32' n : n < 4294967296 -> be (u32 n) 0 = n.
Proof. intro H. unfold u32. cbn [be]. lia. Qed.
Lemma be_u32_acc' v acc : v < 4294967296 -> be (u32 v) acc = acc * 4294967296 + v.
Proof. intro H. unfold u32. cbn [be]. lia. Qed.
Lemma be_u48' n : n < 281474976710656 -> be (u48 n) 0 = n.
Proof. intro H. unfold u48. rewrite be_app', be_u16' by lia. rewrite be_u32_acc' by lia. lia. Qed.
Lemma be_u64' n : n < 18446744073709551616 -> be (u64 n) 0 = n.
Proof. intro H. unfold u64. rewrite be_app', be_u32' by lia. rewrite be_u32_acc' by lia. lia. Qed.
Lemma wfb_u48 n : wfb (u48 n).
Proof. unfold u48, u16, u32. cbn [app]. repeat constructor; apply N.mod_lt; lia. Qed.
Lemma wfb_u64 n : wfb (u64 n).
Proof. unfold u64, u32. cbn [app]. repeat constructor; apply N.mod_lt; lia. Qed.

Lemma hexval_hexdigit x : x < 16 -> hexval (N_of_ascii (hexdigit x)) = x.
Proof. intro H. unfold hexval. rewrite ascii_N_embedding. now apply hexdigit_val. Qed.
Lemma hexdigits_checked :
  forallb (fun x => is_hexdigit (N_of_ascii (hexdigit x)) && is_hexdigit (upper (N_of_ascii (hexdigit x))))
          [0; 1; 2; 3; 4; 5; 6; 7; 8; 9; 10; 11; 12; 13; 14; 15] = true.
Proof. vm_compute. reflexivity. Qed.
Lemma is_hexdigit_hexdigit x : x < 16 ->
  is_hexdigit (N_of_ascii (hexdigit x)) = true /\ is_hexdigit (upper (N_of_ascii (hexdigit x))) = true.
Proof.
  intro H. pose proof hexdigits_checked as C. rewrite forallb_forall in C.
  assert (Hin : In x [0; 1; 2; 3; 4; 5; 6; 7; 8; 9; 10; 11; 12; 13; 14; 15]).
  { cbn [In]. lia. }
  specialize (C x Hin). now apply andb_prop in C.
Qed.

Lemma hex_bytes_cons b r :
  hex_bytes (b :: r) = N_of_ascii (hexdigit (b / 16)) :: N_of_ascii (hexdigit (b mod 16)) :: hex_bytes r.
Proof. reflexivity. Qed.

Lemma hex_bytes_app a b : hex_bytes (a ++ b) = hex_bytes a ++ hex_bytes b.
Proof. induction a as [|x a IH]; [reflexivity|]. cbn [app]. rewrite !hex_bytes_cons, IH. reflexivity. Qed.

Lemma hex_bytes_hexdigits w : wfb w ->
  forallb is_hexdigit (hex_bytes w) = true /\ forallb is_hexdigit (upper_bytes (hex_bytes w)) = true.
Proof.
  induction w as [|b r IH]; intro H; [split; reflexivity|].
  inversion H as [|? ? Hb Hr]; subst. destruct (IH Hr) as [I1 I2]. rewrite hex_bytes_cons.
  destruct (is_hexdigit_hexdigit (b / 16) ltac:(apply N.div_lt_upper_bound; lia)) as [A1 A2].
  destruct (is_hexdigit_hexdigit (b mod 16) ltac:(apply N.mod_lt; lia)) as [B1 B2].
  unfold upper_bytes. cbn [map forallb]. fold (upper_bytes (hex_bytes r)).
  rewrite A1, A2, B1, B2, I1, I2. split; reflexivity.
Qed.

Lemma hexnum_hex_bytes w : wfb w -> forall acc, hexnum (hex_bytes w) acc = be w acc.
Proof.
  induction w as [|b r IH]; intros H acc; [reflexivity|].
  inversion H as [|? ? Hb Hr]; subst. rewrite hex_bytes_cons. cbn [hexnum be].
  rewrite !hexval_hexdigit by (apply N.div_lt_upper_bound || apply N.mod_lt; lia).
  rewrite IH by exact Hr. f_equal. lia.
Qed.

Lemma hexval_upper c : c < 256 -> hexval (upper c) = hexval c.
Proof. intro H. unfold hexval. now apply unhexdigit_upper. Qed.
Lemma hexnum_upper s : wfb s -> forall acc, hexnum (upper_bytes s) acc = hexnum s acc.
Proof.
  induction s as [|c r IH]; intros H acc; [reflexivity|].
  inversion H as [|? ? Hc Hr]; subst. cbn [upper_bytes map hexnum]. fold (upper_bytes r).
  rewrite hexval_upper by exact Hc. now apply IH.
Qed.
Lemma wfb_hex_bytes w : wfb (hex_bytes w).
Proof.
  induction w as [|b r IH]; [constructor|]. rewrite hex_bytes_cons.
  constructor; [apply N_ascii_bounded|]. constructor; [apply N_ascii_bounded|exact IH].
Qed.

Lemma parse_hex_nonempty s : s <> [] ->
  parse_hex s = if forallb is_hexdigit s then Some (hexnum s 0) else None.
Proof. destruct s; [congruence|reflexivity]. Qed.

Lemma parse_hex_hex_bytes w (up : bool) : wfb w -> w <> [] ->
  parse_hex (if up then upper_bytes (hex_bytes w) else hex_bytes w) = Some (be w 0).
Proof.
  intros H Hne. destruct (hex_bytes_hexdigits w H) as [D1 D2].
  assert (Hn : hex_bytes w <> []) by (destruct w; [congruence|rewrite hex_bytes_cons; discriminate]).
  destruct up.
  - rewrite parse_hex_nonempty.
    + rewrite D2. rewrite hexnum_upper by apply wfb_hex_bytes. now rewrite hexnum_hex_bytes.
    + intro E. unfold upper_bytes in E. apply map_eq_nil in E. contradiction.
  - rewrite parse_hex_nonempty by exact Hn. rewrite D1. now rewrite hexnum_hex_bytes.
Qed.

(* EUI *)
Lemma join_cons2 sep (x y : bytes) r : join_bytes sep (x :: y :: r) = x ++ sep ++ join_bytes sep (y :: r).
Proof. reflexivity. Qed.

Lemma eui_digits_step k a b r :
  eui_digits (S (S k)) (a :: b :: 45 :: r) =
  match eui_digits (S k) r with Some d => Some (a :: b :: d) | None => None end.
Proof. reflexivity. Qed.

Lemma eui_digits_join bs : bs <> [] ->
  eui_digits (length bs) (join_bytes [45] (map (fun b => hex_bytes [b]) bs)) = Some (hex_bytes bs).
Proof.
  induction bs as [|b r IH]; intro H; [congruence|].
  destruct r as [|b2 r2].
  - reflexivity.
  - cbn [map length]. cbn [length map] in IH.
    rewrite (join_cons2 [45]). rewrite (hex_bytes_cons b []). change (hex_bytes []) with (@nil N). cbn [app].
    rewrite eui_digits_step. rewrite IH by discriminate. now rewrite (hex_bytes_cons b).
Qed.

Lemma join_dash_ordinary bs : wfb bs ->
  forallb ordinary (join_bytes [45] (map (fun b => hex_bytes [b]) bs)) = true.
Proof.
  induction bs as [|b r IH]; intro H; [reflexivity|]. inversion H as [|? ? Hb Hr]; subst.
  assert (O1 : forallb ordinary (hex_bytes [b]) = true) by (apply hex_bytes_ordinary; now constructor).
  destruct r as [|b2 r2]; [exact O1|].
  cbn [map]. rewrite (join_cons2 [45]). rewrite !ordinary_app, O1. cbn [map] in IH. rewrite IH by exact Hr. reflexivity.
Qed.

Definition eui_ok (k : nat) (n : N) : Prop :=
  (k = 6%nat /\ n < 281474976710656) \/ (k = 8%nat /\ n < 18446744073709551616).

Lemma eui_roundtrip k n : eui_ok k n ->
  word_ok (eui_to_string k n) = true /\ parse_eui k (eui_to_string k n) = Some n.
Proof.
  intros [[-> H]|[-> H]]; unfold eui_to_string, parse_eui; cbn [Nat.eqb].
  - split.
    + apply word_ok_ordinary; [unfold u48, u16, u32; discriminate|apply join_dash_ordinary, wfb_u48].
    + change 6%nat with (length (u48 n)). rewrite eui_digits_join by (unfold u48, u16; discriminate).
      rewrite (parse_hex_hex_bytes (u48 n) false (wfb_u48 n)) by (unfold u48, u16; discriminate).
      now rewrite be_u48'.
  - split.
    + apply word_ok_ordinary; [unfold u64, u32; discriminate|apply join_dash_ordinary, wfb_u64].
    + change 8%nat with (length (u64 n)). rewrite eui_digits_join by (unfold u64, u32; discriminate).
      rewrite (parse_hex_hex_bytes (u64 n) false (wfb_u64 n)) by (unfold u64, u32; discriminate).
      now rewrite be_u64'.
Qed.

(* NID, L64 *)
Lemma upper_cons58 l : upper_bytes (58 :: l) = 58 :: upper_bytes l.
Proof. reflexivity. Qed.
Lemma upper_ordinary l : forallb ordinary l = true -> forallb ordinary (upper_bytes l) = true.
Proof.
  induction l as [|x l IH]; [reflexivity|]. cbn [forallb upper_bytes map]. fold (upper_bytes l).
  intro O. apply andb_prop in O. destruct O as [O1 O2]. rewrite IH by exact O2. rewrite andb_true_r.
  unfold upper. destruct ((97 <=? x) && (x <=? 122)) eqn:E; [|exact O1].
  unfold ordinary, word_special.
  repeat match goal with |- context [?u =? ?v] => let b := fresh in destruct (N.eqb_spec u v) as [b|b]; [lia|] end.
  reflexivity.
Qed.

Lemma parse_nodeid_groups p0 p1 p2 p3 :
  length p0 = 4%nat -> length p1 = 4%nat -> length p2 = 4%nat -> length p3 = 4%nat ->
  parse_nodeid (p0 ++ 58 :: p1 ++ 58 :: p2 ++ 58 :: p3) = parse_hex (p0 ++ p1 ++ p2 ++ p3).
Proof.
  intros H0 H1 H2 H3.
  destruct p0 as [|a0 [|a1 [|a2 [|a3 [|? ?]]]]]; try discriminate.
  destruct p1 as [|b0 [|b1 [|b2 [|b3 [|? ?]]]]]; try discriminate.
  destruct p2 as [|c0 [|c1 [|c2 [|c3 [|? ?]]]]]; try discriminate.
  destruct p3 as [|d0 [|d1 [|d2 [|d3 [|? ?]]]]]; try discriminate.
  unfold parse_nodeid. cbn [app length nth firstn skipn Nat.ltb Nat.leb]. rewrite N.eqb_refl. reflexivity.
Qed.

Lemma nodeid_roundtrip up n : n < 18446744073709551616 ->
  word_ok (nodeid_to_string up n) = true /\ parse_nodeid (nodeid_to_string up n) = Some n.
Proof.
  intro H. pose proof (wfb_u64 n) as W. pose proof (be_u64' n H) as B.
  unfold nodeid_to_string. unfold u64, u32 in *. cbn [app] in *.
  set (a := (n / 4294967296 / 16777216) mod 256) in *. set (b := (n / 4294967296 / 65536) mod 256) in *.
  set (c := (n / 4294967296 / 256) mod 256) in *. set (d := (n / 4294967296) mod 256) in *.
  set (e := (n mod 4294967296 / 16777216) mod 256) in *. set (f := (n mod 4294967296 / 65536) mod 256) in *.
  set (g := (n mod 4294967296 / 256) mod 256) in *. set (h := (n mod 4294967296) mod 256) in *.
  clearbody a b c d e f g h.
  assert (Wab : wfb [a; b]) by (inversion W as [|? ? ? W1]; inversion W1; subst; repeat constructor; assumption).
  assert (Hx : hex_bytes [a; b] ++ hex_bytes [c; d] ++ hex_bytes [e; f] ++ hex_bytes [g; h] = hex_bytes [a; b; c; d; e; f; g; h])
    by reflexivity.
  assert (L : forall x y, length (hex_bytes [x; y]) = 4%nat) by reflexivity.
  split.
  - apply word_ok_ordinary; [destruct up; discriminate|].
    assert (O : forallb ordinary (hex_bytes [a; b] ++ [58] ++ hex_bytes [c; d] ++ [58] ++ hex_bytes [e; f] ++ [58] ++ hex_bytes [g; h]) = true).
    { assert (Og : forall x y, wfb [x; y] -> forallb ordinary (hex_bytes [x; y]) = true) by (intros; now apply hex_bytes_ordinary).
      inversion W as [|? ? Ha W1]; subst. inversion W1 as [|? ? Hb W2]; subst. inversion W2 as [|? ? Hc W3]; subst.
      inversion W3 as [|? ? Hd W4]; subst. inversion W4 as [|? ? He W5]; subst. inversion W5 as [|? ? Hf W6]; subst.
      inversion W6 as [|? ? Hg W7]; subst. inversion W7 as [|? ? Hh W8]; subst.
      rewrite !ordinary_app. rewrite !Og by (repeat constructor; assumption). reflexivity. }
    destruct up; [|exact O]. now apply upper_ordinary.
  - destruct up.
    + repeat (rewrite ?upper_app, ?upper_cons58).
      rewrite parse_nodeid_groups by (unfold upper_bytes; rewrite map_length; apply L).
      rewrite <- !upper_app, Hx.
      rewrite (parse_hex_hex_bytes [a; b; c; d; e; f; g; h] true W) by discriminate. now rewrite B.
    + rewrite parse_nodeid_groups by apply L. rewrite Hx.
      rewrite (parse_hex_hex_bytes [a; b; c; d; e; f; g; h] false W) by discriminate. now rewrite B.
Qed.

(* ------------------------------------------------------------------ *)
(* B05b: IPv6 text (netip.Addr.AppendTo / netip.parseIPv6)             *)
(* ------------------------------------------------------------------ *)
Definition nibbles : list N := [0; 1; 2; 3; 4; 5; 6; 7; 8; 9; 10; 11; 12; 13; 14; 15].
Lemma hexdig_checked :
  forallb (fun x => is_hexdigit (hexdig x) && (hexval (hexdig x) =? x) && ordinary (hexdig x)) nibbles = true.
Proof. vm_compute. reflexivity. Qed.
Lemma hexdig_ok x : x < 16 ->
  is_hexdigit (hexdig x) = true /\ hexval (hexdig x) = x /\ ordinary (hexdig x) = true.
Proof.
  intro H. pose proof hexdig_checked as C. rewrite forallb_forall in C.
  assert (Hin : In x nibbles) by (unfold nibbles; cbn [In]; lia).
  specialize (C x Hin). apply andb_prop in C. destruct C as [C C3]. apply andb_prop in C. destruct C as [C1 C2].
  apply N.eqb_eq in C2. auto.
Qed.

Definition nonhex_head (rest : bytes) : Prop :=
  match rest with [] => True | c :: _ => is_hexdigit c = false end.

Lemma hexrun_stop rest off acc : nonhex_head rest -> hexrun rest off acc = Some (off, acc, rest).
Proof. destruct rest as [|c r]; [reflexivity|]. cbn. intro H. now rewrite H. Qed.

Lemma hexrun_dig x r off acc : x < 16 -> (off <= 3)%nat ->
  hexrun (hexdig x :: r) off acc = hexrun r (S off) (acc * 16 + x).
Proof.
  intros Hx Ho. destruct (hexdig_ok x Hx) as (A & B & _). cbn [hexrun]. rewrite A, B.
  replace (3 <? off)%nat with false by lia. reflexivity.
Qed.

Lemma hex_word_len g : (1 <= length (hex_word g) <= 4)%nat.
Proof. unfold hex_word. destruct (g <? 16); [cbn; lia|]. destruct (g <? 256); [cbn; lia|]. destruct (g <? 4096); cbn; lia. Qed.

Lemma hexrun_word g rest : g < 65536 -> nonhex_head rest ->
  hexrun (hex_word g ++ rest) 0 0 = Some (length (hex_word g), g, rest).
Proof.
  intros Hg Hr. unfold hex_word.
  destruct (N.ltb_spec g 16) as [H1|H1].
  { cbn [app length]. rewrite hexrun_dig by lia. rewrite hexrun_stop by exact Hr. f_equal. }
  destruct (N.ltb_spec g 256) as [H2|H2].
  { cbn [app length].
    assert (g / 16 < 16) by (apply N.div_lt_upper_bound; lia). assert (g mod 16 < 16) by (apply N.mod_lt; lia).
    rewrite !hexrun_dig by lia. rewrite hexrun_stop by exact Hr. do 3 f_equal.
    pose proof (N.div_mod g 16 ltac:(lia)). lia. }
  destruct (N.ltb_spec g 4096) as [H3|H3].
  { cbn [app length].
    assert (g / 256 < 16) by (apply N.div_lt_upper_bound; lia).
    assert (g / 16 mod 16 < 16) by (apply N.mod_lt; lia). assert (g mod 16 < 16) by (apply N.mod_lt; lia).
    rewrite !hexrun_dig by lia. rewrite hexrun_stop by exact Hr. do 3 f_equal.
    pose proof (N.div_mod g 16 ltac:(lia)) as A. pose proof (N.div_mod (g / 16) 16 ltac:(lia)) as B.
    rewrite N.div_div in B by lia. change (16 * 16) with 256 in B.
    remember (g / 16) as q. remember (g mod 16) as r0. remember (q mod 16) as r1. remember (g / 256) as q2.
    clear - A B. lia. }
  cbn [app length].
  assert (g / 4096 mod 16 < 16) by (apply N.mod_lt; lia). assert (g / 256 mod 16 < 16) by (apply N.mod_lt; lia).
  assert (g / 16 mod 16 < 16) by (apply N.mod_lt; lia). assert (g mod 16 < 16) by (apply N.mod_lt; lia).
  rewrite !hexrun_dig by lia. rewrite hexrun_stop by exact Hr. do 3 f_equal.
  pose proof (N.div_mod g 16 ltac:(lia)) as A. pose proof (N.div_mod (g / 16) 16 ltac:(lia)) as B.
  pose proof (N.div_mod (g / 256) 16 ltac:(lia)) as C.
  rewrite N.div_div in B by lia. change (16 * 16) with 256 in B.
  rewrite N.div_div in C by lia. change (256 * 16) with 4096 in C.
  assert (D : g / 4096 < 16) by (apply N.div_lt_upper_bound; lia).
  rewrite (N.mod_small (g / 4096) 16) by exact D.
  remember (g / 16) as q. remember (g mod 16) as r0. remember (q mod 16) as r1. remember (g / 256) as q2.
  remember (q2 mod 16) as r2. remember (g / 4096) as q3.
  clear - A B C. lia.
Qed.

Definition gok (g : N) : Prop := g < 65536.
Definition gb (g : N) : bytes := [g / 256; g mod 256].
Definition gbytes (gs : list N) : bytes := flat_map gb gs.
Definition jn (gs : list N) : bytes := join_bytes [58] (map hex_word gs).

Lemma hex_word_head g : gok g -> exists c r, hex_word g = c :: r /\ is_hexdigit c = true.
Proof.
  intro Hg. unfold gok in Hg. unfold hex_word.
  destruct (N.ltb_spec g 16); [eexists; eexists; split; [reflexivity|apply hexdig_ok; lia]|].
  destruct (N.ltb_spec g 256); [eexists; eexists; split; [reflexivity|apply hexdig_ok, N.div_lt_upper_bound; lia]|].
  destruct (N.ltb_spec g 4096); [eexists; eexists; split; [reflexivity|apply hexdig_ok, N.div_lt_upper_bound; lia]|].
  eexists; eexists; split; [reflexivity|apply hexdig_ok, N.mod_lt; lia].
Qed.
Lemma jn_cons2 g g2 r : jn (g :: g2 :: r) = hex_word g ++ 58 :: jn (g2 :: r).
Proof. reflexivity. Qed.
Lemma jn_head gs : gs <> [] -> Forall gok gs -> exists c r, jn gs = c :: r /\ is_hexdigit c = true.
Proof.
  destruct gs as [|g [|g2 r]]; [congruence| |]; intros _ H; inversion H as [|? ? Hg _]; subst;
    destruct (hex_word_head g Hg) as (c & r0 & E & Hc).
  - exists c, r0. split; [exact E|exact Hc].
  - rewrite jn_cons2, E. exists c, (r0 ++ 58 :: jn (g2 :: r)). split; [reflexivity|exact Hc].
Qed.
Lemma hexdigit_not_sep c : is_hexdigit c = true -> (c =? 58) = false /\ (c =? 46) = false /\ (c =? 37) = false.
Proof. unfold is_hexdigit, is_digit. intro H. lia. Qed.

Lemma go_word f g rest ell acc : (length acc < 16)%nat -> gok g -> nonhex_head rest ->
  ip6_parse_go (S f) (hex_word g ++ rest) ell acc =
  let acc' := acc ++ gb g in
  match rest with
  | [] => Some (acc', ell)
  | c :: r1 =>
    if c =? 46 then
      if negb (is_some ell) && negb (length acc =? 12)%nat then None
      else if (16 <? length acc + 4)%nat then None
      else match parse_ip4 (hex_word g ++ rest) with Some q => Some (acc ++ q, ell) | None => None end
    else if negb (c =? 58) then None
    else match r1 with
         | [] => None
         | c2 :: r2 =>
           if c2 =? 58 then
             if is_some ell then None
             else if is_nil r2 then Some (acc', Some (length acc'))
             else ip6_parse_go f r2 (Some (length acc')) acc'
           else ip6_parse_go f r1 ell acc'
         end
  end.
Proof.
  intros Ha Hg Hr. cbn [ip6_parse_go]. replace (16 <=? length acc)%nat with false by lia.
  rewrite hexrun_word by assumption.
  pose proof (hex_word_len g). replace (length (hex_word g) =? 0)%nat with false by lia. reflexivity.
Qed.

Lemma go_last f g ell acc : (length acc < 16)%nat -> gok g ->
  ip6_parse_go (S f) (hex_word g) ell acc = Some (acc ++ gb g, ell).
Proof.
  intros Ha Hg. rewrite <- (app_nil_r (hex_word g)) at 1. rewrite go_word; [reflexivity|assumption|assumption|exact I].
Qed.
Lemma go_colon f g c2 r2 ell acc : (length acc < 16)%nat -> gok g -> is_hexdigit c2 = true ->
  ip6_parse_go (S f) (hex_word g ++ 58 :: c2 :: r2) ell acc = ip6_parse_go f (c2 :: r2) ell (acc ++ gb g).
Proof.
  intros Ha Hg Hc. rewrite go_word; [|assumption|assumption|reflexivity].
  destruct (hexdigit_not_sep c2 Hc) as (E & _ & _). cbn zeta. cbn [N.eqb Pos.eqb negb]. rewrite E. reflexivity.
Qed.
Lemma go_ell_end f g acc : (length acc < 16)%nat -> gok g ->
  ip6_parse_go (S f) (hex_word g ++ [58; 58]) None acc = Some (acc ++ gb g, Some (length (acc ++ gb g))).
Proof. intros Ha Hg. rewrite go_word; [reflexivity|assumption|assumption|reflexivity]. Qed.
Lemma go_ell f g c3 r3 acc : (length acc < 16)%nat -> gok g ->
  ip6_parse_go (S f) (hex_word g ++ 58 :: 58 :: c3 :: r3) None acc =
  ip6_parse_go f (c3 :: r3) (Some (length (acc ++ gb g))) (acc ++ gb g).
Proof. intros Ha Hg. rewrite go_word; [reflexivity|assumption|assumption|reflexivity]. Qed.

Lemma gbytes_len gs : length (gbytes gs) = (2 * length gs)%nat.
Proof.
  induction gs as [|g r IH]; [reflexivity|]. change (gbytes (g :: r)) with (gb g ++ gbytes r).
  rewrite app_length, IH. cbn [gb length]. lia.
Qed.

Lemma go_groups_end gs : forall f acc ell, gs <> [] -> Forall gok gs ->
  (length acc + 2 * length gs <= 16)%nat -> (length gs <= f)%nat ->
  ip6_parse_go f (jn gs) ell acc = Some (acc ++ gbytes gs, ell).
Proof.
  induction gs as [|g r IH]; intros f acc ell Hne H Hl Hf; [congruence|].
  inversion H as [|? ? Hg Hr]; subst. cbn [length] in Hl, Hf. destruct f as [|f]; [lia|].
  destruct r as [|g2 r2].
  - cbn [gbytes flat_map]. rewrite app_nil_r. apply go_last; [lia|exact Hg].
  - rewrite jn_cons2. destruct (jn_head (g2 :: r2) ltac:(discriminate) Hr) as (c & r0 & E & Hc). rewrite E.
    rewrite go_colon by (assumption || lia). rewrite <- E.
    rewrite IH; [|discriminate|exact Hr| |lia].
    + cbn [gbytes flat_map]. now rewrite <- app_assoc.
    + rewrite app_length. cbn [gb length]. cbn [length] in Hl. lia.
Qed.

Lemma go_groups_ell A : forall B f acc, A <> [] -> Forall gok A -> Forall gok B ->
  (length acc + 2 * (length A + length B) < 16)%nat -> (length A + length B <= f)%nat ->
  ip6_parse_go f (jn A ++ 58 :: 58 :: jn B) None acc =
  Some (acc ++ gbytes A ++ gbytes B, Some (length (acc ++ gbytes A))).
Proof.
  induction A as [|g r IH]; intros B f acc Hne HA HB Hl Hf; [congruence|].
  inversion HA as [|? ? Hg Hr]; subst. cbn [length] in Hl, Hf. destruct f as [|f]; [lia|].
  destruct r as [|g2 r2].
  - change (jn [g]) with (hex_word g). cbn [gbytes flat_map]. rewrite app_nil_r.
    destruct B as [|b B'].
    + change (jn []) with (@nil N). rewrite go_ell_end by (assumption || lia). cbn [gbytes flat_map]. now rewrite app_nil_r.
    + destruct (jn_head (b :: B') ltac:(discriminate) HB) as (c & r0 & E & Hc). rewrite E.
      rewrite go_ell by (assumption || lia). rewrite <- E.
      rewrite go_groups_end; [|discriminate|exact HB| |cbn [length] in *; lia].
      * now rewrite <- app_assoc.
      * rewrite app_length. cbn [gb length] in *. lia.
  - rewrite jn_cons2. rewrite <- app_assoc. cbn [app].
    destruct (jn_head (g2 :: r2) ltac:(discriminate) Hr) as (c & r0 & E & Hc). rewrite E. cbn [app].
    rewrite go_colon by (assumption || lia).
    change (c :: r0 ++ 58 :: 58 :: jn B) with ((c :: r0) ++ 58 :: 58 :: jn B). rewrite <- E.
    rewrite IH; [|discriminate|exact Hr|exact HB| |cbn [length] in *; lia].
    + cbn [gbytes flat_map]. rewrite <- !app_assoc. reflexivity.
    + rewrite app_length. cbn [gb length] in *. lia.
Qed.

Lemma lead_false c r : is_hexdigit c = true ->
  match c :: r with c1 :: c2 :: _ => (c1 =? 58) && (c2 =? 58) | _ => false end = false.
Proof. intro H. destruct (hexdigit_not_sep c H) as (E & _). destruct r; [reflexivity|]. now rewrite E. Qed.

Theorem parse_full gs : length gs = 8%nat -> Forall gok gs -> parse_ip6 (jn gs) = Some (gbytes gs).
Proof.
  intros Hl H. assert (Hne : gs <> []) by (destruct gs; [discriminate|discriminate]).
  destruct (jn_head gs Hne H) as (c & r & E & Hc). unfold parse_ip6. rewrite E, (lead_false c r Hc). rewrite <- E.
  cbn [andb]. rewrite go_groups_end by (assumption || cbn [length]; lia). cbn [app].
  rewrite gbytes_len, Hl. reflexivity.
Qed.

Theorem parse_shape A B : A <> [] -> Forall gok A -> Forall gok B -> (length A + length B < 8)%nat ->
  parse_ip6 (jn A ++ 58 :: 58 :: jn B) =
  Some (gbytes A ++ repeat 0 (16 - 2 * length A - 2 * length B) ++ gbytes B).
Proof.
  intros Hne HA HB Hl.
  destruct (jn_head A Hne HA) as (c & r & E & Hc). unfold parse_ip6. rewrite E. cbn [app].
  rewrite (lead_false c _ Hc). change (c :: r ++ 58 :: 58 :: jn B) with ((c :: r) ++ 58 :: 58 :: jn B). rewrite <- E.
  cbn [andb]. rewrite go_groups_ell by (assumption || cbn [length]; lia). cbn [app].
  rewrite app_length, !gbytes_len.
  replace (2 * length A + 2 * length B <? 16)%nat with true by lia.
  rewrite <- (gbytes_len A).
  rewrite firstn_app, Nat.sub_diag, firstn_all, firstn_O, app_nil_r.
  rewrite skipn_app, Nat.sub_diag, skipn_all, skipn_O. cbn [app].
  rewrite (gbytes_len A). do 4 f_equal. lia.
Qed.

Theorem parse_shape0 B : Forall gok B -> (length B < 8)%nat ->
  parse_ip6 (58 :: 58 :: jn B) = Some (repeat 0 (16 - 2 * length B) ++ gbytes B).
Proof.
  intros HB Hl. unfold parse_ip6. change (58 =? 58) with true. cbn [andb skipn].
  destruct B as [|b B'].
  - reflexivity.
  - destruct (jn_head (b :: B') ltac:(discriminate) HB) as (c & r & E & Hc). rewrite E. cbn [is_nil]. rewrite <- E.
    rewrite go_groups_end by (assumption || discriminate || cbn [length] in *; lia). cbn [app].
    rewrite gbytes_len. replace (2 * length (b :: B') <? 16)%nat with true by lia.
    cbn [firstn skipn app]. reflexivity.
Qed.

(* ---- the printer ---- *)
Fixpoint zrunb (p : list bool) : nat := match p with true :: r => S (zrunb r) | _ => O end.
Fixpoint best_runb (p : list bool) (i zs ze : nat) : nat * nat :=
  match p with
  | [] => (zs, ze)
  | _ :: r => let l := zrunb p in
              if (2 <=? l)%nat && (ze - zs <? l)%nat then best_runb r (S i) i (i + l) else best_runb r (S i) zs ze
  end.
Definition zpat (gs : list N) : list bool := map (fun g => g =? 0) gs.
Lemma zrun_b gs : zrun gs = zrunb (zpat gs).
Proof. induction gs as [|g r IH]; [reflexivity|]. cbn [zrun zpat map zrunb]. fold (zpat r). destruct (g =? 0); [now rewrite IH|reflexivity]. Qed.
Lemma best_run_b gs : forall i zs ze, best_run gs i zs ze = best_runb (zpat gs) i zs ze.
Proof.
  induction gs as [|g r IH]; intros i zs ze; [reflexivity|].
  cbn [best_run zpat map best_runb]. fold (zpat r). change ((g =? 0) :: zpat r) with (zpat (g :: r)).
  rewrite <- zrun_b. destruct ((2 <=? zrun (g :: r))%nat && (ze - zs <? zrun (g :: r))%nat); apply IH.
Qed.
Fixpoint allb (n : nat) : list (list bool) :=
  match n with O => [[]] | S k => map (cons true) (allb k) ++ map (cons false) (allb k) end.
Lemma allb_in n : forall p, length p = n -> In p (allb n).
Proof.
  induction n as [|k IH]; intros p H.
  - destruct p; [now left|discriminate].
  - destruct p as [|b r]; [discriminate|]. cbn [allb]. apply in_or_app. injection H as H.
    destruct b; [left|right]; apply in_map; now apply IH.
Qed.
Definition run_check (p : list bool) : bool :=
  let '(zs, ze) := best_runb p 0 255 255 in
  ((zs =? 255) && (ze =? 255))%nat ||
  ((zs <? ze) && (ze <=? 8) &&
   forallb (fun j => negb ((zs <=? j) && (j <? ze)) || nth j p true) (seq 0 8))%nat.
Lemma runs_checked : forallb run_check (allb 8) = true.
Proof. vm_compute. reflexivity. Qed.

Lemma best_run_spec gs : length gs = 8%nat ->
  let '(zs, ze) := best_run gs 0 255 255 in
  (zs = 255 /\ ze = 255)%nat \/
  ((zs < ze <= 8)%nat /\ forall j, (zs <= j < ze)%nat -> nth j gs 0 = 0).
Proof.
  intro Hl. rewrite best_run_b. pose proof runs_checked as C. rewrite forallb_forall in C.
  assert (Hz : length (zpat gs) = 8%nat) by (unfold zpat; now rewrite map_length).
  specialize (C (zpat gs) (allb_in 8 _ Hz)).
  unfold run_check in C. destruct (best_runb (zpat gs) 0 255 255) as [zs ze].
  apply orb_prop in C. destruct C as [C|C].
  - left. lia.
  - right. apply andb_prop in C. destruct C as [C C3]. split; [lia|].
    intros j Hj. rewrite forallb_forall in C3. specialize (C3 j ltac:(apply in_seq; lia)).
    replace ((zs <=? j)%nat && (j <? ze)%nat) with true in C3 by lia. cbn [negb orb] in C3.
    unfold zpat in C3. change true with ((fun g => g =? 0) 0) in C3 at 1. rewrite map_nth in C3.
    now apply N.eqb_eq in C3.
Qed.

Lemma hex_word_all (P : N -> bool) g : (forall x, x < 16 -> P (hexdig x) = true) -> gok g ->
  forallb P (hex_word g) = true.
Proof.
  intros HP Hg. unfold gok in Hg. unfold hex_word.
  destruct (N.ltb_spec g 16); [cbn [forallb]; rewrite HP by lia; reflexivity|].
  destruct (N.ltb_spec g 256).
  { cbn [forallb]. rewrite !HP by (apply N.div_lt_upper_bound || apply N.mod_lt; lia). reflexivity. }
  destruct (N.ltb_spec g 4096).
  { cbn [forallb]. rewrite !HP by (apply N.div_lt_upper_bound || apply N.mod_lt; lia). reflexivity. }
  cbn [forallb]. rewrite !HP by (apply N.mod_lt; lia). reflexivity.
Qed.
Lemma hex_word_ordinary g : gok g -> forallb ordinary (hex_word g) = true.
Proof. apply hex_word_all. intros x Hx. apply hexdig_ok, Hx. Qed.
Definition nosep (c : N) : bool := negb ((c =? 46) || (c =? 58) || (c =? 37)).
Lemma hex_word_nosep g : gok g -> forallb nosep (hex_word g) = true.
Proof.
  apply hex_word_all. intros x Hx. destruct (hexdig_ok x Hx) as (H & _).
  destruct (hexdigit_not_sep _ H) as (A & B & C). unfold nosep. now rewrite A, B, C.
Qed.
Lemma first_sep_skip ds r : forallb nosep ds = true -> first_sep (ds ++ r) = first_sep r.
Proof.
  induction ds as [|d ds IH]; intro H; [reflexivity|]. cbn [forallb] in H. apply andb_prop in H. destruct H as [Hd Hr].
  cbn [app first_sep]. unfold nosep in Hd. apply negb_true_iff in Hd. rewrite Hd. now apply IH.
Qed.
Lemma first_sep_jn A rest : Forall gok A -> first_sep (jn A ++ 58 :: rest) = 58.
Proof.
  intro H. destruct A as [|a [|a2 r]].
  - reflexivity.
  - inversion H; subst. change (jn [a]) with (hex_word a). rewrite first_sep_skip by now apply hex_word_nosep. reflexivity.
  - inversion H; subst. rewrite jn_cons2, <- app_assoc. rewrite first_sep_skip by now apply hex_word_nosep. reflexivity.
Qed.
Lemma jn_ordinary gs : Forall gok gs -> forallb ordinary (jn gs) = true.
Proof.
  induction gs as [|g r IH]; intro H; [reflexivity|]. inversion H as [|? ? Hg Hr]; subst.
  destruct r as [|g2 r2]; [now apply hex_word_ordinary|].
  rewrite jn_cons2, ordinary_app, hex_word_ordinary by exact Hg. cbn [forallb andb]. rewrite IH by exact Hr. reflexivity.
Qed.

Theorem parse_shape_any A B : Forall gok A -> Forall gok B -> (length A + length B < 8)%nat ->
  parse_ip6 (jn A ++ 58 :: 58 :: jn B) =
  Some (gbytes A ++ repeat 0 (16 - 2 * length A - 2 * length B) ++ gbytes B).
Proof.
  intros HA HB Hl. destruct A as [|a A'].
  - change (jn [] ++ 58 :: 58 :: jn B) with (58 :: 58 :: jn B). rewrite parse_shape0 by (assumption || cbn [length] in Hl; lia).
    reflexivity.
  - apply parse_shape; [discriminate|assumption|assumption|exact Hl].
Qed.

Definition ip6_text (gs : list N) : bytes := let '(zs, ze) := best_run gs 0 255 255 in ip6_go 9 0 gs zs ze.

Section Shape.
Variables g0 g1 g2 g3 g4 g5 g6 g7 : N.
Let gs := [g0; g1; g2; g3; g4; g5; g6; g7].
Lemma ip6_go_none : ip6_go 9 0 gs 255 255 = jn gs.
Proof. unfold gs. cbn [ip6_go Nat.leb Nat.eqb Nat.ltb nth jn map join_bytes app]. rewrite app_nil_r. reflexivity. Qed.
Lemma ip6_go_shape zs ze : (zs < ze <= 8)%nat ->
  ip6_go 9 0 gs zs ze = jn (firstn zs gs) ++ 58 :: 58 :: jn (skipn ze gs).
Proof.
  intro H. unfold gs.
  destruct zs as [|[|[|[|[|[|[|[|zs]]]]]]]]; [| | | | | | | |lia];
  destruct ze as [|[|[|[|[|[|[|[|[|ze]]]]]]]]]; try lia;
    cbn [ip6_go Nat.leb Nat.eqb Nat.ltb nth jn map join_bytes app firstn skipn];
    repeat (first [rewrite <- app_assoc | rewrite app_nil_r | progress (cbn [app])]); reflexivity.
Qed.
End Shape.

Lemma Forall_firstn' {A} (P : A -> Prop) l : forall n, Forall P l -> Forall P (firstn n l).
Proof. induction l as [|x l IH]; intros n H; destruct n; cbn; try constructor; inversion H; subst; auto. Qed.
Lemma Forall_skipn' {A} (P : A -> Prop) l : forall n, Forall P l -> Forall P (skipn n l).
Proof. induction l as [|x l IH]; intros n H; destruct n; cbn; auto. inversion H; subst; auto. Qed.
Lemma word_ok_text t : t <> [] -> forallb ordinary t = true -> word_ok t = true.
Proof. apply word_ok_ordinary. Qed.

Theorem ip6_text_roundtrip gs : length gs = 8%nat -> Forall gok gs ->
  parse_ip6 (ip6_text gs) = Some (gbytes gs) /\ forallb ordinary (ip6_text gs) = true /\
  first_sep (ip6_text gs) = 58.
Proof.
  intros Hl H. pose proof (best_run_spec gs Hl) as S. unfold ip6_text.
  destruct gs as [|g0 [|g1 [|g2 [|g3 [|g4 [|g5 [|g6 [|g7 [|? ?]]]]]]]]]; try discriminate.
  destruct (best_run [g0; g1; g2; g3; g4; g5; g6; g7] 0 255 255) as [zs ze].
  destruct S as [[-> ->]|[Hr Hz]].
  - rewrite ip6_go_none. split; [now apply parse_full|]. split; [now apply jn_ordinary|].
    inversion H as [|? ? G0 H1]; subst. rewrite jn_cons2. rewrite first_sep_skip by now apply hex_word_nosep. reflexivity.
  - rewrite ip6_go_shape by exact Hr.
    assert (HA : Forall gok (firstn zs [g0; g1; g2; g3; g4; g5; g6; g7])) by now apply Forall_firstn'.
    assert (HB : Forall gok (skipn ze [g0; g1; g2; g3; g4; g5; g6; g7])) by now apply Forall_skipn'.
    split; [|split].
    + pose proof (Hz 0%nat) as Z0. pose proof (Hz 1%nat) as Z1. pose proof (Hz 2%nat) as Z2. pose proof (Hz 3%nat) as Z3.
      pose proof (Hz 4%nat) as Z4. pose proof (Hz 5%nat) as Z5. pose proof (Hz 6%nat) as Z6. pose proof (Hz 7%nat) as Z7.
      cbn [nth] in Z0, Z1, Z2, Z3, Z4, Z5, Z6, Z7. clear Hz.
      rewrite parse_shape_any; [|exact HA|exact HB|].
      2:{ rewrite firstn_length, skipn_length. cbn [length]. lia. }
      clear HA HB H.
      destruct zs as [|[|[|[|[|[|[|[|zs]]]]]]]]; [| | | | | | | |lia];
      destruct ze as [|[|[|[|[|[|[|[|[|ze]]]]]]]]]; try lia;
        repeat match goal with
               | Z : (_ <= _ < _)%nat -> _ = 0 |- _ => first [specialize (Z ltac:(lia)); subst | clear Z]
               end;
        reflexivity.
    + rewrite ordinary_app. rewrite jn_ordinary by exact HA. cbn [forallb andb].
      change (ordinary 58) with true. cbn [andb]. now apply jn_ordinary.
    + now apply first_sep_jn.
Qed.

Lemma gb_pair hi lo : hi < 256 -> lo < 256 -> gb (hi * 256 + lo) = [hi; lo].
Proof.
  intros Hh Hl. unfold gb. f_equal; [|f_equal].
  - symmetry. apply N.div_unique with lo; lia.
  - symmetry. apply N.mod_unique with hi; lia.
Qed.
Lemma groups16_ok a : length a = 16%nat -> wfb a ->
  length (groups16 a) = 8%nat /\ Forall gok (groups16 a) /\ gbytes (groups16 a) = a.
Proof.
  intros Hl Hw.
  do 16 (destruct a as [|?b a]; [discriminate|]). destruct a; [|discriminate].
  unfold wfb in Hw. repeat match goal with H : Forall _ (_ :: _) |- _ => inversion H; subst; clear H end.
  cbn [groups16]. split; [reflexivity|]. split.
  - repeat constructor; unfold gok; lia.
  - cbn [gbytes flat_map]. rewrite !gb_pair by assumption. reflexivity.
Qed.

Theorem present_ip6_roundtrip a : length a = 16%nat -> wfb a ->
  parse_ip6 (present_ip6 a) = Some a /\ word_ok (present_ip6 a) = true /\ first_sep (present_ip6 a) = 58.
Proof.
  intros Hl Hw. destruct (groups16_ok a Hl Hw) as (L & G & E).
  change (present_ip6 a) with (ip6_text (groups16 a)).
  destruct (ip6_text_roundtrip (groups16 a) L G) as (P & O & F). rewrite E in P.
  split; [exact P|]. split; [|exact F].
  apply word_ok_ordinary; [|exact O]. intro Hn. rewrite Hn in F. discriminate.
Qed.

(* ---- AAAA.String of an IPv4-mapped address: "::ffff:" and the dotted quad ---- *)
Lemma go_step f s ell acc off v rest : (length acc < 16)%nat -> hexrun s 0 0 = Some (off, v, rest) -> off <> O ->
  ip6_parse_go (S f) s ell acc =
  let acc' := acc ++ [v / 256; v mod 256] in
  match rest with
  | [] => Some (acc', ell)
  | c :: r1 =>
    if c =? 46 then
      if negb (is_some ell) && negb (length acc =? 12)%nat then None
      else if (16 <? length acc + 4)%nat then None
      else match parse_ip4 s with Some q => Some (acc ++ q, ell) | None => None end
    else if negb (c =? 58) then None
    else match r1 with
         | [] => None
         | c2 :: r2 =>
           if c2 =? 58 then
             if is_some ell then None
             else if is_nil r2 then Some (acc', Some (length acc'))
             else ip6_parse_go f r2 (Some (length acc')) acc'
           else ip6_parse_go f r1 ell acc'
         end
  end.
Proof.
  intros Ha Hh Ho. cbn [ip6_parse_go]. replace (16 <=? length acc)%nat with false by lia. rewrite Hh.
  destruct off; [congruence|]. reflexivity.
Qed.

Definition dec_check (q : N) : bool :=
  let ds := dec_bytes q in forallb is_digit ds && (1 <=? length ds)%nat && (length ds <=? 3)%nat.
Lemma dec_checked : forallb dec_check (map N.of_nat (seq 0 256)) = true.
Proof. vm_compute. reflexivity. Qed.
Lemma dec_octet q : q < 256 ->
  forallb is_digit (dec_bytes q) = true /\ (1 <= length (dec_bytes q) <= 3)%nat.
Proof.
  intro H. pose proof dec_checked as C. rewrite forallb_forall in C.
  assert (Hin : In q (map N.of_nat (seq 0 256))).
  { apply in_map_iff. exists (N.to_nat q). split; [lia|apply in_seq; lia]. }
  specialize (C q Hin). unfold dec_check in C. cbn zeta in C.
  apply andb_prop in C. destruct C as [C C3]. apply andb_prop in C. destruct C as [C1 C2]. split; [exact C1|lia].
Qed.
Lemma hexrun_digits ds : forall rest off acc, forallb is_digit ds = true -> (off + length ds <= 4)%nat ->
  nonhex_head rest -> exists v, hexrun (ds ++ rest) off acc = Some ((off + length ds)%nat, v, rest).
Proof.
  induction ds as [|d ds IH]; intros rest off acc Hd Hl Hr.
  - exists acc. cbn [app length]. rewrite Nat.add_0_r. now apply hexrun_stop.
  - cbn [forallb] in Hd. apply andb_prop in Hd. destruct Hd as [Hd1 Hd2]. cbn [app hexrun length] in *.
    assert (Hx : is_hexdigit d = true) by (unfold is_hexdigit; now rewrite Hd1).
    rewrite Hx. replace (3 <? off)%nat with false by lia.
    destruct (IH rest (S off) (acc * 16 + hexval d) Hd2 ltac:(lia) Hr) as (v & E). exists v. rewrite E.
    do 3 f_equal. lia.
Qed.

Theorem aaaa_v4mapped_roundtrip q : length q = 4%nat -> wfb q ->
  parse_ip6 (b_v4in6 ++ present_ip4 q) = Some (v4mapped q) /\ word_ok (b_v4in6 ++ present_ip4 q) = true.
Proof.
  intros Hl Hw. split.
  - destruct q as [|q0 [|q1 [|q2 [|q3 [|? ?]]]]]; try discriminate.
    assert (H0 : q0 < 256) by (inversion Hw; assumption).
    unfold parse_ip6, b_v4in6. cbn [app]. change (58 =? 58) with true. cbn [andb skipn is_nil].
    change [102; 102; 102; 102] with (hex_word 65535).
    change (102 :: 102 :: 102 :: 102 :: 58 :: present_ip4 [q0; q1; q2; q3])
      with (hex_word 65535 ++ 58 :: present_ip4 [q0; q1; q2; q3]).
    destruct (dec_octet q0 H0) as (D1 & D2).
    set (T := join_bytes [46] (map dec_bytes [q1; q2; q3])).
    assert (E : present_ip4 [q0; q1; q2; q3] = dec_bytes q0 ++ 46 :: T) by reflexivity.
    destruct (dec_bytes q0) as [|c2 r2] eqn:Ed; [cbn in D2; lia|].
    assert (Hc2 : is_hexdigit c2 = true).
    { cbn [forallb] in D1. apply andb_prop in D1. unfold is_hexdigit. now rewrite (proj1 D1). }
    rewrite E. cbn [app]. rewrite go_colon by (cbn [length]; lia || reflexivity || exact Hc2).
    change (c2 :: r2 ++ 46 :: T) with ((c2 :: r2) ++ 46 :: T).
    destruct (hexrun_digits (c2 :: r2) (46 :: T) 0 0 D1 ltac:(cbn [length] in *; lia) eq_refl) as (v & Hv).
    assert (Hlen : (length ([] ++ gb 65535) < 16)%nat) by (cbn; lia).
    assert (Hoff : (0 + length (c2 :: r2))%nat <> O) by (cbn [length]; lia).
    rewrite (go_step _ _ _ _ _ _ _ Hlen Hv Hoff).
    cbn zeta. change (46 =? 46) with true. cbn [is_some negb andb app length gb].
    change (c2 :: r2 ++ 46 :: T) with ((c2 :: r2) ++ 46 :: T). rewrite <- E.
    rewrite parse_ip4_present by assumption. reflexivity.
  - destruct q as [|q0 [|q1 [|q2 [|q3 [|? ?]]]]]; try discriminate.
    apply word_ok_ordinary; [discriminate|]. rewrite ordinary_app.
    replace (forallb ordinary b_v4in6) with true by reflexivity. cbn [andb].
    unfold present_ip4. cbn [map join_bytes]. rewrite !ordinary_app. cbn [forallb].
    rewrite !(digits_ordinary _ (dec_bytes_digits _)). reflexivity.
Qed.
