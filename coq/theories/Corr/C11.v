(* Corr/C11.v — case runner for the TSIG model (projected observables in the
   textual form harness/c11 prints them). *)
From Dns Require Import Model.Tsig.
Open Scope N_scope.

(* ---------- small string helpers ---------- *)
(* linear in the length of [s] (the HMAC table of a message with hundreds of
   records is several thousand characters): the current field is a difference list *)
Fixpoint split_aux (sep : ascii) (s : string) (cur : string -> string) : list string :=
  match s with
  | EmptyString => [cur EmptyString]
  | String c r =>
    if Ascii.eqb c sep then cur EmptyString :: split_aux sep r (fun x => x)
    else split_aux sep r (fun x => cur (String c x))
  end.
Definition split_str (sep : ascii) (s : string) : list string :=
  match s with EmptyString => [] | _ => split_aux sep s (fun x => x) end.

(* ---------- instances of the Section variables ---------- *)
(* RDATA decoders of the record types the harness uses in model cases:
   A, NS/CNAME/PTR, MX, TXT and the private-use range (RFC 3597 form). *)
Fixpoint txt_loop (fuel : nat) (m : bytes) (off : N) : res N :=
  match fuel with
  | O => OutOfFuel
  | S f =>
    if lenN m <=? off then Ok off else
    let l := nthN m off 0 in
    if lenN m <? off + 1 + l then Err "overflow" else txt_loop f m (off + 1 + l)
  end.
(* k consecutive unpackUint32, each followed by the generated
   if-off-equals-len-msg-return exit (SOA serial .. minttl) *)
Fixpoint u32s_loop (k : nat) (m : bytes) (off : N) : res N :=
  match k with
  | O => Ok off
  | S k' => do (_, o) <- rd 4 m off; if o =? lenN m then Ok o else u32s_loop k' m o
  end.
Definition rdata_inst (ty : N) (m : bytes) (off : N) : res N :=
  if ty =? 1 then (if lenN m <? off + 4 then Err "overflow" else Ok (off + 4))
  else if (ty =? 2) || (ty =? 5) || (ty =? 12) then do (_, o) <- unpack_name m off; Ok o
  else if ty =? 6 then
    (* SOA (the envelopes of a zone transfer carry it): Ns, Mbox, five uint32 *)
    do (_, o) <- unpack_name m off;
    if o =? lenN m then Ok o else
    do (_, o) <- unpack_name m o;
    if o =? lenN m then Ok o else u32s_loop 5 m o
  else if ty =? 15 then
    do (_, o) <- rd 2 m off;
    if o =? lenN m then Ok o else do (_, o) <- unpack_name m o; Ok o
  else if ty =? 16 then txt_loop (S (length m)) m off
  else if (65280 <=? ty) && (ty <=? 65534) then Ok (lenN m)
  else Err "unmodelled".

(* uncompressed wire name -> labels *)
Definition labels_of (w : bytes) : list label :=
  match unpack_name w 0 with Ok (ls, _) => ls | _ => [] end.

(* key store: star:secrethex for the single-secret provider, else a comma list of
   namewirehex:secrethex or namewirehex:bad *)
Definition key_inst (desc : string) (name : list label) : res bytes :=
  let find :=
    fix find (es : list string) : res bytes :=
      match es with
      | [] => Err "secret"
      | e :: r =>
        match split_str ":" e with
        | [n; s] =>
          if String.eqb n "star" || bytes_eqb (unhex n) (wire_name name) then
            (if String.eqb s "bad" then Err "b64" else Ok (unhex s))
          else find r
        | _ => find r
        end
      end in
  find (split_str "," desc).

(* HMAC oracle: a table algid:secrethex:datahex:machex computed by the harness
   with crypto/hmac; anything else yields an octet string no MAC equals *)
Definition hmac_inst (desc : string) (a : halg) (k d : bytes) : bytes :=
  let find :=
    fix find (es : list string) : bytes :=
      match es with
      | [] => [238; 238]
      | e :: r =>
        match split_str ":" e with
        | [ai; ks; ds; ms] =>
          if (undec ai =? halg_id a) && bytes_eqb (unhex ks) k && bytes_eqb (unhex ds) d
          then unhex ms else find r
        | _ => find r
        end
      end in
  find (split_str "," desc).

(* ---------- rendering ---------- *)
Definition show_tsig (t : tsig) : string :=
  join "|" [ hex (wire_name (k_name t)); dec (k_class t); dec (k_ttl t); hex (wire_name (k_alg t));
             dec (k_time t); dec (k_fudge t); dec (t_macsize (k_rd t)); hex (k_mac t);
             dec (k_origid t); dec (k_error t); dec (k_otherlen t); hex (k_other t) ].

(* twelve consecutive arguments starting at i *)
Definition tsig_args (args : list string) (i : nat) : tsig :=
  Build_tsig (labels_of (unhex (arg args i))) (undec (arg args (i + 1))) (undec (arg args (i + 2)))
    (Build_tsigrd (labels_of (unhex (arg args (i + 3)))) (undec (arg args (i + 4)))
       (undec (arg args (i + 5))) (undec (arg args (i + 6))) (unhex (arg args (i + 7)))
       (undec (arg args (i + 8))) (undec (arg args (i + 9))) (undec (arg args (i + 10)))
       (unhex (arg args (i + 11)))).

Definition boolarg (s : string) : bool := String.eqb s "true".
Definition show_unit (_ : unit) : string := "".

Definition run (fn : string) (args : list string) : string :=
  if String.eqb fn "name" then
    show_res (fun p : list label * N => hex (wire_name (fst p)) +++ "," +++ dec (snd p))
             (unpack_name (unhex (arg args 0)) (undec (arg args 1)))
  else if String.eqb fn "strip" then
    show_res (fun p : bytes * tsig * bool =>
                hex (fst (fst p)) +++ ";" +++ show_tsig (snd (fst p)) +++ ";" +++ showb (snd p))
             (strip_tsig rdata_inst (unhex (arg args 0)))
  else if String.eqb fn "buffer" then
    show_res (fun p : bytes * tsig * bytes =>
                hex (fst (fst p)) +++ ";" +++ dec (k_time (snd (fst p))) +++ ";" +++
                dec (k_fudge (snd (fst p))) +++ ";" +++ hex (snd p))
             (tsig_buffer (unhex (arg args 0)) (tsig_args args 1) (unhex (arg args 13))
                          (boolarg (arg args 14)) (undec (arg args 15)))
  else if String.eqb fn "digest" then
    show_res hex (verify_digest rdata_inst (unhex (arg args 0)) (unhex (arg args 1))
                                (boolarg (arg args 2)) (undec (arg args 3)))
  else if String.eqb fn "verify" then
    show_res show_unit
             (tsig_verify (hmac_inst (arg args 6)) (key_inst (arg args 5)) rdata_inst
                          (unhex (arg args 0)) (unhex (arg args 1)) (boolarg (arg args 2))
                          (undec (arg args 3)) (undec (arg args 4)))
  else if String.eqb fn "generate" then
    show_res (fun p : bytes * bytes => hex (fst p) +++ ";" +++ hex (snd p))
             (tsig_generate (hmac_inst (arg args 18)) (key_inst (arg args 17))
                            (unhex (arg args 0)) (undec (arg args 1)) (tsig_args args 2)
                            (unhex (arg args 14)) (boolarg (arg args 15)) (undec (arg args 16)))
  else if String.eqb fn "chain" then
    show_res show_unit
             (chain_verify (hmac_inst (arg args 5)) (key_inst (arg args 4)) rdata_inst
                           (map unhex (split_str "," (arg args 0))) (unhex (arg args 1)) false
                           (undec (arg args 2)) (undec (arg args 3)))
  else "unknown-fn"%string.
