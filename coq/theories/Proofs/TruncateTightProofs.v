(* Proofs/TruncateTightProofs.v — Msg.Truncate is tight: the first record it
   drops would not have fitted.  The counting form on truncateLoop (where exactly
   the loop stops and what the running length is at that point), its lift through
   the three sections, and the statement on the message made of the kept records,
   the first dropped record and the OPT record that was set aside; and, for the
   packed form of the clause, exactness of Len() WITH compression for escape-free
   messages of the common types (equal key sets of the packer's map and the
   length walk's set, at equal offsets). *)
From Dns Require Import Gen.Layouts Gen.Lens Gen.Registry Gen.Structs Gen.Consts.
From Dns Require Import Base.ListX Model.Truncate Proofs.EscapeProofs Proofs.TokenProofs Proofs.NameWireProofs
  Proofs.LenNameProofs Proofs.LenFieldProofs Proofs.LenRRProofs Proofs.LenMsgProofs Proofs.LenCompressProofs
  Proofs.LenCompressMsgProofs Proofs.TruncateProofs Proofs.TruncateFitProofs.
From Coq Require Import Lia ZifyN ZifyNat ZifyBool.
Open Scope list_scope.
Open Scope N_scope.

(* ================================================================== *)
(* 1. every record adds to the running length                           *)
(* ================================================================== *)
Lemma names_fold_ge l off cp : forall (a : N * option lset),
  fst a <= fst (fold_left (fun (a : N * option lset) x =>
                  let '(n, c') := domain_name_len x (off + fst a) (snd a) cp in (fst a + n, c')) l a).
Proof.
  induction l as [|x r IH]; intro a; cbn [fold_left]; [lia|].
  destruct (domain_name_len x (off + fst a) (snd a) cp) as [n c'].
  pose proof (IH (fst a + n, c')) as H. change (fst (fst a + n, c')) with (fst a + n) in H. lia.
Qed.

Lemma len_term_ge v t off l c : l <= fst (len_term v t off l c).
Proof.
  destruct t; cbn [len_term]; try (cbn [fst]; lia).
  - destruct (domain_name_len _ _ _ _) as [n c']. cbn [fst]. lia.
  - rewrite txts_fold. cbn [fst]. lia.
  - apply (names_fold_ge _ off compress (l, c)).
  - rewrite apl_fold. cbn [fst]. lia.
  - rewrite pairs_fold. cbn [fst]. lia.
  - cbn [fst]. destruct (_ =? 0); lia.
  - cbv zeta. cbn [fst]. destruct (_ =? v4); [lia|]. destruct (_ =? v6); [lia|]. destruct (_ =? host); lia.
Qed.

Lemma len_terms_ge v ts : forall off l c, l <= fst (len_terms v ts off l c).
Proof.
  induction ts as [|t r IH]; intros off l c; cbn [len_terms]; [cbn [fst]; lia|].
  pose proof (len_term_ge v t off l c) as H1.
  destruct (len_term v t off l c) as [l1 c1]. cbn [fst] in H1.
  pose proof (IH off l1 c1). lia.
Qed.

(* RR_Header.len alone is at least 11 octets (name, type, class, TTL, RDLENGTH) *)
Lemma len_rr_pos r L c : 10 < fst (len_rr r L c).
Proof.
  unfold len_rr. destruct (domain_name_len (rr_name r) L c true) as [hl c1] eqn:E.
  assert (Hhl : 1 <= hl).
  { unfold domain_name_len in E. destruct (bytes_eqb _ _ || bytes_eqb _ _); [injection E as <- _; lia|].
    destruct c as [cs|].
    - destruct (true || _); [|destruct (has_backslash _); injection E as <- _; lia].
      destruct (compression_len_search cs (rr_name r) L) as [cs' [h|]];
        destruct (has_backslash _); injection E as <- _; lia.
    - destruct (has_backslash _); injection E as <- _; lia. }
  destruct (len_terms_of (rr_kind r)) as [ts|]; [|cbn [fst]; lia].
  pose proof (len_terms_ge (rr_data r) ts L (hl + 10) c1). lia.
Qed.

Lemma step_r_gt a r : fst a < fst (step_r a r).
Proof.
  unfold step_r. pose proof (len_rr_pos r (fst a) (snd a)) as H.
  destruct (len_rr r (fst a) (snd a)) as [n c']. cbn [fst] in *. lia.
Qed.

(* ================================================================== *)
(* 2. the counting form: where truncateLoop stops                       *)
(* ================================================================== *)
(* the running state of Msg.Len after the first j records of a section *)
Definition run (rrs : list rr) (j : nat) (a : N * option lset) : N * option lset :=
  fold_left step_r (firstn j rrs) a.

Lemma run_0 rrs a : run rrs 0 a = a.
Proof. reflexivity. Qed.
Lemma run_cons r t j a : run (r :: t) (S j) a = run t j (step_r a r).
Proof. reflexivity. Qed.
Lemma run_all rrs a : run rrs (length rrs) a = fold_left step_r rrs a.
Proof. unfold run. now rewrite firstn_all. Qed.
Lemma run_S rrs : forall j a, (j < length rrs)%nat ->
  exists r, nth_error rrs j = Some r /\ run rrs (S j) a = step_r (run rrs j a) r.
Proof.
  induction rrs as [|x t IH]; intros j a H; [cbn in H; lia|].
  destruct j as [|j].
  - exists x. split; reflexivity.
  - cbn [length] in H. destruct (IH j (step_r a x) ltac:(lia)) as [r [E1 E2]].
    exists r. split; [exact E1|]. rewrite !run_cons. exact E2.
Qed.
Lemma run_lt_S rrs j a : (j < length rrs)%nat -> fst (run rrs j a) < fst (run rrs (S j) a).
Proof. intro H. destruct (run_S rrs j a H) as [r [_ ->]]. apply step_r_gt. Qed.

(* truncateLoop(rrs, size, L, c) = (l', k): with j = k - i records kept,
   - the loop went past each of the first j - 1 records: the running length
     after each of them was strictly below size;
   and exactly one of
   (over)  record j exists, the running length INCLUDING record j (offsets and
           suffix set as Msg.Len has them after the first j records) exceeds
           size, and the loop returns size: no slack, no off-by-one;
   (equal) the running length including record j - 1 is exactly size; that
           record IS kept and the loop returns that length;
   (end)   every record was kept and the loop returns the running length. *)
Theorem truncate_loop_stop rrs : forall size L c i l' k c',
  truncate_loop rrs size (Z.of_N L) c i = (l', k, c') ->
  exists j, k = (i + j)%nat /\ (j <= length rrs)%nat /\
    (forall j', (0 < j' < j)%nat -> (Z.of_N (fst (run rrs j' (L, c))) < size)%Z) /\
    ( ((j < length rrs)%nat /\ ((0 < j)%nat -> (Z.of_N (fst (run rrs j (L, c))) < size)%Z) /\
       (size < Z.of_N (fst (run rrs (S j) (L, c))))%Z /\ l' = size /\ c' = snd (run rrs (S j) (L, c)))
    \/ ((0 < j)%nat /\ Z.of_N (fst (run rrs j (L, c))) = size /\ l' = size /\ c' = snd (run rrs j (L, c)))
    \/ (j = length rrs /\ ((0 < j)%nat -> (Z.of_N (fst (run rrs j (L, c))) < size)%Z) /\
        l' = Z.of_N (fst (run rrs j (L, c))) /\ c' = snd (run rrs j (L, c))) ).
Proof.
  induction rrs as [|r t IH]; intros size L c i l' k c' H.
  - cbn [truncate_loop] in H. injection H as <- <- <-. exists 0%nat.
    split; [lia|]. split; [cbn [length]; lia|]. split; [intros j' Hj; lia|].
    right; right. rewrite run_0. cbn [fst snd length]. split; [reflexivity|]. split; [lia|]. split; reflexivity.
  - cbn [truncate_loop] in H. rewrite N2Z.id in H.
    destruct (len_rr r L c) as [n c1] eqn:En.
    assert (Hstep : step_r (L, c) r = (L + n, c1)) by (unfold step_r; cbn [fst snd]; now rewrite En).
    assert (Hrun1 : run (r :: t) 1 (L, c) = (L + n, c1)) by (rewrite run_cons, run_0; exact Hstep).
    destruct (size <? Z.of_N L + Z.of_N n)%Z eqn:E1.
    + injection H as <- <- <-. exists 0%nat.
      split; [lia|]. split; [cbn [length]; lia|]. split; [intros j' Hj; lia|].
      left. rewrite Hrun1. cbn [fst snd length]. split; [lia|]. split; [lia|]. split; [lia|]. split; reflexivity.
    + destruct (Z.of_N L + Z.of_N n =? size)%Z eqn:E2.
      * injection H as <- <- <-. exists 1%nat.
        split; [lia|]. split; [cbn [length]; lia|]. split; [intros j' Hj; lia|].
        right; left. rewrite Hrun1. cbn [fst snd]. split; [lia|]. split; [lia|]. split; [lia|reflexivity].
      * replace (Z.of_N L + Z.of_N n)%Z with (Z.of_N (L + n)) in H by lia.
        destruct (IH size (L + n) c1 (S i) l' k c' H) as [j [Hk [Hj [Hpre Hcase]]]].
        exists (S j). split; [lia|]. split; [cbn [length]; lia|].
        assert (Hpre' : forall j', (0 < j' < S (S j))%nat -> (j' <= j)%nat \/ j' = S j) by (intros; lia).
        split.
        { intros j' Hj'. destruct j' as [|j'']; [lia|]. rewrite run_cons, Hstep.
          destruct j'' as [|j3]; [rewrite run_0; cbn [fst]; lia|]. apply Hpre. lia. }
        rewrite !run_cons, Hstep. cbn [length].
        destruct Hcase as [[A1 [A2 [A3 [A4 A5]]]]|[[B1 [B2 [B3 B4]]]|[C1 [C2 [C3 C4]]]]].
        -- left. split; [lia|]. split; [|split; [exact A3|split; [exact A4|exact A5]]].
           intros _. destruct j as [|j0]; [rewrite run_0; cbn [fst]; lia|apply A2; lia].
        -- right; left. split; [lia|]. split; [exact B2|]. split; [exact B3|exact B4].
        -- right; right. split; [lia|]. split; [|split; [exact C3|exact C4]].
           intros _. destruct j as [|j0]; [rewrite run_0; cbn [fst]; lia|apply C2; lia].
Qed.

(* ================================================================== *)
(* 3. one section, as long as nothing was dropped before                *)
(* ================================================================== *)
(* as long as no record was dropped, the state Truncate carries IS the state of
   Msg.Len over the records kept so far (also when it has reached size) *)
Definition exact_st (a : N * option lset) (l : Z) (ct : option lset) : Prop :=
  l = Z.of_N (fst a) /\ ct = snd a.

Lemma sec_all rrs size a l ct l' k c' :
  exact_st a l ct -> trunc_section rrs size (l, ct) = (l', k, c') -> k = length rrs ->
  exact_st (fold_left step_r rrs a) l' c'.
Proof.
  intros [-> ->] H Hk. unfold trunc_section in H. cbn [fst snd] in H. destruct a as [L c]. cbn [fst snd] in *.
  destruct (Z.of_N L <? size)%Z eqn:E.
  - destruct (truncate_loop_stop rrs size L c 0 l' k c' H) as [j [Hj [_ [_ Hcase]]]]. cbn [Nat.add] in Hj. subst j.
    rewrite Hk in Hcase. rewrite run_all in Hcase.
    destruct Hcase as [[A1 _]|[[_ [B2 [B3 B4]]]|[_ [_ [C3 C4]]]]]; [lia| |].
    + split; [lia|exact B4].
    + split; [exact C3|exact C4].
  - injection H as <- <- <-. destruct rrs; [|discriminate]. cbn [fold_left fst snd]. split; reflexivity.
Qed.

(* the first drop: the running length including the first dropped record
   exceeds the budget *)
Lemma sec_drop rrs size a l ct l' k c' :
  exact_st a l ct -> trunc_section rrs size (l, ct) = (l', k, c') -> (k < length rrs)%nat ->
  (size < Z.of_N (fst (run rrs (S k) a)))%Z.
Proof.
  intros [-> ->] H Hk. unfold trunc_section in H. cbn [fst snd] in H. destruct a as [L c]. cbn [fst snd] in *.
  destruct (Z.of_N L <? size)%Z eqn:E.
  - destruct (truncate_loop_stop rrs size L c 0 l' k c' H) as [j [Hj [_ [_ Hcase]]]]. cbn [Nat.add] in Hj. subst j.
    destruct Hcase as [[_ [_ [A3 _]]]|[[_ [B2 _]]|[C1 _]]]; [exact A3| |lia].
    pose proof (run_lt_S rrs k (L, c) Hk). lia.
  - injection H as <- <- <-. pose proof (run_lt_S rrs 0 (L, c) Hk) as H. rewrite run_0 in H. cbn [fst] in H. lia.
Qed.

(* ================================================================== *)
(* 4. Truncate, unfolded                                                *)
(* ================================================================== *)
Definition opt_list (o : option rr) : list rr := match o with Some x => [x] | None => [] end.
Definition rest_extra (m : msg) : list rr := snd (pop_edns0 (m_extra m)).
(* the budget of the walk: max(size, 512) minus Len(OPT) *)
Definition trunc_budget (m : msg) (size0 : Z) : Z := (trunc_size size0 - set_aside_len m)%Z.

Lemma truncate_shape m size0 :
  has_tsig m = false -> (trunc_size size0 < Z.of_N (msg_len_with m None))%Z ->
  exists l1 na c1 l2 nn c2 l3 ne c3,
    let a := questions_len (m_question m) in
    trunc_section (m_answer m) (trunc_budget m size0) (Z.of_N (fst a), snd a) = (l1, na, c1) /\
    trunc_section (m_ns m) (trunc_budget m size0) (l1, c1) = (l2, nn, c2) /\
    trunc_section (rest_extra m) (trunc_budget m size0) (l2, c2) = (l3, ne, c3) /\
    truncate m size0 =
      set_sections m (m_tc m || Nat.ltb na (length (m_answer m)) || Nat.ltb nn (length (m_ns m))
                      || Nat.ltb ne (length (rest_extra m)))
                   true (firstn na (m_answer m)) (firstn nn (m_ns m))
                   (firstn ne (rest_extra m) ++ opt_list (set_aside m)).
Proof.
  intros Ht Hl. unfold truncate. rewrite Ht.
  set (sz := if (size0 <? Z.of_N c_MinMsgSize)%Z then Z.of_N c_MinMsgSize else size0).
  assert (Hsz : sz = trunc_size size0) by (unfold sz, trunc_size; destruct (size0 <? _)%Z eqn:E; lia).
  replace (Z.of_N (msg_len_with m None) <=? sz)%Z with false by lia.
  unfold trunc_budget, set_aside_len, set_aside, rest_extra.
  destruct (pop_edns0 (m_extra m)) as [opt extra] eqn:Hpop. cbn [fst snd].
  set (sz' := match opt with Some o => (sz - Z.of_N (rr_len o))%Z | None => sz end).
  replace (trunc_size size0 - match opt with Some o => Z.of_N (rr_len o) | None => 0 end)%Z with sz'
    by (unfold sz'; destruct opt; lia).
  set (a := questions_len (m_question m)).
  destruct (trunc_section (m_answer m) sz' (Z.of_N (fst a), snd a)) as [[l1 na] c1] eqn:S1.
  destruct (trunc_section (m_ns m) sz' (l1, c1)) as [[l2 nn] c2] eqn:S2.
  destruct (trunc_section extra sz' (l2, c2)) as [[l3 ne] c3] eqn:S3.
  exists l1, na, c1, l2, nn, c2, l3, ne, c3. cbv zeta.
  split; [reflexivity|]. split; [exact S2|]. split; [exact S3|].
  destruct opt; reflexivity.
Qed.

(* ================================================================== *)
(* 5. the first dropped record does not fit                             *)
(* ================================================================== *)
(* the running length of Msg.Len (offsets and suffix set as Truncate carries
   them) after header, questions, the kept records and the first dropped one *)
Definition all_len (m : msg) (an ns ex : list rr) : N :=
  fst (fold_left step_r ex (fold_left step_r ns (fold_left step_r an (questions_len (m_question m))))).

Theorem first_dropped_over_budget m size0 :
  has_tsig m = false -> (trunc_size size0 < Z.of_N (msg_len_with m None))%Z ->
  let t := truncate m size0 in
  exists na nn ne,
    t = set_sections m (m_tc t) true (firstn na (m_answer m)) (firstn nn (m_ns m))
                     (firstn ne (rest_extra m) ++ opt_list (set_aside m)) /\
    (na <= length (m_answer m))%nat /\ (nn <= length (m_ns m))%nat /\ (ne <= length (rest_extra m))%nat /\
    ((na < length (m_answer m))%nat ->
       nn = 0%nat /\ ne = 0%nat /\
       (trunc_budget m size0 < Z.of_N (all_len m (firstn (S na) (m_answer m)) [] []))%Z) /\
    (na = length (m_answer m) -> (nn < length (m_ns m))%nat ->
       ne = 0%nat /\
       (trunc_budget m size0 < Z.of_N (all_len m (m_answer m) (firstn (S nn) (m_ns m)) []))%Z) /\
    (na = length (m_answer m) -> nn = length (m_ns m) -> (ne < length (rest_extra m))%nat ->
       (trunc_budget m size0 < Z.of_N (all_len m (m_answer m) (m_ns m) (firstn (S ne) (rest_extra m))))%Z).
Proof.
  intros Ht Hl. cbv zeta.
  destruct (truncate_shape m size0 Ht Hl) as [l1 [na [c1 [l2 [nn [c2 [l3 [ne [c3 [S1 [S2 [S3 Heq]]]]]]]]]]]].
  cbv zeta in *. set (a := questions_len (m_question m)) in *. set (B := trunc_budget m size0) in *.
  pose proof (trunc_section_count (m_answer m) B (Z.of_N (fst a), snd a)) as HA. rewrite S1 in HA.
  pose proof (trunc_section_count (m_ns m) B (l1, c1)) as HN. rewrite S2 in HN.
  pose proof (trunc_section_count (rest_extra m) B (l2, c2)) as HE. rewrite S3 in HE.
  cbn [fst snd] in *.
  destruct HA as [HA1 [HA2 _]]. destruct HN as [HN1 [HN2 HN3]]. destruct HE as [HE1 [_ HE3]].
  assert (X0 : exact_st a (Z.of_N (fst a)) (snd a)) by (split; reflexivity).
  exists na, nn, ne. split; [rewrite Heq at 1; rewrite Heq; reflexivity|].
  split; [exact HA1|]. split; [exact HN1|]. split; [exact HE1|]. unfold all_len. fold a. split; [|split].
  - intro H. specialize (HA2 H). destruct (HN3 HA2) as [-> ->]. destruct (HE3 HA2) as [-> _].
    split; [reflexivity|]. split; [reflexivity|]. cbn [fold_left].
    exact (sec_drop _ _ _ _ _ _ _ _ X0 S1 H).
  - intros Hna H. pose proof (sec_all _ _ _ _ _ _ _ _ X0 S1 Hna) as X1.
    specialize (HN2 H). destruct (HE3 HN2) as [-> _]. split; [reflexivity|]. cbn [fold_left].
    exact (sec_drop _ _ _ _ _ _ _ _ X1 S2 H).
  - intros Hna Hnn H. pose proof (sec_all _ _ _ _ _ _ _ _ X0 S1 Hna) as X1.
    pose proof (sec_all _ _ _ _ _ _ _ _ X1 S2 Hnn) as X2.
    exact (sec_drop _ _ _ _ _ _ _ _ X2 S3 H).
Qed.

(* ================================================================== *)
(* 6. the message: kept records + first dropped record + OPT            *)
(* ================================================================== *)
(* the OPT record measures the same wherever it stands: its len() walks no name
   but the owner's and the owner is the root (RFC 6891; Truncate's own comment
   relies on it) *)
Definition opt_exact (o : rr) : bool :=
  nowalk_kind (rr_kind o) && (bytes_eqb (rr_name o) [] || bytes_eqb (rr_name o) [46]).
Definition set_aside_exact (m : msg) : bool := match set_aside m with Some o => opt_exact o | None => true end.

Lemma len_rr_opt_exact o L c : opt_exact o = true -> fst (len_rr o L c) = rr_len o.
Proof.
  unfold opt_exact, nowalk_kind. intro H. apply andb_prop in H. destruct H as [Hk Hn].
  rewrite rr_len_est. unfold len_rr, rr_est, domain_name_len, name_est. rewrite Hn.
  destruct (len_terms_of (rr_kind o)) as [ts|]; [|reflexivity].
  rewrite len_terms_nowalk by exact Hk. cbn [fst]. lia.
Qed.

Lemma opt_exact_side_ok o : opt_exact o = true -> side_ok o = true.
Proof.
  unfold opt_exact, side_ok. intro H. apply andb_prop in H. destruct H as [Hk Hn]. rewrite Hk. cbn [andb].
  apply orb_prop in Hn. destruct Hn as [Hn|Hn]; apply bytes_eqb_eq in Hn; rewrite Hn; reflexivity.
Qed.

Lemma kept_compressible m tc an ns ex :
  (an <> [] \/ ns <> [] \/ ex <> []) ->
  is_compressible (set_sections m tc true an ns (ex ++ opt_list (set_aside m))) = true.
Proof.
  intro Hne. unfold is_compressible. cbn [m_question m_answer m_ns m_extra set_sections].
  destruct an as [|x an]; [destruct ns as [|y ns]; [destruct ex as [|z ex]; [exfalso; tauto|]|]|];
    cbn [length app Nat.eqb negb]; rewrite ?orb_true_r; reflexivity.
Qed.

Lemma msg_len_plus_opt m tc an ns ex :
  set_aside_exact m = true -> (an <> [] \/ ns <> [] \/ ex <> []) ->
  Z.of_N (msg_len (set_sections m tc true an ns (ex ++ opt_list (set_aside m)))) =
  (Z.of_N (all_len m an ns ex) + set_aside_len m)%Z.
Proof.
  intros Hx Hne. unfold msg_len. cbn [m_compress set_sections andb].
  rewrite (kept_compressible m tc an ns ex Hne), msg_len_with_sections, fold_step_r_app.
  unfold all_len. rewrite questions_len_steps.
  set (a3 := fold_left step_r ex _).
  unfold set_aside_exact, set_aside_len in *. destruct (set_aside m) as [o|]; cbn [opt_list fold_left]; [|lia].
  unfold step_r. pose proof (len_rr_opt_exact o (fst a3) (snd a3) Hx) as Ho.
  destruct (len_rr o (fst a3) (snd a3)) as [n c']. cbn [fst] in *. lia.
Qed.

(* the message Truncate leaves, with one more record: the first one it dropped *)
Definition next_dropped (m : msg) (size0 : Z) : option msg :=
  let t := truncate m size0 in
  let na := length (m_answer t) in
  let nn := length (m_ns t) in
  let ne := (length (m_extra t) - length (opt_list (set_aside m)))%nat in
  let mk an ns ex := set_sections t (m_tc t) (m_compress t) an ns (ex ++ opt_list (set_aside m)) in
  if (na <? length (m_answer m))%nat then
    Some (mk (firstn (S na) (m_answer m)) (m_ns t) (firstn ne (m_extra t)))
  else if (nn <? length (m_ns m))%nat then
    Some (mk (m_answer t) (firstn (S nn) (m_ns m)) (firstn ne (m_extra t)))
  else if (ne <? length (rest_extra m))%nat then
    Some (mk (m_answer t) (m_ns t) (firstn (S ne) (rest_extra m)))
  else None.

Lemma pop_lengths m :
  (length (rest_extra m) + length (opt_list (set_aside m)) = length (m_extra m))%nat.
Proof.
  unfold rest_extra, set_aside.
  destruct (pop_edns0_spec (m_extra m)) as [[-> _]|[pre [o [post [E [_ [_ ->]]]]]]]; cbn [fst snd opt_list length]; [lia|].
  rewrite E, !app_length. cbn [length]. lia.
Qed.

Lemma firstn_firstn_app {A} n (l r : list A) : (n <= length l)%nat -> firstn n (firstn n l ++ r) = firstn n l.
Proof.
  intro H. rewrite <- (firstn_length_le l H) at 1. apply firstn_app_exact.
Qed.

(* the three counts of a truncation that dropped something, read off the result *)
Lemma truncate_counts m size0 :
  has_tsig m = false -> (trunc_size size0 < Z.of_N (msg_len_with m None))%Z ->
  let t := truncate m size0 in
  exists na nn ne,
    t = set_sections m (m_tc t) true (firstn na (m_answer m)) (firstn nn (m_ns m))
                     (firstn ne (rest_extra m) ++ opt_list (set_aside m)) /\
    (na <= length (m_answer m))%nat /\ (nn <= length (m_ns m))%nat /\ (ne <= length (rest_extra m))%nat /\
    length (m_answer t) = na /\ length (m_ns t) = nn /\
    (length (m_extra t) - length (opt_list (set_aside m)))%nat = ne /\
    firstn ne (m_extra t) = firstn ne (rest_extra m).
Proof.
  intros Ht Hl. cbv zeta.
  destruct (first_dropped_over_budget m size0 Ht Hl) as [na [nn [ne [Heq [H1 [H2 [H3 _]]]]]]].
  exists na, nn, ne. split; [exact Heq|]. split; [exact H1|]. split; [exact H2|]. split; [exact H3|].
  rewrite Heq. cbn [m_answer m_ns m_extra set_sections].
  rewrite app_length, !firstn_length_le by assumption.
  split; [reflexivity|]. split; [reflexivity|]. split; [lia|]. now apply firstn_firstn_app.
Qed.

Lemma set_sections_twice m tc cp an ns ex tc' cp' an' ns' ex' :
  set_sections (set_sections m tc cp an ns ex) tc' cp' an' ns' ex' = set_sections m tc' cp' an' ns' ex'.
Proof. reflexivity. Qed.

Lemma Some_inj {A} (x y : A) : Some x = Some y -> x = y.
Proof. intro H. now injection H. Qed.

(* a message that fits loses nothing: there is no first dropped record *)
Lemma next_dropped_fits m size0 :
  has_tsig m = false -> (Z.of_N (msg_len_with m None) <= trunc_size size0)%Z -> next_dropped m size0 = None.
Proof.
  intros Ht Hl. unfold next_dropped. rewrite (truncate_fits m size0 Ht) by (unfold trunc_size in Hl; lia).
  cbn [m_answer m_ns m_extra set_sections]. pose proof (pop_lengths m).
  rewrite !Nat.ltb_irrefl. replace (_ <? _)%nat with false by lia. reflexivity.
Qed.

(* what next_dropped is, when it is: prefixes of the three sections (one of them
   one record longer than what Truncate kept) and the OPT; not empty; and the
   running length of Msg.Len over them exceeds the budget *)
Lemma next_dropped_shape m size0 m' :
  has_tsig m = false -> next_dropped m size0 = Some m' ->
  exists tc ja jn je,
    let an := firstn ja (m_answer m) in let ns := firstn jn (m_ns m) in let ex := firstn je (rest_extra m) in
    m' = set_sections m tc true an ns (ex ++ opt_list (set_aside m)) /\
    (an <> [] \/ ns <> [] \/ ex <> []) /\
    (trunc_budget m size0 < Z.of_N (all_len m an ns ex))%Z.
Proof.
  intros Ht Hnd.
  destruct (Z_le_gt_dec (Z.of_N (msg_len_with m None)) (trunc_size size0)) as [Hfit|Hl].
  { rewrite (next_dropped_fits m size0 Ht Hfit) in Hnd. discriminate. }
  apply Z.gt_lt in Hl.
  destruct (first_dropped_over_budget m size0 Ht Hl) as [na [nn [ne [Heq [H1 [H2 [H3 [DA [DN DE]]]]]]]]].
  destruct (truncate_counts m size0 Ht Hl) as [na' [nn' [ne' [Heq' [_ [_ [_ [La [Ln [Le Lf]]]]]]]]]].
  cbv zeta in *.
  assert (Ena : na' = na).
  { rewrite <- La. rewrite Heq. cbn [m_answer set_sections]. now apply firstn_length_le. }
  assert (Enn : nn' = nn).
  { rewrite <- Ln. rewrite Heq. cbn [m_ns set_sections]. now apply firstn_length_le. }
  assert (Ene : ne' = ne).
  { rewrite <- Le. rewrite Heq. cbn [m_extra set_sections]. rewrite app_length, firstn_length_le by assumption. lia. }
  rewrite Ena in La. rewrite Enn in Ln. rewrite Ene in Le, Lf. clear Heq' Ena Enn Ene na' nn' ne'.
  unfold next_dropped in Hnd. rewrite La, Ln, Le, Lf in Hnd.
  assert (Hcp : m_compress (truncate m size0) = true) by (rewrite Heq; reflexivity).
  assert (Han : m_answer (truncate m size0) = firstn na (m_answer m)) by (rewrite Heq; reflexivity).
  assert (Hns : m_ns (truncate m size0) = firstn nn (m_ns m)) by (rewrite Heq; reflexivity).
  rewrite Hcp, Han, Hns in Hnd.
  set (tc := m_tc (truncate m size0)) in *.
  assert (Hss : forall an ns ex,
    set_sections (truncate m size0) tc true an ns ex = set_sections m tc true an ns ex).
  { intros. rewrite Heq. apply set_sections_twice. }
  rewrite !Hss in Hnd.
  destruct (na <? length (m_answer m))%nat eqn:EA.
  - apply Some_inj in Hnd. subst m'. destruct (DA ltac:(lia)) as [-> [-> D]].
    exists tc, (S na), 0%nat, 0%nat. rewrite !firstn_O. split; [reflexivity|]. split; [|exact D].
    left. destruct (m_answer m); [cbn in EA; lia|discriminate].
  - assert (Hna : na = length (m_answer m)) by lia.
    destruct (nn <? length (m_ns m))%nat eqn:EN.
    + apply Some_inj in Hnd. subst m'. destruct (DN Hna ltac:(lia)) as [-> D].
      exists tc, na, (S nn), 0%nat. rewrite !firstn_O. split; [reflexivity|].
      split; [|rewrite Hna, firstn_all; exact D].
      right; left. destruct (m_ns m); [cbn in EN; lia|discriminate].
    + assert (Hnn : nn = length (m_ns m)) by lia.
      destruct (ne <? length (rest_extra m))%nat eqn:EE; [|discriminate].
      apply Some_inj in Hnd. subst m'. pose proof (DE Hna Hnn ltac:(lia)) as D.
      exists tc, na, nn, (S ne). split; [reflexivity|].
      split; [|rewrite Hna, Hnn, !firstn_all; exact D].
      right; right. destruct (rest_extra m); [cbn in EE; lia|discriminate].
Qed.

(* THE CLAUSE, on Len(): the message made of the records Truncate kept, the
   first record it dropped, and the OPT record measures more than
   max(size, 512) *)
Theorem first_dropped_does_not_fit m size0 m' :
  has_tsig m = false -> set_aside_exact m = true -> next_dropped m size0 = Some m' ->
  (trunc_size size0 < Z.of_N (msg_len m'))%Z.
Proof.
  intros Ht Hx Hnd. destruct (next_dropped_shape m size0 m' Ht Hnd) as [tc [ja [jn [je [-> [Hne D]]]]]].
  cbv zeta in *. rewrite msg_len_plus_opt by assumption. unfold trunc_budget in D. lia.
Qed.

(* that message is packed with compression *)
Lemma next_dropped_compress m size0 m' :
  has_tsig m = false -> next_dropped m size0 = Some m' -> msg_compress m' = true.
Proof.
  intros Ht Hnd. destruct (next_dropped_shape m size0 m' Ht Hnd) as [tc [ja [jn [je [-> [Hne _]]]]]].
  cbv zeta in *. unfold msg_compress. cbn [m_compress set_sections andb]. now apply kept_compressible.
Qed.

(* its records are records of the original message *)
Lemma forallb_firstn {A} (p : A -> bool) n : forall l, forallb p l = true -> forallb p (firstn n l) = true.
Proof.
  induction n as [|n IH]; intros l H; [reflexivity|]. destruct l as [|x l]; [reflexivity|].
  cbn [firstn forallb] in *. apply andb_prop in H. destruct H as [H1 H2]. now rewrite H1, IH.
Qed.
Lemma pop_forallb (p : rr -> bool) m :
  forallb p (m_extra m) = true -> forallb p (rest_extra m) = true /\ forallb p (opt_list (set_aside m)) = true.
Proof.
  unfold rest_extra, set_aside. intro H.
  destruct (pop_edns0_spec (m_extra m)) as [[-> _]|[pre [o [post [E [_ [_ ->]]]]]]]; cbn [fst snd opt_list].
  - split; [exact H|reflexivity].
  - rewrite E in H. rewrite forallb_app in H. apply andb_prop in H. destruct H as [H1 H2].
    cbn [forallb] in H2. apply andb_prop in H2. destruct H2 as [H2 H3].
    split; [rewrite forallb_app, H1, H3; reflexivity|cbn [forallb]; now rewrite H2].
Qed.
Lemma next_dropped_forallb (p : rr -> bool) m size0 m' :
  has_tsig m = false -> next_dropped m size0 = Some m' ->
  forallb p (m_answer m) = true -> forallb p (m_ns m) = true -> forallb p (m_extra m) = true ->
  m_question m' = m_question m /\
  forallb p (m_answer m') = true /\ forallb p (m_ns m') = true /\ forallb p (m_extra m') = true.
Proof.
  intros Ht Hnd Ha Hn He. destruct (next_dropped_shape m size0 m' Ht Hnd) as [tc [ja [jn [je [-> _]]]]].
  cbv zeta. cbn [m_question m_answer m_ns m_extra set_sections]. destruct (pop_forallb p m He) as [He1 He2].
  split; [reflexivity|]. split; [now apply forallb_firstn|]. split; [now apply forallb_firstn|].
  rewrite forallb_app, He2, forallb_firstn by exact He1. reflexivity.
Qed.

(* next_dropped is None only when nothing was dropped *)
Lemma next_dropped_none m size0 :
  has_tsig m = false -> next_dropped m size0 = None ->
  m_answer (truncate m size0) = m_answer m /\ m_ns (truncate m size0) = m_ns m /\
  length (m_extra (truncate m size0)) = length (m_extra m).
Proof.
  intros Ht Hnd.
  destruct (Z_le_gt_dec (Z.of_N (msg_len_with m None)) (trunc_size size0)) as [Hfit|Hl].
  { rewrite (truncate_fits m size0 Ht) by (unfold trunc_size in Hfit; lia). auto. }
  apply Z.gt_lt in Hl.
  destruct (truncate_counts m size0 Ht Hl) as [na [nn [ne [Heq [H1 [H2 [H3 [La [Ln [Le Lf]]]]]]]]]].
  cbv zeta in *. unfold next_dropped in Hnd. rewrite La, Ln, Le in Hnd.
  destruct (na <? length (m_answer m))%nat eqn:EA; [discriminate|].
  destruct (nn <? length (m_ns m))%nat eqn:EN; [discriminate|].
  destruct (ne <? length (rest_extra m))%nat eqn:EE; [discriminate|].
  pose proof (pop_lengths m) as Hp.
  assert (Han : m_answer (truncate m size0) = firstn na (m_answer m)) by (rewrite Heq; reflexivity).
  assert (Hns : m_ns (truncate m size0) = firstn nn (m_ns m)) by (rewrite Heq; reflexivity).
  assert (Hex : length (m_extra (truncate m size0)) = (ne + length (opt_list (set_aside m)))%nat).
  { rewrite Heq. cbn [m_extra set_sections]. rewrite app_length, firstn_length_le by assumption. reflexivity. }
  rewrite Han, Hns, Hex. replace na with (length (m_answer m)) by lia. replace nn with (length (m_ns m)) by lia.
  rewrite !firstn_all. split; [reflexivity|]. split; [reflexivity|lia].
Qed.

(* ... and on the packed octets, given exactness of Len() for the message (C08
   proves it for plain messages packed WITHOUT compression; what Truncate leaves
   is packed WITH compression) *)
Definition len_exact_compressed (m' : msg) : Prop := forall w, pack_msg m' = Ok w -> lenN w = msg_len m'.

Theorem first_dropped_does_not_fit_packed m size0 m' w :
  has_tsig m = false -> set_aside_exact m = true -> next_dropped m size0 = Some m' ->
  len_exact_compressed m' -> pack_msg m' = Ok w ->
  (trunc_size size0 < Z.of_N (lenN w))%Z.
Proof.
  intros Ht Hx Hnd Hex Hp. rewrite (Hex w Hp). now apply (first_dropped_does_not_fit m size0).
Qed.


(* ================================================================== *)
(* 7. Len() is exact WITH compression: one escape-free name             *)
(* ================================================================== *)
(* C08 proves Len() = len(Pack()) without compression only.  With it, the two
   walks must agree exactly: the packer finds a pointer target for precisely the
   suffix the length walk finds in its set.  The invariant is the equality of
   the two key sets, at equal offsets. *)

(* packDomainName's use of the compression map, as a walk over the label
   starts V of a name of n octets packed at offset P: a hit ends the walk when
   compress is set, a miss enters the suffix while its offset is below 16384 *)
Fixpoint pk_list (cm : cmap) (V : list bytes) (n : nat) (P : N) (cp : bool) : cmap * option nat :=
  match V with
  | [] => (cm, None)
  | Z :: V' =>
    match cm_find cm Z with
    | Some _ => if cp then (cm, Some (n - length Z)%nat) else pk_list cm V' n P cp
    | None =>
      pk_list (if P + N.of_nat (n - length Z) <? mco then (Z, P + N.of_nat (n - length Z)) :: cm else cm) V' n P cp
    end
  end.

Lemma has_backslash_cons x r : has_backslash (x :: r) = false -> x <> 92 /\ has_backslash r = false.
Proof.
  unfold has_backslash. cbn [existsb]. intro H. apply orb_false_elim in H. destruct H as [H1 H2].
  split; [intro E; subst; discriminate|exact H2].
Qed.

Lemma walk_dot lstart r : walk lstart (46 :: r) = lstart :: walk r r.
Proof. unfold walk. rewrite tsufs_dot. destruct r; reflexivity. Qed.

(* the scan loop over an escape-free text against pk_list *)
Lemma pn_go_pk n P0 s' : forall lab lstart wd nl cap cp st cm e,
  has_backslash s' = false -> lid s' wd = true -> (wd = true <-> lab = []) -> pn_cm st = Some cm ->
  tsufs lstart = tsufs s' -> (length lstart = length lab + length s')%nat -> (length lstart <= n)%nat ->
  lenN (pn_out st) + N.of_nat (length lstart) = P0 + N.of_nat n ->
  pn_go s' false lab lstart wd nl cap cp st = Ok e ->
  pn_cm (end_st e) = Some (fst (pk_list cm (walk lstart s') n P0 cp)) /\
  match snd (pk_list cm (walk lstart s') n P0 cp) with
  | Some l => (exists p, e = PnPointer (end_st e) p) /\ lenN (pn_out (end_st e)) = P0 + N.of_nat l
  | None => e = PnDone (end_st e) /\ lenN (pn_out (end_st e)) = P0 + N.of_nat n
  end.
Proof.
  induction s' as [| a b c r3 Hd IH | a r1 Hd IH | | r IH | x r H1 H2 IH] using tok_ind;
    intros lab lstart wd nl cap cp st cm e Hb Hlid Hwd Hcm Hts Hlen Hn Hoff H.
  - cbn [lid] in Hlid. subst wd. assert (lab = []) by (now apply Hwd). subst lab.
    cbn [pn_go] in H. injection H as <-. cbn [end_st walk pk_list fst snd length Nat.add] in *.
    split; [exact Hcm|]. split; [reflexivity|]. lia.
  - exfalso. apply has_backslash_cons in Hb. destruct Hb as [Hb _]. congruence.
  - exfalso. apply has_backslash_cons in Hb. destruct Hb as [Hb _]. congruence.
  - exfalso. apply has_backslash_cons in Hb. destruct Hb as [Hb _]. congruence.
  - apply has_backslash_cons in Hb. destruct Hb as [_ Hb].
    rewrite pn_go_dot in H. cbn [lid] in Hlid. cbn [andb] in H.
    destruct wd; [discriminate|].
    assert (Hlab : lab <> []). { intro E. apply Hwd in E. discriminate. }
    destruct (64 <=? lenN lab); [discriminate|]. destruct (cap <? _); [discriminate|].
    assert (Hroot : dot_root lab r = false) by (destruct lab; [congruence|reflexivity]).
    assert (Ehit : dot_hit st lab r lstart = cm_find cm lstart).
    { unfold dot_hit. now rewrite Hcm, Hroot. }
    rewrite Ehit in H. cbn [length] in Hlen.
    rewrite walk_dot. cbn [pk_list].
    assert (Htl : tsufs r = tsufs r) by reflexivity.
    assert (Eoff : lenN (pn_out st) = P0 + N.of_nat (n - length lstart)) by lia.
    (* the walk goes on over r, the label written *)
    assert (B : forall cm1,
      pn_cm (dot_st1 st lab r lstart) = Some cm1 ->
      (if max_name_wire <? nl + 1 + lenN lab + 1 then Err "longdomain"%string
       else pn_go r false [] r true (nl + 1 + lenN lab) cap cp
              {| pn_out := pn_out (dot_st1 st lab r lstart) ++ lenN lab :: lab;
                 pn_cm := pn_cm (dot_st1 st lab r lstart) |}) = Ok e ->
      pn_cm (end_st e) = Some (fst (pk_list cm1 (walk r r) n P0 cp)) /\
      match snd (pk_list cm1 (walk r r) n P0 cp) with
      | Some l => (exists p, e = PnPointer (end_st e) p) /\ lenN (pn_out (end_st e)) = P0 + N.of_nat l
      | None => e = PnDone (end_st e) /\ lenN (pn_out (end_st e)) = P0 + N.of_nat n
      end).
    { intros cm1 Hcm1 H'. destruct (max_name_wire <? nl + 1 + lenN lab + 1); [discriminate|].
      refine (IH [] r true _ cap cp _ cm1 e Hb Hlid _ _ _ _ _ _ H').
      - tauto.
      - exact Hcm1.
      - reflexivity.
      - reflexivity.
      - lia.
      - cbn [pn_out]. rewrite dot_st1_out, lenN_app, lenN_cons.
        assert (lenN lab = N.of_nat (length lab)) by reflexivity. lia. }
    destruct (cm_find cm lstart) as [p|] eqn:Ef.
    + destruct cp.
      * destruct (max_name_wire <? _); [discriminate|]. injection H as <-. cbn [end_st fst snd].
        split; [exact Hcm|]. split; [exists p; reflexivity|exact Eoff].
      * apply B; [|exact H]. unfold dot_st1. now rewrite Hcm, Hroot, Ef.
    + assert (Hst1 : pn_cm (dot_st1 st lab r lstart) =
                     Some (if P0 + N.of_nat (n - length lstart) <? mco
                           then (lstart, P0 + N.of_nat (n - length lstart)) :: cm else cm)).
      { unfold dot_st1. rewrite Hcm, Hroot, Ef, Eoff. fold mco. destruct (_ <? mco); [reflexivity|exact Hcm]. }
      destruct cp; (apply B; [exact Hst1|exact H]).
  - apply has_backslash_cons in Hb. destruct Hb as [_ Hb].
    rewrite pn_go_plain in H by auto. rewrite lid_plain in Hlid by auto.
    pose proof (lid_nil_false _ Hlid) as Hr. rewrite tsufs_plain in Hts by auto.
    assert (Hw : walk lstart (x :: r) = walk lstart r).
    { unfold walk. rewrite tsufs_plain by auto. destruct r; [congruence|reflexivity]. }
    rewrite Hw.
    apply (IH (lab ++ [x]) lstart false nl cap cp st cm e Hb Hlid); auto.
    + split; [discriminate|]. intro E. destruct lab; discriminate.
    + rewrite app_length. cbn [length] in *. lia.
Qed.

(* packDomainName on an escape-free name other than the root *)
Lemma pack_name_pk s cap cp st cm st' :
  has_backslash s = false -> s <> [] -> s <> [46] -> pn_cm st = Some cm ->
  pack_name s cap cp st = Ok st' ->
  pn_cm st' = Some (fst (pk_list cm (s :: tsufs s) (length s) (poff st) cp)) /\
  poff st' = poff st + match snd (pk_list cm (s :: tsufs s) (length s) (poff st) cp) with
                       | Some l => N.of_nat l + 2
                       | None => lenN s + 1
                       end.
Proof.
  intros Hb H1 H2 Hcm. unfold pack_name. destruct s as [|x r] eqn:Es; [congruence|]. rewrite <- Es in *.
  destruct (is_fqdn s) eqn:Hf; [|discriminate]. cbn [negb].
  rewrite pn_go_first by exact H2.
  destruct (pn_go s false [] s true 0 cap cp st) as [e| | |] eqn:E; try discriminate. cbn [bind].
  assert (Hlid : lid s true = true). { apply lid_first_equiv; [exact H2|]. now apply is_fqdn_lid. }
  assert (Hw : walk s s = s :: tsufs s) by (unfold walk; rewrite Es; reflexivity).
  destruct (pn_go_pk (length s) (poff st) s [] s true 0 cap cp st cm e Hb Hlid) as [C1 C2]; auto.
  { tauto. }
  rewrite Hw in C1, C2. rewrite (bytes_eqb_false s [46]) by exact H2.
  destruct (snd (pk_list cm (s :: tsufs s) (length s) (poff st) cp)) as [l|].
  - destruct C2 as [[p Ep] Ho]. rewrite Ep. destruct (cap <? _); [discriminate|].
    intro X; injection X as <-. cbn [pn_cm pn_out]. split; [exact C1|].
    unfold poff. cbn [pn_out]. rewrite lenN_app. change (lenN (u16 (p + 49152))) with 2. unfold poff in Ho. lia.
  - destruct C2 as [Ep Ho]. rewrite Ep. destruct (_ <? cap); [|discriminate].
    intro X; injection X as <-. cbn [pn_cm pn_out]. split; [exact C1|].
    unfold poff. cbn [pn_out]. rewrite lenN_app, lenN_cons, lenN_nil. unfold poff, lenN in *. lia.
Qed.

(* the two walks, side by side.  [Ke cm c]: same keys *)
Definition Ke (cm : cmap) (c : lset) : Prop := forall k, In k c <-> in_cm cm k.

Lemma in_cm_find cm k : in_cm cm k -> exists p, cm_find cm k = Some p.
Proof. unfold in_cm. destruct (cm_find cm k) as [p|]; [eauto|congruence]. Qed.
Lemma not_in_cm_find cm k : ~ in_cm cm k -> cm_find cm k = None.
Proof. unfold in_cm. destruct (cm_find cm k); [intro H; exfalso; apply H; discriminate|reflexivity]. Qed.

(* without compress, a walk over suffixes that are all keys already (or too far
   into the message to be entered) leaves the map alone *)
Lemma pk_noop V : forall cm n P,
  (forall Z, In Z V -> in_cm cm Z \/ mco <= P + N.of_nat (n - length Z)) ->
  pk_list cm V n P false = (cm, None).
Proof.
  induction V as [|Z V IH]; intros cm n P H; [reflexivity|]. cbn [pk_list].
  destruct (cm_find cm Z) as [p|] eqn:E.
  - apply IH. intros Z' HZ'. apply H. now right.
  - destruct (H Z (or_introl eq_refl)) as [Hin|Hge]; [unfold in_cm in Hin; congruence|].
    replace (P + N.of_nat (n - length Z) <? mco) with false by lia.
    apply IH. intros Z' HZ'. apply H. now right.
Qed.

Lemma lists_agree n P cm0 cp : closed cm0 P -> forall m Z cm c c' hitL,
  (length Z <= m)%nat -> Ke cm c ->
  (forall k, in_cm cm0 k -> in_cm cm k) ->
  (forall k, in_cm cm k -> in_cm cm0 k \/ (length Z < length k)%nat) ->
  cls_list c (Z :: tsufs Z) n P = (c', hitL) ->
  Ke (fst (pk_list cm (Z :: tsufs Z) n P cp)) c' /\
  snd (pk_list cm (Z :: tsufs Z) n P cp) = (if cp then hitL else None).
Proof.
  intro Hcl.
  (* one step, given the claim for the next suffix *)
  assert (Step : forall Z cm c c' hitL,
    (forall Z1 cm1 c1, (length Z1 < length Z)%nat -> Ke cm1 c1 ->
       (forall k, in_cm cm0 k -> in_cm cm1 k) ->
       (forall k, in_cm cm1 k -> in_cm cm0 k \/ (length Z1 < length k)%nat) ->
       cls_list c1 (Z1 :: tsufs Z1) n P = (c', hitL) ->
       Ke (fst (pk_list cm1 (Z1 :: tsufs Z1) n P cp)) c' /\
       snd (pk_list cm1 (Z1 :: tsufs Z1) n P cp) = (if cp then hitL else None)) ->
    Ke cm c -> (forall k, in_cm cm0 k -> in_cm cm k) ->
    (forall k, in_cm cm k -> in_cm cm0 k \/ (length Z < length k)%nat) ->
    cls_list c (Z :: tsufs Z) n P = (c', hitL) ->
    Ke (fst (pk_list cm (Z :: tsufs Z) n P cp)) c' /\
    snd (pk_list cm (Z :: tsufs Z) n P cp) = (if cp then hitL else None)).
  { intros Z cm c c' hitL Next HK Hmono Hnew H. cbn [cls_list pk_list] in *.
    destruct (ls_mem c Z) eqn:Em.
    - injection H as <- <-. apply ls_mem_In in Em. apply HK in Em.
      destruct (in_cm_find cm Z Em) as [p Ep]. rewrite Ep. destruct cp; [cbn [fst snd]; auto|].
      rewrite pk_noop; [cbn [fst snd]; auto|].
      intros Z' HZ'. destruct (Hnew Z Em) as [H0|Hl]; [|lia].
      destruct (Hcl Z Z' H0 HZ') as [Hin|Hge]; [left; now apply Hmono|right; lia].
    - assert (Hn : ~ in_cm cm Z).
      { intro Hin. apply HK in Hin. apply ls_mem_In in Hin. congruence. }
      rewrite (not_in_cm_find cm Z Hn).
      set (cond := P + N.of_nat (n - length Z) <? mco) in *.
      set (c1 := if cond then Z :: c else c) in *.
      set (cm1 := if cond then (Z, P + N.of_nat (n - length Z)) :: cm else cm).
      assert (HK1 : Ke cm1 c1).
      { unfold cm1, c1. destruct cond; [|exact HK]. intro k. rewrite in_cm_cons. cbn [In]. rewrite (HK k). tauto. }
      assert (Hmono1 : forall k, in_cm cm0 k -> in_cm cm1 k).
      { intros k Hk. unfold cm1. destruct cond; [apply in_cm_cons; right|]; now apply Hmono. }
      assert (Hnew1 : forall k, in_cm cm1 k -> in_cm cm0 k \/ k = Z \/ (length Z < length k)%nat).
      { intros k Hk. unfold cm1 in Hk. destruct cond.
        - apply in_cm_cons in Hk. destruct Hk as [<-|Hk]; [auto|]. destruct (Hnew k Hk); auto.
        - destruct (Hnew k Hk); auto. }
      rewrite (tsufs_first_sep Z) in *. destruct (first_sep Z) as [k|] eqn:Ek.
      + destruct (first_sep_spec Z k Ek) as [_ [Hsk Hkl]]. pose proof (first_sep_pos Z k Ek) as Hk0.
        assert (Hl1 : (length (skipn k Z) < length Z)%nat) by (rewrite skipn_length; lia).
        apply (Next (skipn k Z) cm1 c1 Hl1 HK1 Hmono1); [|exact H].
        intros q Hq. destruct (Hnew1 q Hq) as [?|[->|?]]; [now left|right; lia|right; lia].
      + cbn [cls_list] in H. injection H as <- <-. cbn [pk_list fst snd]. split; [exact HK1|]. now destruct cp. }
  induction m as [|m IH]; intros Z cm c c' hitL Hm HK Hmono Hnew H.
  - apply (Step Z cm c c' hitL); auto. intros Z1 cm1 c1 Hl. lia.
  - apply (Step Z cm c c' hitL); auto. intros Z1 cm1 c1 Hl. apply IH. lia.
Qed.

(* equal key sets, closed map: the invariant of exactness *)
Definition Je (cm : cmap) (ls : lset) (P : N) : Prop := Ke cm ls /\ closed cm P.

Lemma Je_mono cm ls P P' : Je cm ls P -> P <= P' -> Je cm ls P'.
Proof. intros [H1 H2] HP. split; [exact H1|eapply closed_mono; eauto]. Qed.

(* one escape-free, non-empty name packed and measured at the same offset:
   domainNameLen is exactly what is written, and the key sets stay equal *)
Lemma name_joint_eq s cap cp st cm ls n c' st' :
  has_backslash s = false -> s <> [] -> pn_cm st = Some cm -> Je cm ls (poff st) ->
  pack_name s cap cp st = Ok st' ->
  domain_name_len s (poff st) (Some ls) cp = (n, c') ->
  exists cm' ls', pn_cm st' = Some cm' /\ c' = Some ls' /\ poff st' = poff st + n /\ Je cm' ls' (poff st').
Proof.
  intros Hb H1 Hcm [HK Hcl] Hp Hl.
  destruct (pack_name_cm s cap cp st cm st' Hcm Hcl Hp) as [cmx [C1 [_ [C3 _]]]].
  destruct (list_eq_dec N.eq_dec s [46]) as [->|H2].
  { (* the root: one octet, no walk on either side *)
    cbn in Hl. injection Hl as <- <-.
    pose proof (pack_name_root_cm _ _ _ _ Hp) as Hc. pose proof (pack_name_root _ _ _ _ Hp) as Ho.
    exists cm, ls. split; [congruence|]. split; [reflexivity|]. split; [exact Ho|].
    split; [exact HK|]. rewrite Hc, Hcm in C1. injection C1 as <-. exact C3. }
  destruct (pack_name_pk s cap cp st cm st' Hb H1 H2 Hcm Hp) as [P1 P2].
  assert (Ecm : cmx = fst (pk_list cm (s :: tsufs s) (length s) (poff st) cp)) by congruence.
  clear P1.
  unfold domain_name_len in Hl. rewrite !bytes_eqb_false in Hl by assumption. cbn [orb] in Hl. rewrite Hb in Hl.
  destruct (cp || (poff st <? max_compression_offset)) eqn:Ego.
  - rewrite compression_len_search_spec in Hl by exact H1.
    match type of Hl with (match ?t with _ => _ end) = _ => destruct t as [cs' hit] eqn:Ew end.
    destruct (lists_agree (length s) (poff st) cm cp Hcl (length s) s cm ls cs' hit (le_n _) HK) as [A1 A2]; auto.
    assert (P2' : poff st' = poff st + match (if cp then hit else None) with
                                       | Some l => N.of_nat l + 2 | None => lenN s + 1 end).
    { rewrite <- A2. exact P2. }
    clear P2. rename P2' into P2.
    assert (A1' : Ke cmx cs') by (rewrite Ecm; exact A1).
    exists cmx, cs'. split; [exact C1|].
    destruct hit as [l|]; destruct cp; injection Hl as <- <-;
      (split; [reflexivity|]); (split; [exact P2|]); (split; [exact A1'|exact C3]).
  - apply orb_false_elim in Ego. destruct Ego as [-> Eo]. injection Hl as <- <-.
    assert (Hno : pk_list cm (s :: tsufs s) (length s) (poff st) false = (cm, None)).
    { apply pk_noop. intros Z _. right. unfold mco. lia. }
    assert (Ecm2 : cmx = cm) by exact (eq_trans Ecm (f_equal fst Hno)).
    assert (P2' : poff st' = poff st + (lenN s + 1)).
    { exact (eq_trans P2 (f_equal (fun x : cmap * option nat => poff st + match snd x with
                                      | Some l => N.of_nat l + 2 | None => lenN s + 1 end) Hno)). }
    clear Ecm. subst cmx.
    exists cm, ls. split; [exact C1|]. split; [reflexivity|]. split; [exact P2'|]. split; [exact HK|exact C3].
Qed.

(* ================================================================== *)
(* 8. exact with compression: fields, records, sections, the message    *)
(* ================================================================== *)
Definition is_name_kind (k : fkind) : bool := match k with K_name _ => true | _ => false end.

Lemma kind_term_joint_eq v f k t cap st cm ls off l l' c' st' :
  kind_term f k t = true -> exact_kind k = true -> plain_field v f k = true ->
  pn_cm st = Some cm -> Je cm ls (poff st) -> (is_name_kind k = true -> poff st = off + l) ->
  pack_field v f k cap st = Ok st' -> len_term v t off l (Some ls) = (l', c') ->
  exists cm' ls', pn_cm st' = Some cm' /\ c' = Some ls' /\ poff st' + l = poff st + l' /\ Je cm' ls' (poff st').
Proof.
  intros Hk He Hp Hcm HJ Hoff Hpk Hl.
  (* the kinds that write no name: the map is kept, the size is the estimate *)
  assert (Kp : walks t = false -> pn_cm st' = pn_cm st -> poff st' = poff st + term_est v t ->
          exists cm' ls', pn_cm st' = Some cm' /\ c' = Some ls' /\ poff st' + l = poff st + l' /\ Je cm' ls' (poff st')).
  { intros Hw Hc Hs. rewrite len_term_nowalk in Hl by exact Hw. injection Hl as <- <-.
    exists cm, ls. split; [congruence|]. split; [reflexivity|]. split; [lia|]. eapply Je_mono; [exact HJ|lia]. }
  destruct k; try discriminate He; destruct t; cbn [kind_term] in Hk; try discriminate;
    repeat (apply andb_prop in Hk; let H := fresh "Hk" in destruct Hk as [Hk H]);
    apply String.eqb_eq in Hk; subst; cbn [pack_field plain_field] in *.
  - (* a name *)
    clear Kp. apply Bool.eqb_prop in Hk0. subst. apply andb_prop in Hp. destruct Hp as [Hb Hn]. unfold no_bs in Hb.
    cbn [len_term] in Hl. rewrite <- (Hoff eq_refl) in Hl.
    destruct (domain_name_len (as_s (vget v f0)) (poff st) (Some ls) compress0) as [n c1] eqn:En.
    injection Hl as <- <-.
    destruct (name_joint_eq (as_s (vget v f0)) cap compress0 st cm ls n c1 st') as [cm1 [ls1 [C1 [-> [Hs J1]]]]]; auto.
    { now destruct (has_backslash _). }
    { intro E. rewrite E in Hn. discriminate. }
    exists cm1, ls1. split; [exact C1|]. split; [reflexivity|]. split; [lia|exact J1].
  - (* a character-string *)
    unfold pack_string in Hpk. destruct (pack_txt_string _ _ _) eqn:E; try discriminate. injection Hpk as <-.
    apply Kp; [reflexivity|apply pack_txt_string_cm in E; exact E|].
    apply pack_txt_string_exact in E; [cbn [term_est]; lia|]. unfold no_bs in Hp. now destruct (has_backslash _).
  - (* TXT *)
    destruct (pack_txt _ _ _) eqn:E; try discriminate. injection Hpk as <-.
    apply Kp; [reflexivity|apply pack_txt_cm in E; exact E|]. apply (pack_txt_exact _ _ _ _ Hp) in E. exact E.
  - apply N.eqb_eq in Hk0. subst.
    apply Kp; [reflexivity|apply pack_a_cm in Hpk; exact Hpk|exact (pack_a_exact _ _ _ _ Hpk)].
  - apply N.eqb_eq in Hk0. subst.
    apply Kp; [reflexivity|apply pack_aaaa_cm in Hpk; exact Hpk|exact (pack_aaaa_exact _ _ _ _ Hpk)].
Qed.

(* alignment for exactness with compression: as C08's exact alignment, and no
   constant counted by len() is still unwritten when a name is reached (the name
   is then measured at the offset it is written at) *)
Fixpoint cexact_go (credit : N) (pfs : list pfield) (ts : list lterm) : bool :=
  let '(credit', ts') := absorb credit ts in
  match pfs with
  | [] => (credit' =? 0) && match ts' with [] => true | _ => false end
  | (f, k) :: r =>
    match kind_fixed k with
    | Some n => (n <=? credit') && cexact_go (credit' - n) r ts'
    | None =>
      match ts' with
      | t :: ts'' => kind_term f k t && exact_kind k && (negb (is_name_kind k) || (credit' =? 0))
                     && cexact_go credit' r ts''
      | [] => false
      end
    end
  end.

Lemma fields_joint_eq v : forall pfs credit ts cap st cm ls off l l' c' st',
  cexact_go credit pfs ts = true -> plain_fields v pfs = true ->
  pn_cm st = Some cm -> Je cm ls (poff st) -> poff st + credit = off + l ->
  pack_fields v pfs cap st = Ok st' ->
  len_terms v ts off l (Some ls) = (l', c') ->
  exists cm' ls', pn_cm st' = Some cm' /\ c' = Some ls' /\ poff st' = off + l' /\ Je cm' ls' (poff st').
Proof.
  induction pfs as [|[f k] r IH]; intros credit ts cap st cm ls off l l' c' st' Ha Hpl Hcm HJ HP Hp Hl.
  - cbn [cexact_go] in Ha. destruct (absorb credit ts) as [c1 ts1] eqn:Eab.
    destruct (absorb_len v ts credit c1 ts1 off l (Some ls) Eab) as [El Hc]. rewrite El in Hl.
    apply andb_prop in Ha. destruct Ha as [H0 Ht]. destruct ts1; [|discriminate].
    cbn [len_terms] in Hl. injection Hl as <- <-.
    cbn [pack_fields] in Hp. injection Hp as <-. exists cm, ls.
    split; [exact Hcm|]. split; [reflexivity|]. split; [lia|exact HJ].
  - cbn [cexact_go] in Ha. destruct (absorb credit ts) as [c1 ts1] eqn:Eab.
    destruct (absorb_len v ts credit c1 ts1 off l (Some ls) Eab) as [El Hc]. rewrite El in Hl.
    cbn [plain_fields forallb fst snd] in Hpl. apply andb_prop in Hpl. destruct Hpl as [Hp1 Hpl].
    cbn [pack_fields] in Hp. destruct (pack_field v f k cap st) as [s1| | |] eqn:E1; try discriminate.
    cbn [bind] in Hp.
    destruct (kind_fixed k) as [n|] eqn:Ek.
    + apply andb_prop in Ha. destruct Ha as [Hn Ha].
      destruct (fixed_is_fixed v f k n Ek) as [b [Hb Hf]]. rewrite Hf in E1.
      pose proof (pack_fixed_exact _ _ _ _ E1) as Hs. pose proof (pack_fixed_cm _ _ _ _ E1) as Hm.
      apply (IH (c1 - n) ts1 cap s1 cm ls off (l + (c1 - credit)) l' c' st' Ha Hpl); auto.
      * congruence.
      * eapply Je_mono; [exact HJ|lia].
      * lia.
    + destruct ts1 as [|t ts2]; [discriminate|].
      apply andb_prop in Ha. destruct Ha as [Hk Ha]. apply andb_prop in Hk. destruct Hk as [Hk Hnm].
      apply andb_prop in Hk. destruct Hk as [Hk He].
      cbn [len_terms] in Hl.
      destruct (len_term v t off (l + (c1 - credit)) (Some ls)) as [l2 c2] eqn:Et.
      destruct (kind_term_joint_eq v f k t cap st cm ls off (l + (c1 - credit)) l2 c2 s1 Hk He Hp1 Hcm HJ) as
          [cm1 [ls1 [C1 [-> [Hs J1]]]]]; auto.
      { intro Hn. rewrite Hn in Hnm. cbn [negb orb] in Hnm. lia. }
      apply (IH c1 ts2 cap s1 cm1 ls1 off l2 l' c' st' Ha Hpl C1 J1); auto. lia.
Qed.

Definition kind_cexact (k : string) : bool :=
  match find_layout layouts k, len_terms_of k with
  | Some L, Some ts => cexact_go 0 (tl_pack L) ts
  | _, _ => false
  end.
Lemma exact_kinds_cexact : forallb kind_cexact exact_kinds = true.
Proof. vm_compute. reflexivity. Qed.

(* C08's plain record, of a kind aligned for compression as well *)
Definition rr_cplain (r : rr) : bool := rr_plain r && kind_cexact (rr_kind r).

Lemma rr_joint_eq r cap st cm ls n c' st' :
  rr_cplain r = true -> pn_cm st = Some cm -> Je cm ls (poff st) -> poff st < cap ->
  pack_rr r cap true st = Ok st' ->
  len_rr r (poff st) (Some ls) = (n, c') ->
  exists cm' ls', pn_cm st' = Some cm' /\ c' = Some ls' /\ poff st' = poff st + n /\ Je cm' ls' (poff st').
Proof.
  unfold rr_cplain, rr_plain, kind_cexact. intros Hpl Hcm HJ Hcap Hp Hl.
  apply andb_prop in Hpl. destruct Hpl as [Hpl Hk].
  repeat (apply andb_prop in Hpl; let X := fresh "Hpl" in destruct Hpl as [Hpl X]).
  destruct (find_layout layouts (rr_kind r)) as [Ly|] eqn:EL; [|discriminate].
  unfold len_rr in Hl.
  destruct (domain_name_len (rr_name r) (poff st) (Some ls) true) as [hl c1] eqn:En.
  destruct (len_terms_of (rr_kind r)) as [ts|]; [|discriminate].
  rewrite (pack_rr_unfold r Ly cap true st EL) in Hp.
  unfold pack_header in Hp. replace (poff st =? cap) with false in Hp by lia.
  destruct (pack_name (rr_name r) cap true st) as [s1| | |] eqn:E1; try discriminate. cbn [bind] in Hp.
  destruct (pack_fixed (u16 (rr_type r)) cap s1) as [s2| | |] eqn:E2; try discriminate. cbn [bind] in Hp.
  destruct (pack_fixed (u16 (rr_class r)) cap s2) as [s3| | |] eqn:E3; try discriminate. cbn [bind] in Hp.
  destruct (pack_fixed (u32 (rr_ttl r)) cap s3) as [s4| | |] eqn:E4; try discriminate. cbn [bind] in Hp.
  destruct (pack_fixed (u16 0) cap s4) as [s5| | |] eqn:E5; try discriminate. cbn [bind] in Hp.
  destruct (pack_fields (rr_data r) (tl_pack Ly) cap s5) as [s6| | |] eqn:E6; try discriminate. cbn [bind] in Hp.
  destruct (name_joint_eq (rr_name r) cap true st cm ls hl c1 s1) as [cm1 [ls1 [C1 [-> [Hs J1]]]]]; auto.
  { unfold no_bs in Hpl2. now destruct (has_backslash _). }
  { intro E. rewrite E in Hpl1. discriminate. }
  pose proof (pack_fixed_cm _ _ _ _ E2). pose proof (pack_fixed_cm _ _ _ _ E3).
  pose proof (pack_fixed_cm _ _ _ _ E4). pose proof (pack_fixed_cm _ _ _ _ E5).
  apply pack_fixed_exact in E2, E3, E4, E5. rewrite lenN_u16 in E2, E3, E5.
  change (lenN (u32 (rr_ttl r))) with 4 in E4.
  assert (C5 : pn_cm s5 = Some cm1) by congruence.
  assert (J5 : Je cm1 ls1 (poff s5)) by (eapply Je_mono; [exact J1|lia]).
  destruct (fields_joint_eq (rr_data r) (tl_pack Ly) 0 ts cap s5 cm1 ls1 (poff st) (hl + 10) n c' s6 Hk Hpl0 C5 J5) as
      [cm' [ls' [A [B [C D]]]]]; auto.
  { lia. }
  apply rr_finish_off in Hp. destruct Hp as [O1 O2].
  exists cm', ls'. split; [congruence|]. split; [exact B|]. rewrite O1. split; [exact C|exact D].
Qed.

(* ---- the OPT record: owned by the root, every option of the length its own
   len() reports ---- *)
Definition pairs_exactb (l : list (N * bytes * N)) : bool := forallb (fun p => lenN (snd (fst p)) =? snd p) l.
Definition opt_plain (r : rr) : bool :=
  String.eqb (rr_kind r) "OPT" && bytes_eqb (rr_name r) [46]
  && pairs_exactb (as_pairs (vget (rr_data r) "Option")).

Lemma pack_opts_exact l : forall cap st st',
  pairs_exactb l = true -> pack_opts l cap st = Ok st' ->
  poff st' = poff st + pairs_est l /\ pn_cm st' = pn_cm st.
Proof.
  induction l as [|[[code b] n] r IH]; intros cap st st' He H.
  - injection H as <-. cbn [pairs_est]. split; [lia|reflexivity].
  - cbn [pairs_exactb forallb fst snd] in He. apply andb_prop in He. destruct He as [Hb Hr].
    cbn [pack_opts] in H. destruct (cap <? _); [discriminate|]. destruct (cap <? _); [discriminate|].
    destruct (IH _ _ _ Hr H) as [I1 I2]. rewrite poff_pemit in I1. rewrite !lenN_app, !lenN_u16 in I1.
    cbn [pairs_est snd]. split; [lia|exact I2].
Qed.

Lemma opt_layout Ly : find_layout layouts "OPT" = Some Ly -> tl_pack Ly = [("Option"%string, K_opt)].
Proof. intro E. vm_compute in E. injection E as <-. reflexivity. Qed.

Lemma rr_opt_joint_eq r cap st cm ls n c' st' :
  opt_plain r = true -> pn_cm st = Some cm -> Je cm ls (poff st) -> poff st < cap ->
  pack_rr r cap true st = Ok st' ->
  len_rr r (poff st) (Some ls) = (n, c') ->
  pn_cm st' = Some cm /\ c' = Some ls /\ poff st' = poff st + n /\ Je cm ls (poff st').
Proof.
  unfold opt_plain. intros Hpl Hcm HJ Hcap Hp Hl.
  apply andb_prop in Hpl. destruct Hpl as [Hpl Hpe]. apply andb_prop in Hpl. destruct Hpl as [Hk Hn].
  apply String.eqb_eq in Hk. apply bytes_eqb_eq in Hn.
  unfold len_rr in Hl. rewrite Hk, Hn in Hl.
  change (domain_name_len [46] (poff st) (Some ls) true) with (1, Some ls) in Hl.
  change (len_terms_of "OPT") with (Some [L_pairs "Option"]) in Hl.
  cbn [len_terms len_term] in Hl. rewrite pairs_fold in Hl. injection Hl as <- <-.
  destruct (find_layout layouts (rr_kind r)) as [Ly|] eqn:EL.
  2:{ rewrite Hk in EL. vm_compute in EL. discriminate. }
  rewrite (pack_rr_unfold r Ly cap true st EL) in Hp. rewrite Hk in EL. apply opt_layout in EL. rewrite EL in Hp.
  unfold pack_header in Hp. replace (poff st =? cap) with false in Hp by lia. rewrite Hn in Hp.
  destruct (pack_name [46] cap true st) as [s1| | |] eqn:E1; try discriminate. cbn [bind] in Hp.
  destruct (pack_fixed (u16 (rr_type r)) cap s1) as [s2| | |] eqn:E2; try discriminate. cbn [bind] in Hp.
  destruct (pack_fixed (u16 (rr_class r)) cap s2) as [s3| | |] eqn:E3; try discriminate. cbn [bind] in Hp.
  destruct (pack_fixed (u32 (rr_ttl r)) cap s3) as [s4| | |] eqn:E4; try discriminate. cbn [bind] in Hp.
  destruct (pack_fixed (u16 0) cap s4) as [s5| | |] eqn:E5; try discriminate. cbn [bind] in Hp.
  cbn [pack_fields pack_field] in Hp.
  destruct (pack_opts (as_pairs (vget (rr_data r) "Option")) cap s5) as [s6| | |] eqn:E6; try discriminate.
  cbn [bind] in Hp.
  pose proof (pack_name_root_cm _ _ _ _ E1) as C1. apply pack_name_root in E1. fold (poff s1) in E1. fold (poff st) in E1.
  pose proof (pack_fixed_cm _ _ _ _ E2). pose proof (pack_fixed_cm _ _ _ _ E3).
  pose proof (pack_fixed_cm _ _ _ _ E4). pose proof (pack_fixed_cm _ _ _ _ E5).
  apply pack_fixed_exact in E2, E3, E4, E5. rewrite lenN_u16 in E2, E3, E5.
  change (lenN (u32 (rr_ttl r))) with 4 in E4.
  destruct (pack_opts_exact _ _ _ _ Hpe E6) as [O6 C6].
  apply rr_finish_off in Hp. destruct Hp as [O1 O2].
  assert (Hoff : poff st' = poff st + (1 + 10 + pairs_est (as_pairs (vget (rr_data r) "Option")))) by lia.
  split; [congruence|]. split; [reflexivity|]. split; [exact Hoff|]. eapply Je_mono; [exact HJ|lia].
Qed.

Definition rr_cok (r : rr) : bool := rr_cplain r || opt_plain r.

Lemma rr_cok_joint_eq r cap st cm ls n c' st' :
  rr_cok r = true -> pn_cm st = Some cm -> Je cm ls (poff st) -> poff st < cap ->
  pack_rr r cap true st = Ok st' ->
  len_rr r (poff st) (Some ls) = (n, c') ->
  exists cm' ls', pn_cm st' = Some cm' /\ c' = Some ls' /\ poff st' = poff st + n /\ Je cm' ls' (poff st').
Proof.
  unfold rr_cok. intros H. apply orb_prop in H. destruct H as [H|H]; intros Hcm HJ Hcap Hp Hl.
  - eapply rr_joint_eq; eauto.
  - destruct (rr_opt_joint_eq r cap st cm ls n c' st' H Hcm HJ Hcap Hp Hl) as [A [B [C D]]]. exists cm, ls. auto.
Qed.

Lemma question_joint_eq q cap st cm ls n c' st' :
  q_plain q = true -> pn_cm st = Some cm -> Je cm ls (poff st) ->
  pack_question q cap true st = Ok st' ->
  len_question q (poff st) (Some ls) = (n, c') ->
  exists cm' ls', pn_cm st' = Some cm' /\ c' = Some ls' /\ poff st' = poff st + n /\ Je cm' ls' (poff st').
Proof.
  unfold q_plain. intros Hq Hcm HJ Hp Hl. apply andb_prop in Hq. destruct Hq as [Hb Hn].
  unfold len_question in Hl.
  destruct (domain_name_len (q_name q) (poff st) (Some ls) true) as [hl c1] eqn:En. injection Hl as <- <-.
  unfold pack_question in Hp.
  destruct (pack_name (q_name q) cap true st) as [s1| | |] eqn:E1; try discriminate. cbn [bind] in Hp.
  destruct (pack_fixed (u16 (q_type q)) cap s1) as [s2| | |] eqn:E2; try discriminate. cbn [bind] in Hp.
  destruct (name_joint_eq (q_name q) cap true st cm ls hl c1 s1) as [cm1 [ls1 [C1 [-> [Hs J1]]]]]; auto.
  { unfold no_bs in Hb. now destruct (has_backslash _). }
  { intro E. rewrite E in Hn. discriminate. }
  pose proof (pack_fixed_cm _ _ _ _ E2). pose proof (pack_fixed_cm _ _ _ _ Hp).
  apply pack_fixed_exact in E2, Hp. rewrite lenN_u16 in E2, Hp.
  exists cm1, ls1. split; [congruence|]. split; [reflexivity|]. split; [lia|]. eapply Je_mono; [exact J1|lia].
Qed.

Lemma questions_joint_eq l : forall cap st cm ls L' c' st',
  forallb q_plain l = true -> pn_cm st = Some cm -> Je cm ls (poff st) ->
  pack_questions l cap true st = Ok st' ->
  fold_left step_q l (poff st, Some ls) = (L', c') ->
  exists cm' ls', pn_cm st' = Some cm' /\ c' = Some ls' /\ poff st' = L' /\ Je cm' ls' (poff st').
Proof.
  induction l as [|q r IH]; intros cap st cm ls L' c' st' Hq Hcm HJ Hp Hl.
  - injection Hp as <-. cbn [fold_left] in Hl. injection Hl as <- <-. exists cm, ls. auto.
  - cbn [forallb] in Hq. apply andb_prop in Hq. destruct Hq as [Hq Hr].
    cbn [pack_questions] in Hp. destruct (pack_question q cap true st) as [s1| | |] eqn:E1; try discriminate.
    cbn [bind] in Hp. cbn [fold_left] in Hl. unfold step_q at 2 in Hl. cbn [fst snd] in Hl.
    destruct (len_question q (poff st) (Some ls)) as [n c1] eqn:En.
    destruct (question_joint_eq q cap st cm ls n c1 s1 Hq Hcm HJ E1 En) as [cm1 [ls1 [C1 [-> [Hs J1]]]]].
    rewrite <- Hs in Hl. exact (IH cap s1 cm1 ls1 L' c' st' Hr C1 J1 Hp Hl).
Qed.

Lemma rrs_joint_eq l : forall cap st cm ls L' c' st',
  forallb rr_cok l = true -> forallb rr_okb l = true -> pn_cm st = Some cm -> Je cm ls (poff st) ->
  poff st + rrs_est l < cap ->
  pack_rrs l cap true st = Ok st' ->
  fold_left step_r l (poff st, Some ls) = (L', c') ->
  exists cm' ls', pn_cm st' = Some cm' /\ c' = Some ls' /\ poff st' = L' /\ Je cm' ls' (poff st').
Proof.
  induction l as [|x r IH]; intros cap st cm ls L' c' st' Hc Hok Hcm HJ Hcap Hp Hl.
  - injection Hp as <-. cbn [fold_left] in Hl. injection Hl as <- <-. exists cm, ls. auto.
  - cbn [forallb] in Hc, Hok. apply andb_prop in Hc. destruct Hc as [Hx Hr].
    apply andb_prop in Hok. destruct Hok as [Hox Hor]. cbn [rrs_est] in Hcap.
    cbn [pack_rrs] in Hp. destruct (pack_rr x cap true st) as [s1| | |] eqn:E1; try discriminate.
    cbn [bind] in Hp. cbn [fold_left] in Hl. unfold step_r at 2 in Hl. cbn [fst snd] in Hl.
    destruct (len_rr x (poff st) (Some ls)) as [n c1] eqn:En.
    assert (Hlt : poff st < cap) by lia.
    destruct (rr_cok_joint_eq x cap st cm ls n c1 s1 Hx Hcm HJ Hlt E1 En) as [cm1 [ls1 [C1 [-> [Hs J1]]]]].
    destruct (room_rr x true st (poff st + rr_est x) Hox) as [R1 _]; [lia|]. apply R1 in E1.
    rewrite <- Hs in Hl. apply (IH cap s1 cm1 ls1 L' c' st' Hr Hor C1 J1); [lia|exact Hp|exact Hl].
Qed.

(* ---- the message ---- *)
(* escape-free questions; every record either a plain record (C08) of a kind
   aligned for compression — the sixteen common kinds are — or a real OPT *)
Definition msg_cplain (m : msg) : bool :=
  forallb q_plain (m_question m) && forallb rr_cok (m_answer m) && forallb rr_cok (m_ns m)
  && forallb rr_cok (m_extra m).

Lemma rr_cok_ext r c : rr_cok (set_ext_rcode r c) = rr_cok r.
Proof. reflexivity. Qed.
Lemma cok_update l f : (forall x, rr_cok (f x) = rr_cok x) -> forall i,
  forallb rr_cok (update_nth l i f) = forallb rr_cok l.
Proof.
  intro Hf. induction l as [|x r IH]; intro i; [destruct i; reflexivity|].
  destruct i; cbn [update_nth forallb]; [now rewrite Hf|now rewrite IH].
Qed.
Lemma msg_extra_cok m : forallb rr_cok (msg_extra m) = forallb rr_cok (m_extra m).
Proof. unfold msg_extra. destruct (last_opt_index _ _ _); [|reflexivity]. apply cok_update. intro; apply rr_cok_ext. Qed.

Lemma Je_empty P : Je [] [] P.
Proof.
  split.
  - intro k. split; [intros []|]. intro H. exfalso. apply H. reflexivity.
  - intros X Z HX. exfalso. apply HX. reflexivity.
Qed.

(* Len() = len(Pack()) for a message packed WITH compression *)
Theorem msg_len_exact_compressed m w :
  msg_cplain m = true -> msg_okb m = true -> msg_compress m = true -> pack_msg m = Ok w -> lenN w = msg_len m.
Proof.
  intros Hpl Hok1 Hc.
  unfold msg_cplain in Hpl. repeat (apply andb_prop in Hpl; let X := fresh "Hpl" in destruct Hpl as [Hpl X]).
  unfold msg_okb in Hok1. apply andb_prop in Hok1. destruct Hok1 as [Hok1 He1]. apply andb_prop in Hok1. destruct Hok1 as [Ha1 Hn1].
  unfold pack_msg, msg_len. fold (msg_compress m). rewrite Hc.
  rewrite pack_msg_buf_sections. destruct (4095 <? _); [discriminate|].
  assert (K : (do r <- (do st <- pack_sections (m_question m) (m_answer m) (m_ns m) (msg_extra m) (msg_compress m)
                                (msg_hdr m) (msg_cap m 0) (msg_st0 m);
                        Ok (pn_out st, negb (0 <? msg_len_with m None + 1))); Ok (fst r)) = Ok w ->
              lenN w = msg_len_with m (Some [])).
  { destruct (pack_sections _ _ _ _ _ _ _ _) as [st| | |] eqn:E; try discriminate. cbn [bind fst].
    intro X. injection X as <-. revert E. unfold pack_sections. rewrite Hc.
    pose proof (msg_cap_gt m 0) as Hcap. rewrite msg_len_with_none in Hcap. unfold msg_est in Hcap.
    rewrite <- (msg_extra_est m) in Hcap. rewrite <- msg_extra_cok in Hpl0. rewrite <- msg_extra_okb in He1.
    destruct (pack_fixed (msg_hdr m) (msg_cap m 0) (msg_st0 m)) as [s1| | |] eqn:E1; try discriminate. cbn [bind].
    destruct (pack_questions _ _ _ s1) as [s2| | |] eqn:E2; try discriminate. cbn [bind].
    destruct (pack_rrs (m_answer m) _ _ s2) as [s3| | |] eqn:E3; try discriminate. cbn [bind].
    destruct (pack_rrs (m_ns m) _ _ s3) as [s4| | |] eqn:E4; try discriminate. cbn [bind].
    intro E5.
    assert (C0 : pn_cm (msg_st0 m) = Some []) by (unfold msg_st0; rewrite Hc; reflexivity).
    pose proof (pack_fixed_cm _ _ _ _ E1) as C1. rewrite C0 in C1.
    apply pack_fixed_exact in E1. rewrite lenN_msg_hdr in E1. change (poff (msg_st0 m)) with 0 in E1.
    assert (P1 : poff s1 = 12) by lia.
    rewrite msg_len_with_steps, <- fold_extra.
    (* uncompressed bounds keep every record start inside the buffer *)
    destruct (room_questions (m_question m) true s1 (poff s1 + qs_est (m_question m))) as [Rq _]; [lia|].
    pose proof (Rq _ _ E2) as B2.
    destruct (room_rrs (m_answer m) true s2 (poff s2 + rrs_est (m_answer m)) Ha1) as [Ra _]; [lia|].
    pose proof (Ra _ _ E3) as B3.
    destruct (room_rrs (m_ns m) true s3 (poff s3 + rrs_est (m_ns m)) Hn1) as [Rn _]; [lia|].
    pose proof (Rn _ _ E4) as B4.
    rewrite <- P1.
    destruct (fold_left step_q (m_question m) (poff s1, Some [])) as [L2 c2] eqn:F2.
    destruct (questions_joint_eq _ _ s1 [] [] L2 c2 s2 Hpl C1 (Je_empty _) E2 F2) as [cm2 [ls2 [C2 [-> [P2 J2]]]]].
    subst L2.
    destruct (fold_left step_r (m_answer m) (poff s2, Some ls2)) as [L3 c3] eqn:F3.
    assert (H3 : poff s2 + rrs_est (m_answer m) < msg_cap m 0) by lia.
    destruct (rrs_joint_eq _ _ s2 cm2 ls2 L3 c3 s3 Hpl2 Ha1 C2 J2 H3 E3 F3) as [cm3 [ls3 [C3 [-> [P3 J3]]]]].
    subst L3.
    destruct (fold_left step_r (m_ns m) (poff s3, Some ls3)) as [L4 c4] eqn:F4.
    assert (H4 : poff s3 + rrs_est (m_ns m) < msg_cap m 0) by lia.
    destruct (rrs_joint_eq _ _ s3 cm3 ls3 L4 c4 s4 Hpl1 Hn1 C3 J3 H4 E4 F4) as [cm4 [ls4 [C4 [-> [P4 J4]]]]].
    subst L4.
    destruct (fold_left step_r (msg_extra m) (poff s4, Some ls4)) as [L5 c5] eqn:F5.
    assert (H5 : poff s4 + rrs_est (msg_extra m) < msg_cap m 0) by lia.
    destruct (rrs_joint_eq _ _ s4 cm4 ls4 L5 c5 st Hpl0 He1 C4 J4 H5 E5 F5) as [cm5 [ls5 [C5 [-> [P5 J5]]]]].
    assert (EQ : fold_left step_r (msg_extra m) (fold_left step_r (m_ns m) (fold_left step_r (m_answer m)
                   (fold_left step_q (m_question m) (poff s1, Some [])))) = (L5, Some ls5)).
    { rewrite F2, F3, F4. exact F5. }
    exact (eq_ind (L5, Some ls5) (fun x : N * option lset => lenN (pn_out st) = fst x) P5 _ (eq_sym EQ)). }
  destruct (last_opt_index _ _ _); [|destruct (15 <? _); [discriminate|]]; exact K.
Qed.

(* hence exactness of Len() for the message with the first dropped record *)
Corollary len_exact_compressed_plain m' :
  msg_cplain m' = true -> msg_okb m' = true -> msg_compress m' = true -> len_exact_compressed m'.
Proof. intros H1 H2 H3 w Hw. now apply msg_len_exact_compressed. Qed.

(* ================================================================== *)
(* 9. THE CLAUSE on the packed octets                                   *)
(* ================================================================== *)
(* for an escape-free message of the common types (msg_cplain; msg_okb as in
   C08), the records Truncate kept, the first record it dropped and the OPT do
   not pack into max(size, 512) octets *)
Theorem first_dropped_does_not_fit_packed_plain m size0 m' w :
  has_tsig m = false -> set_aside_exact m = true -> msg_cplain m = true -> msg_okb m = true ->
  next_dropped m size0 = Some m' -> pack_msg m' = Ok w ->
  (trunc_size size0 < Z.of_N (lenN w))%Z.
Proof.
  intros Ht Hx Hpl Hok Hnd Hp.
  unfold msg_cplain in Hpl. repeat (apply andb_prop in Hpl; let X := fresh "Hpl" in destruct Hpl as [Hpl X]).
  unfold msg_okb in Hok. apply andb_prop in Hok. destruct Hok as [Hok He]. apply andb_prop in Hok. destruct Hok as [Ha Hn].
  destruct (next_dropped_forallb rr_cok m size0 m' Ht Hnd Hpl2 Hpl1 Hpl0) as [Eq [A1 [A2 A3]]].
  destruct (next_dropped_forallb rr_okb m size0 m' Ht Hnd Ha Hn He) as [_ [B1 [B2 B3]]].
  apply (first_dropped_does_not_fit_packed m size0 m' w Ht Hx Hnd); [|exact Hp].
  apply len_exact_compressed_plain.
  - unfold msg_cplain. now rewrite Eq, Hpl, A1, A2, A3.
  - unfold msg_okb. now rewrite B1, B2, B3.
  - exact (next_dropped_compress m size0 m' Ht Hnd).
Qed.

(* ================================================================== *)
(* 10. witnesses                                                        *)
(* ================================================================== *)
Definition the_next (m : msg) (size0 : Z) : msg := match next_dropped m size0 with Some x => x | None => m end.
Definition packed_len (m : msg) : option N := match pack_msg m with Ok w => Some (lenN w) | _ => None end.

(* three 200-octet TXT answers and an OPT, Truncate(512): the third answer is the
   first dropped record; with it the message measures and packs to 689 > 512 *)
Definition t_three_next : msg := the_next t_three 512.
Lemma t_three_next_facts :
  has_tsig t_three = false /\ set_aside_exact t_three = true /\
  next_dropped t_three 512 = Some t_three_next /\
  length (m_answer (truncate t_three 512)) = 2%nat /\
  m_answer t_three_next = m_answer t_three /\ m_extra t_three_next = m_extra t_three /\
  msg_len t_three_next = 689 /\ packed_len t_three_next = Some 689 /\
  trunc_budget t_three 512 = 497%Z.
Proof. vm_compute. repeat split; reflexivity. Qed.
Lemma t_three_next_exact : len_exact_compressed t_three_next.
Proof. intros w H. vm_compute in H. injection H as <-. reflexivity. Qed.

(* the early stop: two answers and the OPT measure exactly 512; the loop stops at
   the second answer, which is kept, the third is never measured — and would not
   have fitted *)
Definition t_exact : msg :=
  t_msg [t_txt "a.example.org." 200; t_txt "b.example.org." 238; t_txt "c.example.org." 200] [t_opt 0].
Definition t_exact_next : msg := the_next t_exact 512.
Lemma t_exact_facts :
  has_tsig t_exact = false /\ set_aside_exact t_exact = true /\
  msg_len (truncate t_exact 512) = 512 /\ packed_len (truncate t_exact 512) = Some 512 /\
  length (m_answer (truncate t_exact 512)) = 2%nat /\
  next_dropped t_exact 512 = Some t_exact_next /\
  msg_len t_exact_next = 727 /\ packed_len t_exact_next = Some 727.
Proof. vm_compute. repeat split; reflexivity. Qed.
Lemma t_exact_next_exact : len_exact_compressed t_exact_next.
Proof. intros w H. vm_compute in H. injection H as <-. reflexivity. Qed.

(* the hypothesis on the OPT record cannot be dropped.  An OPT record owned by
   example.org. (not the root) is budgeted at its uncompressed Len, 23, but takes
   12 octets behind the question: Truncate(512) drops the third answer although
   the message with it measures — and packs to — 511 octets.  (The weaker
   condition set_aside_ok, enough for the fit clause, holds here.) *)
Definition t_optn (nm : string) : rr := t_rr nm 41 "OPT" [("Option"%string, V_pairs [])].
Definition t_named : msg :=
  t_msg [t_txt "a.example.org." 200; t_txt "b.example.org." 200; t_txt "c.example.org." 25] [t_optn "example.org."].
Definition t_named_next : msg := the_next t_named 512.
Theorem first_dropped_does_not_fit_refuted :
  has_tsig t_named = false /\ set_aside_ok t_named = true /\ set_aside_exact t_named = false /\
  msg_okb2 t_named = true /\
  length (m_answer (truncate t_named 512)) = 2%nat /\
  next_dropped t_named 512 = Some t_named_next /\
  m_answer t_named_next = m_answer t_named /\ m_extra t_named_next = m_extra t_named /\
  msg_len t_named_next = 511 /\ packed_len t_named_next = Some 511 /\ trunc_size 512 = 512%Z.
Proof. vm_compute. repeat split; reflexivity. Qed.

(* the clause is about the FIRST dropped record only.  Reading it as: no dropped
   record would have fitted — is false twice over:
   (a) a later record of the same section: after the third answer (200 octets
       of text) is dropped, the fourth (5 octets) is dropped too although the two
       kept answers, the fourth and the OPT measure and pack to 494 <= 512;
   (b) a record of a later section: once the answer section lost a record, the
       additional section is not walked at all, so its small TXT record goes
       although the two kept answers, that record and the OPT take 494 octets *)
Definition t_four : msg :=
  t_msg [t_txt "a.example.org." 200; t_txt "b.example.org." 200; t_txt "c.example.org." 200; t_txt "d.example.org." 5]
        [t_opt 0].
Definition t_four_alt : msg :=
  set_sections t_four true true [t_txt "a.example.org." 200; t_txt "b.example.org." 200; t_txt "d.example.org." 5] []
               [t_opt 0].
Definition t_later : msg :=
  t_msg [t_txt "a.example.org." 200; t_txt "b.example.org." 200; t_txt "c.example.org." 200]
        [t_txt "d.example.org." 5; t_opt 0].
Definition t_later_alt : msg :=
  set_sections t_later true true [t_txt "a.example.org." 200; t_txt "b.example.org." 200] []
               [t_txt "d.example.org." 5; t_opt 0].
Theorem every_dropped_record_does_not_fit_refuted :
  (has_tsig t_four = false /\ set_aside_exact t_four = true /\
   length (m_answer (truncate t_four 512)) = 2%nat /\
   msg_len t_four_alt = 494 /\ packed_len t_four_alt = Some 494) /\
  (has_tsig t_later = false /\ set_aside_exact t_later = true /\
   length (m_answer (truncate t_later 512)) = 2%nat /\ m_extra (truncate t_later 512) = [t_opt 0] /\
   msg_len t_later_alt = 494 /\ packed_len t_later_alt = Some 494).
Proof. vm_compute. repeat split; reflexivity. Qed.

(* the hypotheses of the packed form hold of the three-answer message *)
Lemma t_three_plain : msg_cplain t_three = true /\ msg_okb t_three = true /\ msg_cplain t_exact = true /\ msg_okb t_exact = true.
Proof. vm_compute. repeat split; reflexivity. Qed.

(* a reply whose names share suffixes all over (MX, SRV, NS, A, TXT, OPT with
   eight octets of padding): Len() = len(Pack()) = 639 with compression against
   791 without; Truncate(512) keeps everything but the last TXT record and
   leaves 422 octets; with that record back the message packs to 639 > 512 *)
Definition t_a (nm : string) : rr := t_rr nm 1 "A" [("A"%string, V_b [192; 0; 2; 1])].
Definition t_mx (nm tgt : string) : rr :=
  t_rr nm 15 "MX" [("Preference"%string, V_n 10); ("Mx"%string, V_s (bytes_of_string tgt))].
Definition t_ns (nm tgt : string) : rr := t_rr nm 2 "NS" [("Ns"%string, V_s (bytes_of_string tgt))].
Definition t_srv (nm tgt : string) : rr :=
  t_rr nm 33 "SRV" [("Priority"%string, V_n 1); ("Weight"%string, V_n 2); ("Port"%string, V_n 443);
                    ("Target"%string, V_s (bytes_of_string tgt))].
Definition t_mixed : msg :=
  {| m_id := 7; m_response := true; m_opcode := 0; m_aa := true; m_tc := false; m_rd := false; m_ra := false;
     m_z := false; m_ad := false; m_cd := false; m_rcode := 0; m_compress := true;
     m_question := [{| q_name := bytes_of_string "example.org."; q_type := 15; q_class := 1 |}];
     m_answer := [t_mx "example.org." "mail.example.org."; t_mx "example.org." "mail2.example.org.";
                  t_srv "_sip._tcp.example.org." "mail.example.org."];
     m_ns := [t_ns "example.org." "ns1.example.org."; t_ns "example.org." "ns2.example.org."];
     m_extra := [t_a "mail.example.org."; t_a "ns1.example.org."; t_txt "example.org." 200;
                 t_txt "www.example.org." 200; t_opt 8] |}.
Definition t_mixed_next : msg := the_next t_mixed 512.
Lemma t_mixed_facts :
  has_tsig t_mixed = false /\ set_aside_exact t_mixed = true /\ msg_cplain t_mixed = true /\ msg_okb t_mixed = true /\
  msg_compress t_mixed = true /\ msg_len t_mixed = 639 /\ msg_len_with t_mixed None = 791 /\
  packed_len t_mixed = Some 639 /\
  msg_len (truncate t_mixed 512) = 422 /\ packed_len (truncate t_mixed 512) = Some 422 /\
  length (m_answer (truncate t_mixed 512)) = 3%nat /\ length (m_ns (truncate t_mixed 512)) = 2%nat /\
  length (m_extra (truncate t_mixed 512)) = 4%nat /\
  next_dropped t_mixed 512 = Some t_mixed_next /\ length (m_extra t_mixed_next) = 5%nat /\
  msg_len t_mixed_next = 639 /\ packed_len t_mixed_next = Some 639.
Proof. vm_compute. repeat split; reflexivity. Qed.
