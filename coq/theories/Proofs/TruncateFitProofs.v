(* Proofs/TruncateFitProofs.v — Msg.Truncate: the length truncateLoop accumulates
   is the Len() of the message it leaves behind, so that message measures at most
   max(size, 512) — unless what Truncate cannot drop (header, question section,
   the OPT record) is already longer than that. *)
From Dns Require Import Gen.Layouts Gen.Lens Gen.Registry Gen.Structs Gen.Consts.
From Dns Require Import Base.ListX Model.Truncate Proofs.EscapeProofs Proofs.TokenProofs Proofs.NameWireProofs
  Proofs.LenNameProofs Proofs.LenFieldProofs Proofs.LenRRProofs Proofs.LenMsgProofs Proofs.LenCompressProofs
  Proofs.LenCompressMsgProofs.
From Coq Require Import Lia ZifyN ZifyNat ZifyBool.
Open Scope list_scope.
Open Scope N_scope.

(* ================================================================== *)
(* 1. domainNameLen with a suffix set against the plain estimate        *)
(* ================================================================== *)
Lemma enl_pos (s : bytes) : s <> [] -> s <> [92] -> 1 <= escaped_name_len s.
Proof.
  intros H1 H2. destruct s as [|x r]; [congruence|].
  destruct (N.eq_dec x 92) as [->|Hx].
  - destruct r as [|a r1]; [congruence|].
    destruct (is_ddd (a :: r1)) eqn:Hd.
    + destruct r1 as [|b [|c r3]]; try discriminate. rewrite enl_ddd by exact Hd. lia.
    + rewrite enl_esc by exact Hd. lia.
  - rewrite enl_plain by exact Hx. lia.
Qed.

(* escapedNameLen splits at a label start *)
Lemma enl_split (s : bytes) : forall Z, In Z (tsufs s) ->
  escaped_name_len s = escaped_name_len (firstn (length s - length Z) s) + escaped_name_len Z.
Proof.
  induction s as [| a b c r3 Hd IH | a r1 Hd IH | | r IH | x r H1 H2 IH] using tok_ind; intros Z HZ.
  - destruct HZ.
  - rewrite tsufs_ddd in HZ by auto. destruct (tsufs_shorter _ _ HZ) as [Hsh _].
    rewrite !firstn_len_cons by (cbn [length]; lia). rewrite !enl_ddd by auto. rewrite (IH Z HZ). lia.
  - rewrite tsufs_esc in HZ by auto. destruct (tsufs_shorter _ _ HZ) as [Hsh _].
    rewrite !firstn_len_cons by (cbn [length]; lia).
    rewrite enl_esc by auto. rewrite enl_esc by (now apply is_ddd_firstn). rewrite (IH Z HZ). lia.
  - destruct HZ.
  - rewrite tsufs_dot in HZ. destruct r as [|y r'] eqn:Er; [destruct HZ|]. rewrite <- Er in *.
    destruct HZ as [<-|HZ].
    + rewrite firstn_len_cons by lia. rewrite Nat.sub_diag. cbn [firstn].
      rewrite enl_plain by lia. change (escaped_name_len [46]) with 1. lia.
    + destruct (tsufs_shorter _ _ HZ) as [Hsh _]. rewrite firstn_len_cons by lia.
      rewrite !enl_plain by lia. rewrite (IH Z HZ). lia.
  - rewrite tsufs_plain in HZ by auto. destruct (tsufs_shorter _ _ HZ) as [Hsh _].
    rewrite firstn_len_cons by lia. rewrite !enl_plain by auto. rewrite (IH Z HZ). lia.
Qed.

(* no label start of the name is a lone backslash (true of every name that
   ends in an unescaped dot, in particular of the root) *)
Definition no_dangling (s : bytes) : bool := negb (existsb (bytes_eqb [92]) (s :: tsufs s)).

Lemma no_dangling_spec s Z : no_dangling s = true -> In Z (s :: tsufs s) -> Z <> [92].
Proof.
  unfold no_dangling. intros H HZ E. subst Z.
  assert (X : existsb (bytes_eqb [92]) (s :: tsufs s) = true).
  { apply existsb_exists. exists [92]. split; [exact HZ|reflexivity]. }
  rewrite X in H. discriminate.
Qed.

(* compression can only shorten the estimate *)
Lemma dnl_le_plain s off c cp : no_dangling s = true -> fst (domain_name_len s off c cp) <= name_est s.
Proof.
  intro Hnd. destruct c as [cs|]; [|rewrite domain_name_len_none; cbn [fst]; lia].
  destruct (bytes_eqb s [] || bytes_eqb s [46]) eqn:Eroot.
  { unfold domain_name_len, name_est. rewrite Eroot. cbn [fst]. lia. }
  apply orb_false_elim in Eroot. destruct Eroot as [E1 E2].
  assert (H1 : s <> []) by (intro E; subst; discriminate).
  assert (H2 : s <> [46]) by (intro E; subst; discriminate).
  destruct (domain_name_len s off (Some cs) cp) as [n c'] eqn:E. cbn [fst].
  destruct (dnl_some s off cs cp n c' E) as [cs' [_ [_ [_ [->|[_ [Z [HZ [_ ->]]]]]]]]]; [lia|].
  pose proof (no_dangling_spec s Z Hnd HZ) as HZ92.
  unfold hit_est, name_est. rewrite E1, E2. cbn [orb].
  destruct (has_backslash s).
  - destruct HZ as [<-|HZ].
    + rewrite Nat.sub_diag. cbn [firstn escaped_name_len]. pose proof (enl_pos s H1 HZ92). lia.
    + destruct (tsufs_shorter _ _ HZ) as [_ Hne]. rewrite (enl_split s Z HZ). pose proof (enl_pos Z Hne HZ92). lia.
  - assert (1 <= length Z <= length s)%nat.
    { destruct HZ as [<-|HZ]; [destruct s; [congruence|cbn; lia]|].
      destruct (tsufs_shorter _ _ HZ) as [Hl Hne]. destruct Z; [congruence|cbn in *; lia]. }
    unfold lenN. lia.
Qed.

(* the witness for the side condition: a lone backslash after the last dot *)
Lemma dnl_le_plain_refuted :
  fst (domain_name_len [97; 46; 92] 0 (Some [[92]]) true) = 4 /\ name_est [97; 46; 92] = 3.
Proof. vm_compute. split; reflexivity. Qed.

(* a record whose len() walks no name but the owner's *)
Definition nowalk_kind (k : string) : bool :=
  match len_terms_of k with Some ts => forallb (fun t => negb (walks t)) ts | None => true end.
Definition side_ok (o : rr) : bool := nowalk_kind (rr_kind o) && no_dangling (rr_name o).

Lemma len_terms_nowalk v ts : forall off l c,
  forallb (fun t => negb (walks t)) ts = true -> len_terms v ts off l c = (l + terms_est v ts, c).
Proof.
  induction ts as [|t r IH]; intros off l c H; cbn [len_terms terms_est]; [f_equal; lia|].
  cbn [forallb] in H. apply andb_prop in H. destruct H as [Ht Hr].
  rewrite len_term_nowalk by (now destruct (walks t)). rewrite IH by exact Hr. f_equal. lia.
Qed.

Lemma len_rr_le_plain o L c : side_ok o = true -> fst (len_rr o L c) <= rr_len o.
Proof.
  unfold side_ok, nowalk_kind. intro H. apply andb_prop in H. destruct H as [Hk Hn].
  rewrite rr_len_est. unfold len_rr, rr_est.
  pose proof (dnl_le_plain (rr_name o) L c true Hn) as Hd.
  destruct (domain_name_len (rr_name o) L c true) as [hl c1]. cbn [fst] in Hd.
  destruct (len_terms_of (rr_kind o)) as [ts|]; [|cbn [fst]; lia].
  rewrite len_terms_nowalk by exact Hk. cbn [fst]. lia.
Qed.

(* ================================================================== *)
(* 2. truncateLoop accumulates the folds of Msg.Len                     *)
(* ================================================================== *)
Lemma truncate_loop_fold rrs : forall size L c i l' k c',
  (Z.of_N L < size)%Z ->
  truncate_loop rrs size (Z.of_N L) c i = (l', k, c') ->
  exists j, k = (i + j)%nat /\ (j <= length rrs)%nat /\
    (Z.of_N (fst (fold_left step_r (firstn j rrs) (L, c))) <= l')%Z /\ (l' <= size)%Z /\
    ((l' < size)%Z -> l' = Z.of_N (fst (fold_left step_r (firstn j rrs) (L, c))) /\
                      c' = snd (fold_left step_r (firstn j rrs) (L, c))).
Proof.
  induction rrs as [|r t IH]; intros size L c i l' k c' Hlt H.
  - cbn [truncate_loop] in H. injection H as <- <- <-. exists 0%nat. cbn [firstn fold_left fst snd length]. (split; [lia|]); (split; [lia|]); (split; [lia|]); (split; [lia|]); intro; split; (reflexivity || lia).
  - cbn [truncate_loop] in H. rewrite N2Z.id in H.
    destruct (len_rr r L c) as [n c1] eqn:En.
    assert (Hstep : step_r (L, c) r = (L + n, c1)) by (unfold step_r; cbn [fst snd]; now rewrite En).
    destruct (size <? Z.of_N L + Z.of_N n)%Z eqn:E1.
    + injection H as <- <- <-. exists 0%nat. cbn [firstn fold_left fst snd length]. (split; [lia|]); (split; [lia|]); (split; [lia|]); (split; [lia|]); intro; split; (reflexivity || lia).
    + destruct (Z.of_N L + Z.of_N n =? size)%Z eqn:E2.
      * injection H as <- <- <-. exists 1%nat. cbn [firstn fold_left length]. rewrite Hstep. cbn [fst snd].
        (split; [lia|]); (split; [lia|]); (split; [lia|]); (split; [lia|]); intro; split; (reflexivity || lia).
      * replace (Z.of_N L + Z.of_N n)%Z with (Z.of_N (L + n)) in H by lia.
        destruct (IH size (L + n) c1 (S i) l' k c') as [j [Hk [Hj [A [B C]]]]]; [lia|exact H|].
        exists (S j). cbn [firstn fold_left length]. rewrite Hstep. (split; [lia|]); (split; [lia|]); (split; [exact A|]); (split; [exact B|exact C]).
Qed.

(* the state truncate carries (l, ct) against the real folds a = (L, c):
   while l < size they agree; afterwards l only says "no more room" *)
Definition tinv (size q : Z) (a : N * option lset) (l : Z) (ct : option lset) : Prop :=
  (Z.of_N (fst a) <= l)%Z /\ (l <= Z.max size q)%Z /\ ((l < size)%Z -> l = Z.of_N (fst a) /\ ct = snd a).

Lemma trunc_section_inv rrs size q a l ct l' k c' :
  tinv size q a l ct -> trunc_section rrs size (l, ct) = (l', k, c') ->
  tinv size q (fold_left step_r (firstn k rrs) a) l' c'.
Proof.
  intros [I1 [I2 I3]] H. unfold trunc_section in H. cbn [fst snd] in H.
  destruct (l <? size)%Z eqn:E.
  - destruct (I3 ltac:(lia)) as [-> ->]. destruct a as [L c]. cbn [fst snd] in *.
    destruct (truncate_loop_fold rrs size L c 0 l' k c' ltac:(lia) H) as [j [-> [Hj [A [B C]]]]].
    cbn [Nat.add]. split; [exact A|]. split; [lia|exact C].
  - injection H as <- <- <-. cbn [firstn fold_left]. split; [exact I1|]. split; [exact I2|exact I3].
Qed.

Lemma fold_step_r_app l1 l2 a : fold_left step_r (l1 ++ l2) a = fold_left step_r l2 (fold_left step_r l1 a).
Proof. apply fold_left_app. Qed.

(* Len() of header and questions: without a set, and with the empty set when
   there is at most one question *)
Lemma questions_len_steps qs : questions_len qs = fold_left step_q qs (12, Some []).
Proof. reflexivity. Qed.
Lemma questions_len_small qs : (length qs <= 1)%nat -> fst (questions_len qs) = 12 + qs_est qs.
Proof.
  intro H. destruct qs as [|q [|q' r]]; [reflexivity| |cbn in H; lia].
  rewrite questions_len_steps. cbn [fold_left qs_est]. unfold step_q. cbn [fst snd]. unfold len_question, q_est.
  destruct (domain_name_len (q_name q) 12 (Some []) true) as [n c'] eqn:E. cbn [fst].
  destruct (dnl_some _ _ _ _ _ _ E) as [cs' [_ [_ [_ [->|[_ [Z [_ [[] _]]]]]]]]]. lia.
Qed.

Lemma msg_len_with_sections m tc cp an ns ex c :
  msg_len_with (set_sections m tc cp an ns ex) c =
  fst (fold_left step_r ex (fold_left step_r ns (fold_left step_r an (fold_left step_q (m_question m) (12, c))))).
Proof. reflexivity. Qed.

(* ================================================================== *)
(* 3. Truncate                                                          *)
(* ================================================================== *)
Definition trunc_size (size0 : Z) : Z := Z.max size0 (Z.of_N c_MinMsgSize).
Definition set_aside (m : msg) : option rr := fst (pop_edns0 (m_extra m)).
Definition set_aside_len (m : msg) : Z := match set_aside m with Some o => Z.of_N (rr_len o) | None => 0%Z end.
Definition set_aside_ok (m : msg) : bool := match set_aside m with Some o => side_ok o | None => true end.
(* what Truncate cannot drop: header, question section (measured with the
   compression set, as Truncate does), and the OPT record *)
Definition fixed_part (m : msg) : Z := (Z.of_N (fst (questions_len (m_question m))) + set_aside_len m)%Z.

Theorem truncate_len_bound m size0 :
  has_tsig m = false -> set_aside_ok m = true ->
  (Z.of_N (msg_len (truncate m size0)) <= Z.max (trunc_size size0) (fixed_part m))%Z.
Proof.
  intros Ht Hso. unfold truncate. rewrite Ht.
  set (sz := if (size0 <? Z.of_N c_MinMsgSize)%Z then Z.of_N c_MinMsgSize else size0).
  assert (Hsz : sz = trunc_size size0) by (unfold sz, trunc_size; destruct (size0 <? _)%Z eqn:E; lia).
  destruct (Z.of_N (msg_len_with m None) <=? sz)%Z eqn:Efit.
  { (* already fits: compression off, the records untouched *)
    unfold msg_len. cbn [m_compress set_sections andb].
    rewrite msg_len_with_sections, <- msg_len_with_steps. lia. }
  unfold fixed_part, set_aside_len, set_aside_ok, set_aside in *.
  destruct (pop_edns0 (m_extra m)) as [opt extra] eqn:Hpop. cbn [fst snd] in *.
  set (olen := match opt with Some o => Z.of_N (rr_len o) | None => 0%Z end) in *.
  set (sz' := match opt with Some o => (sz - Z.of_N (rr_len o))%Z | None => sz end).
  assert (Hsz' : sz' = (sz - olen)%Z) by (unfold sz', olen; destruct opt; lia).
  set (a := questions_len (m_question m)).
  assert (I0 : tinv sz' (Z.of_N (fst a)) a (Z.of_N (fst a)) (snd a)).
  { unfold tinv. split; [lia|]. split; [lia|]. intros _. split; reflexivity. }
  destruct (trunc_section (m_answer m) sz' (Z.of_N (fst a), snd a)) as [[l1 na] c1] eqn:S1.
  pose proof (trunc_section_inv _ _ _ _ _ _ _ _ _ I0 S1) as I1.
  destruct (trunc_section (m_ns m) sz' (l1, c1)) as [[l2 nn] c2] eqn:S2.
  pose proof (trunc_section_inv _ _ _ _ _ _ _ _ _ I1 S2) as I2.
  destruct (trunc_section extra sz' (l2, c2)) as [[l3 ne] c3] eqn:S3.
  pose proof (trunc_section_inv _ _ _ _ _ _ _ _ _ I2 S3) as I3.
  set (q := Z.of_N (fst a)) in *.
  set (a3 := fold_left step_r (firstn ne extra)
               (fold_left step_r (firstn nn (m_ns m)) (fold_left step_r (firstn na (m_answer m)) a))) in *.
  destruct I3 as [J1 [J2 _]].
  (* the message under its own setting *)
  set (tc := m_tc m || Nat.ltb na (length (m_answer m)) || Nat.ltb nn (length (m_ns m)) || Nat.ltb ne (length extra)).
  set (ex' := firstn ne extra ++ match opt with Some o => [o] | None => [] end).
  assert (Hc : (Z.of_N (msg_len_with (set_sections m tc true (firstn na (m_answer m)) (firstn nn (m_ns m)) ex') (Some []))
                <= Z.max sz (q + olen))%Z).
  { rewrite msg_len_with_sections. unfold ex'. rewrite fold_step_r_app.
    change (fold_left step_q (m_question m) (12, Some [])) with a. fold a3.
    destruct opt as [o|]; cbn [fold_left].
    - unfold step_r. pose proof (len_rr_le_plain o (fst a3) (snd a3) Hso) as Ho.
      destruct (len_rr o (fst a3) (snd a3)) as [n c']. cbn [fst] in *. unfold olen in *. lia.
    - unfold olen in *. lia. }
  unfold msg_len. cbn [m_compress set_sections andb].
  destruct (is_compressible _) eqn:Ecomp; [rewrite <- Hsz; exact Hc|].
  (* not compressible: nothing left but at most one question *)
  unfold is_compressible in Ecomp. cbn [m_question m_answer m_ns m_extra set_sections] in Ecomp.
  repeat (apply orb_false_elim in Ecomp; let X := fresh "Ec" in destruct Ecomp as [Ecomp X]).
  rewrite msg_len_with_none. unfold msg_est. cbn [m_question m_answer m_ns m_extra set_sections].
  assert (Hq : (length (m_question m) <= 1)%nat) by lia.
  pose proof (questions_len_small _ Hq) as Hqs. fold a in Hqs.
  destruct (firstn na (m_answer m)); [|discriminate]. destruct (firstn nn (m_ns m)); [|discriminate].
  unfold ex'. destruct (firstn ne extra ++ _); [|discriminate]. cbn [rrs_est].
  assert (0 <= olen)%Z by (unfold olen; destruct opt; lia). unfold q. lia.
Qed.

(* the clause of C09: when the part that cannot be dropped fits, so does Len()
   of the truncated message *)
Theorem truncate_len_fits m size0 :
  has_tsig m = false -> set_aside_ok m = true -> (fixed_part m <= trunc_size size0)%Z ->
  (Z.of_N (msg_len (truncate m size0)) <= trunc_size size0)%Z.
Proof. intros Ht Hso Hf. pose proof (truncate_len_bound m size0 Ht Hso). lia. Qed.

(* ... and so does the packed message (C08: Len() >= len(Pack())) *)
Theorem truncated_message_fits m size0 w :
  has_tsig m = false -> set_aside_ok m = true -> (fixed_part m <= trunc_size size0)%Z ->
  msg_okb2 (truncate m size0) = true -> pack_msg (truncate m size0) = Ok w ->
  (Z.of_N (lenN w) <= trunc_size size0)%Z.
Proof.
  intros Ht Hso Hf Hok Hp. pose proof (truncate_len_fits m size0 Ht Hso Hf).
  pose proof (msg_len_ge_pack _ w Hok Hp). lia.
Qed.
Theorem truncated_message_bound m size0 w :
  has_tsig m = false -> set_aside_ok m = true ->
  msg_okb2 (truncate m size0) = true -> pack_msg (truncate m size0) = Ok w ->
  (Z.of_N (lenN w) <= Z.max (trunc_size size0) (fixed_part m))%Z.
Proof.
  intros Ht Hso Hok Hp. pose proof (truncate_len_bound m size0 Ht Hso).
  pose proof (msg_len_ge_pack _ w Hok Hp). lia.
Qed.

(* ================================================================== *)
(* 4. witnesses                                                         *)
(* ================================================================== *)
Definition t_rr (nm : string) (ty : N) (kind : string) (d : rdata) : rr :=
  {| rr_name := bytes_of_string nm; rr_type := ty; rr_class := 1; rr_ttl := 60; rr_rdlength := 0;
     rr_kind := kind; rr_data := d |}.
Definition t_txt (nm : string) (n : nat) : rr := t_rr nm 16 "TXT" [("Txt"%string, V_ss [repeat 97 n])].
(* an OPT record with one padding option (code 12) of n octets *)
Definition t_opt (n : nat) : rr := t_rr "." 41 "OPT" [("Option"%string, V_pairs [(12, repeat 0 n, N.of_nat n)])].
Definition t_msg (an ex : list rr) : msg :=
  {| m_id := 1; m_response := true; m_opcode := 0; m_aa := false; m_tc := false; m_rd := true; m_ra := true;
     m_z := false; m_ad := false; m_cd := false; m_rcode := 0; m_compress := false;
     m_question := [{| q_name := bytes_of_string "example.org."; q_type := 16; q_class := 1 |}];
     m_answer := an; m_ns := []; m_extra := ex |}.

(* three answers of which one is lost *)
Definition t_three : msg :=
  t_msg [t_txt "a.example.org." 200; t_txt "b.example.org." 200; t_txt "c.example.org." 200] [t_opt 0].
Lemma t_three_facts :
  has_tsig t_three = false /\ set_aside_ok t_three = true /\ (fixed_part t_three <= trunc_size 512)%Z /\
  msg_len t_three = 722 /\
  length (m_answer (truncate t_three 512)) = 2%nat /\ length (m_extra (truncate t_three 512)) = 1%nat /\
  m_tc (truncate t_three 512) = true /\ msg_len (truncate t_three 512) = 474 /\
  msg_okb2 (truncate t_three 512) = true /\
  (exists w, pack_msg (truncate t_three 512) = Ok w /\ lenN w = 474).
Proof. vm_compute. repeat split; try reflexivity; try discriminate. eexists. split; reflexivity. Qed.

(* the unconditional form is false: header, question and an OPT record carrying
   500 octets of padding are 544 octets; Truncate(512) drops both answers, keeps
   the OPT, and the result still measures and packs to 544 > 512 *)
Definition t_padded : msg := t_msg [t_txt "a.example.org." 10; t_txt "b.example.org." 10] [t_opt 500].
Theorem truncate_len_fits_refuted :
  has_tsig t_padded = false /\ set_aside_ok t_padded = true /\ msg_okb2 (truncate t_padded 512) = true /\
  m_answer (truncate t_padded 512) = [] /\ fixed_part t_padded = 544%Z /\
  msg_len (truncate t_padded 512) = 544 /\
  (exists w, pack_msg (truncate t_padded 512) = Ok w /\ lenN w = 544).
Proof. vm_compute. repeat split; try reflexivity. eexists. split; reflexivity. Qed.
