(* Proofs/LayoutProofs.v — complete checks of the tables regenerated from
   zmsg.go / ztypes.go on this run (Gen/*.v) against the frozen RFC tables
   (Spec/*.v) and against each other.  Each check enumerates a finite table
   completely inside the kernel. *)
From Dns Require Import Model.Msg Spec.RfcLayouts Spec.RfcSets.
From Dns Require Import Gen.Layouts Gen.Lens Gen.Registry Gen.Structs.
Open Scope N_scope.

Definition fend_eqb (a b : fend) : bool :=
  match a, b with
  | ToEnd, ToEnd => true
  | SizedBy x, SizedBy y => String.eqb x y
  | _, _ => false
  end.
(* kinds agree between the pack and the unpack side; the "-" guard of NSEC3 salts
   is a pack-side detail of a hex field *)
Definition kind_agree (p u : fkind) : bool :=
  match p, u with
  | K_u8, K_u8 | K_u16, K_u16 | K_u32, K_u32 | K_u48, K_u48 | K_u64, K_u64 => true
  | K_name a, K_name b => Bool.eqb a b
  | K_string, K_string | K_txt, K_txt | K_octet, K_octet | K_any, K_any => true
  | K_hex a, K_hex b | K_hexdash a, K_hex b | K_b64 a, K_b64 b | K_b32 a, K_b32 b => fend_eqb a b
  | K_a, K_a | K_aaaa, K_aaaa | K_nsec, K_nsec | K_opt, K_opt | K_svcb, K_svcb | K_apl, K_apl => true
  | K_names a, K_names b => Bool.eqb a b
  | K_gateway t1 a1 h1 m1 c1, K_gateway t2 a2 h2 m2 c2 =>
    String.eqb t1 t2 && String.eqb a1 a2 && String.eqb h1 h2 && (m1 =? m2) && Bool.eqb c1 c2
  | _, _ => false
  end.
Fixpoint sides_agree (p : list pfield) (u : list ufield) : bool :=
  match p, u with
  | [], [] => true
  | (f, k) :: p', x :: u' => String.eqb f (uf_name x) && kind_agree k (uf_kind x) && sides_agree p' u'
  | _, _ => false
  end.

(* 1. every type's field sequence is the RFC's *)
Lemma layouts_are_rfc : map (fun L => (tl_name L, tl_pack L)) layouts = rfc_layouts.
Proof. vm_compute. reflexivity. Qed.

(* 2. pack() and unpack() of every type walk the same fields in the same order *)
Lemma pack_unpack_sides_agree : forallb (fun L => sides_agree (tl_pack L) (tl_unpack L)) layouts = true.
Proof. vm_compute. reflexivity. Qed.

(* 3. names inside RDATA are compressed only for the RFC 1035 types *)
Definition compresses (k : fkind) : bool :=
  match k with K_name c | K_names c | K_gateway _ _ _ _ c => c | _ => false end.
Lemma only_rfc1035_types_compress_rdata :
  forallb (fun L => negb (existsb (fun pf : pfield => compresses (snd pf)) (tl_pack L))
                    || existsb (String.eqb (tl_name L)) rfc1035_compressible) layouts = true.
Proof. vm_compute. reflexivity. Qed.
(* ... and each of those types does compress its names *)
Lemma rfc1035_types_do_compress :
  forallb (fun n => match find_layout layouts n with
                    | Some L => forallb (fun pf : pfield => match snd pf with K_name c => c | _ => true end) (tl_pack L)
                    | None => false end) rfc1035_compressible = true.
Proof. vm_compute. reflexivity. Qed.

(* 4. every registered type code has a layout and a len() description *)
Lemma registry_complete :
  forallb (fun tk : N * string =>
             match find_layout layouts (base_kind (snd tk)), len_terms_of (base_kind (snd tk)) with
             | Some _, Some _ => true | _, _ => false end) type_to_rr = true.
Proof. vm_compute. reflexivity. Qed.

(* 5. a sized text field is sized by an integer field that precedes it *)
Fixpoint sized_ok (seen : list string) (p : list pfield) : bool :=
  match p with
  | [] => true
  | (f, k) :: r =>
    (match k with
     | K_hex (SizedBy s) | K_hexdash (SizedBy s) | K_b64 (SizedBy s) | K_b32 (SizedBy s) => existsb (String.eqb s) seen
     | K_gateway t _ _ _ _ => existsb (String.eqb t) seen
     | _ => true
     end) && sized_ok (match k with K_u8 | K_u16 => f :: seen | _ => seen end) r
  end.
Lemma size_fields_precede : forallb (fun L => sized_ok [] (tl_pack L)) layouts = true.
Proof. vm_compute. reflexivity. Qed.
