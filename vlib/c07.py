from .core import Check


class C07(Check):
    prop = "C07"
    props_rel = "Props/C07"
    corr_module = "Corr.C07"
    corr_rel = "Corr/C07"
    model_desc = ("Model/Lexer.v: zlexer.readByte/Next (call-local str/com buffers with their maxTok growth rule as "
                  "checked writes, quote/escape/comment/brace/owner/rrtype flags, nextL queue, comBuf/comment, sticky "
                  "l.err, type/class mnemonic tables, strings.ToUpper as far as ASCII keys can tell) as a structurally "
                  "recursive function bytes -> token stream. Model/Zone.v: ZoneParser.Next state machine (zExpect*), "
                  "slurpRemainder, stringToTTL (64-bit wrap), toAbsoluteName, IsDomainName, $ORIGIN/$TTL, $INCLUDE "
                  "(path.Join/Dir/Clean, include depth, fs vs os open as section variables), $GENERATE (range parser, "
                  "generateReader.ReadByte with escapes, modToPrintf, Sprintf of int64 with width/base, int64 wrap), "
                  "RDATA families single-name / A / AAAA (netip.ParseAddr) / TXT-like (endingToTxtSlice, "
                  "escapedStringOffset) / RFC3597 generic; successive Next calls + Err as an event list "
                  "(records, opens, final error).")
    rule = ("model cases (function by function and whole runs): token dumps of zlexer through the hook VerifLexTokens "
            "(value, text, err, torc, line, column, comment) for a corpus of zones, every third truncation of it, "
            "mutants, token soup, random octets incl. NUL/0xff/UTF-8 specials, 26 long-token/comment recipes at "
            "511..2049 octets and 100000 octets; whole parser runs (records as owner/type/class/ttl/rdata, FS Open log "
            "in order, inotify-observed os opens, error file/class/line/column/token, plus 3 further Next calls after "
            "the first false) over the same streams x origins x files x default TTLs x include switch x FS/no FS, "
            "69 $INCLUDE scenarios (self-include, chains of 9 and 7, trees, missing files, path shapes) x 4 "
            "configurations, 220 $GENERATE texts, unit cases for stringToTTL, IsDomainName/toAbsoluteName, ParseIP, "
            "range and modifier parsing, the generate reader, include path computation, and Go's type/class tables "
            "against the model's. Direct oracles on the implementation alone: no panic, deadline, no record after "
            "Next returned false and Err() stable, Err() is a *ParseError with line >= 1, no Open (FS log and inotify) "
            "when includes are off, nesting depth <= 7 on include chains/self-includes, <= 65536 records from the "
            "full-size ranges, nested $GENERATE rejected, record/error-token size bounded by the input, cumulative "
            "allocation linear on 4 KiB..256 KiB inputs; ~4000 further random inputs (thorough: x20) oracle-only. "
            "A case is non-trivial when its text argument has more than two octets.")
    partial = [
        "memory proportional to the input: proved for token texts (token_bounded) and token count "
        "(lex_terminates_linear); comment buffers and the implementation's real allocation are measured by the "
        "harness, not proved",
        "absence of panics is proved for the lexer's buffer writes (lex_no_panic); the parser and the RDATA "
        "sub-parsers are modelled with total list operations, so their freedom from panics rests on the "
        "correspondence and the no-panic oracle",
        "generate_bound bounds the iterator values (<= 65536) and the line ends of the generated text; 'records <= "
        "lines' is checked by correspondence and oracle only, and 'one record per step' is refuted "
        "(generate_one_record_per_step_refuted)",
        "error_has_position holds for all errors except 'garbage after $GENERATE range' at end of input "
        "(error_has_position_refuted; finding) and the rejected initial origin (not a syntax error)",
        "nested $GENERATE is rejected only lexically: through a generated $INCLUDE line a $GENERATE in the included "
        "file is expanded (nested_generate_via_include_accepted; finding)",
        "RDATA grammars other than single name / A / AAAA / TXT-like / RFC3597 are outside the model: inputs that "
        "reach them are covered by the direct oracles only (skipped_outside_model_* counters)",
        "reader failures other than the $GENERATE reader's own errors are not modelled",
    ]
    trusted = [
        "hand-copied mnemonic tables in Model/Lexer.v are compared with Go's StringToType/StringToClass/TypeToRR on "
        "every run (case 'tables')",
        "octet-level model of strings.ToUpper is exact for comparison with ASCII keys (harness checks on every run "
        "that only U+0131 and U+017F upper-case to ASCII)",
        "os.Open is observed through inotify (successful opens inside the scratch directory; identical successive "
        "events are merged by the kernel and are compared merged)",
    ]
    shard_size = 250

    def nontrivial(self, c):
        a = c.get("args") or [""]
        k = 5 if c.get("fn") == "parse" else 0
        return len(a) > k and len(a[k]) > 4


CHECK = C07()
