(* Model/OptValUnpack.v — the unpack side of the EDNS0 option types (edns.go:
   makeDataOpt, then every EDNS0_*.unpack) and of the SVCB parameter value types
   (svcb.go: makeSVCBKeyValue, then every SVCB*.unpack) at the level of their Go
   struct fields (the value types of Model/OptVal.v), branch by branch, error
   branches included; and the normal forms the decoders produce (opt_norm /
   svcb_norm), with the boolean side conditions of the round-trip theorems.
   Definitions only. *)
From Dns Require Export Model.OptVal.
Open Scope N_scope.

(* ---------- encoding/hex EncodeToString: lower case ---------- *)
Definition hexchar (n : N) : N := if n <? 10 then 48 + n else 87 + n.
Definition hex_encode (b : bytes) : bytes := flat_map (fun x => [hexchar (x / 16); hexchar (x mod 16)]) b.
(* the text with A..F replaced by a..f *)
Definition hex_lower (t : bytes) : bytes := map (fun c => if (65 <=? c) && (c <=? 70) then c + 32 else c) t.

(* binary.BigEndian.UintNN(b[i:]) *)
Definition beN (b : bytes) (i w : N) : N := be (takeN w (dropN i b)) 0.

(* ---------- EDNS0 ---------- *)
Definition zero4in6 : bytes := v4in6_prefix ++ [0; 0; 0; 0].

Definition subnet_unpack (b : bytes) : res optval :=
  if lenN b <? 4 then Err "buf"
  else
    let fam := beN b 0 2 in
    let mask := nthN b 2 0 in
    let scope := nthN b 3 0 in
    let rest := dropN 4 b in
    if fam =? 0 then
      (* net.IPv4(0,0,0,0): the 16 octet form *)
      if negb (mask =? 0) then Err "family" else Ok (O_SUBNET 0 mask scope zero4in6)
    else if fam =? 1 then
      if (32 <? mask) || (32 <? scope) then Err "netmask"
      else Ok (O_SUBNET 1 mask scope (v4in6_prefix ++ pad_zero rest 4))    (* addr.To16() *)
    else if fam =? 2 then
      if (128 <? mask) || (128 <? scope) then Err "netmask"
      else Ok (O_SUBNET 2 mask scope (pad_zero rest 16))
    else Err "family".

Definition opt_unpack (code : N) (b : bytes) : res optval :=
  let n := lenN b in
  if code =? 1 then
    if n <? 18 then Err "buf"
    else Ok (O_LLQ (beN b 0 2) (beN b 2 2) (beN b 4 2) (beN b 6 8) (beN b 14 4))
  else if code =? 2 then
    if n =? 4 then Ok (O_UL (beN b 0 4) 0)
    else if n =? 8 then Ok (O_UL (beN b 0 4) (beN b 4 4))
    else Err "buf"
  else if code =? 3 then Ok (O_NSID (hex_encode b))
  else if code =? 4 then Ok (O_ESU b)
  else if code =? 5 then Ok (O_DAU b)
  else if code =? 6 then Ok (O_DHU b)
  else if code =? 7 then Ok (O_N3U b)
  else if code =? 8 then subnet_unpack b
  else if code =? 9 then
    if n =? 0 then Ok (O_EXPIRE 0 true)
    else if n <? 4 then Err "buf"
    else Ok (O_EXPIRE (beN b 0 4) false)
  else if code =? 10 then Ok (O_COOKIE (hex_encode b))
  else if code =? 11 then
    if n =? 0 then Ok (O_KEEPALIVE 0)
    else if n =? 2 then Ok (O_KEEPALIVE (beN b 0 2))
    else Err "length"
  else if code =? 12 then Ok (O_PADDING b)
  else if code =? 15 then
    if n <? 2 then Err "buf" else Ok (O_EDE (beN b 0 2) (dropN 2 b))
  else if code =? 18 then
    match unpack_name b 0 with
    | Ok (name, _) => Ok (O_REPORTING name)
    | Err _ => Err "agent"
    | Panic => Panic
    | OutOfFuel => OutOfFuel
    end
  else if code =? 19 then
    if n <? 2 then Err "buf" else Ok (O_ZONEVERSION (nthN b 0 0) (nthN b 1 0) (dropN 2 b))
  else Ok (O_LOCAL code b).

(* the codes makeDataOpt knows; every other code is EDNS0_LOCAL *)
Definition opt_known_code (c : N) : bool :=
  existsb (N.eqb c) [1; 2; 3; 4; 5; 6; 7; 8; 9; 10; 11; 12; 15; 18; 19].

(* the Go field types: uint16 / uint32 / uint64 / uint8 fields in range, octets below 256 *)
Definition opt_wf (v : optval) : bool :=
  match v with
  | O_LLQ a b c d e => (a <? 65536) && (b <? 65536) && (c <? 65536) && (d <? 18446744073709551616) && (e <? 4294967296)
  | O_UL l k => (l <? 4294967296) && (k <? 4294967296)
  | O_NSID t | O_COOKIE t | O_ESU t | O_DAU t | O_DHU t | O_N3U t | O_PADDING t | O_REPORTING t => wfbb t
  | O_SUBNET f m s a => (f <? 65536) && (m <? 256) && (s <? 256) && wfbb a
  | O_EXPIRE e _ => e <? 4294967296
  | O_KEEPALIVE t => t <? 65536
  | O_EDE c t => (c <? 65536) && wfbb t
  | O_ZONEVERSION l t x => (l <? 256) && (t <? 256) && wfbb x
  | O_LOCAL c d => (c <? 65536) && wfbb d
  end.

(* the normal form: what unpack returns for the octets pack wrote *)
Definition subnet_norm (f m s : N) (a : bytes) : optval :=
  if f =? 0 then O_SUBNET 0 m s zero4in6
  else if f =? 1 then
    match to4 a with
    | Some ip4 => O_SUBNET 1 m s (v4in6_prefix ++ pad_zero (takeN (need_length m) (mask_bytes ip4 m)) 4)
    | None => O_SUBNET f m s a
    end
  else if f =? 2 then O_SUBNET 2 m s (pad_zero (takeN (need_length m) (mask_bytes a m)) 16)
  else O_SUBNET f m s a.

Definition opt_norm (v : optval) : optval :=
  match v with
  | O_NSID t => O_NSID (hex_lower t)
  | O_COOKIE t => O_COOKIE (hex_lower t)
  | O_SUBNET f m s a => subnet_norm f m s a
  | O_EXPIRE e empty => if empty then O_EXPIRE 0 true else v
  | O_REPORTING a =>
    match pack_name_plain (fqdn a) 255 with
    | Ok w => match unpack_name w 0 with Ok (name, _) => O_REPORTING name | _ => v end
    | _ => v
    end
  | _ => v
  end.

(* the values unpack(pack v) can be asked about: an EDNS0_LOCAL carrying a code
   makeDataOpt knows is decoded as that type; a SUBNET scope above the address
   width is written by pack and refused by unpack *)
Definition opt_rt_ok (v : optval) : bool :=
  match v with
  | O_LOCAL c _ => negb (opt_known_code c)
  | O_SUBNET f m s a => if f =? 1 then s <=? 32 else if f =? 2 then s <=? 128 else true
  | _ => true
  end.

(* already in normal form *)
Definition opt_canon (v : optval) : bool :=
  match v with
  | O_NSID t | O_COOKIE t => bytes_eqb (hex_lower t) t
  | O_SUBNET f m s a =>
    match subnet_norm f m s a with O_SUBNET f' m' s' a' => (f =? f') && bytes_eqb a a' | _ => false end
  | O_EXPIRE e empty => if empty then e =? 0 else true
  | O_REPORTING a =>
    match opt_norm v with O_REPORTING a' => bytes_eqb a a' | _ => false end
  | _ => true
  end.

(* ---------- SVCB ---------- *)
Fixpoint alpn_unpack (fuel : nat) (b : bytes) : res (list bytes) :=
  match fuel with
  | O => OutOfFuel
  | S f =>
    match b with
    | [] => Ok []
    | l :: r =>
      if l =? 0 then Err "alpnempty"
      else if lenN r <? l then Err "alpnoverflow"
      else do t <- alpn_unpack f (dropN l r); Ok (takeN l r :: t)
    end
  end.

Fixpoint chunks (k : nat) (fuel : nat) (b : bytes) : list bytes :=
  match fuel with
  | O => []
  | S f => match b with [] => [] | _ => firstn k b :: chunks k f (skipn k b) end
  end.

Definition is_v4 (e : bytes) : bool := match to4 e with Some _ => true | None => false end.

Definition svcb_unpack (key : N) (b : bytes) : res svcbval :=
  let n := lenN b in
  if key =? 65535 then Err "key"
  else if key =? 0 then
    if n mod 2 =? 0 then Ok (S_MANDATORY (pairs16 b)) else Err "mandatory"
  else if key =? 1 then do ids <- alpn_unpack (S (length b)) b; Ok (S_ALPN ids)
  else if key =? 2 then (if n =? 0 then Ok S_NODEFAULTALPN else Err "nodefaultalpn")
  else if key =? 3 then (if n =? 2 then Ok (S_PORT (beN b 0 2)) else Err "port")
  else if key =? 4 then
    if (n =? 0) || negb (n mod 4 =? 0) then Err "v4hint" else Ok (S_IPV4HINT (chunks 4 (length b) b))
  else if key =? 5 then Ok (S_ECH b)
  else if key =? 6 then
    if (n =? 0) || negb (n mod 16 =? 0) then Err "v6hintlen"
    else let cs := chunks 16 (length b) b in
         if existsb is_v4 cs then Err "v6hint" else Ok (S_IPV6HINT cs)
  else if key =? 7 then Ok (S_DOHPATH b)
  else if key =? 8 then (if n =? 0 then Ok S_OHTTP else Err "ohttp")
  else Ok (S_LOCAL key b).

Definition svcb_known_key (k : N) : bool := (k <=? 8) || (k =? 65535).

Definition svcb_wf (v : svcbval) : bool :=
  match v with
  | S_MANDATORY cs => forallb (fun c => c <? 65536) cs
  | S_ALPN ids => forallb wfbb ids
  | S_PORT p => p <? 65536
  | S_IPV4HINT h | S_IPV6HINT h => forallb wfbb h
  | S_ECH d | S_DOHPATH d => wfbb d
  | S_LOCAL k d => (k <? 65536) && wfbb d
  | _ => true
  end.

Definition the4 (e : bytes) : bytes := match to4 e with Some x => x | None => e end.

Definition svcb_norm (v : svcbval) : svcbval :=
  match v with
  | S_MANDATORY cs => S_MANDATORY (sort_n cs)
  | S_IPV4HINT h => S_IPV4HINT (map the4 h)
  | _ => v
  end.

(* an SVCBLocal carrying a key makeSVCBKeyValue knows is decoded as that type;
   an empty address list is written by pack and refused by unpack *)
Definition svcb_rt_ok (v : svcbval) : bool :=
  match v with
  | S_LOCAL k _ => negb (svcb_known_key k)
  | S_IPV4HINT h | S_IPV6HINT h => negb (lenN h =? 0)
  | _ => true
  end.

Definition svcb_canon (v : svcbval) : bool :=
  match v with
  | S_MANDATORY cs => list_eqb N.eqb (sort_n cs) cs
  | S_IPV4HINT h => forallb (fun e => lenN e =? 4) h
  | _ => true
  end.
