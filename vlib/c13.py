from .core import Check


class C13(Check):
    prop = "C13"
    props_rel = "Props/C13"
    corr_module = "Corr.C13"
    corr_rel = "Corr/C13"
    extra_rels = ["Proofs/ServerLtsProofs"]
    shard_size = 60
    model_desc = ("Model/ServerLts.v: labelled transition system of server.go start / serve / shutdown: threads = "
                  "start callers, serve loop (serveTCP / serveUDP), one worker per TCP connection (serveTCPConn) or "
                  "UDP packet (serveUDPPacket), Shutdown callers; shared state = srv.started (phase), listener "
                  "closed, PacketConn / per-connection read deadline in the past, WaitGroup counter, srv.shutdown "
                  "closed; every lock region is one transition, every read of srv.started its own transition; "
                  "a datagram shorter than a header creates no worker (SPacketShort), a message serveDNS drops or "
                  "rejects by itself leaves its worker without a handler (WDrop); "
                  "executable step function, hidden-step closure and trace acceptor (accepts)")
    rule = ("the real dns.Server over a scripted net.Listener + net.Conns (TCP) and a scripted generic net.PacketConn "
            "(UDP), handlers blocked on harness-controlled gates; every merge order of {connect, request, release} "
            "of 0..2 workers with Shutdown at every position (tcp k=2 sampled 1/3 in quick), special scenarios "
            "(idle connections, context expiry, double start, unstarted, Shutdown twice, temporary errors, two "
            "requests on one connection, client close, late requests, Shutdown racing with start), 60 "
            "unsynchronised random runs; Shutdown forced AT every step of the read loop a fake can hold a server "
            "thread at (inside SetReadDeadline(future) of the PacketConn / a connection, where a Shutdown call must "
            "be blocked on srv.lock - observed in the goroutine dump -, inside Read / ReadFrom after the request / "
            "packet was consumed, inside Accept after a connection was taken, inside MsgAcceptFunc, inside Close), "
            "first / later iterations, with and without another handler in flight, waiting and context-expiry "
            "Shutdown; the same Server value started again after Shutdown (every ordered pair of 9-10 kinds of "
            "life, sampled 3-4 life histories, Shutdown between lives), judged per life by the oracles and as a "
            "whole by the model (lts_lives: every life accepted from the initial state, previous life over in every "
            "state its log allows); a restart while the previous serve call is still draining (direct oracles); "
            "start calls that fail by themselves (ListenAndServe: bad network, tcp-tls without certificates, tcp / udp "
            "address in use, bad port; ActivateAndServe: no listeners, closed UDPConn) on a never-started or stopped "
            "Server value followed by Shutdown (not-started error at once), more failing starts and a retry that "
            "serves a full life (fake world, label StFail in the LTS); one Server value over real loopback sockets "
            "through ListenAndServe and ActivateAndServe across udp / tcp / tcp-tls (all ordered pairs, stale "
            "srv.PacketConn / srv.Listener kept), across failing starts and Shutdown of the unstarted server; "
            "every way a serve call ends by itself (non-temporary Accept / ReadFrom error, listener / PacketConn "
            "closed from outside; idle, handlers in flight, after a served request, after temporary errors of both "
            "flavours, after a client close) followed by Shutdown (waiting, context expiry, after the serve call "
            "returned, after a refused second start) and a restart, fake world and real sockets; what remains at the "
            "moment every effective Shutdown call returns and when a life is over (listener / PacketConn / accepted "
            "connections closed; real sockets probed with SetDeadline); "
            "handlers that Hijack() their TCP connection (plain and TLS-style wrapped; no effect on a PacketConn "
            "server) and whose owner goes on reading / writing / closing it before, during and after Shutdown, next "
            "to ordinary requests, across restarts (the server must stop tracking it - hook VerifTracksConn -, never "
            "call a net.Conn method on it again, not wait for it; label HExitHj in the LTS); "
            "a real crypto/tls listener (tls.NewListener over the fake listener, self-signed certificate made at run "
            "time, real TLS clients over the fake connections): the connect / request / release orders, the special "
            "scenarios and every read-loop step again with the handshake running inside the server's first read, "
            "and clients that never get through the handshake (silent, junk instead of a ClientHello - no record, "
            "too short, another protocol, oversized, partial -, stalled after their first flight, a protocol version "
            "the server refuses, a client that refuses the certificate, junk / a partial record after the handshake) "
            "alone, next to a handler in flight, with a context expiry, in pairs, written after Shutdown's lock "
            "region, followed by a restart; the same raw clients on a plain listener (partial messages); "
            "input that never reaches a handler (datagrams of 0..11 octets, tcp messages without a complete header, "
            "responses, bodies that do not unpack, opcodes not implemented, two questions, queries the user's "
            "MsgAcceptFunc ignores / rejects) alone, before / while / after a query in flight, behind a running "
            "handler on the same connection, with a context expiry, after the lock region, before a restart, and "
            "mixed into the unsynchronised runs (labels SPacketShort, WDrop in the LTS); on the real-socket lives "
            "the same traffic precedes the queries (*net.UDPConn path; tcp / tcp-tls clients that stay silent, write "
            "junk, send a short message, refuse the certificate) and after Shutdown and the serve call returned "
            "every such client must see its connection ended and srv.conns must be empty; "
            "every failing ListenAndServe for every srv.Net value (udp/tcp/tcp-tls and their 4/6 variants: address in use, "
            "bad port, no port, address of the other family; the -tls values with a nil / empty / certificate-less "
            "TLSConfig, also together with an address in use and on port 0; twelve unknown Net values) on an address "
            "the harness chose (bind :0, close, reuse the number), garbage collection off: afterwards the process holds "
            "no bound socket it did not hold before (/proc/self/fd against /proc/net/tcp*,udp*), a dial of the address "
            "is refused / the udp port can be bound, the goroutine count is back, and the corrected start of the same "
            "Server value on the SAME address serves a complete life; a verdict must repeat on three different ports; "
            "every kind of datagram that reaches no handler followed by 3..8 requests in flight together (workers parked "
            "inside MsgAcceptFunc before the body is decoded, inside the handler, or all datagrams readable at once; single "
            "P, no GC): the worker of peer j gives the handler exactly that datagram's request once and peer j gets exactly "
            "its reply; "
            "every boundary-event log is checked by direct oracles and for acceptance "
            "by the LTS inside Coq; 12 Server values over real loopback UDP/TCP sockets, each living twice, with the direct oracles; goroutine "
            "count back at baseline after every scenario. A case is one event log; distinct by hash.")
    partial = [
        "goroutine leaks and data races are run-time facts: the harness checks that the goroutine count returns to "
        "its baseline after every scenario (fake and real sockets); the race detector is not run by bin/vcheck "
        "(CGO is off in the sandbox); the theorems carry the protocol logic only",
        "the Go scheduler, sync.RWMutex / WaitGroup / channel semantics and net deadlines are modelled (one "
        "transition per lock region, deadline in the past makes a blocked read fail), not verified",
        "a restart of the same Server value is modelled only once the previous life is over (serve call and every "
        "Shutdown / start call returned: epoch_over, restart, reachable_r); a start while the previous serve call "
        "is still draining after a context-expired ShutdownContext is outside the LTS and covered by direct oracles "
        "only (known finding C13/restart-while-draining/connection-outlives-shutdown); MaxTCPQueries and "
        "handler-initiated Close are outside the LTS; a start that fails in serveUDP before its loop is modelled "
        "(SFailStart) only while no Shutdown call has slipped in between (docs/C13.md, residual corner)",
        "liveness is proved as progress (some server step is enabled while Shutdown waits), not as termination "
        "under fairness",
        "crypto/tls itself is trusted (the handshake and record layer run for real, over the fake transport and "
        "over loopback sockets; they are not modelled: a read that fails above the transport is the LTS label ReadErr)",
    ]
    trusted = ["the harness fakes implement net.Conn / net.PacketConn deadline semantics (a deadline in the past "
               "fails blocked and later reads; future deadlines never fire)"]

    def nontrivial(self, c):
        return len(c["args"]) > 6


CHECK = C13()
