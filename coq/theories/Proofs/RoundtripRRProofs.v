(* Proofs/RoundtripRRProofs.v — value -> wire -> value for whole field sequences
   (the generated pack()/unpack() methods run by the interpreter of
   Model/Rdata.v) and for whole records (packRR / UnpackRR of Model/Msg.v),
   generically over the translated layout tables. *)
From Dns Require Import Gen.Layouts Gen.Registry.
From Dns Require Import Base.ListX Model.Msg Spec.NameSpec
  Proofs.EscapeProofs Proofs.NameWireProofs Proofs.NameRoundtripProofs
  Proofs.LayoutProofs Proofs.RoundtripFieldProofs.
From Coq Require Import Lia ZifyN ZifyNat ZifyBool.
Open Scope list_scope.
Open Scope N_scope.

Ltac Zify.zify_post_hook ::= Z.div_mod_to_equations.

(* ------------------------------------------------------------------ *)
(* association lists *)
Lemma vget_app a b g : vget (a ++ b) g = match vget a g with Some y => Some y | None => vget b g end.
Proof.
  induction a as [|[h y] a IH]; cbn [app vget]; [reflexivity|].
  destruct (String.eqb g h); [reflexivity|exact IH].
Qed.

Lemma existsb_eqb_in s l : existsb (String.eqb s) l = true -> In s l.
Proof.
  intro H. apply existsb_exists in H. destruct H as [y [Hin E]]. apply String.eqb_eq in E. now subst.
Qed.
Lemma existsb_eqb_notin s l : existsb (String.eqb s) l = false -> ~ In s l.
Proof.
  intros H Hin. assert (E : existsb (String.eqb s) l = true).
  { apply existsb_exists. exists s. split; [exact Hin|apply String.eqb_refl]. }
  congruence.
Qed.

(* ------------------------------------------------------------------ *)
(* the kinds covered by [canon] *)
Definition simple_kind (k : fkind) : bool :=
  match k with
  | K_u8 | K_u16 | K_u32 | K_u48 | K_u64 | K_name _ | K_string | K_txt | K_octet | K_any
  | K_hex _ | K_hexdash _ | K_b64 _ | K_b32 _ | K_a | K_aaaa | K_names _ | K_nsec => true
  | _ => false
  end.

(* what the proof needs of a field sequence: covered kinds only, field names
   pairwise distinct, a sized field sized by an earlier field, and only the
   last field of to-the-end extent *)
Fixpoint layout_ok (seen : list string) (ps : list pfield) : bool :=
  match ps with
  | [] => true
  | (f, k) :: r =>
    simple_kind k && negb (existsb (String.eqb f) seen) &&
    (match sized_by k with Some s => existsb (String.eqb s) seen | None => true end) &&
    (match r with [] => true | _ => negb (to_end k) end) &&
    layout_ok (f :: seen) r
  end.

Definition fields_canon (v : rdata) (ps : list pfield) : Prop :=
  Forall (fun fk : pfield => exists x, vget v (fst fk) = Some x /\ canon v (snd fk) x) ps.

(* the decoded field is the packed one, or (RDATA exhausted early) absent while
   the packed one was the zero value *)
Definition same_field (k : fkind) (got want : option fval) : Prop :=
  got = want \/ (got = None /\ want = Some (zero_of k)).

Definition got_inv (v : rdata) (seen : list string) (got : rdata) : Prop :=
  (forall g, In g seen -> exists y, vget v g = Some y /\ vget got g = Some y) /\
  (forall g, ~ In g seen -> vget got g = None).

Lemma layout_ok_fresh ps : forall seen f k, layout_ok seen ps = true -> In (f, k) ps -> ~ In f seen.
Proof.
  induction ps as [|[f0 k0] ps IH]; intros seen f k H Hin; [destruct Hin|].
  cbn [layout_ok] in H. repeat (apply andb_prop in H; destruct H as [H ?]).
  destruct Hin as [E|Hin].
  - injection E as -> ->. apply existsb_eqb_notin. now destruct (existsb _ seen).
  - intro Hs. eapply IH; [eassumption|exact Hin|right; exact Hs].
Qed.

Lemma assigned_simple u k : kind_agree k (uf_kind u) = true -> simple_kind k = true -> assigned u = [uf_name u].
Proof. unfold assigned. destruct k; destruct (uf_kind u); cbn; try discriminate; reflexivity. Qed.

Lemma fields_roundtrip v cap ps : forall us seen got pre out st',
  sides_agree ps us = true -> layout_ok seen ps = true ->
  fields_canon v ps -> got_inv v seen got ->
  pack_fields v ps cap (st0 out) = Ok st' ->
  exists b ext, st' = st0 (out ++ b) /\
    unpack_fields us got (pre ++ b) (lenN pre) = Ok (got ++ ext, lenN pre + lenN b) /\
    (b = [] -> Forall (fun fk : pfield => vget v (fst fk) = Some (zero_of (snd fk))) ps) /\
    (ps = [] -> b = []) /\
    Forall (fun fk : pfield => same_field (snd fk) (vget (got ++ ext) (fst fk)) (vget v (fst fk))) ps.
Proof.
  induction ps as [|[f k] ps IH]; intros us seen got pre out st' Hs Hl Hc Hi Hp.
  - destruct us; [|discriminate]. cbn in Hp. injection Hp as <-.
    exists [], []. rewrite !app_nil_r. cbn [unpack_fields lenN length N.of_nat].
    repeat split; auto. f_equal. f_equal. lia.
  - destruct us as [|u us]; [discriminate|]. cbn [sides_agree] in Hs.
    apply andb_prop in Hs. destruct Hs as [Hs Hs']. apply andb_prop in Hs. destruct Hs as [Hname Hk].
    apply String.eqb_eq in Hname.
    cbn [layout_ok] in Hl. apply andb_prop in Hl. destruct Hl as [Hl Hl'].
    apply andb_prop in Hl. destruct Hl as [Hl Hlast]. apply andb_prop in Hl. destruct Hl as [Hl Hsz].
    apply andb_prop in Hl. destruct Hl as [Hsimple Hfresh].
    assert (Hnf : ~ In f seen). { apply existsb_eqb_notin. now destruct (existsb _ seen). }
    pose proof (Forall_inv_tail Hc) as Hc'. apply Forall_inv in Hc. destruct Hc as [x [Hv Hcx]].
    cbn [fst snd] in Hv, Hcx.
    cbn [pack_fields] in Hp. inv_bind Hp.
    destruct (field_roundtrip v f k (uf_kind u) x cap out a Hk Hv Hcx Ha) as [b1 [-> [Hz Hu]]].
    destruct Hi as [Hi1 Hi2].
    assert (Hi' : got_inv v (f :: seen) (got ++ [(f, x)])).
    { split.
      - intros g [<-|Hg].
        + exists x. split; [exact Hv|]. rewrite vget_app, (Hi2 f Hnf). cbn. now rewrite String.eqb_refl.
        + destruct (Hi1 g Hg) as [y [Hy1 Hy2]]. exists y. split; [exact Hy1|]. now rewrite vget_app, Hy2.
      - intros g Hg. rewrite vget_app, Hi2 by (intro; apply Hg; now right). cbn.
        destruct (String.eqb_spec g f) as [->|]; [exfalso; apply Hg; now left|reflexivity]. }
    destruct (IH us (f :: seen) (got ++ [(f, x)]) (pre ++ b1) (out ++ b1) st' Hs' Hl' Hc' Hi' Hp)
      as [b2 [ext [-> [Hun [Hz2 [Hnil Hsame]]]]]].
    assert (Hpost : to_end k = true -> b2 = []).
    { intro Ht. destruct ps; [now apply Hnil|]. rewrite Ht in Hlast. discriminate. }
    assert (Hsized : forall s, sized_by k = Some s -> vget_n got s = vget_n v s).
    { intros s Es. rewrite Es in Hsz. apply existsb_eqb_in in Hsz.
      destruct (Hi1 s Hsz) as [y [Hy1 Hy2]]. unfold vget_n. now rewrite Hy1, Hy2. }
    specialize (Hu pre b2 got Hpost Hsized).
    assert (Hzero : b1 ++ b2 = [] ->
      Forall (fun fk : pfield => vget v (fst fk) = Some (zero_of (snd fk))) ((f, k) :: ps)).
    { intro E. apply app_eq_nil in E. destruct E as [E1 E2]. constructor; [|now apply Hz2].
      cbn [fst snd]. rewrite Hv, (Hz E1). reflexivity. }
    assert (Hstep : unpack_fields (u :: us) got (pre ++ b1 ++ b2) (lenN pre) =
      if uf_exit u && (lenN pre + lenN b1 =? lenN (pre ++ b1 ++ b2))
      then Ok (got ++ [(f, x)], lenN pre + lenN b1)
      else unpack_fields us (got ++ [(f, x)]) (pre ++ b1 ++ b2) (lenN pre + lenN b1)).
    { cbn [unpack_fields]. rewrite Hu. cbn [bind fst snd].
      rewrite (assigned_simple u k Hk Hsimple), <- Hname. reflexivity. }
    assert (Hf : vget (got ++ [(f, x)]) f = vget v f).
    { destruct Hi' as [Hi'1 _]. destruct (Hi'1 f (or_introl eq_refl)) as [y [Hy1 Hy2]]. now rewrite Hy1, Hy2. }
    destruct (uf_exit u && (lenN pre + lenN b1 =? lenN (pre ++ b1 ++ b2))) eqn:Hex.
    + (* the RDATA is exhausted: unpack() returns early *)
      apply andb_prop in Hex. destruct Hex as [_ Hex]. rewrite !lenN_app in Hex.
      assert (E2 : b2 = []) by (apply lenN_0; lia). subst b2.
      exists (b1 ++ []), [(f, x)]. split; [now rewrite app_assoc|]. split.
      { rewrite Hstep. f_equal. f_equal. rewrite !lenN_app. lia. }
      split; [exact Hzero|]. split; [discriminate|].
      constructor.
      * cbn [fst snd]. left. exact Hf.
      * specialize (Hz2 eq_refl). rewrite Forall_forall in *. intros [f' k'] Hin. cbn [fst snd].
        right. split; [|apply (Hz2 (f', k') Hin)].
        destruct Hi' as [_ Hi'2]. apply Hi'2. eapply layout_ok_fresh; eassumption.
    + exists (b1 ++ b2), ([(f, x)] ++ ext). split; [now rewrite app_assoc|].
      split.
      { rewrite Hstep. replace (lenN pre + lenN b1) with (lenN (pre ++ b1)) by apply lenN_app.
        rewrite (app_assoc pre b1 b2), Hun. rewrite <- app_assoc. f_equal. f_equal. rewrite !lenN_app. lia. }
      split; [exact Hzero|]. split; [discriminate|].
      rewrite app_assoc.
      constructor; [|exact Hsame].
      cbn [fst snd]. left. rewrite vget_app, Hf. destruct (vget v f) eqn:E; [reflexivity|]. congruence.
Qed.

(* the field-sequence theorem, from an empty record *)
Theorem fields_roundtrip_top v cap ps us pre out st' :
  sides_agree ps us = true -> layout_ok [] ps = true -> fields_canon v ps ->
  pack_fields v ps cap (st0 out) = Ok st' ->
  exists b got', st' = st0 (out ++ b) /\
    unpack_fields us [] (pre ++ b) (lenN pre) = Ok (got', lenN pre + lenN b) /\
    (b = [] -> Forall (fun fk : pfield => vget v (fst fk) = Some (zero_of (snd fk))) ps) /\
    Forall (fun fk : pfield => same_field (snd fk) (vget got' (fst fk)) (vget v (fst fk))) ps.
Proof.
  intros Hs Hl Hc Hp.
  destruct (fields_roundtrip v cap ps us [] [] pre out st' Hs Hl Hc) as [b [ext [H1 [H2 [H3 [_ H4]]]]]]; auto.
  { split; [intros g []|reflexivity]. }
  exists b, ext. auto.
Qed.

(* ------------------------------------------------------------------ *)
(* records *)
Lemma set_at_exact (p : bytes) x r y : set_at (p ++ x :: r) (length p) y = p ++ y :: r.
Proof. induction p as [|z p IH]; cbn; [reflexivity|]. now rewrite IH. Qed.

Lemma find_layout_in l k L : find_layout l k = Some L -> In L l.
Proof.
  induction l as [|t l IH]; cbn; [discriminate|].
  destruct (String.eqb (tl_name t) k); [intro H; injection H as <-; now left|]. intro H. right. now apply IH.
Qed.

Lemma unpack_fixed_at msg (pre b post : bytes) off n :
  msg = pre ++ b ++ post -> off = lenN pre -> n = lenN b ->
  unpack_fixed n msg off = Ok (b, off + n).
Proof. intros -> -> ->. apply unpack_fixed_exact. reflexivity. Qed.

Definition rr_ok (r : rr) (ls : list label) : Prop :=
  rr_name r = show_name ls /\ valid_wire ls = true /\
  rr_type r < 65536 /\ rr_class r < 65536 /\ rr_ttl r < 4294967296 /\
  rr_kind r = kind_of_type (rr_type r).

(* the RFC 1035 record: owner name, TYPE, CLASS, TTL, RDLENGTH, RDATA *)
Definition rr_wire (ls : list label) (r : rr) (rd : bytes) : bytes :=
  wire_name ls ++ u16 (rr_type r) ++ u16 (rr_class r) ++ u32 (rr_ttl r) ++ u16 (lenN rd) ++ rd.

Lemma u16_small n : n < 65536 -> [n / 256; n mod 256] = u16 n.
Proof. intro H. unfold u16. f_equal. lia. Qed.

Lemma len_rr_wire ls r rd : lenN (rr_wire ls r rd) = lenN (wire_name ls) + 10 + lenN rd.
Proof. unfold rr_wire. rewrite !lenN_app. cbn [u16 u32 lenN length N.of_nat]. lia. Qed.

Lemma wire_name_len_pos ls : 1 <= lenN (wire_name ls).
Proof. unfold wire_name. rewrite lenN_app. cbn. lia. Qed.

Lemma unpack_rr_header_wire out ls r rd post :
  valid_wire ls = true -> rr_type r < 65536 -> rr_class r < 65536 -> rr_ttl r < 4294967296 ->
  lenN rd <= 65535 ->
  unpack_rr_header (out ++ rr_wire ls r rd ++ post) (lenN out) =
  Ok ({| h_name := show_name ls; h_type := rr_type r; h_class := rr_class r; h_ttl := rr_ttl r;
         h_rdlength := lenN rd |},
      lenN out + lenN (wire_name ls) + 10, out ++ rr_wire ls r rd).
Proof.
  intros Hls Ht Hc Httl Hrd. unfold unpack_rr_header.
  pose proof (wire_name_len_pos ls) as Hwn.
  assert (Hlen : lenN (out ++ rr_wire ls r rd ++ post) = lenN out + (lenN (wire_name ls) + 10 + lenN rd) + lenN post).
  { rewrite !lenN_app, len_rr_wire. lia. }
  rewrite Hlen. bfalse (lenN out =? lenN out + (lenN (wire_name ls) + 10 + lenN rd) + lenN post).
  set (T := u16 (rr_type r)). set (C := u16 (rr_class r)). set (TT := u32 (rr_ttl r)). set (RL := u16 (lenN rd)).
  set (msg := out ++ rr_wire ls r rd ++ post).
  assert (Hn : unpack_name msg (lenN out) = Ok (show_name ls, lenN out + lenN (wire_name ls))).
  { unfold msg, rr_wire. rewrite <- !app_assoc. apply unpack_name_exact, Hls. }
  rewrite Hn. cbn [bind fst snd].
  rewrite (unpack_fixed_at msg (out ++ wire_name ls) T (C ++ TT ++ RL ++ rd ++ post));
    [|unfold msg, rr_wire; rewrite <- !app_assoc; reflexivity|now rewrite lenN_app|reflexivity].
  cbn [bind fst snd].
  rewrite (unpack_fixed_at msg (out ++ wire_name ls ++ T) C (TT ++ RL ++ rd ++ post));
    [|unfold msg, rr_wire; rewrite <- !app_assoc; reflexivity|rewrite !lenN_app; unfold T; cbn [u16 lenN length N.of_nat]; lia|reflexivity].
  cbn [bind fst snd].
  rewrite (unpack_fixed_at msg (out ++ wire_name ls ++ T ++ C) TT (RL ++ rd ++ post));
    [|unfold msg, rr_wire; rewrite <- !app_assoc; reflexivity|rewrite !lenN_app; unfold T, C; cbn [u16 lenN length N.of_nat]; lia|reflexivity].
  cbn [bind fst snd].
  rewrite (unpack_fixed_at msg (out ++ wire_name ls ++ T ++ C ++ TT) RL (rd ++ post));
    [|unfold msg, rr_wire; rewrite <- !app_assoc; reflexivity|rewrite !lenN_app; unfold T, C, TT; cbn [u16 u32 lenN length N.of_nat]; lia|reflexivity].
  cbn [bind fst snd].
  unfold T, C, TT, RL. rewrite !be_u16, be_u32 by lia.
  bfalse (lenN out + (lenN (wire_name ls) + 10 + lenN rd) + lenN post <? lenN out + lenN (wire_name ls) + 2 + 2 + 4 + 2 + lenN rd).
  f_equal. f_equal; [f_equal; lia|].
  unfold msg. rewrite app_assoc.
  replace (lenN out + lenN (wire_name ls) + 2 + 2 + 4 + 2 + lenN rd) with (lenN (out ++ rr_wire ls r rd))
    by (rewrite lenN_app, len_rr_wire; lia).
  apply takeN_app_exact.
Qed.

Definition rr_same (L : tlayout) (r' r : rr) : Prop :=
  rr_name r' = rr_name r /\ rr_type r' = rr_type r /\ rr_class r' = rr_class r /\
  rr_ttl r' = rr_ttl r /\ rr_kind r' = rr_kind r /\
  Forall (fun fk : pfield => same_field (snd fk) (vget (rr_data r') (fst fk)) (vget (rr_data r) (fst fk)))
         (tl_pack L).

Theorem rr_roundtrip r L ls cap out st' post :
  find_layout layouts (rr_kind r) = Some L -> layout_ok [] (tl_pack L) = true ->
  rr_ok r ls -> fields_canon (rr_data r) (tl_pack L) ->
  lenN out < cap ->
  pack_rr r cap false (st0 out) = Ok st' ->
  exists rd r',
    st' = st0 (out ++ rr_wire ls r rd) /\
    unpack_rr (out ++ rr_wire ls r rd ++ post) (lenN out) = Ok (r', lenN out + lenN (rr_wire ls r rd)) /\
    rr_rdlength r' = lenN rd /\ rr_same L r' r.
Proof.
  intros Hfind Hlok [Hname [Hls [Ht [Hc [Httl Hkind]]]]] Hcanon Hcap Hp.
  assert (Hsides : sides_agree (tl_pack L) (tl_unpack L) = true).
  { pose proof pack_unpack_sides_agree as H. rewrite forallb_forall in H. apply H. eapply find_layout_in; eauto. }
  unfold pack_rr in Hp. rewrite Hfind in Hp. inv_bind Hp.
  unfold pack_header in Ha. rewrite poff_st0 in Ha.
  replace (lenN out =? cap) with false in Ha by lia.
  inv_bind Ha. rewrite Hname in Ha0. apply pack_name_show in Ha0; [|exact Hls]. subst a0.
  inv_bind Ha. apply pack_fixed_ok in Ha0. subst a0.
  inv_bind Ha. apply pack_fixed_ok in Ha0. subst a0.
  inv_bind Ha. apply pack_fixed_ok in Ha0. subst a0.
  apply pack_fixed_ok in Ha. subst a.
  set (P := (((out ++ wire_name ls) ++ u16 (rr_type r)) ++ u16 (rr_class r)) ++ u32 (rr_ttl r)) in *.
  inv_bind Hp.
  destruct (fields_roundtrip_top _ _ _ _ [] _ _ Hsides Hlok Hcanon Ha) as [rd [got0 [-> [_ [Hzero _]]]]].
  exists rd.
  assert (E1 : lenN ((P ++ u16 0) ++ rd) - lenN (P ++ u16 0) = lenN rd) by (rewrite !lenN_app; lia).
  assert (E2 : lenN (P ++ u16 0) = lenN P + 2) by (rewrite lenN_app; reflexivity).
  unfold poff in Hp. cbn [st0 pn_out pn_cm] in Hp. rewrite E1, E2 in Hp.
  destruct (65535 <? lenN rd) eqn:Erd; [discriminate|].
  replace (lenN P + 2 <? 2) with false in Hp by lia.
  injection Hp as <-.
  assert (Eout : set_at (set_at ((P ++ u16 0) ++ rd) (N.to_nat (lenN P + 2 - 2)) (lenN rd / 256))
                   (N.to_nat (lenN P + 2 - 1)) (lenN rd mod 256) = out ++ rr_wire ls r rd).
  { replace (N.to_nat (lenN P + 2 - 2)) with (length P) by (unfold lenN; lia).
    replace (N.to_nat (lenN P + 2 - 1)) with (length (P ++ [lenN rd / 256]))
      by (rewrite app_length; unfold lenN; cbn [length]; lia).
    change (u16 0) with [0; 0]. rewrite <- app_assoc. cbn [app]. rewrite set_at_exact.
    replace (P ++ lenN rd / 256 :: 0 :: rd) with ((P ++ [lenN rd / 256]) ++ 0 :: rd)
      by (rewrite <- app_assoc; reflexivity).
    rewrite set_at_exact. unfold rr_wire, P. rewrite <- (u16_small (lenN rd)) by lia.
    rewrite <- !app_assoc. reflexivity. }
  rewrite Eout. clear Eout.
  set (Hd := out ++ wire_name ls ++ u16 (rr_type r) ++ u16 (rr_class r) ++ u32 (rr_ttl r) ++ u16 (lenN rd)).
  assert (EHd : out ++ rr_wire ls r rd = Hd ++ rd) by (unfold Hd, rr_wire; rewrite <- !app_assoc; reflexivity).
  assert (LHd : lenN Hd = lenN out + lenN (wire_name ls) + 10).
  { unfold Hd. rewrite !lenN_app. cbn [u16 u32 lenN length N.of_nat]. lia. }
  destruct (fields_roundtrip_top _ _ _ _ Hd _ _ Hsides Hlok Hcanon Ha) as [rd' [got' [Est [Hun [_ Hsame]]]]].
  assert (rd' = rd). { injection Est as E. apply app_inv_head in E. auto. } subst rd'. clear Est.
  pose (mk := fun d => {| rr_name := show_name ls; rr_type := rr_type r; rr_class := rr_class r;
                          rr_ttl := rr_ttl r; rr_rdlength := lenN rd; rr_kind := rr_kind r; rr_data := d |}).
  assert (Hres : exists d, unpack_rr (out ++ rr_wire ls r rd ++ post) (lenN out) =
                   Ok (mk d, lenN out + lenN (rr_wire ls r rd)) /\
                 Forall (fun fk : pfield => same_field (snd fk) (vget d (fst fk)) (vget (rr_data r) (fst fk))) (tl_pack L)).
  { unfold unpack_rr. rewrite unpack_rr_header_wire by (assumption || lia).
    cbn [bind]. unfold unpack_rr_with_header. cbn [h_type h_name h_class h_ttl h_rdlength].
    rewrite <- Hkind, Hfind, EHd, lenN_app, LHd, len_rr_wire.
    bfalse (lenN out + lenN (wire_name ls) + 10 + lenN rd <? lenN out + lenN (wire_name ls) + 10).
    bfalse (lenN out + lenN (wire_name ls) + 10 + lenN rd <? lenN out + lenN (wire_name ls) + 10 + lenN rd).
    destruct (lenN rd =? 0) eqn:E0.
    - exists []. split.
      + unfold mk. f_equal. f_equal. lia.
      + assert (rd = []) by (apply lenN_0; lia). specialize (Hzero H).
        rewrite Forall_forall in *. intros fk Hin. right. split; [reflexivity|now apply Hzero].
    - exists got'. split; [|exact Hsame].
      rewrite <- LHd, Hun. cbn [bind fst snd].
      btrue (lenN Hd + lenN rd =? lenN Hd + lenN rd). unfold mk. f_equal. f_equal. lia. }
  destruct Hres as [d [Hres Hf]].
  exists (mk d). split; [reflexivity|]. split; [exact Hres|]. split; [reflexivity|].
  unfold rr_same, mk. cbn. rewrite Hname. repeat split; auto.
Qed.

(* ------------------------------------------------------------------ *)
(* coverage: the record types whose translated layout meets [layout_ok] *)
Definition layout_supported (L : tlayout) : bool := layout_ok [] (tl_pack L).

Lemma supported_census :
  map tl_name (filter layout_supported layouts) =
  ["A"; "AAAA"; "AFSDB"; "ANY"; "AVC"; "CAA"; "CDNSKEY"; "CDS"; "CERT"; "CNAME"; "CSYNC"; "DHCID";
   "DLV"; "DNAME"; "DNSKEY"; "DS"; "EID"; "EUI48"; "EUI64"; "GID"; "GPOS"; "HINFO"; "HIP"; "ISDN";
   "KEY"; "KX"; "L32"; "L64"; "LOC"; "LP"; "MB"; "MD"; "MF"; "MG"; "MINFO"; "MR"; "MX"; "NAPTR";
   "NID"; "NIMLOC"; "NINFO"; "NS"; "NSAPPTR"; "NSEC"; "NSEC3"; "NSEC3PARAM"; "NULL"; "NXNAME";
   "NXT"; "OPENPGPKEY"; "PTR"; "PX"; "RESINFO"; "RFC3597"; "RKEY"; "RP"; "RRSIG"; "RT"; "SIG";
   "SMIMEA"; "SOA"; "SPF"; "SRV"; "SSHFP"; "TA"; "TALINK"; "TKEY"; "TLSA"; "TSIG"; "TXT"; "UID";
   "UINFO"; "URI"; "X25"; "ZONEMD"]%string.
Proof. vm_compute. reflexivity. Qed.

Lemma unsupported_census :
  map tl_name (filter (fun L => negb (layout_supported L)) layouts) =
  ["AMTRELAY"; "APL"; "HTTPS"; "IPSECKEY"; "OPT"; "SVCB"]%string.
Proof. vm_compute. reflexivity. Qed.

(* ------------------------------------------------------------------ *)
(* non-vacuity: a concrete MX and a concrete TXT record *)
Definition ex_owner : list label := [[101; 120]; [99; 111; 109]].           (* ex.com. *)
Definition ex_mx : rr :=
  {| rr_name := show_name ex_owner; rr_type := 15; rr_class := 1; rr_ttl := 3600; rr_rdlength := 0;
     rr_kind := "MX";
     rr_data := [("Preference"%string, V_n 10); ("Mx"%string, V_s (show_name [[109; 120]; [92; 46]]))] |}.
Definition ex_txt : rr :=
  {| rr_name := show_name ex_owner; rr_type := 16; rr_class := 1; rr_ttl := 4294967295; rr_rdlength := 7;
     rr_kind := "TXT";
     rr_data := [("Txt"%string, V_ss (map show_txt [[104; 105; 34; 0]; []; [255; 92]]))] |}.

Example mx_hypotheses_hold :
  exists L st',
    find_layout layouts (rr_kind ex_mx) = Some L /\ layout_ok [] (tl_pack L) = true /\
    rr_ok ex_mx ex_owner /\ fields_canon (rr_data ex_mx) (tl_pack L) /\
    pack_rr ex_mx 100 false (st0 [7; 7; 7]) = Ok st' /\
    pn_out st' = [7; 7; 7] ++ rr_wire ex_owner ex_mx [0; 10; 2; 109; 120; 2; 92; 46; 0] /\
    unpack_rr (pn_out st' ++ [9; 9]) 3 =
      Ok ({| rr_name := rr_name ex_mx; rr_type := 15; rr_class := 1; rr_ttl := 3600; rr_rdlength := 9;
             rr_kind := "MX"; rr_data := rr_data ex_mx |}, 30).
Proof.
  eexists. eexists. split; [vm_compute; reflexivity|]. split; [vm_compute; reflexivity|].
  split. { unfold rr_ok. repeat split; try reflexivity; cbn; lia. }
  split.
  { repeat constructor; cbn [fst snd].
    - eexists. split; [reflexivity|]. exists 10. split; [reflexivity|lia].
    - eexists. split; [reflexivity|]. exists [[109; 120]; [92; 46]]. split; reflexivity. }
  split; [vm_compute; reflexivity|]. split; vm_compute; reflexivity.
Qed.

Example txt_hypotheses_hold :
  exists L st',
    find_layout layouts (rr_kind ex_txt) = Some L /\ layout_ok [] (tl_pack L) = true /\
    rr_ok ex_txt ex_owner /\ fields_canon (rr_data ex_txt) (tl_pack L) /\
    pack_rr ex_txt 100 false (st0 []) = Ok st' /\
    pn_out st' = rr_wire ex_owner ex_txt [4; 104; 105; 34; 0; 0; 2; 255; 92] /\
    unpack_rr (pn_out st') 0 =
      Ok ({| rr_name := rr_name ex_txt; rr_type := 16; rr_class := 1; rr_ttl := 4294967295; rr_rdlength := 9;
             rr_kind := "TXT"; rr_data := rr_data ex_txt |}, 27).
Proof.
  eexists. eexists. split; [vm_compute; reflexivity|]. split; [vm_compute; reflexivity|].
  split. { unfold rr_ok. repeat split; try reflexivity; cbn; lia. }
  split.
  { repeat constructor; cbn [fst snd].
    eexists. split; [reflexivity|]. exists [[104; 105; 34; 0]; []; [255; 92]].
    split; [reflexivity|]. split; [discriminate|].
    repeat constructor; cbn; lia. }
  split; [vm_compute; reflexivity|]. split; vm_compute; reflexivity.
Qed.
