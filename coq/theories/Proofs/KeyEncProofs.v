(* Proofs/KeyEncProofs.v — lemmas about Model/KeyEnc.v *)
From Dns Require Import Base.ListX Model.KeyEnc.
From Coq Require Import Lia ZifyN ZifyNat ZifyBool.
Open Scope N_scope.

(* ====================================================================== *)
(* key tag                                                                 *)
(* ====================================================================== *)
Lemma keytag_loop_sum16_aux l :
  (forall i acc, N.even i = true -> keytag_loop i l acc = acc + sum16 l) /\
  (forall x i acc, N.even i = true -> keytag_loop i (x :: l) acc = acc + sum16 (x :: l)).
Proof.
  induction l as [|y l [IH1 IH2]].
  - split.
    + intros i acc _. cbn. lia.
    + intros x i acc Hev. cbn [keytag_loop sum16].
      rewrite <- N.negb_even, Hev. cbn [negb]. lia.
  - split.
    + intros i acc Hev. now apply IH2.
    + intros x i acc Hev. cbn [keytag_loop].
      rewrite <- (N.negb_even i), Hev. cbn [negb].
      assert (Hodd : N.odd (i + 1) = true).
      { rewrite N.add_1_r, N.odd_succ. exact Hev. }
      rewrite Hodd.
      assert (Hev2 : N.even (i + 1 + 1) = true).
      { rewrite (N.add_1_r (i + 1)), N.even_succ. exact Hodd. }
      rewrite (IH1 _ _ Hev2). cbn [sum16]. lia.
Qed.

Lemma keytag_loop_sum16 l : keytag_loop 0 l 0 = sum16 l.
Proof. destruct (keytag_loop_sum16_aux l) as [A _]. now rewrite A. Qed.

Lemma keytag_eq_rfc rdata : keytag rdata = keytag_rfc rdata.
Proof. unfold keytag, keytag_fold, keytag_rfc. now rewrite keytag_loop_sum16. Qed.

(* --- independence of the accumulator width (any width of at least 32 bits) --- *)
Lemma keytag_loop_w_mod W l : forall i acc acc',
  acc = acc' mod 2 ^ W ->
  keytag_loop_w W i l acc = keytag_loop i l acc' mod 2 ^ W.
Proof.
  assert (Hnz : 2 ^ W <> 0) by (apply N.pow_nonzero; discriminate).
  induction l as [|v l IH]; intros i acc acc' E; cbn [keytag_loop_w keytag_loop].
  - exact E.
  - apply IH. subst acc. destruct (N.odd i).
    + now rewrite N.add_mod_idemp_l.
    + now rewrite N.add_mod_idemp_l.
Qed.

Lemma mod_mul_mod y c : c <> 0 -> (y mod (65536 * c)) mod 65536 = y mod 65536.
Proof.
  intros Hc. rewrite N.mod_mul_r by lia.
  generalize ((y / 65536) mod c). intros q. lia.
Qed.

Lemma mod_mul_div y c : c <> 0 -> (y mod (65536 * c)) / 65536 = (y / 65536) mod c.
Proof.
  intros Hc. rewrite N.mod_mul_r by lia.
  generalize ((y / 65536) mod c). intros q. lia.
Qed.

Lemma keytag_width W rdata : 32 <= W -> keytag_w W rdata = keytag rdata.
Proof.
  intros HW. unfold keytag_w, keytag, keytag_fold.
  rewrite (keytag_loop_w_mod W rdata 0 0 0) by (symmetry; apply N.mod_0_l; apply N.pow_nonzero; discriminate).
  set (a := keytag_loop 0 rdata 0).
  assert (HM : 2 ^ W = 65536 * (65536 * 2 ^ (W - 32))).
  { replace W with (32 + (W - 32)) at 1 by lia. rewrite N.pow_add_r.
    change (2 ^ 32) with (65536 * 65536). lia. }
  assert (HK : 65536 * 2 ^ (W - 32) <> 0).
  { pose proof (N.pow_nonzero 2 (W - 32)). lia. }
  rewrite HM.
  rewrite (mod_mul_mod _ _ HK).
  rewrite (mod_mul_div a _ HK).
  rewrite (mod_mul_mod (a / 65536)) by (apply N.pow_nonzero; discriminate).
  rewrite <- (N.add_mod_idemp_l (a mod _)) by lia.
  rewrite (mod_mul_mod a _ HK).
  rewrite N.add_mod_idemp_l by lia. reflexivity.
Qed.

Lemma key_tag_rfc flags proto alg pub :
  4 + lenN pub <= 4096 ->
  key_tag flags proto alg pub = keytag_rfc (dnskey_rdata flags proto alg pub).
Proof.
  intros L. unfold key_tag, default_msg_size.
  destruct (N.leb_spec (4 + lenN pub) 4096); [|lia]. apply keytag_eq_rfc.
Qed.

Lemma key_tag_oversize flags proto alg pub :
  4096 < 4 + lenN pub -> key_tag flags proto alg pub = 0.
Proof.
  intros L. unfold key_tag, default_msg_size.
  destruct (N.leb_spec (4 + lenN pub) 4096); [lia|reflexivity].
Qed.

Lemma keytag_lt rdata : keytag rdata < 65536.
Proof. unfold keytag, keytag_fold. apply N.mod_lt. discriminate. Qed.

(* ====================================================================== *)
(* DS                                                                      *)
(* ====================================================================== *)
Section DS.
  Variable H : N -> bytes -> bytes.

  Lemma to_ds_some owner flags proto alg pub dt :
    4 + lenN pub <= 4096 -> valid_wire owner = true -> ds_supported dt = true ->
    to_ds H owner flags proto alg pub dt =
    Some {| ds_keytag := keytag_rfc (dnskey_rdata flags proto alg pub);
            ds_alg := alg; ds_dt := dt;
            ds_digest := H dt (wire_name (map lower_bytes owner) ++ dnskey_rdata flags proto alg pub) |}.
  Proof.
    intros L V S. unfold to_ds, default_msg_size. rewrite V, S.
    destruct (N.leb_spec (4 + lenN pub) 4096); [|lia]. cbn [negb].
    rewrite key_tag_rfc by exact L. reflexivity.
  Qed.

  Lemma to_ds_unsupported owner flags proto alg pub dt :
    ds_supported dt = false -> to_ds H owner flags proto alg pub dt = None.
  Proof.
    intros S. unfold to_ds. rewrite S.
    destruct (negb (4 + lenN pub <=? default_msg_size)); [reflexivity|].
    destruct (negb (valid_wire owner)); reflexivity.
  Qed.

  Lemma lower_lt256 b : (lower b <? 256) = (b <? 256).
  Proof. unfold lower. destruct ((65 <=? b) && (b <=? 90)) eqn:E; lia. Qed.
  Lemma wfbb_lower l : wfbb (lower_bytes l) = wfbb l.
  Proof.
    unfold wfbb, lower_bytes. induction l as [|b l IHl]; cbn; [reflexivity|].
    now rewrite lower_lt256, IHl.
  Qed.
  Lemma label_ok_lower l : label_ok (lower_bytes l) = label_ok l.
  Proof. unfold label_ok. rewrite wfbb_lower. unfold lenN, lower_bytes. now rewrite map_length. Qed.
  Lemma wire_labels_len_lower ls :
    length (wire_labels (map lower_bytes ls)) = length (wire_labels ls).
  Proof.
    unfold wire_labels. induction ls as [|l ls IHl]; cbn; [reflexivity|].
    rewrite !app_length, IHl. unfold lower_bytes. now rewrite map_length.
  Qed.
  Lemma valid_wire_lower ls : valid_wire (map lower_bytes ls) = valid_wire ls.
  Proof.
    unfold valid_wire, labels_ok, wire_len, wire_name, lenN.
    rewrite !app_length, wire_labels_len_lower. f_equal.
    induction ls as [|l ls IHl]; cbn; [reflexivity|]. now rewrite label_ok_lower, IHl.
  Qed.

  Lemma to_ds_ci o1 o2 flags proto alg pub dt :
    map lower_bytes o1 = map lower_bytes o2 ->
    to_ds H o1 flags proto alg pub dt = to_ds H o2 flags proto alg pub dt.
  Proof.
    intros E. unfold to_ds, ds_input.
    rewrite <- (valid_wire_lower o1), <- (valid_wire_lower o2), E. reflexivity.
  Qed.
End DS.

(* ====================================================================== *)
(* ValidityPeriod                                                          *)
(* ====================================================================== *)
Open Scope Z_scope.

Lemma validity_plain i e t :
  validity_period i e t = ((Z.of_N i <=? t) && (t <=? Z.of_N e)).
Proof.
  unfold validity_period, year68.
  set (I := Z.of_N i). set (E := Z.of_N e).
  assert (A : (I + Z.quot (I - t) 2147483648 * 2147483648 <=? t) = (I <=? t)).
  { destruct (Z.leb_spec I t); destruct (Z.leb_spec (I + Z.quot (I - t) 2147483648 * 2147483648) t);
      try reflexivity; exfalso; Z.to_euclidean_division_equations; lia. }
  assert (B : (t <=? E + Z.quot (E - t) 2147483648 * 2147483648) = (t <=? E)).
  { destruct (Z.leb_spec t E); destruct (Z.leb_spec t (E + Z.quot (E - t) 2147483648 * 2147483648));
      try reflexivity; exfalso; Z.to_euclidean_division_equations; lia. }
  now rewrite A, B.
Qed.

Lemma validity_iff i e t :
  Z.abs (Z.of_N i - t) < 2147483648 -> Z.abs (Z.of_N e - t) < 2147483648 ->
  (validity_period i e t = true <-> Z.of_N i <= t <= Z.of_N e).
Proof. intros _ _. rewrite validity_plain. lia. Qed.

(* The RFC 1982 reading: t and both fields on the 32-bit circle.  When t is a
   32-bit time and the plain distances are below 2^31 the two readings agree. *)
Lemma validity_serial_nowrap i e t :
  0 <= t < 4294967296 -> (i < 4294967296)%N -> (e < 4294967296)%N ->
  Z.abs (Z.of_N i - t) < 2147483648 -> Z.abs (Z.of_N e - t) < 2147483648 ->
  (validity_period i e t = true <-> serial_le (Z.of_N i) t /\ serial_le t (Z.of_N e)).
Proof.
  intros Ht Hi He Di De. rewrite validity_plain. unfold serial_le.
  split.
  - intros V. assert (Z.of_N i <= t <= Z.of_N e) as [A B] by lia. split.
    + rewrite Z.mod_small; lia.
    + rewrite Z.mod_small; lia.
  - intros [A B].
    destruct (Z.leb_spec (Z.of_N i) t) as [Li|Li]; destruct (Z.leb_spec t (Z.of_N e)) as [Le|Le];
      cbn; try reflexivity; exfalso; Z.div_mod_to_equations; lia.
Qed.

(* ... and they differ as soon as the validity interval crosses the 2^32 wrap:
   inception 0xFFFFFF00, expiration 0x00000100, t = 0xFFFFFF80.  Both serial
   distances are below 2^31 and inception <= t <= expiration in serial
   arithmetic, but ValidityPeriod says false. *)
Lemma validity_serial_wrap_refuted :
  exists i e t,
    serial_dist (Z.of_N i) t < 2147483648 /\ serial_dist (Z.of_N e) t < 2147483648 /\
    serial_le (Z.of_N i) t /\ serial_le t (Z.of_N e) /\
    validity_period i e t = false.
Proof.
  exists 4294967040%N, 256%N, 4294967168. unfold serial_dist, serial_le. cbn. lia.
Qed.

(* a time past 2106 (t >= 2^32) with fields that denote times around it *)
Lemma validity_after_2106_refuted :
  exists i e t,
    serial_le (Z.of_N i) (t mod 4294967296) /\ serial_le (t mod 4294967296) (Z.of_N e) /\
    validity_period i e t = false.
Proof.
  exists 50%N, 200%N, 4294967396. unfold serial_le. cbn. lia.
Qed.

Example validity_ex : validity_period 1293942305 1296534305 1295000000 = true.
Proof. reflexivity. Qed.
Open Scope N_scope.

(* ====================================================================== *)
(* integers as octets                                                      *)
(* ====================================================================== *)
Lemma be_app l1 l2 acc : be (l1 ++ l2) acc = be l2 (be l1 acc).
Proof. revert acc; induction l1 as [|x l1 IH]; intros acc; cbn; [reflexivity|apply IH]. Qed.

Lemma be_bytes_aux_be f : forall n acc,
  n < 256 ^ N.of_nat f -> be (be_bytes_aux f n acc) 0 = be acc n.
Proof.
  induction f as [|f IH]; intros n acc Hn.
  - cbn in Hn. assert (n = 0) by lia. subst n. reflexivity.
  - cbn [be_bytes_aux]. destruct (N.eqb_spec n 0) as [->|Hnz]; [reflexivity|].
    rewrite IH.
    + cbn [be]. f_equal. pose proof (N.div_mod n 256). lia.
    + rewrite Nat2N.inj_succ, N.pow_succ_r' in Hn.
      apply N.div_lt_upper_bound; lia.
Qed.

Lemma pow2_le_pow256 k : 2 ^ k <= 256 ^ k.
Proof. apply N.pow_le_mono_l. lia. Qed.

Lemma be_bytes_fuel n : n < 256 ^ N.of_nat (S (N.to_nat (N.log2 n))).
Proof.
  rewrite Nat2N.inj_succ, N2Nat.id.
  eapply N.lt_le_trans; [|apply pow2_le_pow256].
  destruct n as [|p]; [cbn; lia|]. apply N.log2_spec. lia.
Qed.

Lemma be_be_bytes n : be (be_bytes n) 0 = n.
Proof. unfold be_bytes. rewrite be_bytes_aux_be; [reflexivity|apply be_bytes_fuel]. Qed.

(* the digits produced are a prefix put in front of the accumulator *)
Lemma be_bytes_aux_app f : forall n acc, be_bytes_aux f n acc = be_bytes_aux f n [] ++ acc.
Proof.
  induction f as [|f IH]; intros n acc; cbn [be_bytes_aux]; [reflexivity|].
  destruct (n =? 0); [reflexivity|].
  rewrite (IH (n / 256) (n mod 256 :: acc)), (IH (n / 256) [n mod 256]).
  now rewrite <- app_assoc.
Qed.

(* no leading zero octet, all octets below 256 *)
Lemma be_bytes_aux_hd f : forall n,
  n < 256 ^ N.of_nat f -> n <> 0 ->
  exists d r, be_bytes_aux f n [] = d :: r /\ d <> 0.
Proof.
  induction f as [|f IH]; intros n Hn Hnz.
  - cbn in Hn. lia.
  - cbn [be_bytes_aux]. destruct (N.eqb_spec n 0) as [|_]; [contradiction|].
    rewrite be_bytes_aux_app.
    destruct (N.eqb_spec (n / 256) 0) as [Hz|Hq].
    + rewrite Hz. destruct f; cbn [be_bytes_aux N.eqb app]; exists (n mod 256), [];
        (split; [reflexivity|]); pose proof (N.div_mod n 256); lia.
    + destruct (IH (n / 256)) as [d [r [E Hd]]].
      * rewrite Nat2N.inj_succ, N.pow_succ_r' in Hn. apply N.div_lt_upper_bound; lia.
      * exact Hq.
      * rewrite E. exists d, (r ++ [n mod 256]). split; [reflexivity|exact Hd].
Qed.

Lemma be_bytes_hd n : n <> 0 -> exists d r, be_bytes n = d :: r /\ d <> 0.
Proof. intros Hn. unfold be_bytes. apply be_bytes_aux_hd; [apply be_bytes_fuel|exact Hn]. Qed.

Lemma be_bytes_aux_len f : forall n k,
  n < 256 ^ N.of_nat k -> (length (be_bytes_aux f n []) <= k)%nat.
Proof.
  induction f as [|f IH]; intros n k Hn; cbn [be_bytes_aux]; [cbn; lia|].
  destruct (N.eqb_spec n 0) as [|Hnz]; [cbn; lia|].
  rewrite be_bytes_aux_app, app_length. cbn [length].
  destruct k as [|k]; [cbn in Hn; lia|].
  assert (length (be_bytes_aux f (n / 256) []) <= k)%nat; [|lia].
  apply IH. rewrite Nat2N.inj_succ, N.pow_succ_r' in Hn. apply N.div_lt_upper_bound; lia.
Qed.

Lemma be_bytes_len n k : n < 256 ^ N.of_nat k -> (length (be_bytes n) <= k)%nat.
Proof. intros Hn. unfold be_bytes. now apply be_bytes_aux_len. Qed.

Lemma be_repeat0 k acc : be (repeat 0 k ++ acc) 0 = be acc 0.
Proof. induction k as [|k IH]; cbn; [reflexivity|exact IH]. Qed.

Lemma int_to_bytes_be n len : be (int_to_bytes n len) 0 = n.
Proof. unfold int_to_bytes. rewrite be_repeat0. apply be_be_bytes. Qed.

Lemma int_to_bytes_len n len :
  n < 256 ^ N.of_nat len -> length (int_to_bytes n len) = len.
Proof.
  intros Hn. unfold int_to_bytes. rewrite app_length, repeat_length.
  pose proof (be_bytes_len n len Hn). lia.
Qed.

(* ====================================================================== *)
(* ECDSA public keys / signatures: fixed-width x || y                      *)
(* ====================================================================== *)
Lemma takeN_app_exact {A} (l r : list A) : takeN (lenN l) (l ++ r) = l.
Proof. unfold takeN, lenN. rewrite Nat2N.id. apply firstn_app_exact. Qed.
Lemma dropN_app_exact {A} (l r : list A) : dropN (lenN l) (l ++ r) = r.
Proof. unfold dropN, lenN. rewrite Nat2N.id. apply skipn_app_exact. Qed.

Lemma ecdsa_pub_roundtrip alg intlen x y :
  (alg = 13 /\ intlen = 32%nat) \/ (alg = 14 /\ intlen = 48%nat) ->
  x < 256 ^ N.of_nat intlen -> y < 256 ^ N.of_nat intlen ->
  ecdsa_pub_dec alg (curve_to_buf x y intlen) = Some (x, y).
Proof.
  intros Halg Hx Hy. unfold ecdsa_pub_dec, curve_to_buf.
  pose proof (int_to_bytes_len x intlen Hx) as Lx.
  pose proof (int_to_bytes_len y intlen Hy) as Ly.
  assert (Hl : lenN (int_to_bytes x intlen ++ int_to_bytes y intlen) = N.of_nat (2 * intlen)).
  { unfold lenN. rewrite app_length, Lx, Ly. f_equal. lia. }
  rewrite Hl.
  assert (Hh : N.of_nat (2 * intlen) / 2 = lenN (int_to_bytes x intlen)).
  { unfold lenN. rewrite Lx. rewrite Nat2N.inj_mul. change (N.of_nat 2) with 2.
    rewrite N.mul_comm. apply N.div_mul. discriminate. }
  rewrite Hh, takeN_app_exact, dropN_app_exact, !int_to_bytes_be.
  destruct Halg as [[-> ->]|[-> ->]]; reflexivity.
Qed.

(* ====================================================================== *)
(* RSA public keys, RFC 3110                                               *)
(* ====================================================================== *)
(* decoding an encoded key with an exponent of 1..4 octets *)
Lemma rsa_pub_dec_enc_bytes eb nb :
  (1 <= length eb <= 4)%nat -> nth 0 eb 0 <> 0 ->
  (64 <= length nb <= 512)%nat -> nth 0 nb 0 <> 0 ->
  be eb 0 <= 2147483647 ->
  rsa_pub_dec (exponent_to_buf eb ++ nb) = Some (be eb 0, be nb 0).
Proof.
  intros Le He Ln Hn Hx.
  unfold exponent_to_buf.
  assert (Hlt : lenN eb <? 256 = true) by (unfold lenN; lia). rewrite Hlt.
  unfold u8. rewrite (N.mod_small (lenN eb) 256) by (unfold lenN; lia).
  cbn [app].
  set (k := lenN eb :: eb ++ nb).
  assert (F1 : lenN k = 1 + lenN eb + lenN nb).
  { unfold k, lenN. cbn [length]. rewrite app_length. lia. }
  assert (F2 : nthN k 0 0 = lenN eb) by reflexivity.
  assert (F3 : nthN k 1 0 = nth 0 eb 0).
  { unfold k, nthN. cbn. destruct eb; [cbn in Le; lia|reflexivity]. }
  assert (T : N.to_nat (1 + lenN eb) = S (length eb)) by (unfold lenN; lia).
  assert (F4 : nthN k (1 + lenN eb) 0 = nth 0 nb 0).
  { unfold nthN. rewrite T. unfold k. cbn [nth]. rewrite app_nth2 by lia. now rewrite Nat.sub_diag. }
  assert (F5 : dropN (1 + lenN eb) k = nb).
  { unfold dropN. rewrite T. unfold k. cbn [skipn]. apply skipn_app_exact. }
  assert (F6 : takeN (lenN eb) (dropN 1 k) = eb).
  { unfold dropN, k. cbn [N.to_nat Pos.to_nat Pos.iter_op skipn]. apply takeN_app_exact. }
  unfold rsa_pub_dec. cbv zeta. rewrite F2.
  assert (E0 : (lenN eb =? 0) = false) by (unfold lenN; lia). rewrite E0.
  cbv beta iota. rewrite F3, F1, F4, F5, F6.
  replace (1 + lenN eb + lenN nb - (1 + lenN eb)) with (lenN nb) by lia.
  assert (G1 : (1 + lenN eb + lenN nb <? 66) = false) by (unfold lenN; lia).
  assert (G2 : (4 <? lenN eb) = false) by (unfold lenN; lia).
  assert (G3 : (nth 0 eb 0 =? 0) = false) by lia.
  assert (G4 : (lenN nb <? 64) = false) by (unfold lenN; lia).
  assert (G5 : (512 <? lenN nb) = false) by (unfold lenN; lia).
  assert (G6 : (nth 0 nb 0 =? 0) = false) by lia.
  assert (G7 : (2147483647 <? be eb 0) = false) by lia.
  rewrite G1, G2, E0, G3, G4, G5, G6, G7. reflexivity.
Qed.

Lemma pow256_31 : 2147483648 < 256 ^ N.of_nat 4.
Proof. cbn. lia. Qed.

(* RFC 3110 encoding of (E, N) as setPublicKeyRSA writes it is decoded to (E, N)
   by publicKeyRSA, for every exponent 0 < E < 2^31 and every modulus of 64 to
   512 octets. *)
Lemma rsa_pub_roundtrip e n :
  0 < e -> e <= 2147483647 ->
  (64 <= length (be_bytes n) <= 512)%nat ->
  rsa_pub_dec (rsa_pub_enc e n) = Some (e, n).
Proof.
  intros He0 He1 Ln. unfold rsa_pub_enc.
  destruct (be_bytes_hd e) as [d [r [Ee Hd]]]; [lia|].
  assert (Hnz : n <> 0).
  { intros ->. cbn in Ln. lia. }
  destruct (be_bytes_hd n Hnz) as [d' [r' [En Hd']]].
  assert (Le : (length (be_bytes e) <= 4)%nat).
  { apply be_bytes_len. pose proof pow256_31. lia. }
  rewrite rsa_pub_dec_enc_bytes.
  - now rewrite !be_be_bytes.
  - rewrite Ee in *. cbn [length] in *. lia.
  - rewrite Ee. exact Hd.
  - exact Ln.
  - rewrite En. exact Hd'.
  - rewrite be_be_bytes. exact He1.
Qed.

Example rsa_roundtrip_ex :
  rsa_pub_dec (rsa_pub_enc 65537 (2 ^ 511 + 12345)) = Some (65537, 2 ^ 511 + 12345).
Proof. vm_compute. reflexivity. Qed.
Example rsa_len_ex : (64 <= length (be_bytes (2 ^ 511 + 12345)) <= 512)%nat.
Proof. vm_compute. lia. Qed.

(* the three-octet length form is decoded too (never produced for Go's int exponents) *)
Example rsa_dec_long_form :
  rsa_pub_dec ([0; 0; 3; 1; 0; 1] ++ 128 :: repeat 7 63) = Some (65537, be (128 :: repeat 7 63) 0).
Proof. vm_compute. reflexivity. Qed.

(* ====================================================================== *)
(* BIND private-key text: print then parse                                 *)
(* ====================================================================== *)
Lemma klex_plain k : forall r key buf,
  forallb kv_char_ok k = true ->
  klex (k ++ r) key false false buf = klex r key false false (rev k ++ buf).
Proof.
  induction k as [|x k IH]; intros r key buf Hk; [reflexivity|].
  cbn [forallb] in Hk. apply andb_prop in Hk as [Hx Hk].
  unfold kv_char_ok in Hx.
  cbn [app klex].
  destruct (N.eqb_spec x 58) as [|_]; [subst; discriminate|].
  destruct (N.eqb_spec x 59) as [|_]; [subst; discriminate|].
  destruct (N.eqb_spec x 10) as [|_]; [subst; discriminate|].
  rewrite IH by exact Hk. cbn [rev]. now rewrite <- app_assoc.
Qed.

Lemma klex_line k v rest :
  forallb kv_char_ok k = true -> forallb kv_char_ok v = true ->
  klex (k ++ [58; 32] ++ v ++ [10] ++ rest) true false false [] =
  KKey k :: KValue v :: klex rest true false false [].
Proof.
  intros Hk Hv. rewrite klex_plain by exact Hk.
  cbn [app klex N.eqb Pos.eqb orb negb].
  rewrite app_nil_r, rev_involutive. f_equal.
  rewrite klex_plain by exact Hv.
  cbn [app klex N.eqb Pos.eqb andb].
  now rewrite app_nil_r, rev_involutive.
Qed.

Lemma parse_print_kv m :
  forallb (fun kv => key_ok (fst kv) && val_ok (snd kv)) m = true ->
  parse_key (print_kv m) = Some (map (fun kv => (lower_bytes (fst kv), snd kv)) m).
Proof.
  unfold parse_key. induction m as [|[k v] m IH]; intros Hm; [reflexivity|].
  cbn [forallb fst snd] in Hm. apply andb_prop in Hm as [Hkv Hm]. apply andb_prop in Hkv as [Hk Hv].
  unfold key_ok in Hk. apply andb_prop in Hk as [Hk Hne]. unfold val_ok in Hv.
  cbn [print_kv flat_map fst snd]. rewrite <- !app_assoc.
  change (k ++ [58; 32] ++ v ++ [10] ++ flat_map (fun kv => fst kv ++ [58; 32] ++ snd kv ++ [10]) m)
    with (k ++ [58; 32] ++ v ++ [10] ++ print_kv m).
  rewrite klex_line by assumption.
  cbn [parse_kv]. destruct k as [|k0 k]; [discriminate|].
  rewrite (IH Hm). reflexivity.
Qed.

(* "Private-key-format: v1.3" / "Algorithm: 8 (RSASHA256)" / "Modulus: AAAA" *)
Example parse_print_ex :
  let m := [(bytes_of_string "Private-key-format", bytes_of_string "v1.3");
            (bytes_of_string "Algorithm", bytes_of_string "8 (RSASHA256)");
            (bytes_of_string "Modulus", bytes_of_string "AAAA")] in
  forallb (fun kv => key_ok (fst kv) && val_ok (snd kv)) m = true /\
  kv_lookup (match parse_key (print_kv m) with Some x => x | None => [] end)
            (bytes_of_string "modulus") = Some (bytes_of_string "AAAA").
Proof. vm_compute. split; reflexivity. Qed.

(* ====================================================================== *)
(* further Examples (non-vacuity of the Props/C17.v hypotheses)            *)
(* ====================================================================== *)
(* RFC 4034 section 5.4: dskey.example.com. DNSKEY 256 3 5 ... ; key id = 60485 *)
Definition rfc4034_5_4_rdata : bytes := unhex
  "0100030501039e8a247418e318903b215a848acfd5f37f026bd4062db26c774c690968d5d56df8bfda91e6f36d9a279888f41333357c5e6029990d10fdf5663062a512763326980a615ddbf17a05ddfcce7e5fb3abcca05a31b0957452d4521e83870789063115bf97f6c308ccf57cdc9ce7fe10f6ed1bd0cc0660038c50dcdb0feb963c2f17".
Example keytag_rfc4034_5_4 :
  keytag rfc4034_5_4_rdata = 60485 /\ keytag_rfc rfc4034_5_4_rdata = 60485 /\
  keytag_w 32 rfc4034_5_4_rdata = 60485 /\
  key_tag 256 3 5 (skipn 4 rfc4034_5_4_rdata) = 60485.
Proof. vm_compute. repeat split. Qed.

(* a carry out of 16 bits is folded in: 300 octets 0xff sum to 150 * 65535 *)
Example keytag_carry : keytag (repeat 255 300) = keytag_rfc (repeat 255 300) /\ 65535 < sum16 (repeat 255 300).
Proof. vm_compute. split; reflexivity. Qed.

Example to_ds_ex :
  let H := fun (dt : N) (m : bytes) => dt :: m in
  to_ds H [[69; 120]; [99]] 257 3 8 [1; 2; 3] 2 =
  Some {| ds_keytag := keytag_rfc [1; 1; 3; 8; 1; 2; 3]; ds_alg := 8; ds_dt := 2;
          ds_digest := 2 :: [2; 101; 120; 1; 99; 0] ++ [1; 1; 3; 8; 1; 2; 3] |} /\
  to_ds H [[69; 120]; [99]] 257 3 8 [1; 2; 3] 2 = to_ds H [[101; 88]; [67]] 257 3 8 [1; 2; 3] 2 /\
  to_ds H [[69; 120]; [99]] 257 3 8 [1; 2; 3] 3 = None.
Proof. vm_compute. repeat split. Qed.

Example ecdsa_roundtrip_ex :
  ecdsa_pub_dec 13 (curve_to_buf 5 (2 ^ 255 + 1) 32) = Some (5, 2 ^ 255 + 1) /\
  length (curve_to_buf 5 (2 ^ 255 + 1) 32) = 64%nat.
Proof. vm_compute. split; reflexivity. Qed.

Example validity_serial_nowrap_ex :
  validity_period 1000 2000 1500 = true /\ serial_le 1000 1500 /\ serial_le 1500 2000.
Proof. unfold serial_le. vm_compute. repeat split. Qed.
