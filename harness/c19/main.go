package main

import (
	"bytes"
	"strings"

	"github.com/miekg/dns"
	"github.com/miekg/dns/dnsutil"
	. "verif/harness/common"
)

// C19: label helpers agree with the wire-format label sequence.

func main() { Main(runC19) }

// refShowLabel is the reference presentation of one wire label (RFC 1035 5.1 /
// the library's documented escaping), written independently of the library.
func refShowLabel(l []byte) string {
	var sb strings.Builder
	for _, b := range l {
		switch {
		case strings.IndexByte(`. '@;()"\`, b) >= 0:
			sb.WriteByte('\\')
			sb.WriteByte(b)
		case b < ' ' || b > '~':
			sb.WriteByte('\\')
			sb.WriteByte('0' + b/100)
			sb.WriteByte('0' + b/10%10)
			sb.WriteByte('0' + b%10)
		default:
			sb.WriteByte(b)
		}
	}
	return sb.String()
}

func wireOf(ls [][]byte) []byte {
	var w []byte
	for _, l := range ls {
		w = append(w, byte(len(l)))
		w = append(w, l...)
	}
	return append(w, 0)
}

func lowerASCII(b []byte) []byte {
	o := make([]byte, len(b))
	for i, c := range b {
		if c >= 'A' && c <= 'Z' {
			c += 32
		}
		o[i] = c
	}
	return o
}

func commonSuffix(a, b [][]byte) int {
	n := 0
	for i, j := len(a)-1, len(b)-1; i >= 0 && j >= 0; i, j = i-1, j-1 {
		if !bytes.Equal(lowerASCII(a[i]), lowerASCII(b[j])) {
			break
		}
		n++
	}
	return n
}

func intsEq(a, b []int) bool {
	if len(a) != len(b) {
		return false
	}
	for i := range a {
		if a[i] != b[i] {
			return false
		}
	}
	return true
}

func showInts(a []int) string {
	s := make([]string, len(a))
	for i, v := range a {
		s[i] = Itoa(v)
	}
	return strings.Join(s, ",")
}

type c19in struct {
	Labels []string `json:"labels_hex"`
	Name   string   `json:"name"`
	Other  string   `json:"other,omitempty"`
}

func mkIn(ls [][]byte, s string, other string) c19in {
	in := c19in{Name: s, Other: other}
	for _, l := range ls {
		in.Labels = append(in.Labels, Hx(l))
	}
	return in
}

var c19checked, c19pairs int

// c19Oracle checks every single-name clause of the property on the name whose
// wire labels are ls. It returns the FQDN presentation form.
func c19Oracle(ls [][]byte) string {
	c19checked++
	s, _, err := dns.UnpackDomainName(wireOf(ls), 0)
	if err != nil {
		return ""
	}
	// expected label starts and label texts
	var starts []int
	var texts []string
	pos := 0
	for _, l := range ls {
		starts = append(starts, pos)
		t := refShowLabel(l)
		texts = append(texts, t)
		pos += len(t) + 1
	}
	forms := []string{s}
	if len(ls) > 0 {
		forms = append(forms, s[:len(s)-1])
	}
	for fi, f := range forms {
		in := mkIn(ls, f, "")
		bad := func(what, got, want string) {
			Viol("C19/"+what, what+": got "+got+" want "+want, in)
		}
		if got := Protect(func() string { return Itoa(dns.CountLabel(f)) }); got != Itoa(len(ls)) {
			bad("CountLabel", got, Itoa(len(ls)))
		}
		if got := Protect(func() string { return showInts(dns.Split(f)) }); got != showInts(starts) {
			bad("Split", got, showInts(starts))
		}
		if got := Protect(func() string { return strings.Join(dns.SplitDomainName(f), "|") }); got != strings.Join(texts, "|") {
			bad("SplitDomainName", got, strings.Join(texts, "|"))
		}
		// NextLabel visits exactly the label starts, then reports the end.
		for i := range starts {
			wantOff, wantEnd := len(f), true
			if i+1 < len(starts) {
				wantOff, wantEnd = starts[i+1], false
			}
			got := Protect(func() string { o, e := dns.NextLabel(f, starts[i]); return Itoa(o) + "," + Btoa(e) })
			if got != Itoa(wantOff)+","+Btoa(wantEnd) {
				bad("NextLabel", got, Itoa(wantOff)+","+Btoa(wantEnd))
			}
		}
		// PrevLabel(n) is the start of the n-th label from the right.
		k := len(starts)
		if k > 0 {
			for n := 0; n <= k+1; n++ {
				want := ""
				switch {
				case n == 0:
					want = Itoa(len(f)) + ",false"
				case n <= k:
					want = Itoa(starts[k-n]) + ",false"
				default:
					want = "0,true"
				}
				got := Protect(func() string { o, e := dns.PrevLabel(f, n); return Itoa(o) + "," + Btoa(e) })
				if got != want {
					bad("PrevLabel", got, want)
				}
			}
		}
		// Fqdn / CanonicalName / IsFqdn
		if got := dns.Fqdn(f); got != s {
			bad("Fqdn", got, s)
		}
		if got := dns.IsFqdn(f); got != (fi == 0) {
			bad("IsFqdn", Btoa(got), Btoa(fi == 0))
		}
		if got, want := dns.CanonicalName(f), string(lowerASCII([]byte(s))); got != want {
			bad("CanonicalName", got, want)
		}
	}
	return s
}

// c19PairOracle checks the two-name clauses.
func c19PairOracle(a, b [][]byte, sa, sb string) {
	c19pairs++
	in := mkIn(a, sa, sb)
	want := commonSuffix(a, b)
	if got := Protect(func() string { return Itoa(dns.CompareDomainName(sa, sb)) }); got != Itoa(want) {
		Viol("C19/CompareDomainName", "CompareDomainName: got "+got+" want "+Itoa(want), in)
	}
	// IsSubDomain(parent=a, child=b): all labels of a are a suffix of b
	if len(a) > 0 {
		wsub := want == len(a)
		if got := Protect(func() string { return Btoa(dns.IsSubDomain(sa, sb)) }); got != Btoa(wsub) {
			Viol("C19/IsSubDomain", "IsSubDomain: got "+got+" want "+Btoa(wsub), in)
		}
	}
	// dnsutil: for a relative name r (a, without the trailing dot) under origin b:
	// TrimDomainName(AddOrigin(r, o), o) == r, for o given with and without its dot.
	if len(a) > 0 && len(b) > 0 {
		r := sa[:len(sa)-1]
		for _, o := range []string{sb, sb[:len(sb)-1]} {
			got := Protect(func() string { return dnsutil.TrimDomainName(dnsutil.AddOrigin(r, o), o) })
			if got != r {
				Viol("C19/TrimAddInverse", "TrimDomainName(AddOrigin(r,o),o): got "+got+" want "+r, mkIn(a, r, o))
			}
		}
		// and AddOrigin(TrimDomainName(s, o), o) == s for s = r.o
		full := r + "." + sb
		got := Protect(func() string { return dnsutil.AddOrigin(dnsutil.TrimDomainName(full, sb), sb) })
		if got != full {
			Viol("C19/AddTrimInverse", "AddOrigin(TrimDomainName(s,o),o): got "+got+" want "+full, mkIn(a, full, sb))
		}
	}
}

// uni renders every single-name observable of s for the model comparison.
func c19Uni(s string) string {
	var parts []string
	parts = append(parts, Protect(func() string { return Itoa(dns.CountLabel(s)) }))
	parts = append(parts, Protect(func() string { return showInts(dns.Split(s)) }))
	parts = append(parts, Protect(func() string {
		var h []string
		for _, l := range dns.SplitDomainName(s) {
			h = append(h, Hs(l))
		}
		return strings.Join(h, "|")
	}))
	var nl []string
	for off := 0; off <= len(s)+1; off++ {
		nl = append(nl, Protect(func() string { o, e := dns.NextLabel(s, off); return Itoa(o) + Btoa(e)[:1] }))
	}
	parts = append(parts, strings.Join(nl, ","))
	var pl []string
	for n := 0; n <= 4; n++ {
		pl = append(pl, Protect(func() string { o, e := dns.PrevLabel(s, n); return Itoa(o) + Btoa(e)[:1] }))
	}
	parts = append(parts, strings.Join(pl, ","))
	parts = append(parts, Btoa(dns.IsFqdn(s)), Hs(dns.Fqdn(s)), Hs(dns.CanonicalName(s)))
	return strings.Join(parts, ";")
}

func c19PairRaw(a, b string) string {
	return Protect(func() string { return Itoa(dns.CompareDomainName(a, b)) }) + ";" +
		Protect(func() string { return Btoa(dns.IsSubDomain(a, b)) })
}

func c19Pair(a, b string) string {
	var parts []string
	parts = append(parts, Protect(func() string { return Itoa(dns.CompareDomainName(a, b)) }))
	parts = append(parts, Protect(func() string { return Btoa(dns.IsSubDomain(a, b)) }))
	parts = append(parts, Protect(func() string { return Hs(dnsutil.AddOrigin(a, b)) }))
	parts = append(parts, Protect(func() string { return Hs(dnsutil.TrimDomainName(a, b)) }))
	return strings.Join(parts, ";")
}

// all label lists whose octets (from alpha) total at most maxOct, each label non-empty
func enumLabelLists(alpha []byte, maxOct int, f func(ls [][]byte)) {
	var gen func(prefix [][]byte, cur []byte, left int)
	gen = func(prefix [][]byte, cur []byte, left int) {
		if len(cur) > 0 {
			done := append(append([][]byte{}, prefix...), append([]byte{}, cur...))
			f(done)
			// close the label and start another
			if left > 0 {
				for _, c := range alpha {
					gen(done, []byte{c}, left-1)
				}
			}
		}
		if left > 0 && len(cur) > 0 {
			for _, c := range alpha {
				gen(prefix, append(append([]byte{}, cur...), c), left-1)
			}
		}
	}
	f(nil)
	for _, c := range alpha {
		gen(nil, []byte{c}, maxOct-1)
	}
}

func enumStrings(alpha string, maxLen int, f func(s string)) {
	var gen func(cur []byte)
	gen = func(cur []byte) {
		f(string(cur))
		if len(cur) == maxLen {
			return
		}
		for i := 0; i < len(alpha); i++ {
			gen(append(cur, alpha[i]))
		}
	}
	gen(nil)
}

func randLabels(r *Rng, alpha []byte, maxLabels, maxLen int) [][]byte {
	n := r.Intn(maxLabels + 1)
	var ls [][]byte
	total := 1
	for i := 0; i < n; i++ {
		l := 1 + r.Intn(maxLen)
		if total+l+1 > 255 {
			break
		}
		total += l + 1
		b := make([]byte, l)
		for j := range b {
			if r.Intn(3) == 0 {
				b[j] = byte(r.Next())
			} else {
				b[j] = alpha[r.Intn(len(alpha))]
			}
		}
		ls = append(ls, b)
	}
	return ls
}

func runC19(r *Rng, tier string, n int) {
	octAlpha := []byte{'a', 'A', '0', '.', '\\', 0x00}
	maxOct, maxStr, nrand, pairOct := 5, 4, 300, 3
	if tier == "thorough" {
		maxOct, maxStr, nrand, pairOct = 7, 6, 20000, 4
	}
	if n > 0 {
		nrand = n
	}
	// (1) direct oracle, bounded-exhaustive over label lists; a sample becomes model cases
	type nm struct {
		ls [][]byte
		s  string
	}
	var small []nm
	cnt := 0
	enumLabelLists(octAlpha, maxOct, func(ls [][]byte) {
		s := c19Oracle(ls)
		if s == "" {
			return
		}
		cnt++
		tot := 0
		for _, l := range ls {
			tot += len(l)
		}
		if tot <= pairOct {
			small = append(small, nm{ls, s})
		}
		if tot <= 2 || r.Intn(150) == 0 {
			Emit("uni", []string{Hs(s)}, c19Uni(s))
			if len(ls) > 0 {
				t := s[:len(s)-1]
				Emit("uni", []string{Hs(t)}, c19Uni(t))
			}
		}
	})
	// (2) all pairs of small names
	pc := 0
	for _, a := range small {
		for _, b := range small {
			c19PairOracle(a.ls, b.ls, a.s, b.s)
			pc++
			if r.Intn(len(small)*len(small)/400+1) == 0 {
				Emit("pair", []string{Hs(a.s), Hs(b.s)}, c19Pair(a.s, b.s))
				if len(a.ls) > 0 {
					Emit("pair", []string{Hs(a.s[:len(a.s)-1]), Hs(b.s)}, c19Pair(a.s[:len(a.s)-1], b.s))
				}
			}
		}
	}
	// (2z) the maximal NUMBER of labels: k one-octet labels for k around 127 (255 octets on the wire), alone,
	// against themselves, against their parents and against a case-flipped twin
	for k := 120; k <= 127; k++ {
		for _, fill := range []byte{'a', 'Z', '.', '\\'} {
			ls := make([][]byte, k)
			tw := make([][]byte, k)
			for i := range ls {
				ls[i] = []byte{fill}
				tw[i] = []byte{fill ^ 0x20}
			}
			s1 := c19Oracle(ls)
			if s1 == "" {
				continue
			}
			c19PairOracle(ls, ls, s1, s1)
			if s2 := c19Oracle(ls[1:]); s2 != "" {
				c19PairOracle(ls[1:], ls, s2, s1)
				c19PairOracle(ls, ls[1:], s1, s2)
			}
			if fill == 'a' || fill == 'Z' {
				if s3 := c19Oracle(tw); s3 != "" {
					c19PairOracle(ls, tw, s1, s3)
				}
			}
		}
	}
	// (3) random long names and related pairs
	full := []byte("abcXYZ019-_.\\ \"();@'$")
	for i := 0; i < nrand; i++ {
		a := randLabels(r, full, 8, 12)
		if i%10 == 0 {
			a = randLabels(r, full, 60, 63)
		}
		sa := c19Oracle(a)
		var b [][]byte
		switch r.Intn(4) {
		case 0:
			b = randLabels(r, full, 6, 8)
		case 1: // share a suffix, case-flipped
			k := r.Intn(len(a) + 1)
			b = append(randLabels(r, full, 3, 5), a[len(a)-k:]...)
			b2 := make([][]byte, len(b))
			for i, l := range b {
				l2 := append([]byte{}, l...)
				for j := range l2 {
					if r.Intn(2) == 0 && ((l2[j] >= 'a' && l2[j] <= 'z') || (l2[j] >= 'A' && l2[j] <= 'Z')) {
						l2[j] ^= 0x20
					}
				}
				b2[i] = l2
			}
			b = b2
		case 2: // b is an ancestor of a
			k := r.Intn(len(a) + 1)
			b = a[len(a)-k:]
		default: // nearly equal: one octet differs
			b = make([][]byte, len(a))
			for i, l := range a {
				b[i] = append([]byte{}, l...)
			}
			if len(b) > 0 {
				i := r.Intn(len(b))
				b[i][r.Intn(len(b[i]))] ^= byte(1 << r.Intn(8))
			}
		}
		if len(wireOf(b)) > 255 {
			continue
		}
		sb := c19Oracle(b)
		if sa == "" || sb == "" {
			continue
		}
		c19PairOracle(a, b, sa, sb)
		c19PairOracle(b, a, sb, sa)
		if i < 100 || i%100 == 0 {
			Emit("uni", []string{Hs(sa)}, c19Uni(sa))
			Emit("pair", []string{Hs(sa), Hs(sb)}, c19Pair(sa, sb))
			Emit("pair", []string{Hs(sb), Hs(sa)}, c19Pair(sb, sa))
		}
	}
	// (4) model fidelity beyond valid names: every string over the presentation alphabet
	sc := 0
	var strs []string
	enumStrings("aA0.\\", maxStr, func(s string) {
		sc++
		Emit("uni", []string{Hs(s)}, c19Uni(s))
		if len(s) <= 2 {
			strs = append(strs, s)
		}
	})
	for _, a := range strs {
		for _, b := range strs {
			Emit("pair", []string{Hs(a), Hs(b)}, c19Pair(a, b))
		}
	}
	// (6) letter case means A-Z only: every octet against its 0x20-flipped twin
	for b := 0; b < 256; b++ {
		l1 := [][]byte{{'x', byte(b), 'y'}, []byte("nl")}
		l2 := [][]byte{{'x', byte(b) ^ 0x20, 'y'}, []byte("nl")}
		s1, s2 := c19Oracle(l1), c19Oracle(l2)
		if s1 != "" && s2 != "" {
			c19PairOracle(l1, l2, s1, s2)
			if b%4 == 0 || b >= 0x40 && b < 0x80 {
				Emit("pair", []string{Hs(s1), Hs(s2)}, c19Pair(s1, s2))
			}
		}
	}
	// (5) ASCII-only case folding: names with raw octets >= 0x80 (not the library's own
	// presentation form, so no direct oracle; model fidelity of CompareDomainName /
	// IsSubDomain, which fold A-Z only, octet by octet)
	rawAlpha := []string{"a", "A", "k", "K", "s", "S", ".", "\xc3\x89", "\xc3\xa9", "\xff", "\xfe", "\xe2\x84\xaa", "\xc5\xbf", "\x80"}
	for i := 0; i < 160; i++ {
		mk := func() string {
			var sb strings.Builder
			for j := 0; j < 1+r.Intn(4); j++ {
				sb.WriteString(rawAlpha[r.Intn(len(rawAlpha))])
			}
			s := strings.ReplaceAll(sb.String(), "..", ".")
			s = strings.Trim(s, ".")
			if s == "" {
				s = "x"
			}
			return s + ".nl."
		}
		a, b := mk(), mk()
		if i%4 == 0 { // same label, one octet differs by what Unicode folding would equate
			b = strings.NewReplacer("K", "\xe2\x84\xaa", "k", "\xe2\x84\xaa", "s", "\xc5\xbf", "\xff", "\xfe", "\xc3\x89", "\xc3\xa9").Replace(a)
		}
		Emit("pairraw", []string{Hs(a), Hs(b)}, c19PairRaw(a, b))
	}
	// (5b) Fqdn / CanonicalName on octet strings: every octet value, raw, inside a label, alone among ASCII and
	// next to other high octets: nothing changes but the appended root and A-Z -> a-z, octet by octet
	for b := 0; b < 256; b++ {
		if b == '.' || b == '\\' {
			continue
		}
		for _, tmpl := range []string{"A%sb.Example", "A%sb.Example.", "%s", "WWW.%sx.Example", "\xc3\x89%s.Q.", "%s%s%s.Z"} {
			in := strings.ReplaceAll(tmpl, "%s", string([]byte{byte(b)}))
			want := string(lowerASCII([]byte(in)))
			wantF := in
			if !strings.HasSuffix(in, ".") {
				want += "."
				wantF += "."
			}
			c19checked++
			if got := dns.CanonicalName(in); got != want {
				Viol("C19/CanonicalName/octets", "CanonicalName changes more than ASCII letter case and the final dot: got "+Hs(got)+" want "+Hs(want), map[string]string{"name_hex": Hs(in)})
			}
			if got := dns.Fqdn(in); got != wantF {
				Viol("C19/Fqdn/octets", "Fqdn changes more than the final dot: got "+Hs(got)+" want "+Hs(wantF), map[string]string{"name_hex": Hs(in)})
			}
		}
	}
	// (7) IsFqdn is about octets: a multi-octet UTF-8 character, an invalid UTF-8 octet or an ASCII
	// letter before k backslashes and the final dot: fully qualified exactly when k is even
	for _, pre := range []string{"", "a", "\xc3\xa9", "\xff", "\xe6\x97\xa5", "\xf0\x9f\x98\x80", "x.\xc3\xa9", "\\\xc3\xa9"} {
		for k := 0; k <= 5; k++ {
			s := pre + strings.Repeat("\\", k) + "."
			c19checked++
			want := k%2 == 0
			if pre == "\\\xc3\xa9" { // the backslash before the character escapes its first octet only
				want = k%2 == 0
			}
			if got := dns.IsFqdn(s); got != want {
				Viol("C19/IsFqdn/multi-octet-character-before-backslashes", "IsFqdn("+Hs(s)+") = "+Btoa(got)+": the final dot is preceded by "+Itoa(k)+" backslashes", map[string]string{"name_hex": Hs(s)})
			}
		}
	}
	// (8) what the helpers return stays what it was: results kept across later calls (in a slice, as map
	// keys) are compared at the end with private copies made when they were returned
	{
		inputs := []string{"WWW.Example.ORG", "MAIL.Other.NET.", "x.Y.z.", "UPPER.", "lower.", "Mixed.Case.Example.", "A.B.C.D.E.F.example.", "K\\.Esc.Example.", "\\065BC.example."}
		type kept struct {
			what string
			got  string
			copy []byte
		}
		var ks []kept
		keep := func(what, got string) { ks = append(ks, kept{what, got, append([]byte(nil), got...)}) }
		for round := 0; round < 3; round++ {
			for _, in := range inputs {
				keep("CanonicalName("+in+")", dns.CanonicalName(in))
				keep("Fqdn("+in+")", dns.Fqdn(in))
				keep("AddOrigin("+in+")", dnsutil.AddOrigin(in, "Origin.Example."))
				keep("TrimDomainName("+in+")", dnsutil.TrimDomainName(in+".origin.example.", "Origin.Example."))
				for _, l := range dns.SplitDomainName(in) {
					keep("SplitDomainName("+in+")", l)
				}
			}
		}
		c19checked += len(ks)
		for _, k := range ks {
			if k.got != string(k.copy) {
				Viol("C19/result-changed-after-return", k.what+" returned "+Hs(string(k.copy))+" but the returned string reads "+Hs(k.got)+" after later calls", map[string]string{"call": k.what})
			}
		}
	}
	Stat(map[string]int{"names_checked": c19checked, "pairs_checked": c19pairs, "enumerated_label_lists": cnt, "enumerated_strings": sc, "max_octets": maxOct})
}
