From Dns Require Import Model.Msg.
(* placeholder until the layout theorems land *)
Theorem placeholder_c01 : kind_of_type 65280 = "RFC3597"%string.
Proof. reflexivity. Qed.
