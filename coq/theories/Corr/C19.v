(* Corr/C19.v — case runner for the label helpers (projected observables in the
   same textual form as harness/c19.go prints them). *)
From Dns Require Import Model.Labels.
Open Scope N_scope.

Definition show_off (p : nat * bool) : string := decn (fst p) +++ (if snd p then "t" else "f")%string.
Definition show_optn (o : option nat) : string :=
  match o with Some n => decn n | None => "outoffuel"%string end.
Definition show_optl (o : option (list nat)) : string :=
  match o with Some l => show_nats l | None => "outoffuel"%string end.
Definition show_rl (r : res (list bytes)) : string :=
  match r with
  | Ok l => join "|"%string (map hex l)
  | Panic => "panic"%string
  | _ => "outoffuel"%string
  end.
Definition show_rn (r : res nat) : string :=
  match r with Ok n => decn n | Panic => "panic"%string | _ => "outoffuel"%string end.
Definition show_rb (r : res bool) : string :=
  match r with Ok n => showb n | Panic => "panic"%string | _ => "outoffuel"%string end.
Definition show_rbytes (r : res bytes) : string :=
  match r with Ok n => hex n | Panic => "panic"%string | _ => "outoffuel"%string end.

Definition uni (s : bytes) : string :=
  join ";"%string
    [ show_optn (count_label s);
      show_optl (split s);
      show_rl (split_domain_name s);
      join ","%string (map (fun off => show_off (next_label s off)) (seq 0 (length s + 2)));
      join ","%string (map (fun n => show_off (prev_label s n)) (seq 0 5));
      showb (is_fqdn s); hex (fqdn s); hex (canonical_name s) ].

Definition pair (a b : bytes) : string :=
  join ";"%string
    [ show_rn (compare_domain_name a b);
      show_rb (is_sub_domain a b);
      hex (add_origin a b);
      show_rbytes (trim_domain_name a b) ].

Definition pairraw (a b : bytes) : string :=
  join ";"%string [ show_rn (compare_domain_name a b); show_rb (is_sub_domain a b) ].

Definition run (fn : string) (args : list string) : string :=
  if String.eqb fn "uni" then uni (unhex (arg args 0))
  else if String.eqb fn "pairraw" then pairraw (unhex (arg args 0)) (unhex (arg args 1))
  else if String.eqb fn "pair" then pair (unhex (arg args 0)) (unhex (arg args 1))
  else "unknown-fn"%string.
