package main

// C17, "generated keys, and keys exported to and re-read from BIND private-key
// text, sign and verify interchangeably with the original" over the whole
// domain the property quantifies over:
//
//   - every DNSKEY flags value (runFlags): a DNSKEY is a zone key exactly when
//     bit 7 (ZONE, 0x0100) is set (RFC 4034 2.1.1); all other bits - SEP, the
//     RFC 5011 REVOKE bit, reserved bits - say nothing about whether the key
//     signs and verifies.  All 2^16 values go through KeyTag / ToDS / the text
//     form, a spread of them (always 256, 257, 384, 385, 0x8100, 0xFFFF) through
//     Generate / PrivateKeyString / NewPrivateKey / ReadPrivateKey / Sign /
//     Verify with every algorithm family; the same values without the ZONE bit
//     must not verify.
//   - every supported key size (runFixedKeys): fixed RSA key pairs of 1024 ..
//     4096 bits (keys_fixed.go, common/keys4096.go; made once, so no key is
//     generated at run time) for the four RSA algorithms: the text
//     PrivateKeyString wrote is re-read, the re-read key is exported again
//     (same text), signs, and the signature verifies.
//   - key text of any line length (runKeyLines): "Field: value" lines with
//     values, field names and comments of 0 .. 1400 and up to 2^20 characters
//     are read back (the model's private_key_text_roundtrip theorem, evaluated
//     on the implementation), and real key files with BIND's Created /
//     Publish / Activate lines, unknown fields and comments of any length
//     still give the same key.

import (
	"bytes"
	"crypto"
	"crypto/ecdsa"
	"crypto/ed25519"
	"crypto/rsa"
	"encoding/base64"
	"encoding/hex"
	"fmt"
	"io"
	"math/big"
	"strings"

	"github.com/miekg/dns"
	. "verif/harness/common"
)

// chunkReader is an io.Reader that is not an io.ByteReader and hands out a few octets per call
// (a key file read from a pipe or a network file system).
type chunkReader struct {
	s string
	n int
}

func (c *chunkReader) Read(p []byte) (int, error) {
	if len(c.s) == 0 {
		return 0, io.EOF
	}
	n := c.n
	if n > len(p) {
		n = len(p)
	}
	if n > len(c.s) {
		n = len(c.s)
	}
	copy(p, c.s[:n])
	c.s = c.s[n:]
	return n, nil
}

func samePriv(x, y crypto.PrivateKey) bool {
	switch a := x.(type) {
	case ed25519.PrivateKey:
		b, ok := y.(ed25519.PrivateKey)
		return ok && bytes.Equal(a, b)
	case *ecdsa.PrivateKey:
		b, ok := y.(*ecdsa.PrivateKey)
		return ok && b != nil && a.D.Cmp(b.D) == 0 && b.PublicKey.X != nil && a.PublicKey.X.Cmp(b.PublicKey.X) == 0 &&
			a.PublicKey.Y.Cmp(b.PublicKey.Y) == 0 && a.Curve == b.Curve
	case *rsa.PrivateKey:
		b, ok := y.(*rsa.PrivateKey)
		return ok && b != nil && b.D != nil && b.N != nil && a.D.Cmp(b.D) == 0 && a.N.Cmp(b.N) == 0 && a.E == b.E && len(b.Primes) == 2 &&
			b.Primes[0] != nil && b.Primes[1] != nil && a.Primes[0].Cmp(b.Primes[0]) == 0 && a.Primes[1].Cmp(b.Primes[1]) == 0
	}
	return false
}

// the flags values every run uses: ZSK, KSK, revoked ZSK / KSK (RFC 5011), a reserved high bit, all bits
var flagsAlways = []uint16{256, 257, 384, 385, 0x8100, 0xFFFF}

var genFlagsN int

// genFlags: flags of the next generated key (ZONE always set): the fixed values in turn, then random ones
func genFlags(r *Rng) uint16 {
	i := genFlagsN % (len(flagsAlways) + 2)
	genFlagsN++
	if i < len(flagsAlways) {
		return flagsAlways[i]
	}
	return uint16(r.Next()) | dns.ZONE
}

// flagsSpread: flags values with the ZONE bit set
func flagsSpread(r *Rng, nrand int, all bool) []uint16 {
	seen := map[uint16]bool{}
	var out []uint16
	add := func(f uint16) {
		f |= dns.ZONE
		if !seen[f] {
			seen[f] = true
			out = append(out, f)
		}
	}
	for _, f := range flagsAlways {
		add(f)
	}
	if all {
		for f := 0; f < 1<<16; f++ {
			add(uint16(f))
		}
		return out
	}
	for f := 0; f < 256; f++ { // every low octet
		add(uint16(f))
	}
	for i := 0; i < 16; i++ { // ZONE + one bit, ZONE + two bits, everything but one bit, but two bits
		add(1 << i)
		add(^uint16(1 << i))
		for j := 0; j < i; j++ {
			add(1<<i | 1<<j)
			add(^uint16(1<<i | 1<<j))
		}
	}
	for i := 0; i < nrand; i++ {
		add(uint16(r.Next()))
	}
	return out
}

// signFailed reports a failure of RRSIG.Sign.  One failure is an observation, not an alarm of this check (see
// docs/C17.md, "key tag 0"): Sign takes KeyTag == 0 for "not set" and answers ErrKey, so a key whose RFC 4034
// App. B key tag happens to be 0 (one DNSKEY RDATA in 65536) cannot sign at all.  Keys are generated with
// crypto/rand, so such a key turns up in a run with a small probability; keyTagZeroProbe shows the case with a
// fixed key on every run.
func signFailed(k *dns.DNSKEY, err error, what string, in any) {
	if k.KeyTag() == 0 && err == dns.ErrKey {
		// a recorded finding (one DNSKEY RDATA in 65536 has tag 0): one narrow key, whatever key material hit it
		st["obs_sign_refused_keytag_zero"]++
		Viol("C17/Sign/key-tag-zero", "a key whose RFC 4034 Appendix B key tag is 0 generates, exports and re-reads but cannot sign: RRSIG.Sign returns ErrKey (it treats KeyTag == 0 as 'not set')", in)
		return
	}
	Viol("C17/PrivateKey/sign", what, in)
}

// keyTagZeroProbe: a fixed Ed25519 key and the flags value (ZONE set) for which its key tag is 0.
func keyTagZeroProbe() {
	for seed := 1; seed < 64; seed++ {
		priv := ed25519.NewKeyFromSeed(bytes.Repeat([]byte{byte(seed)}, ed25519.SeedSize))
		pub := []byte(priv.Public().(ed25519.PublicKey))
		for f := 0; f < 1<<16; f++ {
			fl := uint16(f)
			if fl&dns.ZONE == 0 || refKeyTag(dnskeyRdata(fl, 3, 15, pub)) != 0 {
				continue
			}
			k := mkKey("tagzero.example.", fl, 3, 15, pub)
			st["keytag_zero_probe_checked"]++
			if k.KeyTag() != 0 {
				Viol("C17/KeyTag/value", fmt.Sprintf("KeyTag()=%d, RFC 4034 App. B gives 0", k.KeyTag()), keyIn{Flags: fl, Proto: 3, Alg: 15, Seed: Hx(pub), N: len(pub)})
				return
			}
			sig := sigFor(k)
			rrset := rrsetUnder(k.Hdr.Name)
			if err := sig.Sign(priv, rrset); err != nil {
				signFailed(k, err, "Sign failed: "+err.Error(), genIn{Alg: 15, Bits: 256, Pub: k.PublicKey, Flags: fl})
				st["obs_keytag_zero_probe_flags"] = f
				st["obs_keytag_zero_probe_seed_octet"] = seed
				return
			}
			if err := sig.Verify(k, rrset); err != nil {
				Viol("C17/PrivateKey/cross-verify", "signature of a key with key tag 0 does not verify: "+err.Error(), genIn{Alg: 15, Bits: 256, Pub: k.PublicKey, Flags: fl})
			}
			return
		}
	}
}

type signKey struct {
	k    *dns.DNSKEY
	priv crypto.PrivateKey
	bits int
}

func sigFor(k *dns.DNSKEY) *dns.RRSIG {
	return &dns.RRSIG{Hdr: dns.RR_Header{Ttl: 300}, Algorithm: k.Algorithm, Expiration: 1700003600, Inception: 1700000000,
		KeyTag: k.KeyTag(), SignerName: k.Hdr.Name}
}

func rrsetUnder(owner string) []dns.RR {
	return []dns.RR{
		&dns.A{Hdr: dns.RR_Header{Name: "www." + owner, Rrtype: dns.TypeA, Class: dns.ClassINET, Ttl: 300}, A: []byte{192, 0, 2, 1}},
		&dns.A{Hdr: dns.RR_Header{Name: "www." + owner, Rrtype: dns.TypeA, Class: dns.ClassINET, Ttl: 300}, A: []byte{192, 0, 2, 2}},
	}
}

// exportRereadSignVerify: the key pair (k, priv) with the flags value f: exported, re-read (from a string and
// from a reader that is no ByteReader), every private key signs, every signature is checked with the DNSKEY and
// with the DNSKEY re-read from its text.  zone keys: everything verifies; other keys: nothing does.
// full = false: only the original private key signs and only k verifies (the long sweep).
func exportRereadSignVerify(sk signKey, f uint16, full bool) {
	k := dns.Copy(sk.k).(*dns.DNSKEY)
	k.Flags = f
	zone := f&dns.ZONE != 0
	in := genIn{Alg: k.Algorithm, Bits: sk.bits, Pub: k.PublicKey, Flags: f}
	st["flags_signverify_checked"]++
	privs := []crypto.PrivateKey{sk.priv}
	keys := []*dns.DNSKEY{k}
	if full {
		text := k.PrivateKeyString(sk.priv)
		p2, err := k.NewPrivateKey(text)
		if err != nil || p2 == nil || !samePriv(sk.priv, p2) {
			in.What = fmt.Sprintf("NewPrivateKey(PrivateKeyString(key)) does not give the key back for DNSKEY flags %d (err=%v)", f, err)
			Viol("C17/PrivateKey/reread", in.What, in)
		} else {
			privs = append(privs, p2)
		}
		p3, err := k.ReadPrivateKey(&chunkReader{text, 7}, "Kexample.private")
		if err != nil || p3 == nil || !samePriv(sk.priv, p3) {
			in.What = fmt.Sprintf("ReadPrivateKey(PrivateKeyString(key)) does not give the key back for DNSKEY flags %d (err=%v)", f, err)
			Viol("C17/PrivateKey/reread", in.What, in)
		} else {
			privs = append(privs, p3)
		}
		krr, err := dns.NewRR(k.String())
		if k2, ok := krr.(*dns.DNSKEY); err != nil || !ok {
			Viol("C17/Generate/dnskey-text", fmt.Sprintf("DNSKEY text with flags %d does not parse: %v", f, err), in)
		} else {
			keys = append(keys, k2)
		}
	}
	rrset := rrsetUnder(k.Hdr.Name)
	for which, p := range privs {
		signer, ok := p.(crypto.Signer)
		if !ok {
			Viol("C17/PrivateKey/signer", "key is not a crypto.Signer", in)
			continue
		}
		sig := sigFor(k)
		if err := sig.Sign(signer, rrset); err != nil {
			in.What = fmt.Sprintf("DNSKEY flags %d: Sign with key %d (0 original, 1 NewPrivateKey, 2 ReadPrivateKey) failed: %v", f, which, err)
			signFailed(k, err, in.What, in)
			continue
		}
		for ki, kk := range keys {
			err := sig.Verify(kk, rrset)
			switch {
			case zone && err != nil:
				st["crosssign_checked"]++
				in.What = fmt.Sprintf("DNSKEY flags %d (ZONE bit set): signature made with key %d (0 original, 1 NewPrivateKey, 2 ReadPrivateKey) does not verify under DNSKEY %d (0 the key, 1 re-read from its text): %v", f, which, ki, err)
				Viol("C17/PrivateKey/cross-verify", in.What, in)
			case !zone && err == nil:
				in.What = fmt.Sprintf("DNSKEY flags %d (ZONE bit clear, RFC 4034 2.1.1: MUST NOT be used to verify RRSIGs): signature verifies", f)
				Viol("C17/Verify/non-zone-key-accepted", in.What, in)
			case zone:
				st["crosssign_checked"]++
			default:
				st["nonzone_rejected_checked"]++
			}
		}
	}
}

func parseFixed(pub string) *dns.DNSKEY {
	rr, err := dns.NewRR(pub)
	if err != nil {
		return nil
	}
	k, _ := rr.(*dns.DNSKEY)
	return k
}

func runFlags(r *Rng, tier string) {
	thorough := tier == "thorough"
	keyTagZeroProbe()
	// ---- all 2^16 flags values: key tag, DS, text form (one fixed 32-octet key)
	pub := r.Bytes(32)
	owner := [][]byte{[]byte("Flags"), []byte("example")}
	for f := 0; f < 1<<16; f++ {
		fl := uint16(f)
		k := mkKey(refShowName(owner), fl, 3, 15, pub)
		rd := dnskeyRdata(fl, 3, 15, pub)
		in := keyIn{Flags: fl, Proto: 3, Alg: 15, Seed: Hx(pub), N: len(pub), Owner: labelsIn(owner), Digest: 2}
		st["flags_sweep_checked"]++
		tag := k.KeyTag()
		if tag != refKeyTag(rd) {
			Viol("C17/KeyTag/value", fmt.Sprintf("KeyTag()=%d, RFC 4034 App. B gives %d", tag, refKeyTag(rd)), in)
		}
		ds := k.ToDS(2)
		want := refDigest(2, append(wireOf(lowerLabels(owner)), rd...))
		if ds == nil || !strings.EqualFold(ds.Digest, hex.EncodeToString(want)) || ds.KeyTag != refKeyTag(rd) {
			Viol("C17/ToDS/digest", fmt.Sprintf("ToDS(2) for flags %d is not (RFC key tag, SHA-256(canonical owner | RDATA))", fl), in)
		}
		rr, err := dns.NewRR(k.String())
		k2, ok := rr.(*dns.DNSKEY)
		if err != nil || !ok || k2.Flags != fl || k2.Protocol != 3 || k2.Algorithm != 15 || k2.PublicKey != k.PublicKey || k2.KeyTag() != tag {
			Viol("C17/Generate/dnskey-text", fmt.Sprintf("DNSKEY with flags %d printed and parsed is another key (err=%v)", fl, err), in)
		}
		if isAlways(fl) || isAlways(fl|dns.ZONE) {
			Emit("key_tag", []string{Itoa(f), "3", "15", Hx(pub), Itoa(len(pub))}, Itoa(int(tag)))
			if ds != nil {
				Emit("to_ds", []string{labelsArg(owner), Itoa(f), "3", "15", Hx(pub), Itoa(len(pub)), "2"},
					fmt.Sprintf("%d,%d,%d,%s", ds.KeyTag, ds.Algorithm, ds.DigestType, strings.ToLower(ds.Digest)))
			}
		}
	}

	// ---- one key pair per algorithm family; the flags field is changed, the key material stays
	var sks []signKey
	for _, c := range []struct {
		alg  uint8
		bits int
	}{{15, 256}, {13, 256}, {14, 384}} {
		k := &dns.DNSKEY{Hdr: dns.RR_Header{Name: "Flags.example.", Rrtype: dns.TypeDNSKEY, Class: dns.ClassINET, Ttl: 3600}, Flags: 257, Protocol: 3, Algorithm: c.alg}
		priv, err := k.Generate(c.bits)
		if err != nil {
			Viol("C17/Generate/error", "Generate failed: "+err.Error(), genIn{Alg: c.alg, Bits: c.bits})
			continue
		}
		sks = append(sks, signKey{k, priv, c.bits})
	}
	for i, alg := range []uint8{5, 7, 8, 10} { // RSA: fixed keys (1024, 1032, 2048 bits ...), one per algorithm
		fk := fixedRSA[i%3]
		k := parseFixed(fk.pub)
		if k == nil {
			continue
		}
		k.Algorithm = alg
		priv, err := k.NewPrivateKey(fixedText(fk.priv, alg))
		if err != nil || priv == nil {
			continue // reported by runFixedKeys
		}
		sks = append(sks, signKey{k, priv, fk.bits})
	}
	for _, sk := range sks {
		var fs []uint16
		switch {
		case sk.k.Algorithm == 15: // fast: the whole spread (thorough: all 2^15 zone-key values)
			fs = flagsSpread(r, 300, thorough)
		case sk.k.Algorithm == 13:
			sp := flagsSpread(r, 300, false)
			fs = append(fs, sp[:len(flagsAlways)]...)
			for i := 0; i < 40; i++ {
				fs = append(fs, sp[r.Intn(len(sp))])
			}
		default:
			fs = flagsSpread(r, 0, false)[:len(flagsAlways)]
			fs = append(fs, uint16(r.Next())|dns.ZONE, uint16(r.Next())|dns.ZONE)
		}
		for i, f := range fs {
			full := i < 80 || i%16 == 0
			exportRereadSignVerify(sk, f, full)
			// the same value without the ZONE bit: not a zone key, must not verify
			exportRereadSignVerify(sk, f&^dns.ZONE, i < len(flagsAlways))
		}
		st[fmt.Sprintf("flags_values_alg%d", sk.k.Algorithm)] += len(fs)
	}
}

func isAlways(f uint16) bool {
	for _, a := range flagsAlways {
		if a == f {
			return true
		}
	}
	return false
}

// ---------------------------------------------------------------- fixed keys of every size

// fixedText: the private-key text of a fixed (algorithm 8) key as PrivateKeyString writes it for algorithm alg
func fixedText(priv string, alg uint8) string {
	lines := strings.SplitN(priv, "\n", 3)
	if len(lines) != 3 {
		return priv
	}
	return lines[0] + "\n" + fmt.Sprintf("Algorithm: %d (%s)", alg, dns.AlgorithmToString[alg]) + "\n" + lines[2]
}

// refKeyFields: "Field: base64" lines decoded by the harness itself
func refKeyFields(text string) map[string][]byte {
	m := map[string][]byte{}
	for i, l := range strings.Split(strings.TrimSuffix(text, "\n"), "\n") {
		kv := strings.SplitN(l, ": ", 2)
		if i < 2 || len(kv) != 2 {
			continue
		}
		if b, err := base64.StdEncoding.DecodeString(kv[1]); err == nil {
			m[kv[0]] = b
		}
	}
	return m
}

func fixedKeyCase(bits int, pub, priv string, alg uint8, src string) {
	k := parseFixed(pub)
	in := genIn{Alg: alg, Bits: bits, What: src}
	st["fixedkey_checked"]++
	st[fmt.Sprintf("fixedkey_bits%d", bits)]++
	if k == nil {
		Viol("C17/Generate/dnskey-text", "DNSKEY text written by the library does not parse", in)
		return
	}
	k.Algorithm = alg
	in.Pub = k.PublicKey
	in.Flags = k.Flags
	text := fixedText(priv, alg)
	f := refKeyFields(text)
	ref := &rsa.PrivateKey{PublicKey: rsa.PublicKey{N: bigOf(f["Modulus"]), E: int(bigOf(f["PublicExponent"]).Int64())}, D: bigOf(f["PrivateExponent"]),
		Primes: []*big.Int{bigOf(f["Prime1"]), bigOf(f["Prime2"])}}
	if ref.N.BitLen() != bits || !samePub(k, ref) {
		Viol("C17/Generate/public-key-encoding", fmt.Sprintf("%s: the DNSKEY's public key (RFC 3110) is not the modulus / exponent of the private-key text, or not of %d bits", src, bits), in)
	}
	var privs []crypto.PrivateKey
	for which, rd := range []func() (crypto.PrivateKey, error){
		func() (crypto.PrivateKey, error) { return k.NewPrivateKey(text) },
		func() (crypto.PrivateKey, error) { return k.NewPrivateKey(strings.TrimSuffix(text, "\n")) },
		func() (crypto.PrivateKey, error) { return k.ReadPrivateKey(strings.NewReader(text), "K.private") },
		func() (crypto.PrivateKey, error) { return k.ReadPrivateKey(&chunkReader{text, 5}, "K.private") },
		func() (crypto.PrivateKey, error) { return k.ReadPrivateKey(&chunkReader{text, 1 << 20}, "K.private") },
	} {
		p, err := rd()
		st["fixedkey_reread_checked"]++
		if err != nil || p == nil {
			in.What = fmt.Sprintf("%s, %d-bit RSA key, algorithm %d: the text written by PrivateKeyString cannot be re-read (reader %d: 0 NewPrivateKey, 1 without final newline, 2 ReadPrivateKey from a strings.Reader, 3 from a reader giving 5 octets per call, 4 from a plain io.Reader): %v", src, bits, alg, which, err)
			Viol("C17/PrivateKey/reread", in.What, in)
			continue
		}
		if !samePriv(ref, p) {
			in.What = fmt.Sprintf("%s, %d-bit RSA key: the re-read key (reader %d) does not have the integers of the text", src, bits, which)
			Viol("C17/PrivateKey/reread", in.What, in)
			continue
		}
		if which == 0 || which == 3 {
			privs = append(privs, p)
		}
	}
	if len(privs) == 0 {
		return
	}
	// the re-read key exported again is the same text, and that text is read again
	text2 := k.PrivateKeyString(privs[0])
	if text2 != text {
		in.What = fmt.Sprintf("%s, %d-bit RSA key: PrivateKeyString of the re-read key differs from the text it was read from", src, bits)
		Viol("C17/PrivateKey/export-of-reread", in.What, in)
	}
	if p, err := k.NewPrivateKey(text2); err != nil || !samePriv(ref, p) {
		in.What = fmt.Sprintf("%s, %d-bit RSA key: PrivateKeyString of the re-read key cannot be re-read: %v", src, bits, err)
		Viol("C17/PrivateKey/reread", in.What, in)
	}
	krr, err := dns.NewRR(k.String())
	k2, ok := krr.(*dns.DNSKEY)
	if err != nil || !ok {
		Viol("C17/Generate/dnskey-text", "DNSKEY text does not parse", in)
		k2 = k
	}
	rrset := rrsetUnder(k.Hdr.Name)
	for which, p := range privs {
		sig := sigFor(k)
		if err := sig.Sign(p.(crypto.Signer), rrset); err != nil {
			in.What = fmt.Sprintf("%s, %d-bit RSA key, algorithm %d: Sign with the re-read key (%d) failed: %v", src, bits, alg, which, err)
			signFailed(k, err, in.What, in)
			continue
		}
		for _, kk := range []*dns.DNSKEY{k, k2} {
			st["crosssign_checked"]++
			if err := sig.Verify(kk, rrset); err != nil {
				in.What = fmt.Sprintf("%s, %d-bit RSA key, algorithm %d: signature of the re-read key (%d) does not verify: %v", src, bits, alg, which, err)
				Viol("C17/PrivateKey/cross-verify", in.What, in)
			}
		}
		// the reference key (integers decoded by the harness) signs the same octets: PKCS#1 v1.5 is deterministic
		if which == 0 {
			sig2 := sigFor(k)
			if err := sig2.Sign(ref, rrset); err == nil && sig2.Signature != sig.Signature {
				Viol("C17/PrivateKey/cross-verify", fmt.Sprintf("%s, %d-bit RSA key: the re-read key and the key of the text make different signatures", src, bits), in)
			}
		}
	}
}

func runFixedKeys(r *Rng, tier string) {
	rsaAlgs := []uint8{8, 10, 5, 7}
	for i, fk := range fixedRSA {
		// every size with two of the four RSA algorithms (thorough: all four); the largest sizes with all
		n := 2
		if tier == "thorough" || fk.bits >= 4088 {
			n = 4
		}
		for j := 0; j < n; j++ {
			fixedKeyCase(fk.bits, fk.pub, fk.priv, rsaAlgs[(i+j)%4], "keys_fixed.go")
		}
	}
	fixedKeyCase(4096, RSA4096Pub8, RSA4096Priv8, 8, "common/keys4096.go RSA4096Priv8")
	fixedKeyCase(4096, RSA4096Pub10, RSA4096Priv10, 10, "common/keys4096.go RSA4096Priv10")
}

// ---------------------------------------------------------------- lines of any length
type lineIn struct {
	Shape string `json:"shape"`
	Len   int    `json:"length"`
	Text  string `json:"text,omitempty"`
	What  string `json:"what,omitempty"`
	Alg   uint8  `json:"algorithm,omitempty"`
	Pub   string `json:"public_key,omitempty"`
}

const b64Alpha = "ABCDEFGHIJKLMNOPQRSTUVWXYZabcdefghijklmnopqrstuvwxyz0123456789+/"

func b64Token(r *Rng, n int) string {
	b := make([]byte, n)
	x := r.Next()
	for i := range b {
		if i%10 == 0 {
			x = r.Next()
		}
		b[i] = b64Alpha[(x>>(6*uint(i%10)))&63]
	}
	return string(b)
}

func shortText(s string) string {
	if len(s) > 3000 {
		return ""
	}
	return s
}

// kvLengthCase: "Field: value" lines as PrivateKeyString prints them, one of them n characters long; parseKey gives
// every field back (theorem private_key_text_roundtrip, for values without ':', ';' and newline - base64 qualifies)
func kvLengthCase(r *Rng, shape string, n int, emit bool) {
	tok := b64Token(r, n)
	var text string
	want := map[string]string{"private-key-format": "v1.3", "algorithm": "8 (RSASHA256)", "tail": "x"}
	switch shape {
	case "value":
		text = "Private-key-format: v1.3\nAlgorithm: 8 (RSASHA256)\nModulus: " + tok + "\nTail: x\n"
		want["modulus"] = tok
	case "last-value-no-newline":
		text = "Private-key-format: v1.3\nAlgorithm: 8 (RSASHA256)\nTail: x\nModulus: " + tok
		want["modulus"] = tok
	case "field-name":
		text = "Private-key-format: v1.3\nAlgorithm: 8 (RSASHA256)\nX" + tok + ": v\nTail: x\n"
		want[strings.ToLower("X"+tok)] = "v"
	case "comment-line":
		text = "Private-key-format: v1.3\n;" + tok + "\nAlgorithm: 8 (RSASHA256)\nTail: x\n"
	}
	m, err := dns.VerifParseKey(text)
	st["kvlen_checked"]++
	bad := err != nil || m == nil || len(m) != len(want)
	for k, v := range want {
		if !bad && m[k] != v {
			bad = true
		}
	}
	if bad {
		Viol("C17/PrivateKey/line-length", fmt.Sprintf("key text with a %s of %d characters: parseKey does not give the fields of the text back (err=%v)", shape, n, err),
			lineIn{Shape: shape, Len: n, Text: shortText(text)})
	}
	if emit {
		kvCases(text, []string{"modulus", "tail", "algorithm"})
	}
}

func runKeyLines(r *Rng, tier string) {
	// ---- the lexer alone: every length 0..1400 (an RSA-4096 field has 684, an RSA-8192 field would have 1368), then
	// around powers of two up to 2^20
	var lens []int
	for n := 0; n <= 1400; n++ {
		lens = append(lens, n)
	}
	for _, p := range []int{2048, 4096, 8192, 16384, 65536, 1 << 20} {
		lens = append(lens, p-1, p, p+1)
	}
	emitAt := map[int]bool{255: true, 512: true, 513: true, 684: true, 1025: true, 1368: true}
	for _, n := range lens {
		kvLengthCase(r, "value", n, emitAt[n])
		if n%3 == 0 || n > 1400 {
			if n > 0 { // an empty value without a line end is no line at all
				kvLengthCase(r, "last-value-no-newline", n, n == 684)
			}
			kvLengthCase(r, "field-name", n, n == 513)
			kvLengthCase(r, "comment-line", n, n == 600)
		}
	}

	// ---- real key files with extra lines: BIND's v1.3 timing lines, unknown fields, comments, of any length
	type base struct {
		k    *dns.DNSKEY
		priv crypto.PrivateKey
		text string
	}
	var bases []base
	for _, c := range []struct {
		alg  uint8
		bits int
	}{{15, 256}, {13, 256}} {
		k := &dns.DNSKEY{Hdr: dns.RR_Header{Name: "lines.example.", Rrtype: dns.TypeDNSKEY, Class: dns.ClassINET, Ttl: 3600}, Flags: 256, Protocol: 3, Algorithm: c.alg}
		priv, err := k.Generate(c.bits)
		if err != nil {
			continue // reported by genCase
		}
		bases = append(bases, base{k, priv, k.PrivateKeyString(priv)})
	}
	for _, fk := range []fixedKey{fixedRSA[0], fixedRSA[len(fixedRSA)-1]} {
		if k := parseFixed(fk.pub); k != nil {
			if priv, err := k.NewPrivateKey(fk.priv); err == nil && priv != nil {
				bases = append(bases, base{k, priv, fk.priv})
			}
		}
	}
	digits := func(n int) string {
		b := make([]byte, n)
		for i := range b {
			b[i] = byte('0' + r.Intn(10))
		}
		return string(b)
	}
	Ls := []int{14, 100, 511, 512, 513, 600, 1023, 1024, 1025, 5000, 70000}
	for bi, b := range bases {
		hdr := strings.SplitAfterN(b.text, "\n", 3) // format line, algorithm line, fields
		if len(hdr) != 3 {
			continue
		}
		for li, L := range Ls {
			variants := []struct{ shape, text string }{
				{"timing-lines-after", b.text + "Created: " + digits(L) + "\nPublish: " + digits(L) + "\nActivate: " + digits(L) + "\n"},
				{"timing-lines-before", hdr[0] + hdr[1] + "Created: " + digits(L) + "\nPublish: " + digits(14) + "\nActivate: " + digits(L) + "\n" + hdr[2]},
				{"unknown-field-before", hdr[0] + hdr[1] + "Comment: " + b64Token(r, L) + "\n" + hdr[2]},
				{"unknown-field-after", b.text + "X-" + b64Token(r, 5) + ": " + b64Token(r, L) + "\n"},
				{"comment-line-before", hdr[0] + "; " + b64Token(r, L) + "\n" + hdr[1] + hdr[2]},
				{"comment-line-after", b.text + ";" + b64Token(r, L) + "\n"},
				{"long-field-name-after", b.text + "X" + b64Token(r, L) + ": 1\n"},
				{"format-v1.2", strings.Replace(b.text, "v1.3", "v1.2", 1) + "; " + b64Token(r, L) + "\n"},
			}
			for vi, v := range variants {
				in := lineIn{Shape: v.shape, Len: L, Text: shortText(v.text), Alg: b.k.Algorithm, Pub: b.k.PublicKey}
				st["keylines_checked"]++
				p1, err1 := b.k.NewPrivateKey(v.text)
				p2, err2 := b.k.ReadPrivateKey(&chunkReader{v.text, 11}, "K.private")
				if err1 != nil || err2 != nil || !samePriv(b.priv, p1) || !samePriv(b.priv, p2) {
					in.What = fmt.Sprintf("key text of PrivateKeyString with an additional %s line of %d characters is not read as the same key (NewPrivateKey err=%v, ReadPrivateKey err=%v)", v.shape, L, err1, err2)
					Viol("C17/PrivateKey/line-length", in.What, in)
					continue
				}
				if (li+vi)%4 == 0 && (b.k.Algorithm != 8 || li < 2) { // the key read from such a file signs, the original DNSKEY verifies
					sig := sigFor(b.k)
					rrset := rrsetUnder(b.k.Hdr.Name)
					if err := sig.Sign(p2.(crypto.Signer), rrset); err != nil {
						signFailed(b.k, err, "Sign with the key read from such a file failed: "+err.Error(), in)
					} else if err := sig.Verify(b.k, rrset); err != nil {
						Viol("C17/PrivateKey/cross-verify", "signature of the key read from such a file does not verify: "+err.Error(), in)
					}
					st["crosssign_checked"]++
				}
				if bi == 0 && (L == 14 || L == 600) && len(v.text) < 900 {
					kvCases(v.text, []string{"privatekey", "created", "activate", "comment", "algorithm"})
				}
			}
		}
	}
}

// ---------------------------------------------------------------- private-key fields of any decoded length (round 9b)
// Every key text above carries fields of the RIGHT length for its algorithm (they come from PrivateKeyString).
// Here the base64 VALUE of a private-key field decodes to a wrong number of octets: an Ed25519 seed (RFC 8080:
// 32 octets) of 0..31, 33..65, 96, 128 octets, an ECDSA scalar that is empty / one octet / longer than the group
// order / huge, RSA fields that are empty, one octet, huge, or missing altogether - with every algorithm number
// of the reader. Oracle: NewPrivateKey / ReadPrivateKey return (a key or an error) and never panic; a field of
// the right length with the same octets reads as the same key (control, so that the texts are known to reach
// the field decoder).
func keyFieldLenCase(k *dns.DNSKEY, shape string, n int, text string) {
	in := lineIn{Shape: shape, Len: n, Text: shortText(text), Alg: k.Algorithm, Pub: k.PublicKey}
	for _, via := range []string{"NewPrivateKey", "ReadPrivateKey"} {
		st["keyfieldlen_checked"]++
		var perr any
		func() {
			defer func() { perr = recover() }()
			if via == "NewPrivateKey" {
				k.NewPrivateKey(text)
			} else {
				k.ReadPrivateKey(&chunkReader{text, 7}, "K.private")
			}
		}()
		if perr != nil {
			in.What = fmt.Sprintf("%s panicked (%v) on a key text whose %s decodes to %d octets", via, perr, shape, n)
			Viol("C17/PrivateKey/field-length-panic", in.What, in)
			return
		}
	}
}

func runKeyFieldLens(r *Rng, tier string) {
	octets := func(n int) string {
		b := make([]byte, n)
		for i := range b {
			b[i] = byte(r.Intn(256))
		}
		if n > 0 && b[0] == 0 {
			b[0] = 1
		}
		return base64.StdEncoding.EncodeToString(b)
	}
	mk := func(alg uint8, bits int) (*dns.DNSKEY, string) {
		k := &dns.DNSKEY{Hdr: dns.RR_Header{Name: "fieldlen.example.", Rrtype: dns.TypeDNSKEY, Class: dns.ClassINET, Ttl: 3600}, Flags: 256, Protocol: 3, Algorithm: alg}
		priv, err := k.Generate(bits)
		if err != nil {
			return nil, "" // reported by genCase
		}
		return k, k.PrivateKeyString(priv)
	}
	// replace the value of one field
	setField := func(text, field, val string) string {
		ls := strings.Split(text, "\n")
		for i, l := range ls {
			if strings.HasPrefix(l, field+": ") {
				ls[i] = field + ": " + val
			}
		}
		return strings.Join(ls, "\n")
	}
	dropField := func(text, field string) string {
		var o []string
		for _, l := range strings.Split(text, "\n") {
			if !strings.HasPrefix(l, field+": ") {
				o = append(o, l)
			}
		}
		return strings.Join(o, "\n")
	}
	var lens []int
	for n := 0; n <= 66; n++ {
		lens = append(lens, n)
	}
	lens = append(lens, 95, 96, 97, 127, 128, 129, 255, 256, 257, 512, 1024, 4096, 65536)
	for _, c := range []struct {
		alg  uint8
		bits int
	}{{15, 256}, {13, 256}, {14, 384}} {
		k, text := mk(c.alg, c.bits)
		if k == nil {
			continue
		}
		for _, n := range lens {
			keyFieldLenCase(k, "PrivateKey", n, setField(text, "PrivateKey", octets(n)))
		}
		keyFieldLenCase(k, "PrivateKey (field missing)", 0, dropField(text, "PrivateKey"))
		keyFieldLenCase(k, "PrivateKey (given twice, second one long)", 64, text+"PrivateKey: "+octets(64)+"\n")
		// the same fields under every other algorithm number of the reader (an Ed25519 reader given an ECDSA
		// scalar of 48 octets, an ECDSA reader given RSA fields, ...)
		for _, a2 := range []uint8{5, 7, 8, 10, 13, 14, 15} {
			if a2 == c.alg {
				continue
			}
			t2 := strings.Replace(text, fmt.Sprintf("Algorithm: %d ", c.alg), fmt.Sprintf("Algorithm: %d ", a2), 1)
			for _, n := range []int{0, 31, 32, 33, 48, 64, 66} {
				k2 := dns.Copy(k).(*dns.DNSKEY)
				keyFieldLenCase(k2, fmt.Sprintf("PrivateKey (key of algorithm %d, text says %d)", c.alg, a2), n, setField(t2, "PrivateKey", octets(n)))
				k2.Algorithm = a2
				keyFieldLenCase(k2, fmt.Sprintf("PrivateKey (DNSKEY and text say %d, public key of %d)", a2, c.alg), n, setField(t2, "PrivateKey", octets(n)))
			}
		}
	}
	// RSA: each field empty, one octet, huge, missing
	fk := fixedRSA[0]
	if k := parseFixed(fk.pub); k != nil {
		for _, f := range []string{"Modulus", "PublicExponent", "PrivateExponent", "Prime1", "Prime2", "Exponent1", "Exponent2", "Coefficient"} {
			for _, n := range []int{0, 1, 2, 3, 4, 5, 8, 9, 63, 64, 65, 127, 128, 129, 512, 4096, 65536} {
				keyFieldLenCase(k, f, n, setField(fk.priv, f, octets(n)))
			}
			keyFieldLenCase(k, f+" (field missing)", 0, dropField(fk.priv, f))
		}
		keyFieldLenCase(k, "every RSA field", 0, "Private-key-format: v1.3\nAlgorithm: 8 (RSASHA256)\nModulus: \nPublicExponent: \nPrivateExponent: \nPrime1: \nPrime2: \n")
		keyFieldLenCase(k, "no field at all", 0, "Private-key-format: v1.3\nAlgorithm: 8 (RSASHA256)\n")
		// an RSA text read under the other algorithm numbers, and an Ed25519 / ECDSA style field in an RSA text
		for _, a2 := range []uint8{13, 14, 15} {
			keyFieldLenCase(k, fmt.Sprintf("RSA fields, text says %d", a2), 0, fixedText(fk.priv, a2))
			for _, n := range []int{0, 31, 32, 33, 64} {
				keyFieldLenCase(k, fmt.Sprintf("RSA fields and PrivateKey, text says %d", a2), n, fixedText(fk.priv, a2)+"PrivateKey: "+octets(n)+"\n")
			}
		}
	}
}
