(* Proofs/CompressFieldsProofs.v — lifting the compression-map theorems through
   the RDATA field codecs (Model/Rdata.v).

   Every codec other than the name codecs appends octets that depend only on
   the value ([emits]) and leaves the map alone.  [step st st' new] is the shape
   of every packer step: octets are appended, the map keys stay well formed, and
   for every buffer content of the same length the laid names stay laid, the map
   entries stay laid, and the names packed by this step ([new]: offset and
   text) are laid with their own labels. *)
From Dns Require Import Base.ListX Model.Rdata Spec.NameSpec Proofs.EscapeProofs Proofs.TokenProofs
  Proofs.NameWireProofs Proofs.NameRoundtripProofs Proofs.CompressProofs.
From Coq Require Import Lia ZifyN ZifyNat ZifyBool.
Open Scope list_scope.
Open Scope N_scope.

(* ================= codecs that only append ================= *)
Lemma pemit_nil st : pemit st [] = st.
Proof. destruct st. unfold pemit. cbn. now rewrite app_nil_r. Qed.
Lemma pemit_pemit st a b : pemit (pemit st a) b = pemit st (a ++ b).
Proof. unfold pemit. cbn. now rewrite app_assoc. Qed.

Definition emits (F : N -> pn_state -> res pn_state) : Prop :=
  forall cap st st', F cap st = Ok st' ->
    exists b, st' = pemit st b /\ forall cap2 st2 st2', F cap2 st2 = Ok st2' -> st2' = pemit st2 b.

Lemma emits_ext F G : (forall cap st, F cap st = G cap st) -> emits G -> emits F.
Proof.
  intros E HG cap st st' H. rewrite E in H. destruct (HG cap st st' H) as [b [H1 H2]].
  exists b. split; [exact H1|]. intros cap2 st2 st2' H'. rewrite E in H'. eauto.
Qed.

Lemma emits_ret : emits (fun _ st => Ok st).
Proof.
  intros cap st st' H. injection H as <-. exists []. split; [now rewrite pemit_nil|].
  intros cap2 st2 st2' H. injection H as <-. now rewrite pemit_nil.
Qed.

Lemma emits_err c : emits (fun _ _ => Err c).
Proof. intros cap st st' H. discriminate. Qed.

Lemma emits_fixed b : emits (pack_fixed b).
Proof.
  intros cap st st' H. unfold pack_fixed in H. destruct (cap <? poff st + lenN b); [discriminate|].
  injection H as <-. exists b. split; [reflexivity|].
  intros cap2 st2 st2' H. unfold pack_fixed in H. destruct (cap2 <? poff st2 + lenN b); [discriminate|].
  now injection H as <-.
Qed.

Lemma emits_bind F G : emits F -> emits G -> emits (fun cap st => do st1 <- F cap st; G cap st1).
Proof.
  intros HF HG cap st st' H. cbn beta in H.
  destruct (F cap st) as [st1| | |] eqn:E1; cbn [bind] in H; try discriminate.
  destruct (HF cap st st1 E1) as [b1 [-> K1]]. destruct (HG cap _ st' H) as [b2 [-> K2]].
  exists (b1 ++ b2). split; [apply pemit_pemit|].
  intros cap2 st2 st2' H2. cbn beta in H2.
  destruct (F cap2 st2) as [st3| | |] eqn:E3; cbn [bind] in H2; try discriminate.
  rewrite (K1 _ _ _ E3) in H2. rewrite (K2 _ _ _ H2). apply pemit_pemit.
Qed.

Lemma emits_guard (c : N -> pn_state -> bool) e F :
  emits F -> emits (fun cap st => if c cap st then Err e else F cap st).
Proof.
  intros HF cap st st' H. cbn beta in H. destruct (c cap st); [discriminate|].
  destruct (HF cap st st' H) as [b [-> K]]. exists b. split; [reflexivity|].
  intros cap2 st2 st2' H2. cbn beta in H2. destruct (c cap2 st2); [discriminate|]. eauto.
Qed.

Lemma emits_wrap c F : emits F -> emits (fun cap st => match F cap st with Err _ => Err c | r => r end).
Proof.
  intros HF cap st st' H. cbn beta in H. destruct (F cap st) as [x| | |] eqn:E; try discriminate.
  injection H as <-. destruct (HF cap st x E) as [b [-> K]]. exists b. split; [reflexivity|].
  intros cap2 st2 st2' H2. cbn beta in H2. destruct (F cap2 st2) as [y| | |] eqn:E2; try discriminate.
  injection H2 as <-. eauto.
Qed.

(* ---------- character strings ---------- *)
Lemma ptx_go_ddd a b c r3 acc off0 cap : ddd3 a b c = true ->
  ptx_go (92 :: a :: b :: c :: r3) acc off0 cap =
  if cap <=? off0 + lenN acc then Err "buf" else ptx_go r3 (acc ++ [ddd_to_byte (a :: b :: c :: r3)]) off0 cap.
Proof. intro H. cbn [ptx_go N.eqb Pos.eqb]. unfold ddd3 in H. now rewrite H. Qed.
Lemma ptx_go_esc a r1 acc off0 cap : is_ddd (a :: r1) = false ->
  ptx_go (92 :: a :: r1) acc off0 cap =
  if cap <=? off0 + lenN acc then Err "buf" else ptx_go r1 (acc ++ [a]) off0 cap.
Proof.
  intro H. destruct r1 as [|b [|c r3]]; try reflexivity.
  cbn [ptx_go N.eqb Pos.eqb]. unfold is_ddd in H. now rewrite H.
Qed.
Lemma ptx_go_plain x r acc off0 cap : x <> 92 ->
  ptx_go (x :: r) acc off0 cap =
  if cap <=? off0 + lenN acc then Err "buf" else ptx_go r (acc ++ [x]) off0 cap.
Proof. intro H. cbn [ptx_go]. destruct (N.eqb_spec x 92); [congruence|reflexivity]. Qed.

Lemma ptx_go_indep s : forall acc off0 cap d acc2 off2 cap2 d2,
  ptx_go s acc off0 cap = Ok d -> ptx_go s acc2 off2 cap2 = Ok d2 ->
  exists t, d = acc ++ t /\ d2 = acc2 ++ t.
Proof.
  induction s as [| a b c r3 Hd IH | a r1 Hd IH | | r IH | x r H1 H2 IH] using tok_ind;
    intros acc off0 cap d acc2 off2 cap2 d2 Ha Hb.
  - cbn in Ha, Hb. injection Ha as <-. injection Hb as <-. exists []. now rewrite !app_nil_r.
  - rewrite ptx_go_ddd in Ha, Hb by auto.
    destruct (cap <=? off0 + lenN acc); [discriminate|]. destruct (cap2 <=? off2 + lenN acc2); [discriminate|].
    destruct (IH _ _ _ _ _ _ _ _ Ha Hb) as [t [-> ->]]. eexists. rewrite <- !app_assoc. split; reflexivity.
  - rewrite ptx_go_esc in Ha, Hb by auto.
    destruct (cap <=? off0 + lenN acc); [discriminate|]. destruct (cap2 <=? off2 + lenN acc2); [discriminate|].
    destruct (IH _ _ _ _ _ _ _ _ Ha Hb) as [t [-> ->]]. eexists. rewrite <- !app_assoc. split; reflexivity.
  - cbn in Ha, Hb.
    destruct (cap <=? off0 + lenN acc); [discriminate|]. destruct (cap2 <=? off2 + lenN acc2); [discriminate|].
    injection Ha as <-. injection Hb as <-. exists []. now rewrite !app_nil_r.
  - rewrite ptx_go_plain in Ha, Hb by discriminate.
    destruct (cap <=? off0 + lenN acc); [discriminate|]. destruct (cap2 <=? off2 + lenN acc2); [discriminate|].
    destruct (IH _ _ _ _ _ _ _ _ Ha Hb) as [t [-> ->]]. eexists. rewrite <- !app_assoc. split; reflexivity.
  - rewrite ptx_go_plain in Ha, Hb by auto.
    destruct (cap <=? off0 + lenN acc); [discriminate|]. destruct (cap2 <=? off2 + lenN acc2); [discriminate|].
    destruct (IH _ _ _ _ _ _ _ _ Ha Hb) as [t [-> ->]]. eexists. rewrite <- !app_assoc. split; reflexivity.
Qed.

Lemma emits_txt_string s : emits (pack_txt_string s).
Proof.
  intros cap st st' H. unfold pack_txt_string in H.
  destruct ((cap <=? poff st) || (1025 <? lenN s)); [discriminate|].
  destruct (ptx_go s [] (poff st + 1) cap) as [d| | |] eqn:E; cbn [bind] in H; try discriminate.
  destruct (255 <? lenN d); [discriminate|]. injection H as <-.
  exists (lenN d :: d). split; [reflexivity|].
  intros cap2 st2 st2' H. unfold pack_txt_string in H.
  destruct ((cap2 <=? poff st2) || (1025 <? lenN s)); [discriminate|].
  destruct (ptx_go s [] (poff st2 + 1) cap2) as [d2| | |] eqn:E2; cbn [bind] in H; try discriminate.
  destruct (255 <? lenN d2); [discriminate|]. injection H as <-.
  destruct (ptx_go_indep s _ _ _ _ _ _ _ _ E E2) as [t [-> ->]]. reflexivity.
Qed.

Lemma emits_txts l : emits (pack_txts l).
Proof.
  induction l as [|s r IH]; [exact emits_ret|].
  apply (emits_ext _ (fun cap st => do st1 <- pack_txt_string s cap st; pack_txts r cap st1)); [reflexivity|].
  apply emits_bind; [apply emits_txt_string|exact IH].
Qed.

Lemma emits_txt l : emits (pack_txt l).
Proof.
  destruct l as [|s r].
  - apply (emits_ext _ (fun cap st => if cap <=? poff st then Err "buf" else Ok st)); [reflexivity|].
    apply (emits_guard (fun cap st => cap <=? poff st)). exact emits_ret.
  - apply (emits_ext _ (pack_txts (s :: r))); [reflexivity|apply emits_txts].
Qed.

Lemma emits_octet s : emits (pack_octet s).
Proof.
  intros cap st st' H. unfold pack_octet in H.
  destruct ((cap <=? poff st) || (1025 <? lenN s)); [discriminate|].
  destruct (ptx_go s [] (poff st) cap) as [d| | |] eqn:E; cbn [bind] in H; try discriminate.
  injection H as <-. exists d. split; [reflexivity|].
  intros cap2 st2 st2' H. unfold pack_octet in H.
  destruct ((cap2 <=? poff st2) || (1025 <? lenN s)); [discriminate|].
  destruct (ptx_go s [] (poff st2) cap2) as [d2| | |] eqn:E2; cbn [bind] in H; try discriminate.
  injection H as <-.
  destruct (ptx_go_indep s _ _ _ _ _ _ _ _ E E2) as [t [-> ->]]. reflexivity.
Qed.

(* ---------- addresses ---------- *)
Ltac shape_n p :=
  repeat (destruct p as [p|p|];
          try first [ left; intros; reflexivity
                    | right; left; intros; reflexivity
                    | right; right; eexists; intros; reflexivity ]).

Lemma pack_a_shape a :
  (forall cap st, pack_a a cap st = Err "overflow") \/ (forall cap st, pack_a a cap st = Ok st) \/
  exists b, forall cap st, pack_a a cap st = pack_fixed b cap st.
Proof.
  unfold pack_a. destruct (lenN a) as [|p]; [right; left; reflexivity|]. shape_n p.
Qed.
Lemma pack_aaaa_shape a :
  (forall cap st, pack_aaaa a cap st = Err "overflow") \/ (forall cap st, pack_aaaa a cap st = Ok st) \/
  exists b, forall cap st, pack_aaaa a cap st = pack_fixed b cap st.
Proof.
  unfold pack_aaaa. destruct (lenN a) as [|p]; [right; left; reflexivity|]. shape_n p.
Qed.

Lemma emits_a a : emits (pack_a a).
Proof.
  destruct (pack_a_shape a) as [H|[H|[b H]]].
  - apply (emits_ext _ (fun _ _ => Err "overflow")); [exact H|apply emits_err].
  - apply (emits_ext _ (fun _ st => Ok st)); [exact H|apply emits_ret].
  - apply (emits_ext _ (pack_fixed b)); [exact H|apply emits_fixed].
Qed.
Lemma emits_aaaa a : emits (pack_aaaa a).
Proof.
  destruct (pack_aaaa_shape a) as [H|[H|[b H]]].
  - apply (emits_ext _ (fun _ _ => Err "overflow")); [exact H|apply emits_err].
  - apply (emits_ext _ (fun _ st => Ok st)); [exact H|apply emits_ret].
  - apply (emits_ext _ (pack_fixed b)); [exact H|apply emits_fixed].
Qed.

(* ---------- NSEC type bitmaps ---------- *)
Lemma nsec_go_emits l : forall lw cur cap st st', nsec_go l lw cur cap st = Ok st' ->
  exists b, st' = pemit st b /\
    forall cap2 st2 st2', nsec_go l lw cur cap2 st2 = Ok st2' -> st2' = pemit st2 b.
Proof.
  induction l as [|t r IH]; intros lw cur cap st st' H.
  - cbn in H. injection H as <-. eexists. split; [reflexivity|].
    intros cap2 st2 st2' H. cbn in H. now injection H as <-.
  - cbn [nsec_go] in H.
    destruct ((lw <? t / 256) && negb (lenN cur =? 0)) eqn:C.
    + destruct ((t / 256 <? lw) || ((t - t / 256 * 256) / 8 + 1 <? lenN (@nil N))) eqn:C1; [discriminate|].
      destruct (cap <? _); [discriminate|].
      destruct (IH _ _ _ _ _ H) as [b [-> K]]. eexists. split; [apply pemit_pemit|].
      intros cap2 st2 st2' H2. cbn [nsec_go] in H2. rewrite C, C1 in H2.
      destruct (cap2 <? _); [discriminate|]. rewrite (K _ _ _ H2). apply pemit_pemit.
    + destruct ((t / 256 <? lw) || ((t - t / 256 * 256) / 8 + 1 <? lenN cur)) eqn:C1; [discriminate|].
      destruct (cap <? _); [discriminate|].
      destruct (IH _ _ _ _ _ H) as [b [-> K]]. exists b. split; [reflexivity|].
      intros cap2 st2 st2' H2. cbn [nsec_go] in H2. rewrite C, C1 in H2.
      destruct (cap2 <? _); [discriminate|]. exact (K _ _ _ H2).
Qed.

Lemma emits_nsec l : emits (pack_nsec l).
Proof.
  intros cap st st' H. unfold pack_nsec in H. destruct l as [|t r].
  - injection H as <-. exists []. split; [now rewrite pemit_nil|].
    intros cap2 st2 st2' H. cbn in H. injection H as <-. now rewrite pemit_nil.
  - destruct (cap <? poff st); [discriminate|].
    destruct (nsec_go_emits _ _ _ _ _ _ H) as [b [-> K]]. exists b. split; [reflexivity|].
    intros cap2 st2 st2' H2. unfold pack_nsec in H2. destruct (cap2 <? poff st2); [discriminate|]. eauto.
Qed.

(* ---------- EDNS0 options, SVCB parameters, APL ---------- *)
Lemma emits_opts l : emits (pack_opts l).
Proof.
  induction l as [|[[code b] n] r IH]; [exact emits_ret|].
  intros cap st st' H. cbn [pack_opts] in H.
  destruct (cap <? poff st + 4); [discriminate|]. destruct (cap <? poff st + 4 + lenN b); [discriminate|].
  destruct (IH _ _ _ H) as [t [-> K]]. eexists. split; [apply pemit_pemit|].
  intros cap2 st2 st2' H2. cbn [pack_opts] in H2.
  destruct (cap2 <? poff st2 + 4); [discriminate|]. destruct (cap2 <? poff st2 + 4 + lenN b); [discriminate|].
  rewrite (K _ _ _ H2). apply pemit_pemit.
Qed.

Lemma pairs_go_emits l : forall prev cap st st', pack_pairs_go l prev cap st = Ok st' ->
  exists b, st' = pemit st b /\
    forall cap2 st2 st2', pack_pairs_go l prev cap2 st2 = Ok st2' -> st2' = pemit st2 b.
Proof.
  induction l as [|[[k b] n] r IH]; intros prev cap st st' H.
  - cbn in H. injection H as <-. exists []. split; [now rewrite pemit_nil|].
    intros cap2 st2 st2' H. cbn in H. injection H as <-. now rewrite pemit_nil.
  - cbn [pack_pairs_go] in H. destruct (k =? prev) eqn:Ek; [discriminate|].
    destruct (cap <? poff st + 2); [discriminate|]. destruct (cap <? poff st + 4); [discriminate|].
    destruct (cap <? poff st + 4 + lenN b); [discriminate|].
    destruct (IH _ _ _ _ H) as [t [-> K]]. eexists. split; [apply pemit_pemit|].
    intros cap2 st2 st2' H2. cbn [pack_pairs_go] in H2. rewrite Ek in H2.
    destruct (cap2 <? poff st2 + 2); [discriminate|]. destruct (cap2 <? poff st2 + 4); [discriminate|].
    destruct (cap2 <? poff st2 + 4 + lenN b); [discriminate|].
    rewrite (K _ _ _ H2). apply pemit_pemit.
Qed.

Lemma emits_svcb l : emits (pack_svcb l).
Proof. intros cap st st' H. exact (pairs_go_emits _ _ _ _ _ H). Qed.

Lemma emits_apl_prefix p : emits (pack_apl_prefix p).
Proof.
  destruct p as [[neg prefix] ip]. unfold pack_apl_prefix.
  destruct (match lenN ip with 4 => Some 1 | 16 => Some 2 | _ => None end) as [f|]; [|apply emits_err].
  apply (emits_bind (pack_fixed (u16 f))); [apply emits_fixed|].
  apply (emits_bind (pack_fixed (u8 prefix))); [apply emits_fixed|].
  apply (emits_bind (pack_fixed _)); apply emits_fixed.
Qed.

Lemma emits_apl l : emits (pack_apl l).
Proof.
  induction l as [|p r IH]; [exact emits_ret|].
  apply (emits_ext _ (fun cap st => do st1 <- pack_apl_prefix p cap st; pack_apl r cap st1)); [reflexivity|].
  apply emits_bind; [apply emits_apl_prefix|exact IH].
Qed.

(* ---------- every field kind that is not a name ---------- *)
Definition name_kind (k : fkind) : bool :=
  match k with K_name _ | K_names _ | K_gateway _ _ _ _ _ => true | _ => false end.

Lemma emits_field v f k : name_kind k = false -> emits (pack_field v f k).
Proof.
  destruct k; intro Hk; try discriminate; unfold pack_field;
    try apply emits_fixed.
  - apply (emits_wrap "string" (pack_string _)). apply emits_txt_string.
  - apply (emits_wrap "txt" (pack_txt _)). apply emits_txt.
  - apply (emits_wrap "octet" (pack_octet _)). apply emits_octet.
  - apply emits_a.
  - apply emits_aaaa.
  - apply emits_nsec.
  - apply emits_opts.
  - apply emits_svcb.
  - apply emits_apl.
Qed.

(* ================= the step shape ================= *)
(* names packed so far: offset and presentation text (non-empty texts only) *)
Definition nsites := list (N * bytes).
Definition site_ok (out : bytes) (ps : N * bytes) : Prop :=
  exists ls, parse_name (snd ps) = Some ls /\ wire_len ls <= 255 /\ lays out (fst ps) ls.
Definition good (out : bytes) (cmo : option cmap) (T : nsites) : Prop :=
  opt_all (cm_laid out) cmo /\ Forall (site_ok out) T.

Lemma site_ok_app out b ps : site_ok out ps -> site_ok (out ++ b) ps.
Proof.
  intros [ls [H1 [H2 [h [e H3]]]]]. exists ls. split; [exact H1|]. split; [exact H2|].
  exists h, e. now apply laysn_app.
Qed.

Lemma good_app out b cmo T : good out cmo T -> good (out ++ b) cmo T.
Proof.
  intros [H1 H2]. split; [now apply opt_cm_laid_app|].
  eapply Forall_impl; [|exact H2]. intros ps. apply site_ok_app.
Qed.

Definition step (st st' : pn_state) (new : nsites) : Prop :=
  opt_all cm_keys (pn_cm st) ->
  opt_all cm_keys (pn_cm st') /\ (pn_cm st = None -> pn_cm st' = None) /\
  exists b, pn_out st' = pn_out st ++ b /\
    forall pre T, lenN pre = lenN (pn_out st) -> good pre (pn_cm st) T ->
                  good (pre ++ b) (pn_cm st') (T ++ new).

Lemma step_refl st : step st st [].
Proof.
  intro Hk. split; [exact Hk|]. split; [auto|]. exists []. split; [now rewrite app_nil_r|].
  intros pre T _ H. now rewrite !app_nil_r.
Qed.

Lemma step_trans st st1 st2 n1 n2 : step st st1 n1 -> step st1 st2 n2 -> step st st2 (n1 ++ n2).
Proof.
  intros H1 H2 Hk. destruct (H1 Hk) as [Hk1 [Hn1 [b1 [E1 G1]]]]. destruct (H2 Hk1) as [Hk2 [Hn2 [b2 [E2 G2]]]].
  split; [exact Hk2|]. split; [auto|]. exists (b1 ++ b2). split; [now rewrite E2, E1, app_assoc|].
  intros pre T Hpre Hg. rewrite !app_assoc. apply G2.
  - rewrite E1, !lenN_app, Hpre. reflexivity.
  - now apply G1.
Qed.

Lemma step_pemit st b : step st (pemit st b) [].
Proof.
  intro Hk. split; [exact Hk|]. split; [auto|]. exists b. split; [reflexivity|].
  intros pre T _ H. rewrite app_nil_r. now apply good_app.
Qed.

Lemma step_emits F cap st st' : emits F -> F cap st = Ok st' -> step st st' [].
Proof. intros HF H. destruct (HF cap st st' H) as [b [-> _]]. apply step_pemit. Qed.

(* ---------- names ---------- *)
Definition name_site (s : bytes) (st : pn_state) : nsites :=
  match s with [] => [] | _ => [(poff st, s)] end.

Lemma step_name s cap cp st st' : pack_name s cap cp st = Ok st' -> step st st' (name_site s st).
Proof.
  intro H. destruct s as [|x r] eqn:Es.
  - cbn in H. injection H as <-. apply step_refl.
  - rewrite <- Es in *. assert (Hs : s <> []) by (rewrite Es; discriminate).
    replace (name_site s st) with [(poff st, s)] by (rewrite Es; reflexivity).
    intro Hk. destruct (pack_name_step s cap cp st st' Hs Hk H)
      as [ls [b [Hp [Hlen [Hout [_ [Hk' [Hnone [_ Hc]]]]]]]]].
    split; [exact Hk'|]. split; [exact Hnone|]. exists b. split; [exact Hout|].
    intros pre T Hpre [Hl HT]. destruct (Hc pre Hpre Hl) as [[h Hlay] Hl'].
    split; [exact Hl'|]. apply Forall_app. split.
    + eapply Forall_impl; [|exact HT]. intros ps. apply site_ok_app.
    + constructor; [|constructor]. exists ls. cbn [fst snd]. split; [exact Hp|]. split; [exact Hlen|].
      unfold poff. rewrite <- Hpre. now exists h, (lenN pre + lenN b).
Qed.

Fixpoint names_sites (l : list bytes) (cap : N) (cp : bool) (st : pn_state) : nsites :=
  match l with
  | [] => []
  | s :: r => name_site s st ++
              match pack_name s cap cp st with Ok st' => names_sites r cap cp st' | _ => [] end
  end.

Lemma step_names l : forall cap cp st st', pack_names l cap cp st = Ok st' ->
  step st st' (names_sites l cap cp st).
Proof.
  induction l as [|s r IH]; intros cap cp st st' H.
  - cbn in H. injection H as <-. apply step_refl.
  - cbn [pack_names] in H. cbn [names_sites].
    destruct (pack_name s cap cp st) as [st1| | |] eqn:E; cbn [bind] in H; try discriminate.
    eapply step_trans; [exact (step_name _ _ _ _ _ E)|exact (IH _ _ _ _ H)].
Qed.

(* ---------- one field, a field sequence ---------- *)
Definition field_sites (v : rdata) (f : string) (k : fkind) (cap : N) (st : pn_state) : nsites :=
  match k with
  | K_name _ => name_site (as_s (vget v f)) st
  | K_names c => names_sites (as_ss (vget v f)) cap c st
  | K_gateway tyf addrf hostf mask c =>
    if N.land (vget_n v tyf) mask =? gw_host then name_site (as_s (vget v hostf)) st else []
  | _ => []
  end.

Lemma step_field v f k cap st st' : pack_field v f k cap st = Ok st' ->
  step st st' (field_sites v f k cap st).
Proof.
  intro H. destruct (name_kind k) eqn:Hk.
  - destruct k; try discriminate; unfold pack_field in H; cbn [field_sites].
    + exact (step_name _ _ _ _ _ H).
    + exact (step_names _ _ _ _ _ H).
    + destruct (N.land (vget_n v tyf) mask =? gw_v4) eqn:E4.
      { replace (N.land (vget_n v tyf) mask =? gw_host) with false by (unfold gw_v4, gw_host in *; lia).
        exact (step_emits _ _ _ _ (emits_a _) H). }
      destruct (N.land (vget_n v tyf) mask =? gw_v6) eqn:E6.
      { replace (N.land (vget_n v tyf) mask =? gw_host) with false by (unfold gw_v6, gw_host in *; lia).
        exact (step_emits _ _ _ _ (emits_aaaa _) H). }
      destruct (N.land (vget_n v tyf) mask =? gw_host).
      * exact (step_name _ _ _ _ _ H).
      * injection H as <-. apply step_refl.
  - replace (field_sites v f k cap st) with (@nil (N * bytes)) by (destruct k; try discriminate; reflexivity).
    exact (step_emits _ _ _ _ (emits_field v f k Hk) H).
Qed.

Fixpoint fields_sites (v : rdata) (l : list pfield) (cap : N) (st : pn_state) : nsites :=
  match l with
  | [] => []
  | (f, k) :: r => field_sites v f k cap st ++
                   match pack_field v f k cap st with Ok st' => fields_sites v r cap st' | _ => [] end
  end.

Lemma step_fields v l : forall cap st st', pack_fields v l cap st = Ok st' ->
  step st st' (fields_sites v l cap st).
Proof.
  induction l as [|[f k] r IH]; intros cap st st' H.
  - cbn in H. injection H as <-. apply step_refl.
  - cbn [pack_fields] in H. cbn [fields_sites].
    destruct (pack_field v f k cap st) as [st1| | |] eqn:E; cbn [bind] in H; try discriminate.
    eapply step_trans; [exact (step_field _ _ _ _ _ _ E)|exact (IH _ _ _ H)].
Qed.

(* the texts at the sites are exactly the non-empty name texts of the fields, in order *)
Definition nonempty (s : bytes) : bool := match s with [] => false | _ => true end.
Definition field_names (v : rdata) (f : string) (k : fkind) : list bytes :=
  match k with
  | K_name _ => [as_s (vget v f)]
  | K_names _ => as_ss (vget v f)
  | K_gateway tyf addrf hostf mask c =>
    if N.land (vget_n v tyf) mask =? gw_host then [as_s (vget v hostf)] else []
  | _ => []
  end.
Definition fields_names (v : rdata) (l : list pfield) : list bytes :=
  flat_map (fun fk => field_names v (fst fk) (snd fk)) l.

Lemma name_site_texts s st : map snd (name_site s st) = filter nonempty [s].
Proof. destruct s; reflexivity. Qed.

Lemma names_sites_texts l : forall cap cp st st', pack_names l cap cp st = Ok st' ->
  map snd (names_sites l cap cp st) = filter nonempty l.
Proof.
  induction l as [|s r IH]; intros cap cp st st' H; [reflexivity|].
  cbn [pack_names] in H. cbn [names_sites].
  destruct (pack_name s cap cp st) as [st1| | |] eqn:E; cbn [bind] in H; try discriminate.
  rewrite map_app, name_site_texts, (IH _ _ _ _ H). cbn [filter]. destruct (nonempty s); reflexivity.
Qed.

Lemma field_sites_texts v f k cap st st' : pack_field v f k cap st = Ok st' ->
  map snd (field_sites v f k cap st) = filter nonempty (field_names v f k).
Proof.
  intro H. destruct k; try reflexivity; cbn [field_sites field_names].
  - apply name_site_texts.
  - unfold pack_field in H. exact (names_sites_texts _ _ _ _ _ H).
  - destruct (N.land (vget_n v tyf) mask =? gw_host); [apply name_site_texts|reflexivity].
Qed.

Lemma filter_app' {A} (p : A -> bool) a b : filter p (a ++ b) = filter p a ++ filter p b.
Proof. induction a as [|x a IH]; cbn; [reflexivity|]. destruct (p x); cbn; now rewrite IH. Qed.

Lemma fields_sites_texts v l : forall cap st st', pack_fields v l cap st = Ok st' ->
  map snd (fields_sites v l cap st) = filter nonempty (fields_names v l).
Proof.
  induction l as [|[f k] r IH]; intros cap st st' H; [reflexivity|].
  cbn [pack_fields] in H. cbn [fields_sites]. unfold fields_names. cbn [flat_map fst snd].
  destruct (pack_field v f k cap st) as [st1| | |] eqn:E; cbn [bind] in H; try discriminate.
  rewrite map_app, filter_app', (field_sites_texts _ _ _ _ _ _ E). f_equal. exact (IH _ _ _ H).
Qed.

(* ================= compressed against uncompressed, field level ================= *)
(* run c carries a map, run u does not; the same values are packed *)
Definition rel_le (stc stc' stu stu' : pn_state) : Prop :=
  lenN (pn_out stc') + lenN (pn_out stu) <= lenN (pn_out stu') + lenN (pn_out stc).
Definition rel_post (stc stc' stu stu' : pn_state) : Prop :=
  opt_all cm_keys (pn_cm stc') /\ pn_cm stu' = None /\ rel_le stc stc' stu stu'.

Lemma rel_refl stc stu : opt_all cm_keys (pn_cm stc) -> pn_cm stu = None -> rel_post stc stc stu stu.
Proof. intros H1 H2. split; [exact H1|]. split; [exact H2|]. unfold rel_le. lia. Qed.

Lemma rel_trans a a1 a2 b b1 b2 : rel_post a a1 b b1 -> rel_post a1 a2 b1 b2 -> rel_post a a2 b b2.
Proof. intros [_ [_ H1]] [K [N H2]]. split; [exact K|]. split; [exact N|]. unfold rel_le in *. lia. Qed.

Lemma rel_emits F cap stc stc' cap2 stu stu' :
  emits F -> opt_all cm_keys (pn_cm stc) -> pn_cm stu = None ->
  F cap stc = Ok stc' -> F cap2 stu = Ok stu' -> rel_post stc stc' stu stu'.
Proof.
  intros HF Hk Hn Hc Hu. destruct (HF cap stc stc' Hc) as [b [-> K]]. rewrite (K _ _ _ Hu).
  split; [exact Hk|]. split; [exact Hn|]. unfold rel_le, pemit. cbn [pn_out]. rewrite !lenN_app. lia.
Qed.

Lemma rel_name s cap cp stc stc' cap2 cp2 stu stu' :
  opt_all cm_keys (pn_cm stc) -> pn_cm stu = None ->
  pack_name s cap cp stc = Ok stc' -> pack_name s cap2 cp2 stu = Ok stu' -> rel_post stc stc' stu stu'.
Proof.
  intros Hk Hn Hc Hu. destruct s as [|x r] eqn:Es.
  - cbn in Hc, Hu. injection Hc as <-. injection Hu as <-. now apply rel_refl.
  - rewrite <- Es in *. assert (Hs : s <> []) by (rewrite Es; discriminate).
    destruct (pack_name_step s cap cp stc stc' Hs Hk Hc) as [ls [b [Hp [_ [Hout [_ [Hk' [_ [Hb _]]]]]]]]].
    assert (Hku : opt_all cm_keys (pn_cm stu)) by (rewrite Hn; exact I).
    destruct (pack_name_step s cap2 cp2 stu stu' Hs Hku Hu) as [ls2 [b2 [Hp2 [_ [Hout2 [_ [_ [Hn2 [Hb2 _]]]]]]]]].
    rewrite Hp in Hp2. injection Hp2 as <-.
    split; [exact Hk'|]. split; [auto|].
    assert (E2 : b2 = wire_name ls).
    { destruct Hb2 as [E|[ls1 [lsT [q [k [cm [_ [_ [_ [_ [_ [Ecm _]]]]]]]]]]]]; [exact E|congruence]. }
    unfold rel_le. rewrite Hout, Hout2, E2, !lenN_app.
    destruct Hb as [->|[ls1 [lsT [q [k [cm [-> [HneT [-> _]]]]]]]]]; [lia|].
    unfold wire_name, u16. rewrite wire_labels_app, !lenN_app, !lenN_cons, lenN_nil.
    destruct lsT as [|l lsT]; [congruence|]. pose proof (wire_labels_len_pos l lsT). lia.
Qed.

Lemma rel_names l : forall cap cp stc stc' cap2 cp2 stu stu',
  opt_all cm_keys (pn_cm stc) -> pn_cm stu = None ->
  pack_names l cap cp stc = Ok stc' -> pack_names l cap2 cp2 stu = Ok stu' -> rel_post stc stc' stu stu'.
Proof.
  induction l as [|s r IH]; intros cap cp stc stc' cap2 cp2 stu stu' Hk Hn Hc Hu.
  - cbn in Hc, Hu. injection Hc as <-. injection Hu as <-. now apply rel_refl.
  - cbn [pack_names] in Hc, Hu.
    destruct (pack_name s cap cp stc) as [c1| | |] eqn:E1; cbn [bind] in Hc; try discriminate.
    destruct (pack_name s cap2 cp2 stu) as [u1| | |] eqn:E2; cbn [bind] in Hu; try discriminate.
    pose proof (rel_name _ _ _ _ _ _ _ _ _ Hk Hn E1 E2) as R1. destruct R1 as [Hk1 [Hn1 R1]].
    eapply rel_trans; [split; [exact Hk1|split; [exact Hn1|exact R1]]|].
    exact (IH _ _ _ _ _ _ _ _ Hk1 Hn1 Hc Hu).
Qed.

Lemma rel_field v f k cap stc stc' cap2 stu stu' :
  opt_all cm_keys (pn_cm stc) -> pn_cm stu = None ->
  pack_field v f k cap stc = Ok stc' -> pack_field v f k cap2 stu = Ok stu' -> rel_post stc stc' stu stu'.
Proof.
  intros Hk Hn Hc Hu. destruct (name_kind k) eqn:Hnk.
  - destruct k; try discriminate; unfold pack_field in Hc, Hu.
    + exact (rel_name _ _ _ _ _ _ _ _ _ Hk Hn Hc Hu).
    + exact (rel_names _ _ _ _ _ _ _ _ _ Hk Hn Hc Hu).
    + destruct (N.land (vget_n v tyf) mask =? gw_v4).
      { exact (rel_emits _ _ _ _ _ _ _ (emits_a _) Hk Hn Hc Hu). }
      destruct (N.land (vget_n v tyf) mask =? gw_v6).
      { exact (rel_emits _ _ _ _ _ _ _ (emits_aaaa _) Hk Hn Hc Hu). }
      destruct (N.land (vget_n v tyf) mask =? gw_host).
      * exact (rel_name _ _ _ _ _ _ _ _ _ Hk Hn Hc Hu).
      * injection Hc as <-. injection Hu as <-. now apply rel_refl.
  - exact (rel_emits _ _ _ _ _ _ _ (emits_field v f k Hnk) Hk Hn Hc Hu).
Qed.

Lemma rel_fields v l : forall cap stc stc' cap2 stu stu',
  opt_all cm_keys (pn_cm stc) -> pn_cm stu = None ->
  pack_fields v l cap stc = Ok stc' -> pack_fields v l cap2 stu = Ok stu' -> rel_post stc stc' stu stu'.
Proof.
  induction l as [|[f k] r IH]; intros cap stc stc' cap2 stu stu' Hk Hn Hc Hu.
  - cbn in Hc, Hu. injection Hc as <-. injection Hu as <-. now apply rel_refl.
  - cbn [pack_fields] in Hc, Hu.
    destruct (pack_field v f k cap stc) as [c1| | |] eqn:E1; cbn [bind] in Hc; try discriminate.
    destruct (pack_field v f k cap2 stu) as [u1| | |] eqn:E2; cbn [bind] in Hu; try discriminate.
    pose proof (rel_field _ _ _ _ _ _ _ _ _ Hk Hn E1 E2) as R1. destruct R1 as [Hk1 [Hn1 R1]].
    eapply rel_trans; [split; [exact Hk1|split; [exact Hn1|exact R1]]|].
    exact (IH _ _ _ _ _ _ Hk1 Hn1 Hc Hu).
Qed.

(* ================= field-level statements on the plain invariant ================= *)
(* D, RDATA level: a field sequence keeps the map invariant, only appends, and
   every name in it is laid where it was packed; no name is forgotten *)
Theorem pack_fields_lays v l cap st st' :
  st_inv st -> pack_fields v l cap st = Ok st' ->
  st_inv st' /\ (exists b, pn_out st' = pn_out st ++ b) /\
  Forall (site_ok (pn_out st')) (fields_sites v l cap st) /\
  map snd (fields_sites v l cap st) = filter nonempty (fields_names v l).
Proof.
  intros Hinv H. apply st_inv_split in Hinv. destruct Hinv as [Hk Hl].
  destruct (step_fields v l cap st st' H Hk) as [Hk' [_ [b [E G]]]].
  destruct (G (pn_out st) [] eq_refl (conj Hl (Forall_nil _))) as [Hl' HT]. rewrite <- E in *.
  split; [apply st_inv_split; now split|]. split; [now exists b|]. split; [exact HT|].
  exact (fields_sites_texts v l cap st st' H).
Qed.

(* a name field without the compress flag (every RDATA name of a type outside
   the RFC 1035 set, by the table theorems) is written in the plain wire form
   even when a map is present *)
Theorem unflagged_rdata_name_is_plain v f cap st st' :
  st_inv st -> pack_field v f (K_name false) cap st = Ok st' -> as_s (vget v f) <> [] ->
  exists ls, parse_name (as_s (vget v f)) = Some ls /\ pn_out st' = pn_out st ++ wire_name ls.
Proof.
  intros Hinv H Hs. unfold pack_field in H.
  destruct (pack_name_spec _ _ _ _ _ Hs Hinv H) as [ls [b [h [Hp [_ [Hout [_ [_ [_ [_ [Hpl _]]]]]]]]]]].
  exists ls. split; [exact Hp|]. rewrite Hout, (Hpl (or_introl eq_refl)). reflexivity.
Qed.
