package main

// C15, wire level: the TSIG record at the end of a packed envelope is taken
// apart, edited field by field and put back (what somebody on the path can do
// to an envelope without knowing the key), and an RFC 8945 signer that does not
// use tsig.go (crypto/hmac over the digest of RFC 8945 4.3 / 5.3.1) so that
// honest chains do not depend on dns.TsigGenerate.

import (
	"crypto/hmac"
	"crypto/sha1"
	"crypto/sha256"
	"crypto/sha512"
	"encoding/base64"
	"encoding/binary"
	"encoding/hex"
	"fmt"
	"hash"
	"strings"

	"github.com/miekg/dns"
)

type algDesc struct {
	name string
	size int
	h    func() hash.Hash
}

var algTable = []algDesc{
	{dns.HmacSHA256, 32, sha256.New},
	{dns.HmacSHA1, 20, sha1.New},
	{dns.HmacSHA224, 28, sha256.New224},
	{dns.HmacSHA384, 48, sha512.New384},
	{dns.HmacSHA512, 64, sha512.New},
}

func algOf(name string) algDesc {
	if name == "" {
		return algTable[0]
	}
	for _, a := range algTable {
		if strings.EqualFold(a.name, name) { // a name of the DNS: case does not distinguish algorithms
			return a
		}
	}
	panic("unknown algorithm " + name)
}

func clone(b []byte) []byte { return append([]byte(nil), b...) }

// nameWire: uncompressed wire form of a presentation name made of plain labels
func nameWire(s string) []byte {
	var b []byte
	for _, l := range strings.Split(strings.TrimSuffix(s, "."), ".") {
		if l == "" {
			continue
		}
		b = append(b, byte(len(l)))
		b = append(b, l...)
	}
	return append(b, 0)
}

func lowerWire(n []byte) []byte {
	o := clone(n)
	for i := 0; i < len(o); {
		l := int(o[i])
		if l == 0 {
			break
		}
		for j := i + 1; j <= i+l && j < len(o); j++ {
			if o[j] >= 'A' && o[j] <= 'Z' {
				o[j] += 'a' - 'A'
			}
		}
		i += 1 + l
	}
	return o
}

// skipName: end offset of an uncompressed name starting at off
func skipName(b []byte, off int) (int, bool) {
	for {
		if off >= len(b) {
			return 0, false
		}
		l := int(b[off])
		if l == 0 {
			return off + 1, true
		}
		if l > 63 {
			return 0, false
		}
		off += 1 + l
	}
}

// the fields of a TSIG record as they are on the wire
type tsigParts struct {
	name   []byte
	class  uint16
	ttl    uint32
	alg    []byte
	time   uint64
	fudge  uint16
	mac    []byte
	origid uint16
	errc   uint16
	other  []byte
}

func be16(v uint16) []byte { return []byte{byte(v >> 8), byte(v)} }
func be48(v uint64) []byte {
	return []byte{byte(v >> 40), byte(v >> 32), byte(v >> 24), byte(v >> 16), byte(v >> 8), byte(v)}
}

func (p tsigParts) wire() []byte {
	var rd []byte
	rd = append(rd, p.alg...)
	rd = append(rd, be48(p.time)...)
	rd = append(rd, be16(p.fudge)...)
	rd = append(rd, be16(uint16(len(p.mac)))...)
	rd = append(rd, p.mac...)
	rd = append(rd, be16(p.origid)...)
	rd = append(rd, be16(p.errc)...)
	rd = append(rd, be16(uint16(len(p.other)))...)
	rd = append(rd, p.other...)
	var b []byte
	b = append(b, p.name...)
	b = append(b, be16(dns.TypeTSIG)...)
	b = append(b, be16(p.class)...)
	b = append(b, byte(p.ttl>>24), byte(p.ttl>>16), byte(p.ttl>>8), byte(p.ttl))
	b = append(b, be16(uint16(len(rd)))...)
	return append(b, rd...)
}

// parseTsig reads the TSIG record that starts at off and ends the message
func parseTsig(b []byte, off int) (p tsigParts, ok bool) {
	e, ok := skipName(b, off)
	if !ok || e+10 > len(b) {
		return p, false
	}
	p.name = clone(b[off:e])
	if binary.BigEndian.Uint16(b[e:]) != dns.TypeTSIG {
		return p, false
	}
	p.class = binary.BigEndian.Uint16(b[e+2:])
	p.ttl = binary.BigEndian.Uint32(b[e+4:])
	rdl := int(binary.BigEndian.Uint16(b[e+8:]))
	rd := e + 10
	if rd+rdl != len(b) {
		return p, false
	}
	ae, ok := skipName(b, rd)
	if !ok || ae+10 > len(b) {
		return p, false
	}
	p.alg = clone(b[rd:ae])
	p.time = uint64(binary.BigEndian.Uint16(b[ae:]))<<32 | uint64(binary.BigEndian.Uint32(b[ae+2:]))
	p.fudge = binary.BigEndian.Uint16(b[ae+6:])
	ml := int(binary.BigEndian.Uint16(b[ae+8:]))
	o := ae + 10
	if o+ml+6 > len(b) {
		return p, false
	}
	p.mac = clone(b[o : o+ml])
	o += ml
	p.origid = binary.BigEndian.Uint16(b[o:])
	p.errc = binary.BigEndian.Uint16(b[o+2:])
	ol := int(binary.BigEndian.Uint16(b[o+4:]))
	if o+6+ol != len(b) {
		return p, false
	}
	p.other = clone(b[o+6:])
	return p, true
}

// refDigest: RFC 8945 4.3 — prior MAC (length prefixed) when there is one, the
// message without the TSIG record and with the original ID, then the TSIG
// variables (4.3.3) or, for the second and later envelopes of a stream, the
// timers only (5.3.1).
func refDigest(stripped []byte, p tsigParts, prev []byte, timers bool) []byte {
	var d []byte
	if len(prev) > 0 {
		d = append(d, be16(uint16(len(prev)))...)
		d = append(d, prev...)
	}
	m := clone(stripped)
	binary.BigEndian.PutUint16(m, p.origid)
	d = append(d, m...)
	if timers {
		d = append(d, be48(p.time)...)
		return append(d, be16(p.fudge)...)
	}
	d = append(d, lowerWire(p.name)...)
	d = append(d, be16(p.class)...)
	d = append(d, byte(p.ttl>>24), byte(p.ttl>>16), byte(p.ttl>>8), byte(p.ttl))
	d = append(d, lowerWire(p.alg)...)
	d = append(d, be48(p.time)...)
	d = append(d, be16(p.fudge)...)
	d = append(d, be16(p.errc)...)
	d = append(d, be16(uint16(len(p.other)))...)
	return append(d, p.other...)
}

func rawSecret(b64 string) []byte {
	s, err := base64.StdEncoding.DecodeString(b64)
	if err != nil {
		panic(err)
	}
	return s
}

// refSign appends a TSIG record to a packed message (ARCOUNT + 1).  key and alg
// go on the wire as they are spelled (alg "" = hmac-sha256.); what is hashed is
// their canonical form: lower case, uncompressed (RFC 8945 4.3.3, refDigest).
func refSign(packed []byte, key, alg, secretB64 string, ts uint64, fudge uint16, prevHex string, timers bool) ([]byte, string) {
	a := algOf(alg)
	if alg == "" {
		alg = a.name
	}
	prev, _ := hex.DecodeString(prevHex)
	p := tsigParts{name: nameWire(key), class: dns.ClassANY, alg: nameWire(alg), time: ts, fudge: fudge,
		origid: binary.BigEndian.Uint16(packed)}
	h := hmac.New(a.h, rawSecret(secretB64))
	h.Write(refDigest(packed, p, prev, timers))
	p.mac = h.Sum(nil)
	out := append(clone(packed), p.wire()...)
	addCount(out, 10, 1)
	return out, hex.EncodeToString(p.mac)
}

func addCount(b []byte, off, d int) {
	binary.BigEndian.PutUint16(b[off:], uint16(int(binary.BigEndian.Uint16(b[off:]))+d))
}

var extraRR = func() []byte {
	b := nameWire("x." + zone)
	b = append(b, be16(dns.TypeA)...)
	b = append(b, be16(dns.ClassINET)...)
	b = append(b, 0, 0, 0, 60, 0, 4, 192, 0, 2, 1)
	return b
}()

// ---------------------------------------------------------------- mutations
// One edit of an envelope after the sender has signed it.  N is the parameter
// of the kind (a length, a bit number, a mask, a delta, a value).
type mutSpec struct {
	Kind string `json:"kind"`
	N    int    `json:"n,omitempty"`
}

const (
	// header
	mHdrID     = "hdr-id"        // header ID ^= N; the TSIG record (Original ID included) is left alone
	mHdrIDOrig = "hdr-id-origid" // header ID ^= N and Original ID ^= N
	mHdrRcode  = "hdr-rcode"     // header RCODE = N
	// MAC
	mMacTrunc  = "mac-trunc"  // MAC cut to its first N octets (MAC size follows)
	mMacBit    = "mac-bit"    // bit N of the MAC flipped
	mMacExtend = "mac-extend" // N octets appended to the MAC
	mMacZero   = "mac-zero"   // MAC replaced by zero octets of the same length
	mMacPrev   = "mac-prev"   // MAC replaced by the MAC the envelope is chained to
	// other fields of the TSIG record
	mOrigID     = "origid"      // Original ID ^= N
	mTime       = "time"        // time signed += N
	mFudge      = "fudge"       // fudge += N
	mFudgeZero  = "fudge-zero"  // fudge = 0
	mKeyUnknown = "key-unknown" // key name the receiver has no secret for
	mKeySecond  = "key-second"  // key name the receiver has another secret for
	mAlgOther   = "alg-other"   // another HMAC algorithm name
	mAlgUnknown = "alg-unknown" // a name that is no algorithm
	mError      = "error"       // TSIG error field = N            (in the digest of a full-form envelope only)
	mOther      = "other-data"  // N octets of other data appended (in the digest of a full-form envelope only)
	mClass      = "class"       // class ANY -> IN                 (in the digest of a full-form envelope only)
	mTTL        = "ttl"         // TTL 0 -> N                      (in the digest of a full-form envelope only)
	// position of the TSIG record
	mStrip      = "tsig-strip"       // TSIG removed, ARCOUNT - 1
	mStripCount = "tsig-strip-count" // TSIG removed, ARCOUNT kept
	mRRAfter    = "rr-after-tsig"    // a record appended after the TSIG, ARCOUNT + 1
	mRRBefore   = "rr-before-tsig"   // a record inserted in front of the TSIG, ARCOUNT + 1
	mTsigTwice  = "tsig-twice"       // the TSIG record sent twice, ARCOUNT + 1
	mTsigAnswer = "tsig-to-answer"   // the TSIG record counted as the last answer record
)

// fullFormOnly: fields RFC 8945 5.3.1 leaves out of the digest of the second
// and later envelopes (timers only); altering them there changes nothing that
// is signed or delivered.
func (m mutSpec) fullFormOnly() bool {
	switch m.Kind {
	case mError, mOther, mClass, mTTL:
		return true
	}
	return false
}

// positional: the edit removes, moves or repeats the TSIG record
func (m mutSpec) positional() bool {
	switch m.Kind {
	case mStrip, mStripCount, mRRAfter, mRRBefore, mTsigTwice, mTsigAnswer:
		return true
	}
	return false
}

func (m mutSpec) headerOnly() bool { return m.Kind == mHdrID || m.Kind == mHdrRcode }

// modelled: the error class of the mutated envelope is one the Gallina model
// (verify_tag) produces from its description (tamper flag / key number)
func (m mutSpec) modelled() bool {
	switch m.Kind {
	case mHdrID, mHdrIDOrig, mHdrRcode, mMacTrunc, mMacBit, mMacExtend, mMacZero, mMacPrev, mOrigID, mTime, mFudge,
		mKeyUnknown, mKeySecond, mAlgOther:
		return true
	}
	return false
}

func (m mutSpec) String() string { return fmt.Sprintf("%s/%d", m.Kind, m.N) }

// applyMut edits the packed envelope b; tsigAt is the offset of its TSIG
// record (-1 when it has none); prevMAC is the MAC it was chained to.
func applyMut(b []byte, tsigAt int, m mutSpec, prevMAC []byte) []byte {
	b = clone(b)
	switch m.Kind {
	case mHdrID:
		binary.BigEndian.PutUint16(b, binary.BigEndian.Uint16(b)^uint16(m.N))
		return b
	case mHdrRcode:
		b[3] = b[3]&0xf0 | byte(m.N&0xf)
		return b
	}
	if tsigAt < 0 {
		panic("mutation " + m.Kind + " needs a TSIG record")
	}
	p, ok := parseTsig(b, tsigAt)
	if !ok {
		panic("TSIG record not found where the signer put it")
	}
	ts := clone(b[tsigAt:])
	head := b[:tsigAt]
	re := func() []byte { return append(clone(head), p.wire()...) }
	switch m.Kind {
	case mHdrIDOrig:
		binary.BigEndian.PutUint16(head, binary.BigEndian.Uint16(head)^uint16(m.N))
		p.origid ^= uint16(m.N)
	case mMacTrunc:
		if m.N >= len(p.mac) {
			panic("mac-trunc: not a truncation")
		}
		p.mac = p.mac[:m.N]
	case mMacBit:
		p.mac[(m.N/8)%len(p.mac)] ^= 1 << (m.N % 8)
	case mMacExtend:
		for i := 0; i < m.N; i++ {
			p.mac = append(p.mac, byte(i))
		}
	case mMacZero:
		p.mac = make([]byte, len(p.mac))
	case mMacPrev:
		if len(prevMAC) > 0 {
			p.mac = clone(prevMAC)
		} else {
			p.mac = make([]byte, len(p.mac))
		}
	case mOrigID:
		p.origid ^= uint16(m.N)
	case mTime:
		p.time = uint64(int64(p.time) + int64(m.N))
	case mFudge:
		p.fudge = uint16(int(p.fudge) + m.N)
	case mFudgeZero:
		p.fudge = 0
	case mKeyUnknown:
		p.name = nameWire(keyOther)
	case mKeySecond:
		p.name = nameWire(keySecond)
	case mAlgOther:
		if strings.EqualFold(string(p.alg), string(nameWire(dns.HmacSHA512))) {
			p.alg = nameWire(dns.HmacSHA256)
		} else {
			p.alg = nameWire(dns.HmacSHA512)
		}
	case mAlgUnknown:
		p.alg = nameWire("hmac-none.")
	case mError:
		p.errc = uint16(m.N)
	case mOther:
		for i := 0; i < m.N; i++ {
			p.other = append(p.other, byte(0xa0+i))
		}
	case mClass:
		p.class = dns.ClassINET
	case mTTL:
		p.ttl = uint32(m.N)
	case mStrip:
		addCount(head, 10, -1)
		return clone(head)
	case mStripCount:
		return clone(head)
	case mRRAfter:
		o := append(clone(b), extraRR...)
		addCount(o, 10, 1)
		return o
	case mRRBefore:
		o := append(clone(head), extraRR...)
		o = append(o, ts...)
		addCount(o, 10, 1)
		return o
	case mTsigTwice:
		o := append(clone(b), ts...)
		addCount(o, 10, 1)
		return o
	case mTsigAnswer:
		// only sound when authority and additional sections are otherwise empty,
		// which is how the generators build envelopes
		o := clone(b)
		addCount(o, 6, 1)
		addCount(o, 10, -1)
		return o
	default:
		panic("unknown mutation " + m.Kind)
	}
	return re()
}
