(* Base/ListX.v — list lemmas missing from the 8.16 standard library. *)
From Coq Require Import List Arith Lia.
Import ListNotations.

Lemma repeat_snoc {A} (x : A) n : repeat x n ++ [x] = x :: repeat x n.
Proof. induction n as [|n IH]; cbn; [reflexivity|]. now rewrite IH. Qed.

Lemma rev_repeat {A} (x : A) n : rev (repeat x n) = repeat x n.
Proof.
  induction n as [|n IH]; cbn; [reflexivity|]. rewrite IH. apply repeat_snoc.
Qed.

Lemma skipn_skipn {A} (l : list A) a b : skipn a (skipn b l) = skipn (a + b) l.
Proof.
  revert l; induction b as [|b IH]; intros l.
  - now rewrite Nat.add_0_r.
  - rewrite Nat.add_succ_r. destruct l as [|x l]; cbn.
    + now rewrite skipn_nil.
    + apply IH.
Qed.

Lemma firstn_app_exact {A} (l r : list A) : firstn (length l) (l ++ r) = l.
Proof. induction l as [|x l IH]; cbn; [reflexivity|]. now rewrite IH. Qed.

Lemma skipn_app_exact {A} (l r : list A) : skipn (length l) (l ++ r) = r.
Proof. induction l as [|x l IH]; cbn; [reflexivity|]. exact IH. Qed.

Lemma Forall_firstn' {A} (P : A -> Prop) n (l : list A) : Forall P l -> Forall P (firstn n l).
Proof.
  revert l; induction n as [|n IH]; intros l H; cbn; [constructor|].
  destruct l as [|x l]; [constructor|]. inversion H; subst. constructor; auto.
Qed.
Lemma Forall_skipn' {A} (P : A -> Prop) n (l : list A) : Forall P l -> Forall P (skipn n l).
Proof.
  revert l; induction n as [|n IH]; intros l H; cbn; [exact H|].
  destruct l as [|x l]; [constructor|]. inversion H; subst. auto.
Qed.
