// C08, value level: EDNS0 option / SVCB parameter VALUES as Go structs (Model/OptVal.v).
// For each generated value: a model case "optval" / "svcbval" (pack() octets or error class, and the
// length the record's Len adds for the value) and the direct oracle len >= len(pack()).
package main

import (
	"encoding/hex"
	"errors"
	"net"
	"strconv"
	"strings"

	"github.com/miekg/dns"
	. "verif/harness/common"
)

func u64s(x uint64) string { return strconv.FormatUint(x, 10) }

func xlist(l [][]byte) string {
	s := make([]string, len(l))
	for i, e := range l {
		s[i] = "x" + Hx(e)
	}
	return strings.Join(s, ",")
}

func optErrClass(err error) string {
	var ib hex.InvalidByteError
	switch {
	case errors.Is(err, hex.ErrLength):
		return "hexlen"
	case errors.As(err, &ib):
		return "hexbyte"
	}
	m := err.Error()
	for _, p := range [][2]string{{"bad address family", "family"}, {"bad netmask", "netmask"}, {"bad address", "address"},
		{"bad agent domain", "agent"}, {"empty alpn-id", "alpnempty"}, {"alpn-id too long", "alpnlong"},
		{"bad svcbipv4hint", "v4hint"}, {"bad svcbipv6hint", "v6hint"}} {
		if strings.Contains(m, p[0]) {
			return p[1]
		}
	}
	return "other"
}

// what OPT.len adds for one option beyond the 4 octets of code and length (the real len code: Len(rr))
func optLen(o dns.EDNS0) int {
	h := dns.RR_Header{Name: ".", Rrtype: dns.TypeOPT, Class: 1232}
	return dns.Len(&dns.OPT{Hdr: h, Option: []dns.EDNS0{o}}) - dns.Len(&dns.OPT{Hdr: h}) - 4
}

// the same for SVCB.len (ztypes.go) — must agree with the value's own len()
func svcbLenViaRR(kv dns.SVCBKeyValue) int {
	h := dns.RR_Header{Name: "v.", Rrtype: dns.TypeSVCB, Class: 1}
	return dns.Len(&dns.SVCB{Hdr: h, Target: ".", Value: []dns.SVCBKeyValue{kv}}) - dns.Len(&dns.SVCB{Hdr: h, Target: "."}) - 4
}

func encOpt(o dns.EDNS0) string {
	switch e := o.(type) {
	case *dns.EDNS0_LLQ:
		return "LLQ:" + Itoa(int(e.Version)) + ":" + Itoa(int(e.Opcode)) + ":" + Itoa(int(e.Error)) + ":" + u64s(e.Id) + ":" + u64s(uint64(e.LeaseLife))
	case *dns.EDNS0_UL:
		return "UL:" + u64s(uint64(e.Lease)) + ":" + u64s(uint64(e.KeyLease))
	case *dns.EDNS0_NSID:
		return "NSID:" + Hs(e.Nsid)
	case *dns.EDNS0_ESU:
		return "ESU:" + Hs(e.Uri)
	case *dns.EDNS0_DAU:
		return "DAU:" + Hx(e.AlgCode)
	case *dns.EDNS0_DHU:
		return "DHU:" + Hx(e.AlgCode)
	case *dns.EDNS0_N3U:
		return "N3U:" + Hx(e.AlgCode)
	case *dns.EDNS0_SUBNET:
		return "SUBNET:" + Itoa(int(e.Family)) + ":" + Itoa(int(e.SourceNetmask)) + ":" + Itoa(int(e.SourceScope)) + ":" + Hx(e.Address)
	case *dns.EDNS0_EXPIRE:
		b := "0"
		if e.Empty {
			b = "1"
		}
		return "EXPIRE:" + u64s(uint64(e.Expire)) + ":" + b
	case *dns.EDNS0_COOKIE:
		return "COOKIE:" + Hs(e.Cookie)
	case *dns.EDNS0_TCP_KEEPALIVE:
		return "KEEPALIVE:" + Itoa(int(e.Timeout))
	case *dns.EDNS0_PADDING:
		return "PADDING:" + Hx(e.Padding)
	case *dns.EDNS0_EDE:
		return "EDE:" + Itoa(int(e.InfoCode)) + ":" + Hs(e.ExtraText)
	case *dns.EDNS0_REPORTING:
		return "REPORTING:" + Hs(e.AgentDomain)
	case *dns.EDNS0_ZONEVERSION:
		return "ZONEVERSION:" + Itoa(int(e.LabelCount)) + ":" + Itoa(int(e.Type)) + ":" + Hs(e.Version)
	case *dns.EDNS0_LOCAL:
		return "LOCAL:" + Itoa(int(e.Code)) + ":" + Hx(e.Data)
	}
	return "unknown"
}

func ipList(l []net.IP) string {
	b := make([][]byte, len(l))
	for i, e := range l {
		b[i] = e
	}
	return xlist(b)
}

func encSVCB(kv dns.SVCBKeyValue) string {
	switch e := kv.(type) {
	case *dns.SVCBMandatory:
		s := make([]string, len(e.Code))
		for i, c := range e.Code {
			s[i] = Itoa(int(c))
		}
		return "MANDATORY:" + strings.Join(s, ",")
	case *dns.SVCBAlpn:
		b := make([][]byte, len(e.Alpn))
		for i, a := range e.Alpn {
			b[i] = []byte(a)
		}
		return "ALPN:" + xlist(b)
	case *dns.SVCBNoDefaultAlpn:
		return "NODEFAULTALPN"
	case *dns.SVCBPort:
		return "PORT:" + Itoa(int(e.Port))
	case *dns.SVCBIPv4Hint:
		return "IPV4HINT:" + ipList(e.Hint)
	case *dns.SVCBECHConfig:
		return "ECH:" + Hx(e.ECH)
	case *dns.SVCBIPv6Hint:
		return "IPV6HINT:" + ipList(e.Hint)
	case *dns.SVCBDoHPath:
		return "DOHPATH:" + Hs(e.Template)
	case *dns.SVCBOhttp:
		return "OHTTP"
	case *dns.SVCBLocal:
		return "SLOCAL:" + Itoa(int(e.KeyCode)) + ":" + Hx(e.Data)
	}
	return "unknown"
}

// ---- generators: boundary-biased fields, inconsistent on purpose ----
func pickInt(r *Rng, xs ...int) int { return xs[r.Intn(len(xs))] }

func genIP(r *Rng) net.IP {
	switch r.Intn(8) {
	case 0:
		return nil
	case 1:
		return net.IP(r.Bytes(pickInt(r, 0, 1, 3, 5, 12, 15, 17, 32)))
	case 2, 3:
		return net.IP(r.Bytes(4))
	case 4: // v4-in-v6
		return net.IP(r.Bytes(4)).To16()
	case 5: // nearly the v4-in-v6 prefix
		ip := net.IP(r.Bytes(4)).To16()
		ip[r.Intn(12)] ^= byte(1 << uint(r.Intn(8)))
		return ip
	default:
		ip := net.IP(r.Bytes(16))
		if r.Bool() {
			ip[0] = 0x20
		}
		return ip
	}
}

func genHexText(r *Rng) string {
	s := hex.EncodeToString(r.Bytes(pickInt(r, 0, 1, 2, 8, 16, 24, 40)))
	switch r.Intn(8) {
	case 0: // odd length
		if len(s) > 0 {
			s = s[1:]
		} else {
			s = "a"
		}
	case 1: // a non-hex digit somewhere
		b := []byte(s + "00")
		b[r.Intn(len(b))] = "gG/:@`xz -\x00\xff"[r.Intn(12)]
		s = string(b)
	case 2: // odd AND bad last digit
		s += "q"
	case 3:
		s = strings.ToUpper(s)
	case 4: // bad digit before an odd tail
		s = "0z" + s + "1"
	}
	return s
}

func genText(r *Rng) string {
	switch r.Intn(5) {
	case 0:
		return ""
	case 1:
		return string(r.Bytes(pickInt(r, 1, 2, 255, 256, 300)))
	default:
		return string(r.Bytes(r.Intn(20)))
	}
}

func genAgent(r *Rng, pool *NamePool) string {
	switch r.Intn(8) {
	case 0:
		return ""
	case 1:
		return "."
	case 2:
		return "agent.example" // not fully qualified: Fqdn adds the dot
	case 3:
		return pool.LongName(pickInt(r, 250, 253, 254, 255, 256, 300))
	case 4:
		return `a\.b.c\\d.e\046f.zone.`
	case 5:
		return "a..b."
	case 6:
		return strings.Repeat("l", pickInt(r, 63, 64)) + ".x."
	default:
		return pool.Name()
	}
}

func genOptValue(r *Rng, pool *NamePool, kind int) dns.EDNS0 {
	switch kind {
	case 0:
		return &dns.EDNS0_LLQ{Code: dns.EDNS0LLQ, Version: uint16(pickInt(r, 0, 1, 65535)), Opcode: uint16(r.Next()), Error: uint16(r.Next()), Id: []uint64{0, 1, 1 << 32, ^uint64(0), r.Next()}[r.Intn(5)], LeaseLife: uint32(r.Next())}
	case 1:
		return &dns.EDNS0_UL{Code: dns.EDNS0UL, Lease: uint32(r.Next()), KeyLease: []uint32{0, 0, 1, 0xffffffff, uint32(r.Next())}[r.Intn(5)]}
	case 2:
		return &dns.EDNS0_NSID{Code: dns.EDNS0NSID, Nsid: genHexText(r)}
	case 3:
		return &dns.EDNS0_ESU{Code: dns.EDNS0ESU, Uri: genText(r)}
	case 4:
		return &dns.EDNS0_DAU{Code: dns.EDNS0DAU, AlgCode: r.Bytes(r.Intn(6))}
	case 5:
		return &dns.EDNS0_DHU{Code: dns.EDNS0DHU, AlgCode: r.Bytes(r.Intn(6))}
	case 6:
		return &dns.EDNS0_N3U{Code: dns.EDNS0N3U, AlgCode: r.Bytes(r.Intn(6))}
	case 7:
		fam := uint16(pickInt(r, 0, 1, 1, 1, 2, 2, 2, 3, 256, 65535))
		mask := uint8(pickInt(r, 0, 0, 1, 7, 8, 9, 24, 31, 32, 33, 56, 64, 127, 128, 129, 248, 249, 255, r.Intn(256)))
		if r.Intn(3) > 0 { // nearly valid: the family's own netmask range, addresses of both forms
			fam = uint16(1 + r.Intn(2))
			var ip net.IP
			if fam == 1 {
				mask = uint8(pickInt(r, 0, 1, 7, 8, 9, 23, 24, 25, 31, 32, 32, 33))
				ip = [](net.IP){net.IP(r.Bytes(4)), net.IP(r.Bytes(4)).To16(), net.IP(r.Bytes(4)).To16(), genIP(r)}[r.Intn(4)]
			} else {
				mask = uint8(pickInt(r, 0, 1, 8, 9, 48, 56, 63, 64, 65, 96, 97, 127, 128, 128, 129))
				ip = [](net.IP){net.IP(r.Bytes(16)), net.IP(r.Bytes(16)), net.IP(r.Bytes(4)).To16(), genIP(r)}[r.Intn(4)]
			}
			return &dns.EDNS0_SUBNET{Code: dns.EDNS0SUBNET, Family: fam, SourceNetmask: mask, SourceScope: uint8(pickInt(r, 0, int(mask), 255)), Address: ip}
		}
		return &dns.EDNS0_SUBNET{Code: dns.EDNS0SUBNET, Family: fam, SourceNetmask: mask, SourceScope: uint8(pickInt(r, 0, 24, 255, r.Intn(256))), Address: genIP(r)}
	case 8:
		return &dns.EDNS0_EXPIRE{Code: dns.EDNS0EXPIRE, Expire: uint32(pickInt(r, 0, 1, 1<<31)) + uint32(r.Intn(3)), Empty: r.Intn(3) == 0}
	case 9:
		return &dns.EDNS0_COOKIE{Code: dns.EDNS0COOKIE, Cookie: genHexText(r)}
	case 10:
		return &dns.EDNS0_TCP_KEEPALIVE{Code: dns.EDNS0TCPKEEPALIVE, Timeout: uint16(pickInt(r, 0, 0, 1, 255, 256, 65535)), Length: uint16(r.Intn(3))}
	case 11:
		return &dns.EDNS0_PADDING{Padding: r.Bytes(pickInt(r, 0, 1, 31, 468))}
	case 12:
		return &dns.EDNS0_EDE{InfoCode: uint16(pickInt(r, 0, 18, 65535)), ExtraText: genText(r)}
	case 13:
		return &dns.EDNS0_REPORTING{Code: dns.EDNS0REPORTING, AgentDomain: genAgent(r, pool)}
	case 14:
		return &dns.EDNS0_ZONEVERSION{Code: dns.EDNS0ZONEVERSION, LabelCount: uint8(r.Intn(256)), Type: uint8(pickInt(r, 0, 1, 255)), Version: genText(r)}
	default:
		var d []byte
		if r.Intn(4) > 0 {
			d = r.Bytes(pickInt(r, 0, 1, 30, 300))
		}
		return &dns.EDNS0_LOCAL{Code: uint16(pickInt(r, 0, 3, 8, 20, 65001, 65534, 65535)), Data: d}
	}
}

func genAlpnID(r *Rng) string {
	switch r.Intn(8) {
	case 0:
		return ""
	case 1:
		return strings.Repeat("a", 255)
	case 2:
		return strings.Repeat("b", 256)
	case 3:
		return string(r.Bytes(1 + r.Intn(4)))
	default:
		return []string{"h2", "h3", "http/1.1", "a,b", `a\b`}[r.Intn(5)]
	}
}

func genSVCBValue(r *Rng, kind int) dns.SVCBKeyValue {
	switch kind {
	case 0:
		n := pickInt(r, 0, 1, 2, 3, 6)
		c := make([]dns.SVCBKey, n)
		for i := range c {
			c[i] = dns.SVCBKey(pickInt(r, 0, 1, 1, 3, 4, 6, 7, 255, 256, 65280, 65534, 65535))
		}
		if r.Intn(4) == 0 {
			c = nil
		}
		return &dns.SVCBMandatory{Code: c}
	case 1:
		n := pickInt(r, 0, 1, 1, 2, 3, 5)
		a := make([]string, n)
		for i := range a {
			a[i] = genAlpnID(r)
		}
		return &dns.SVCBAlpn{Alpn: a}
	case 2:
		return &dns.SVCBNoDefaultAlpn{}
	case 3:
		return &dns.SVCBPort{Port: uint16(pickInt(r, 0, 1, 255, 256, 443, 65535))}
	case 4, 6:
		n := pickInt(r, 0, 1, 1, 2, 3)
		h := make([]net.IP, n)
		for i := range h {
			switch {
			case kind == 4 && r.Intn(3) > 0:
				h[i] = net.IP(r.Bytes(4))
				if r.Bool() {
					h[i] = h[i].To16()
				}
			case kind == 6 && r.Intn(3) > 0:
				h[i] = net.IP(r.Bytes(16))
				h[i][0] = 0x20
			default:
				h[i] = genIP(r)
			}
		}
		if kind == 4 {
			return &dns.SVCBIPv4Hint{Hint: h}
		}
		return &dns.SVCBIPv6Hint{Hint: h}
	case 5:
		return &dns.SVCBECHConfig{ECH: r.Bytes(pickInt(r, 0, 1, 2, 64, 300))}
	case 7:
		return &dns.SVCBDoHPath{Template: []string{"", "/dns-query{?dns}", genText(r)}[r.Intn(3)]}
	case 8:
		return &dns.SVCBOhttp{}
	default:
		var d []byte
		if r.Intn(4) > 0 {
			d = r.Bytes(pickInt(r, 0, 1, 30, 300))
		}
		return &dns.SVCBLocal{KeyCode: dns.SVCBKey(pickInt(r, 9, 100, 65280, 65534, 65535, 0, 1)), Data: d}
	}
}

func runOptVals(r *Rng, tier string) {
	per := 14
	if tier == "thorough" {
		per = 400
	}
	pool := &NamePool{R: r}
	for kind := 0; kind < 16; kind++ {
		mult := map[int]int{2: 2, 7: 5, 9: 2, 13: 2}[kind] // hex texts, SUBNET, agent domains have the most branches
		if mult == 0 {
			mult = 1
		}
		for i := 0; i < per*mult; i++ {
			o := genOptValue(r, pool, kind)
			enc := encOpt(o)
			var b []byte
			var err error
			out := Protect(func() string {
				b, err = dns.VerifOptPack(o)
				l := optLen(o)
				if err != nil {
					st["optval_pack_err_"+optErrClass(err)]++
					return "err:" + optErrClass(err) + ";" + Itoa(l)
				}
				st["optval_pack_ok"]++
				if l < len(b) {
					Viol("C08/option-len-underestimates/"+strings.SplitN(enc, ":", 2)[0], "OPT.len adds "+Itoa(l)+" for an option whose pack() returns "+Itoa(len(b))+" octets", map[string]string{"optval": enc})
				}
				if l != len(b) {
					st["optval_len_not_exact"]++
				}
				return "ok:" + Hx(b) + ";" + Itoa(l)
			})
			Emit("optval", []string{enc}, out)
			st["optval_len_ge_pack_checked"]++
		}
	}
	for kind := 0; kind < 10; kind++ {
		mult := map[int]int{1: 2, 4: 2, 6: 2}[kind]
		if mult == 0 {
			mult = 1
		}
		for i := 0; i < per*mult; i++ {
			kv := genSVCBValue(r, kind)
			enc := encSVCB(kv)
			out := Protect(func() string {
				b, err := dns.VerifSVCBPack(kv)
				l := dns.VerifSVCBLen(kv)
				if l2 := svcbLenViaRR(kv); l2 != l {
					Viol("C08/svcb-len-not-the-value-len", "SVCB.len adds "+Itoa(l2)+", the value's len() is "+Itoa(l), map[string]string{"svcbval": enc})
				}
				if err != nil {
					st["svcbval_pack_err_"+optErrClass(err)]++
					return "err:" + optErrClass(err) + ";" + Itoa(l)
				}
				st["svcbval_pack_ok"]++
				if l < len(b) {
					Viol("C08/svcb-value-len-underestimates/"+strings.SplitN(enc, ":", 2)[0], "len()="+Itoa(l)+" < len(pack())="+Itoa(len(b)), map[string]string{"svcbval": enc})
				}
				if l != len(b) {
					st["svcbval_len_not_exact"]++
				}
				return "ok:" + Hx(b) + ";" + Itoa(l)
			})
			Emit("svcbval", []string{enc}, out)
			st["svcbval_len_ge_pack_checked"]++
		}
	}
}
