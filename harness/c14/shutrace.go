package main

// C14, messages the server receives WHILE SHUTDOWN IS BEGINNING.
//
// "For every datagram or stream message a server receives, the handler is invoked exactly once with
// the decoded request if the message passes the accept policy and decodes, and not at all otherwise;
// every message that does not reach the handler was refused or ignored by the policy or is reported
// to the invalid-message callback" - quantified over inputs AND schedules. Every serve-loop run of
// this harness so far delivered its messages to an idle, fully started server and called Shutdown
// only after the last of them had been dealt with (finishServe), so the one schedule in which the
// admission logic shares state with something else - the `started` flag that Shutdown clears and
// that the read loops test around every read - was never taken: a message that the transport hands
// to the server in the window between Shutdown clearing the flag and the read loop noticing it. A
// read that succeeds in that window has received a message; the property makes no exception for it.
//
// The class, forced without timing: the scripted PacketConn / stream Conn holds the read call that
// is about to return the target message until it has SEEN Shutdown's effect on the transport (a read
// deadline in the past, which ShutdownContext sets inside its lock region right after clearing
// `started`), and only then returns the octets, successfully - as a kernel read that had already
// completed would. 0..2 ordinary queries are served before on the same socket / connection (first
// and later iterations of the loop). Target messages: every admission class (a sample of
// genMessages: valid queries, EDNS, NOTIFY, over-populated, two questions, other opcodes, responses,
// truncations, lying counts, mutations, pointer loops, short strings) under the default policy and
// the four constant ones, over UDP (serveUDP) and TCP (serveTCPConn).
//
// Oracle: serveOracle, unchanged - handler exactly once iff the message passes the policy and
// decodes, else refused / ignored by the policy or reported to MsgInvalidFunc once, the FORMERR /
// NOTIMP reply written - evaluated when Shutdown and the serve call have returned. Each run is
// also a `serve` model case (the model's outcome does not depend on when the message arrives).
// A wait that expires is infrastructure (`infra_timeout`), never a verdict.

import (
	"encoding/binary"
	"net"
	"sync"
	"sync/atomic"
	"time"

	"github.com/miekg/dns"
	. "verif/harness/common"
	"verif/harness/netfake"
)

// sdPacketConn tells when Shutdown has set the read deadline in the past.
type sdPacketConn struct {
	*netfake.PacketConn
	once sync.Once
	past chan struct{}
}

func (p *sdPacketConn) SetReadDeadline(t time.Time) error {
	if !t.IsZero() && t.Before(time.Now()) {
		p.once.Do(func() { close(p.past) })
	}
	return p.PacketConn.SetReadDeadline(t)
}
func (p *sdPacketConn) SetDeadline(t time.Time) error { return p.SetReadDeadline(t) }

// sdConn: a scripted stream whose Read call at octet offset holdAt (the first octet of the target
// frame) waits for the past deadline; the deadline itself is applied to the script only when the
// whole frame has been read (the frame was in the socket buffer before Shutdown began).
type sdConn struct {
	*netfake.Conn
	mu       sync.Mutex
	read     int
	holdAt   int
	end      int
	heldDone bool
	held     chan struct{}
	once     sync.Once
	past     chan struct{}
	pending  *time.Time
	infra    *atomic.Bool
}

func (c *sdConn) Read(b []byte) (int, error) {
	c.mu.Lock()
	hold := c.read == c.holdAt && !c.heldDone
	if hold {
		c.heldDone = true
	}
	c.mu.Unlock()
	if hold {
		close(c.held)
		if !netfake.WaitChan(c.past, infraWait) {
			c.infra.Store(true)
		}
	}
	n, err := c.Conn.Read(b)
	c.mu.Lock()
	c.read += n
	var apply *time.Time
	if c.read >= c.end && c.pending != nil {
		apply, c.pending = c.pending, nil
	}
	c.mu.Unlock()
	if apply != nil {
		c.Conn.SetReadDeadline(*apply)
	}
	return n, err
}

func (c *sdConn) SetReadDeadline(t time.Time) error {
	if !t.IsZero() && t.Before(time.Now()) {
		c.once.Do(func() { close(c.past) })
		c.mu.Lock()
		if c.read < c.end {
			c.pending = &t
			c.mu.Unlock()
			return nil
		}
		c.mu.Unlock()
	}
	return c.Conn.SetReadDeadline(t)
}
func (c *sdConn) SetDeadline(t time.Time) error { return c.SetReadDeadline(t) }

type shutIn struct {
	Transport string `json:"transport"`
	Policy    string `json:"policy"`
	Before    int    `json:"queries_served_before_on_the_same_socket"`
	Msg       string `json:"message_received_while_shutdown_begins"`
	Events    string `json:"events"`
	Note      string `json:"schedule"`
}

const shutNote = "the read that returns this message completes after ShutdownContext has cleared `started` and set the read deadline in the past (still inside its lock region)"

func shutPre(k int) []byte {
	q := new(dns.Msg)
	q.SetQuestion("before.shutdown.test.", dns.TypeA)
	q.Id = uint16(0x7e00 + k)
	return mustPack(q)
}

// serveDuringShutdown runs the real serve loop so that m is received while Shutdown begins; the
// events of m (and only of m) go to rec.
func serveDuringShutdown(tr, pol string, pre int, m []byte, rec *recorder) (ok bool) {
	if !decoderSafe(tr, pol, m) {
		return false
	}
	var infra, armed atomic.Bool
	srv := newServer(pol, rec)
	done := make(chan error, 1)
	held := make(chan struct{})
	target := netfake.Addr{N: pre}
	if tr == "udp" {
		var ms [][]byte
		for k := 0; k < pre; k++ {
			ms = append(ms, shutPre(k))
		}
		ms = append(ms, m)
		pc := &sdPacketConn{PacketConn: netfake.NewPacketConn(ms, nil), past: make(chan struct{})}
		pc.OnWrite = func(to net.Addr, b []byte) {
			if to == net.Addr(target) {
				rec.write(b, false)
			}
		}
		pc.Hold = func(k int) {
			if k == pre {
				armed.Store(true)
				close(held)
				if !netfake.WaitChan(pc.past, infraWait) {
					infra.Store(true)
				}
			}
		}
		srv.Handler = dns.HandlerFunc(func(w dns.ResponseWriter, req *dns.Msg) {
			if w.RemoteAddr() == net.Addr(target) {
				rec.handler(w, req)
				return
			}
			r := new(dns.Msg)
			r.SetReply(req)
			w.WriteMsg(r)
		})
		srv.PacketConn = pc
	} else {
		var chunks [][]byte
		off := 0
		frame := func(b []byte) {
			f := binary.BigEndian.AppendUint16(nil, uint16(len(b)))
			f = append(f, b...)
			chunks = append(chunks, f)
			off += len(f)
		}
		for k := 0; k < pre; k++ {
			frame(shutPre(k))
		}
		holdAt := off
		frame(m)
		c := &sdConn{Conn: netfake.NewConn(chunks), holdAt: holdAt, end: off, held: held, past: make(chan struct{}), infra: &infra}
		c.OnWrite = func(b []byte) {
			c.mu.Lock()
			mine := c.heldDone
			c.mu.Unlock()
			if mine {
				rec.write(b, true)
			}
		}
		srv.Handler = dns.HandlerFunc(func(w dns.ResponseWriter, req *dns.Msg) {
			c.mu.Lock()
			mine := c.heldDone
			c.mu.Unlock()
			if mine {
				rec.handler(w, req)
				return
			}
			r := new(dns.Msg)
			r.SetReply(req)
			w.WriteMsg(r)
		})
		srv.Listener = netfake.NewListener(c)
	}
	go func() { done <- srv.ActivateAndServe() }()
	if !netfake.WaitChan(held, infraWait) {
		// not reached: let the server go
		finishServe(srv, done)
		return false
	}
	if !finishServe(srv, done) {
		return false
	}
	return !infra.Load()
}

func runShutdownWindow(r *Rng, tier string) {
	n := 14
	if tier == "thorough" {
		n = 150
	}
	q := baseQuery(r)
	e := baseQuery(r)
	e.SetEdns0(1232, true)
	resp := baseQuery(r)
	resp.Response = true
	upd := baseQuery(r)
	upd.Opcode = dns.OpcodeUpdate
	two := baseQuery(r)
	two.Question = append(two.Question, dns.Question{Name: randName(r), Qtype: 1, Qclass: 1})
	full := mustPack(q)
	msgs := [][]byte{full, mustPack(e), mustPack(resp), mustPack(upd), mustPack(two), {}, full[:5], full[:11], full[:12], full[:len(full)-3]}
	for _, m := range genMessages(r, n) {
		if len(m) <= 300 {
			msgs = append(msgs, m)
		}
	}
	pols := []string{"default", "accept", "reject", "ignore", "notimp"}
	i := 0
	run := func(tr, pol string, pre int, m []byte) {
		rec := &recorder{in: m}
		ok := false
		if Protect(func() string { ok = serveDuringShutdown(tr, pol, pre, m, rec); return "" }) == "panic" {
			Viol("C14/Serve/panic", "server panicked", serveIn{tr, pol, Hx(m), ""})
			return
		}
		if !ok {
			stat["infra_timeout"]++
			stat["shutdown_window_no_verdict"]++
			return
		}
		stat["shutdown_window_"+tr+"_checked"]++
		out := modelEvents(rec.ev)
		serveOracleIn(tr, pol, m, rec.ev, rec, "serve-loop, message received while Shutdown begins",
			shutIn{tr, pol, pre, Hx(m), out, shutNote})
		if i%2 == 0 {
			unp, _, _ := unpackOracle(m)
			Emit("serve", []string{tr, pol, Hx(m), unp}, out)
			serveEmitted++
			stat["shutdown_window_cases"]++
		}
	}
	for _, m := range msgs {
		// directed messages: every transport; sampled ones alternate
		for t, tr := range []string{"udp", "tcp"} {
			if i >= 10 && (i+t)%2 == 1 && len(msgs) > 120 && tier != "thorough" {
				continue
			}
			run(tr, "default", i%3, m)
			if i%3 == 0 || i < 10 {
				run(tr, pols[1+(i/3+t)%4], (i+1)%3, m)
			}
		}
		i++
	}
}
