(* Spec/RfcXfr.v — what RFC 5936 (AXFR) and RFC 1995 (IXFR) say a transfer
   response is, over the FLATTENED record stream (the concatenation of the
   answer sections of all response messages), written independently of the
   loops in xfr.go.  Definitions only. *)
From Dns Require Export Model.Xfr.
Open Scope N_scope.

Definition nosoa (l : list rr) : Prop := Forall (fun r => r_soa r = false) l.

(* a way of cutting a record stream into non-empty envelopes *)
Definition is_split (envs : list (list rr)) (stream : list rr) : Prop :=
  Forall (fun e => e <> []) envs /\ concat envs = stream.

(* RFC 5936 2.2: the zone's SOA, every other record of the zone (a zone has one
   SOA only), the SOA again.  The closing SOA is the last record transmitted.
   (The RFC has soa' = soa; xfr.go does not compare them, the theorems hold
   for any closing SOA.) *)
Definition axfr_stream (soa : rr) (body : list rr) (soa' : rr) : list rr := soa :: body ++ [soa'].
Definition axfr_wf (soa : rr) (body : list rr) (soa' : rr) : Prop :=
  r_soa soa = true /\ r_soa soa' = true /\ nosoa body.

(* RFC 1995 4: one difference sequence = SOA of the old version, deleted
   records, SOA of the new version, added records *)
Record diff := mkDiff { d_old : rr; d_dels : list rr; d_new : rr; d_adds : list rr }.
Definition flat_diff (d : diff) : list rr := d_old d :: d_dels d ++ d_new d :: d_adds d.
Definition flat_diffs (ds : list diff) : list rr := concat (map flat_diff ds).
Definition diff_shape (d : diff) : Prop :=
  r_soa (d_old d) = true /\ r_soa (d_new d) = true /\ nosoa (d_dels d) /\ nosoa (d_adds d).

(* what the termination rule needs of the sequences leading to version [cur]:
   only the last one produces serial [cur], no old version has it *)
Inductive wf_diffs (cur : N) : list diff -> Prop :=
| wf_last d : diff_shape d -> r_serial (d_old d) <> cur -> r_serial (d_new d) = cur ->
              wf_diffs cur [d]
| wf_cons d ds : diff_shape d -> r_serial (d_old d) <> cur -> r_serial (d_new d) <> cur ->
                 wf_diffs cur ds -> wf_diffs cur (d :: ds).

(* RFC 1995 4 as written: the sequences are ordered oldest first, each starts
   at the version the previous one produced, versions increase, the last one
   produces the current version *)
Inductive rfc1995_chain : N -> N -> list diff -> Prop :=
| ch_last from cur d : diff_shape d -> r_serial (d_old d) = from -> r_serial (d_new d) = cur ->
                       from < cur -> rfc1995_chain from cur [d]
| ch_cons from mid cur d ds : diff_shape d -> r_serial (d_old d) = from -> r_serial (d_new d) = mid ->
                       from < mid -> rfc1995_chain mid cur ds -> rfc1995_chain from cur (d :: ds).

(* the whole incremental response: current SOA, the sequences, current SOA *)
Definition ixfr_stream (soa : rr) (ds : list diff) (soa' : rr) : list rr :=
  soa :: flat_diffs ds ++ [soa'].
Definition ixfr_wf (cur : N) (soa : rr) (ds : list diff) (soa' : rr) : Prop :=
  r_soa soa = true /\ r_serial soa = cur /\ r_soa soa' = true /\ r_serial soa' = cur /\
  wf_diffs cur ds.
