(* Model/Tsig.v — tsig.go on octet strings: tsigBuffer (the RFC 8945 4.3 digest
   input), stripTsig, tsigVerify, the HMAC providers, TsigGenerateWithProvider,
   and the envelope chain of xfr.go.  Definitions only.

   Names are lists of wire labels (what UnpackDomainName / PackDomainName
   convert the presentation strings of the Go structs from and to); MAC,
   request MAC and other-data are octets (the Go structs hold them as hex).
   HMAC itself, the key store and the RDATA decoders of the other RR types are
   Section variables: the theorems hold for every instance. *)
From Dns Require Export Model.Wire.
Open Scope N_scope.

(* a TSIG resource record: owner, class, TTL and RDATA (type is always 250) *)
Record tsig := { k_name : list label; k_class : N; k_ttl : N; k_rd : tsigrd }.
Definition tsig0 : tsig := Build_tsig [] 0 0 tsigrd0.   (* Go's new(TSIG) *)
Definition tsig_of_rr (r : rrv) : tsig := Build_tsig (rv_name r) (rv_class r) (rv_ttl r) (rv_tsig r).

Definition k_alg t := t_alg (k_rd t).
Definition k_time t := t_time (k_rd t).
Definition k_fudge t := t_fudge (k_rd t).
Definition k_mac t := t_mac (k_rd t).
Definition k_origid t := t_origid (k_rd t).
Definition k_error t := t_error (k_rd t).
Definition k_otherlen t := t_otherlen (k_rd t).
Definition k_other t := t_other (k_rd t).

Definition set_time_fudge (t : tsig) (time fudge : N) : tsig :=
  let r := k_rd t in
  Build_tsig (k_name t) (k_class t) (k_ttl t)
    (Build_tsigrd (t_alg r) time fudge (t_macsize r) (t_mac r) (t_origid r) (t_error r)
                  (t_otherlen r) (t_other r)).
Definition set_time_mac (t : tsig) (time : N) (mac : bytes) : tsig :=
  let r := k_rd t in
  Build_tsig (k_name t) (k_class t) (k_ttl t)
    (Build_tsigrd (t_alg r) time (t_fudge r) (lenN mac mod 65536) mac (t_origid r) (t_error r)
                  (t_otherlen r) (t_other r)).

(* CanonicalName on a label list: A-Z to a-z *)
Definition canon (ls : list label) : list label := map lower_bytes ls.

(* ---------- algorithms (tsigHMACProvider.Generate switch) ---------- *)
Inductive halg := HSha1 | HSha224 | HSha256 | HSha384 | HSha512.
Definition halg_id (a : halg) : N :=
  match a with HSha1 => 1 | HSha224 => 224 | HSha256 => 256 | HSha384 => 384 | HSha512 => 512 end.
Definition alg_names : list (bytes * halg) :=
  [ (bytes_of_string "hmac-sha1", HSha1); (bytes_of_string "hmac-sha224", HSha224);
    (bytes_of_string "hmac-sha256", HSha256); (bytes_of_string "hmac-sha384", HSha384);
    (bytes_of_string "hmac-sha512", HSha512) ].
Fixpoint assoc_bytes {A} (k : bytes) (l : list (bytes * A)) : option A :=
  match l with
  | [] => None
  | (k', v) :: r => if bytes_eqb k k' then Some v else assoc_bytes k r
  end.
(* hmac-md5.sig-alg.reg.int. and everything else: ErrKeyAlg *)
Definition alg_of (ls : list label) : option halg :=
  match canon ls with [l] => assoc_bytes l alg_names | _ => None end.

(* ---------- digest input (tsigBuffer) ---------- *)
Definition default_msg_size : N := 4096.
Definition ClassANY : N := 255.
Definition default_fudge : N := 300.

(* macWireFmt: the request MAC with its 16-bit length.  The Go code packs it
   into a buffer of len(hex string) = 2n octets, which is too small for n = 1. *)
Definition mac_part (rm : bytes) : res bytes :=
  if lenN rm =? 0 then Ok []
  else if 2 * lenN rm <? 2 + lenN rm then Err "overflow"
  else Ok (u16 (lenN rm) ++ rm).

(* PackDomainName of a label list (names longer than 255 octets are outside the
   modelled domain: property C03) *)
Definition pack_name (ls : list label) : res bytes :=
  if valid_wire ls then Ok (wire_name ls) else Err "rdata".

(* timerWireFmt *)
Definition timer_vars (t : tsig) : bytes := u48 (k_time t) ++ u16 (k_fudge t).
(* tsigWireFmt: NAME CLASS TTL ALGORITHM TIME FUDGE ERROR OTHERLEN OTHERDATA;
   the class is the one the record carries (RFC 8945 4.3.3) *)
Definition tsig_vars (t : tsig) : res bytes :=
  do n <- pack_name (canon (k_name t));
  do a <- pack_name (canon (k_alg t));
  let v := n ++ u16 (k_class t) ++ u32 (k_ttl t) ++ a ++ u48 (k_time t) ++ u16 (k_fudge t) ++
           u16 (k_error t) ++ u16 (k_otherlen t) ++ k_other t in
  if default_msg_size <? lenN v then Err "overflow" else Ok v.

(* tsigBuffer(msgbuf, rr, requestMAC, timersOnly); [wall] is time.Now().
   Returns the digest input, the TSIG with the defaults filled in (Go mutates
   rr), and msgbuf with the ID replaced (Go mutates msgbuf). *)
Definition tsig_buffer (msgbuf : bytes) (t : tsig) (rm : bytes) (timers : bool) (wall : N)
  : res (bytes * tsig * bytes) :=
  let t' := set_time_fudge t (if k_time t =? 0 then wall else k_time t)
                             (if k_fudge t =? 0 then default_fudge else k_fudge t) in
  do mb <- put_u16 msgbuf 0 (k_origid t);
  do mp <- mac_part rm;
  do vars <- (if timers then Ok (timer_vars t') else tsig_vars t');
  Ok (mp ++ mb ++ vars, t', mb).

Section WithCrypto.
  Variable hmac : halg -> bytes -> bytes -> bytes.      (* algorithm, raw secret, data *)
  (* the provider's key store: tsigSecretProvider looks the owner name up
     (Err secret when absent), then the secret is base64-decoded (Err b64);
     tsigHMACProvider(secret) is the constant store. *)
  Variable key_of : list label -> res bytes.
  Variable rdata_chk : N -> bytes -> N -> res N.

  (* provider.Generate(buf, rr) *)
  Definition provider_generate (t : tsig) (buf : bytes) : res bytes :=
    do secret <- key_of (k_name t);
    match alg_of (k_alg t) with
    | Some a => Ok (hmac a secret buf)
    | None => Err "keyalg"
    end.
  (* provider.Verify(buf, rr): hmac.Equal on the decoded MAC *)
  Definition provider_verify (t : tsig) (buf : bytes) : res unit :=
    do b <- provider_generate t buf;
    if bytes_eqb b (k_mac t) then Ok tt else Err "sig".

  (* ---------- stripTsig ---------- *)
  (* the additional-section loop: remembers where the last record examined
     starts, stops at the first record of type TSIG *)
  Fixpoint find_tsig (n : nat) (msg : bytes) (off tsigoff : N) : res (N * option rrv) :=
    match n with
    | O => Ok (tsigoff, None)
    | S k =>
      do (rr, o) <- unpack_rr rdata_chk false msg off;
      if rv_type rr =? TypeTSIG then Ok (off, Some rr) else find_tsig k msg o off
    end.

  Definition RcodeNotAuth : N := 9.

  (* result: stripped message, the TSIG, and whether one was found (Go returns
     a zero TSIG and no error when the additional section has none) *)
  Definition strip_tsig (msg : bytes) : res (bytes * tsig * bool) :=
    do (h, off) <- unpack_hdr msg;
    if h_ar h =? 0 then Err "nosig" else
    if h_bits h mod 16 =? RcodeNotAuth then Err "auth" else
    do off <- skip_questions (N.to_nat (h_qd h)) false msg off;
    do off <- skip_rrs rdata_chk (N.to_nat (h_an h)) false msg off;
    do off <- skip_rrs rdata_chk (N.to_nat (h_ns h)) false msg off;
    do (tsigoff, found) <- find_tsig (N.to_nat (h_ar h)) msg off 0;
    match found with
    | Some rr =>
      do ar <- be_at 2 msg 10;
      do msg' <- put_u16 msg 10 ((ar + 65535) mod 65536);
      do s <- slice msg' 0 tsigoff;
      Ok (s, tsig_of_rr rr, true)
    | None =>
      do s <- slice msg 0 tsigoff;
      Ok (s, tsig0, false)
    end.

  (* the fudge test of tsigVerify, uint64 arithmetic (no wrap: the smaller is
     subtracted from the larger) *)
  Definition time_delta (now signed : N) : N := if now <? signed then signed - now else now - signed.

  (* tsigVerify(msg, provider, requestMAC, timersOnly, now) *)
  Definition tsig_verify (msg rm : bytes) (timers : bool) (now wall : N) : res unit :=
    do (s, t, _) <- strip_tsig msg;
    do (buf, t', _) <- tsig_buffer s t rm timers wall;
    do _ <- provider_verify t' buf;
    if k_fudge t' <? time_delta now (k_time t') then Err "time" else Ok tt.

  (* the digest input tsigVerify hands to the provider (for the tie) *)
  Definition verify_digest (msg rm : bytes) (timers : bool) (wall : N) : res bytes :=
    do (s, t, _) <- strip_tsig msg;
    do (buf, _, _) <- tsig_buffer s t rm timers wall;
    Ok buf.

  (* ---------- TsigGenerateWithProvider ---------- *)
  Definition tsig_rdata (r : tsigrd) : bytes :=
    wire_name (t_alg r) ++ u48 (t_time r) ++ u16 (t_fudge r) ++ u16 (t_macsize r) ++ t_mac r ++
    u16 (t_origid r) ++ u16 (t_error r) ++ u16 (t_otherlen r) ++ t_other r.
  Definition tsig_rr_wire (t : tsig) : bytes :=
    wire_name (k_name t) ++ u16 TypeTSIG ++ u16 (k_class t) ++ u32 (k_ttl t) ++
    u16 (lenN (tsig_rdata (k_rd t))) ++ tsig_rdata (k_rd t).
  (* PackRR(t, make(Len(t)), 0, nil, false) *)
  Definition pack_tsig_rr (t : tsig) : res bytes :=
    if valid_wire (k_name t) && valid_wire (k_alg t) then
      if 65535 <? lenN (tsig_rdata (k_rd t)) then Err "rdata" else Ok (tsig_rr_wire t)
    else Err "rdata".

  Definition RcodeBadSig : N := 16.
  Definition RcodeBadKey : N := 17.

  (* [mbuf] is m.Pack() of the message without its stub TSIG, [nextra] the
     number of additional records left, [t] the stub.  Result: the signed
     octets and the MAC. *)
  Definition tsig_generate (mbuf : bytes) (nextra : N) (t : tsig) (rm : bytes) (timers : bool)
             (wall : N) : res (bytes * bytes) :=
    do (buf, t1, mb) <- tsig_buffer mbuf t rm timers wall;
    do (time, mac) <-
       (if (k_error t =? RcodeBadKey) || (k_error t =? RcodeBadSig) then Ok (0, [])
        else do m <- provider_generate t1 buf; Ok (k_time t1, m));
    let t2 := set_time_mac t1 time mac in
    do tb <- pack_tsig_rr t2;
    do out <- put_u16 (mb ++ tb) 10 ((nextra + 1) mod 65536);
    Ok (out, mac).

  (* ---------- vocabulary of the theorems (hdr_wire, wf_body: Model/Wire.v) ---------- *)
  (* a TSIG whose fields fit their wire widths and whose length fields agree
     with the data *)
  Definition wf_tsig (t : tsig) : Prop :=
    valid_wire (k_name t) = true /\ valid_wire (k_alg t) = true /\
    k_class t < 65536 /\ k_ttl t < 4294967296 /\ k_time t < 281474976710656 /\
    k_fudge t < 65536 /\ k_origid t < 65536 /\ k_error t < 65536 /\
    t_macsize (k_rd t) = lenN (k_mac t) /\ lenN (k_mac t) < 65536 /\
    k_otherlen t = lenN (k_other t) /\ lenN (k_other t) < 65536 /\
    lenN (tsig_rdata (k_rd t)) < 65536.

  (* ---------- envelope chains (xfr.go ReadMsg / WriteMsg, client.go) ---------- *)
  (* receiving side: every envelope is verified against the MAC of the one
     before it; the first against the request MAC with full variables *)
  Fixpoint chain_verify (envs : list bytes) (rm : bytes) (timers : bool) (now wall : N) : res unit :=
    match envs with
    | [] => Ok tt
    | m :: r =>
      do _ <- tsig_verify m rm timers now wall;
      do (_, t, _) <- strip_tsig m;
      chain_verify r (k_mac t) true now wall
    end.
  (* sending side *)
  Fixpoint chain_generate (ms : list (bytes * N * tsig)) (rm : bytes) (timers : bool) (wall : N)
    : res (list bytes) :=
    match ms with
    | [] => Ok []
    | (mbuf, nextra, t) :: r =>
      do (out, mac) <- tsig_generate mbuf nextra t rm timers wall;
      do rest <- chain_generate r mac true wall;
      Ok (out :: rest)
    end.
End WithCrypto.
