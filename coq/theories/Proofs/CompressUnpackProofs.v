(* Proofs/CompressUnpackProofs.v — transparency of compression at the level of
   Msg.Unpack: the octets Pack produces with compression and the octets it
   produces without are both accepted by unpack_msg, without error flag, and
   decode to the same header, the same questions and, record by record, to
   records that agree with the packed message field by field (rr_same of C01;
   Hdr.Rdlength necessarily differs, it is the length of the RDATA on the wire). *)
From Dns Require Import Gen.Layouts.
From Dns Require Import Base.ListX Model.Msg Spec.NameSpec Proofs.EscapeProofs Proofs.LabelsProofs
  Proofs.NameWireProofs Proofs.NameRoundtripProofs Proofs.LayoutProofs Proofs.DecodeFieldsProofs
  Proofs.RoundtripFieldProofs Proofs.RoundtripRRProofs
  Proofs.CompressProofs Proofs.CompressFieldsProofs Proofs.CompressMsgProofs Proofs.CompressRoundtripProofs.
From Dns Require Proofs.LenMsgProofs.
From Coq Require Import Lia ZifyN ZifyNat ZifyBool.
Open Scope list_scope.
Open Scope N_scope.

(* ================= the plain invariant along the packer ================= *)
Lemma agree_nil_eq a b : agree [] a b -> a = b.
Proof.
  intros [Hl H]. apply (nth_ext _ _ 0 0); [unfold lenN in Hl; lia|].
  intros n Hn. specialize (H (N.of_nat n)). unfold nthN in H. rewrite Nat2N.id in H.
  apply H; [unfold lenN; lia|intros []].
Qed.

Lemma minv_of_st_inv st : st_inv st -> minv [] st.
Proof.
  intro H. apply st_inv_split in H. destruct H as [Hk Hl]. exists [].
  split; [exact Hk|]. split; [intros i []|].
  intros out' Ha. apply agree_nil_eq in Ha. subst out'. split; [exact Hl|constructor].
Qed.

Lemma st_inv_of_minv T st : minv T st -> st_inv st.
Proof. intro H. destruct (minv_good _ _ H) as [[Hl _] Hk]. apply st_inv_split. now split. Qed.

Lemma step_st_inv st st' new : step st st' new -> st_inv st -> st_inv st'.
Proof. intros Hs Hi. exact (st_inv_of_minv _ _ (minv_step _ _ _ _ (minv_of_st_inv _ Hi) Hs)). Qed.

Lemma pack_rr_st_inv r cap cp st st' :
  st_inv st -> lenN (pn_out st) < cap -> pack_rr r cap cp st = Ok st' -> st_inv st'.
Proof.
  intros Hi Hlt H. assert (Hc : (poff st =? cap) = false) by (unfold poff; lia).
  exact (st_inv_of_minv _ _ (pack_rr_minv _ _ _ _ _ _ (minv_of_st_inv _ Hi) Hc H)).
Qed.

(* ================= questions ================= *)
Definition q_canon (q : question) : Prop :=
  exists ls, q_name q = show_name ls /\ valid_wire ls = true /\ q_type q < 65536 /\ q_class q < 65536.

Lemma cquestion_roundtrip q cap cp st st' :
  q_canon q -> st_inv st -> pack_question q cap cp st = Ok st' ->
  st_inv st' /\ exists b, pn_out st' = pn_out st ++ b /\ 5 <= lenN b /\
    forall post, unpack_question (pn_out st' ++ post) (lenN (pn_out st)) = Ok (q, lenN (pn_out st')).
Proof.
  intros [ls [Hname [Hls [Ht Hc]]]] Hinv H.
  split; [exact (step_st_inv _ _ _ (step_question _ _ _ _ _ H) Hinv)|].
  apply st_inv_split in Hinv. destruct Hinv as [Hk Hl].
  unfold pack_question in H. inv_bind H. rewrite Hname in Ha.
  destruct (cname_roundtrip ls cap cp st a Hls Hk Ha) as [bn [Hbn [Ea [_ [_ Cn]]]]].
  inv_bind H. apply pack_fixed_pemit in Ha0. destruct Ha0 as [-> _].
  apply pack_fixed_pemit in H. destruct H as [-> _].
  assert (Hbn1 : 1 <= lenN bn). { destruct bn; [congruence|]. rewrite lenN_cons. lia. }
  set (out := pn_out st) in *. set (T := u16 (q_type q)). set (C := u16 (q_class q)).
  exists (bn ++ T ++ C). unfold pemit. cbn [pn_out]. rewrite Ea.
  split; [now rewrite <- !app_assoc|].
  split; [rewrite !lenN_app; unfold T, C; cbn [u16 lenN length N.of_nat]; lia|].
  intro post. unfold unpack_question.
  set (msg := (((out ++ bn) ++ T) ++ C) ++ post).
  assert (Emsg : msg = out ++ bn ++ T ++ C ++ post) by (unfold msg; rewrite <- !app_assoc; reflexivity).
  assert (Hlen : lenN msg = lenN out + lenN bn + 4 + lenN post).
  { rewrite Emsg, !lenN_app. unfold T, C. cbn [u16 lenN length N.of_nat]. lia. }
  destruct (Cn out (T ++ C ++ post) eq_refl Hl) as [Hn _]. rewrite <- Emsg in Hn. rewrite Hn.
  rewrite Hlen. bfalse (lenN out + lenN bn =? lenN out + lenN bn + 4 + lenN post).
  rewrite (unpack_fixed_at msg (out ++ bn) T (C ++ post));
    [|rewrite Emsg, <- !app_assoc; reflexivity|now rewrite lenN_app|reflexivity].
  cbn [bind fst snd].
  bfalse (lenN out + lenN bn + 2 =? lenN out + lenN bn + 4 + lenN post).
  rewrite (unpack_fixed_at msg (out ++ bn ++ T) C post);
    [|rewrite Emsg, <- !app_assoc; reflexivity|rewrite !lenN_app; unfold T; cbn [u16 lenN length N.of_nat]; lia|reflexivity].
  cbn [bind fst snd]. unfold T, C. rewrite !be_u16 by assumption.
  f_equal. f_equal.
  - destruct q. cbn in *. now rewrite Hname.
  - rewrite !lenN_app. cbn [u16 lenN length N.of_nat]. lia.
Qed.

Lemma cquestions_roundtrip l : forall cap cp st st' acc,
  Forall q_canon l -> st_inv st -> pack_questions l cap cp st = Ok st' ->
  st_inv st' /\ exists b, pn_out st' = pn_out st ++ b /\ (l <> [] -> 1 <= lenN b) /\
    forall post, unpack_questions (length l) (pn_out st' ++ post) (lenN (pn_out st)) acc =
                 Ok (acc ++ l, lenN (pn_out st')).
Proof.
  induction l as [|q t IH]; intros cap cp st st' acc Hc Hinv H.
  - cbn in H. injection H as <-. split; [exact Hinv|]. exists []. split; [now rewrite app_nil_r|].
    split; [congruence|]. intro post. cbn. now rewrite app_nil_r.
  - inversion Hc as [|? ? Hq Hc']; subst. cbn [pack_questions] in H. inv_bind H.
    destruct (cquestion_roundtrip q cap cp st a Hq Hinv Ha) as [Hinv1 [b1 [E1 [Hb1 Hu1]]]].
    destruct (IH cap cp a st' (acc ++ [q]) Hc' Hinv1 H) as [Hinv2 [b2 [E2 [_ Hu2]]]].
    split; [exact Hinv2|]. exists (b1 ++ b2). split; [now rewrite E2, E1, app_assoc|].
    split; [intros _; rewrite lenN_app; lia|].
    intro post. cbn [length unpack_questions].
    rewrite E2, <- app_assoc, Hu1. cbn [bind fst snd].
    bfalse (lenN (pn_out a) =? lenN (pn_out st)); [rewrite E1, lenN_app; lia|].
    rewrite app_assoc, <- E2, Hu2, <- app_assoc. reflexivity.
Qed.
