(* Corr/C05.v — case runner for the presentation-text model (projected
   observables in the same textual form as harness/c05 prints them). *)
From Dns Require Import Model.Present.
Open Scope N_scope.

Definition hx (b : bytes) : string := hex b.
Definition unhx (s : string) : bytes := unhex s.

(* split a Coq string at a separator character *)
Fixpoint split_str (sep : ascii) (s : string) (cur : string) : list string :=
  match s with
  | EmptyString => [cur]
  | String c r => if Ascii.eqb c sep then cur :: split_str sep r EmptyString
                  else split_str sep r (cur +++ String c EmptyString)
  end.
Definition split_at (sep : ascii) (s : string) : list string := split_str sep s EmptyString.
Definition comma : ascii := ascii_of_N 44.
Definition colon : ascii := ascii_of_N 58.

(* a list of octet strings: each is written as x followed by its hex *)
Definition drop1 (s : string) : string := match s with String _ r => r | EmptyString => EmptyString end.
Definition hex_list (s : string) : list bytes :=
  match s with EmptyString => [] | _ => map (fun e => unhx (drop1 e)) (split_at comma s) end.
Definition dec_list (s : string) : list N :=
  match s with EmptyString => [] | _ => map undec (split_at comma s) end.

Definition show_optN (o : option N) : string := match o with Some n => dec n | None => "none" end.

Definition show_tok (t : tok) : string :=
  match t with
  | TStr s => "S:" +++ hx s
  | TBlank => "B"
  | TQuote => "Q"
  | TNewline => "N"
  | TOwner s => "O:" +++ hx s
  | TRrtype n s => "T:" +++ dec n +++ ":" +++ hx s
  | TClass n s => "C:" +++ dec n +++ ":" +++ hx s
  | TErr m => "E:" +++ string_of_bytes (map (fun b => if b =? 32 then 95 else b) (bytes_of_string m))
  | TUnmodelled _ => "U"
  end.
Definition show_toks (l : list tok) : string := join "|" (map show_tok l).

Definition show_hexes (l : list bytes) : string := join "," (map (fun b => "x" +++ hx b) l).
Definition show_res_simple {A} (f : A -> string) (r : res A) : string :=
  match r with
  | Ok a => "ok:" +++ f a
  | Err _ => "err"
  | Panic => "panic"
  | OutOfFuel => "outoffuel"
  end.

(* rolling checksum of a list of octet strings (each followed by a comma) *)
Definition ck_step (h : N) (b : N) : N := (h * 31 + b + 1) mod 4294967291.
Definition ck_bytes (h : N) (s : bytes) : N := fold_left ck_step s h.
Definition ck_list (l : list bytes) : N := fold_left (fun h s => ck_step (ck_bytes h s) 44) l 7.

Definition range (lo hi : N) : list N := map (fun i => lo + N.of_nat i) (seq 0 (N.to_nat (hi - lo))).

Definition show_pval (v : pval) : string :=
  match v with
  | V_int n => "i:" +++ dec n
  | V_name s => "n:" +++ hx s
  | V_ip4 a => "a:" +++ hx a
  | V_strs l => "s:" +++ show_hexes l
  | V_octet s => "o:" +++ hx s
  | V_word s => "w:" +++ hx s
  | V_types l => "t:" +++ join "," (map dec l)
  | V_sized n s => "z:" +++ dec n +++ ":" +++ hx s
  | V_time now t => "m:" +++ decZ now +++ ":" +++ dec t
  | V_gw gt alg addr host => "g:" +++ dec gt +++ ":" +++ dec alg +++ ":" +++ hx addr +++ ":" +++ hx host
  end.
Definition read_pval (s : string) : pval :=
  match s with
  | String k (String _ body) =>
    let k := N_of_ascii k in
    if k =? 105 then V_int (undec body)
    else if k =? 110 then V_name (unhx body)
    else if k =? 97 then V_ip4 (unhx body)
    else if k =? 115 then V_strs (hex_list body)
    else if k =? 111 then V_octet (unhx body)
    else if k =? 119 then V_word (unhx body)
    else if k =? 122 then
      match split_at colon body with n :: h :: _ => V_sized (undec n) (unhx h) | _ => V_sized 0 [] end
    else if k =? 109 then
      match split_at colon body with n :: t :: _ => V_time (undecZ n) (undec t) | _ => V_time 0%Z 0 end
    else if k =? 103 then
      match split_at colon body with
      | g :: a :: ad :: h :: _ => V_gw (undec g) (undec a) (unhx ad) (unhx h)
      | _ => V_gw 0 0 [] []
      end
    else V_types (dec_list body)
  | _ => V_int 0
  end.
Definition show_pvals (l : list pval) : string := join ";" (map show_pval l).

Definition show_hdr (h : hdr) : string :=
  "name=" +++ hx (h_name h) +++ ";ttl=" +++ dec (h_ttl h) +++ ";class=" +++ dec (h_class h) +++
  ";type=" +++ dec (h_type h).
Definition show_rdata (r : rdata) : string :=
  match r with
  | R_none => "none"
  | R_fields vs => "fields:" +++ show_pvals vs
  | R_generic w => "generic:" +++ hex (unhex (string_of_bytes w))
  | R_unmodelled => "unmodelled"
  end.

Definition show_table (t : list (N * bytes)) : string :=
  join "," (map (fun p => dec (fst p) +++ "=" +++ hx (snd p)) t).

Definition run (fn : string) (args : list string) : string :=
  let a0 := arg args 0 in
  let a1 := arg args 1 in
  if String.eqb fn "nextbyte" then
    let '(b, n) := next_byte (unhx a0) in dec b +++ "," +++ decn n
  else if String.eqb fn "sprinttxt" then hx (sprint_txt (map unhx args))
  else if String.eqb fn "sprintoctet" then hx (sprint_txt_octet (unhx a0))
  else if String.eqb fn "sprintname" then hx (sprint_name (unhx a0))
  else if String.eqb fn "packtxt" then show_res_simple hx (pack_txt_string (unhx a0))
  else if String.eqb fn "packoctet" then hx (unescape (unhx a0))
  else if String.eqb fn "unpackstr" then hx (esc_wire (unhx a0))
  else if String.eqb fn "eso" then
    match escaped_string_offset (unhx a0) (undec a1) with
    | Some i => decZ i
    | None => "err"
    end
  else if String.eqb fn "lex" then
    show_toks (if String.eqb a0 "rdata" then lex_rdata (unhx a1) else lex_line (unhx a1))
  else if String.eqb fn "txtslice" then show_res_simple show_hexes (ending_to_txt_slice (lex_rdata (unhx a0)))
  else if String.eqb fn "endstr" then show_res_simple hx (ending_to_string (lex_rdata (unhx a0)))
  else if String.eqb fn "showtype" then hx (show_type (undec a0))
  else if String.eqb fn "showclass" then hx (show_class (undec a0))
  else if String.eqb fn "showtypes" then dec (ck_list (map show_type (range (undec a0) (undec a1))))
  else if String.eqb fn "showclasses" then dec (ck_list (map show_class (range (undec a0) (undec a1))))
  else if String.eqb fn "typetoint" then show_optN (type_to_int (unhx a0))
  else if String.eqb fn "classtoint" then show_optN (class_to_int (unhx a0))
  else if String.eqb fn "strtottl" then show_optN (string_to_ttl (unhx a0))
  else if String.eqb fn "isname" then showb (is_domain_name (unhx a0))
  else if String.eqb fn "tables" then
    show_table type_table +++ ";" +++ show_table class_table +++ ";" +++ join "," (map dec registered_types)
  else if String.eqb fn "tables2" then show_table cert_table +++ ";" +++ show_table alg_table
  else if String.eqb fn "timetostr" then hx (time_to_string (undecZ a0) (undec a1))
  else if String.eqb fn "strtotime" then show_optN (string_to_time (unhx a0))
  else if String.eqb fn "splitn" then show_hexes (split_n (unhx a0) (N.to_nat (undec a1)))
  else if String.eqb fn "covered" then
    join "," (map dec (filter (fun t => match playout t with Some _ => true | None => false end) registered_types))
  else if String.eqb fn "rr" then
    show_res_simple (fun p => show_hdr (fst p) +++ ";rd=" +++ show_rdata (snd p)) (parse_rr (unhx a0))
  else if String.eqb fn "present" then
    match playout (undec a0) with
    | Some G => hx (present_fields G (map read_pval (tl args)))
    | None => "unmodelled"
    end
  else if String.eqb fn "hdr" then
    hx (present_hdr (mkH (unhx a0) (undec a1) (undec (arg args 2)) (undec (arg args 3))))
  else if String.eqb fn "hdr3597" then
    hx (present_hdr_3597 (mkH (unhx a0) (undec a1) (undec (arg args 2)) (undec (arg args 3))))
  else if String.eqb fn "present3597" then hx (present_3597 (unhx a0))
  else "unknown-fn"%string.
