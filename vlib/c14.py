from .core import Check


class C14(Check):
    prop = "C14"
    props_rel = "Props/C14"
    corr_module = "Corr.C14"
    corr_rel = "Corr/C14"
    model_desc = ("Model/Serve.v: unpackMsgHdr, defaultMsgAcceptFunc, setHdr / header bit packing, SetReply, SetRcode, "
                  "SetRcodeFormatError, handleRefused, serveUDP's short-packet test and serveDNS (accept action switch, "
                  "reject reply construction) modelled line by line, the accept policy and the full message decoder "
                  "being parameters; stream framing of serveTCPConn/readTCP (two-octet length, full reads, "
                  "MaxTCPQueries, stop at the first incomplete frame) as read_frames/serve_stream over the octet "
                  "stream; Model/Mux.v: ServeMux.Handle / HandleRemove / match / ServeDNS over an association "
                  "list, using CanonicalName and NextLabel from Model/Labels.v")
    rule = ("model cases: defaultMsgAcceptFunc on all 16 opcodes x QR x counts {0,1,2,3,65535}^4 (40000 headers in 64 "
            "sweep cases); serveDNS outcome for generated queries (EDNS, NOTIFY, IXFR, over-populated, two questions, "
            "other opcodes, QR), all truncations, lying counts, byte mutations, pointer loops, short and random strings, "
            "over UDP and TCP under the default and four constant policies, plus a sample of the exhaustive header "
            "sweep 16 opcodes x QR x counts {0..3}^4 (all 8192 go through the direct oracle); ServeMux.match and "
            "ServeDNS for generated pattern sets (label suffixes with flipped case, non-boundary text suffixes, escaped "
            "dots and backslashes, root, removal/overwrite) x names x {DS, other}; the case-folding sweep: every octet "
            "value 0..255 in every position class of a name (own label / first, middle, last octet; first, middle, "
            "last label; among letters of either case and among digits), pattern with the octet and question with "
            "octet^0x20, match and ServeDNS, Handle/HandleRemove in the other case, expecting the pattern's handler "
            "exactly when the names are equal under ASCII case folding (letters and boundary octets also as model "
            "cases); reply skeletons on random headers. "
            "Every message runs through the real serveUDP/serveTCPConn loops on scripted conns AND through serveDNS "
            "directly (hook). Stream histories (1..6 messages of every admission class on one connection, messages of "
            "255..4096 octets, 128 messages, incomplete last frame) are delivered through the real "
            "serveTCPConn/readTCP under every segmentation class of the octet stream (at once, octet by octet, cut in "
            "two at every offset, every length prefix cut in two, fixed sizes, random cuts) with the per-message "
            "oracles and one model case (read_frames + serve) per history. Admitted queries malformed INSIDE a record "
            "(consistent framing and RDLENGTH, default policy passes): OPT with every EDNS0 option code x every value "
            "length 0..20 and around the larger layouts x random/zero/ones value x alone/second/first, lying option "
            "lengths, OPT in other sections; SVCB/HTTPS with every parameter key x value length 0..34; one record of "
            "every registered type with a valid RDATA cut at every length, zeros of every length, lying RDLENGTH, "
            "extra octets - each through serveDNS (hook, buffer shaped as readTCP/readUDP shape it) and the real "
            "loops: no panic, handler once iff it decodes, else the invalid callback once and one FORMERR reply. "
            "Datagrams at the receive-buffer size: for the default Server.UDPSize and configured ones (512, 513, 700, "
            "1232, 4096, 65535) messages of UDPSize-2 .. UDPSize+2 octets (EDNS0 padding, TXT, unknown-type record) in "
            "every admission class through the real serveUDP loop on a scripted PacketConn (with and without "
            "DecorateReader; model cases on the octets received) and over real UDP sockets on 127.0.0.1 both as "
            "*net.UDPConn and as plain net.PacketConn (control query + Shutdown instead of timing). Handlers that call "
            "Handle/HandleFunc/HandleRemove on the mux dispatching them (random scripted tables, an independent table "
            "as oracle, each question a muxserve model case), registrations and further requests while a handler is "
            "parked, DefaultServeMux through the package-level functions, the same through serveUDP with Handler = mux; "
            "every call under a 15 s watchdog, a call that does not return is reported with its history. Messages of every "
            "admission class received WHILE Shutdown begins (the scripted transport returns the message only after it has "
            "seen Shutdown's past read deadline, i.e. after `started` was cleared), UDP and TCP, 0..2 queries served "
            "before, same oracles and serve model cases. Requests carrying every EDNS0 option code, every SVCB/HTTPS "
            "parameter key and a record of every registered / unknown type, through serveUDP with every handler parked "
            "while later datagrams (further requests, all-ones / all-zeros fillers) are read into the recycled buffers "
            "(single P, no GC): deep fingerprint of the request equals an independent decoding on entry and is unchanged "
            "at release. A case is non-trivial unless it is an ignored/none outcome; distinct by hash.")
    partial = [
        "the message decoder (Msg.unpack) is a parameter of the serve model: 'decodes' means what the real Unpack "
        "returns (its safety is property C02); the theorems hold for every decoder",
        "'the server never panics' is proved for the model (serve/mux_match are total, no Panic outcome) and observed "
        "on the implementation under recover() for every generated message; Go-level memory safety is not proved",
        "concurrent Handle/HandleRemove/ServeDNS (the RWMutex) is observed at run time (4 writers x 4 readers; handlers "
        "that change their own mux, registrations and requests while a handler is parked - interleavings forced with "
        "channels, liveness judged by a 15 s watchdog), not proved: the model of ServeMux is sequential",
        "segmentation of a stream: the model takes the octet stream (read_frames), so independence of the way the "
        "transport cuts it into reads holds by construction in the model and is observed on the implementation by "
        "delivering every history under the segmentations listed in the rule (scripted net.Conn, one segment per "
        "Read call)",
        "real UDP/TCP sockets: a 10-probe loopback smoke run per transport and the 288 UDPSize-boundary probes (verdicts "
        "only from events counted after Shutdown, reported when they repeat in three sessions) are runtime observation; "
        "the server loops are otherwise driven through scripted net.PacketConn/net.Listener objects",
        "DS routing is proved as the code does it (root if registered, else the registered ancestor with the fewest "
        "labels); with three or more nested registered zones this is not the enclosing parent zone: theorem "
        "ds_closest_parent_refuted, known finding C14/Mux/ds-not-closest-parent (docs/C14.md)",
    ]
    trusted = [
        "octet-level model of strings.Map in CanonicalName is exact on ASCII names (decoded question names are always ASCII)",
        "MsgAcceptAction values outside the four declared constants are outside the model",
        "Opcode values >= 16 set by a caller on a Msg are outside the model of header packing",
    ]
    shard_size = 300

    def nontrivial(self, c):
        return c.get("out") not in ("none", "refused", "")


CHECK = C14()
