package main

// C14, queries the policy admits whose RECORDS are malformed inside.
//
// "For every datagram or stream message a server receives ... the handler is
// invoked exactly once with the decoded request if the message passes the accept
// policy and decodes, and not at all otherwise; every message that does not
// reach the handler ... is reported to the invalid-message callback, and the
// server never panics ... malformed ... queries get FORMERR". The generators of
// main.go damage whole messages (truncations, bit flips, lying counts); what
// they never produce is a query that is perfectly framed -- header, question,
// one or two records with a consistent RDLENGTH, so it passes the default policy
// and every outer bounds check -- while the INSIDE of a record sits on one side
// or the other of an inner bounds check: the value of an EDNS0 option or of a
// SVCB parameter that is a few octets shorter or longer than its fixed layout,
// RDATA that ends in the middle of a field. Those inner checks are made by the
// per-type / per-option decoders the server runs on untrusted octets before any
// handler sees them, one hand-written length test each.
//
// This file sweeps that class through the server paths (serveDNS by the hook,
// then the real serveUDP / serveTCPConn loops):
//   * OPT records carrying every EDNS0 option code (all assigned ones, the
//     unassigned ones between them, local ones) with every value length 0..20
//     and the lengths around the larger fixed layouts (cookies, subnets), value
//     random / zeros / ones, the option alone, after and before another option,
//     and with an option length that lies about the octets present;
//   * SVCB and HTTPS records (answer and additional section) carrying every
//     parameter key with every value length 0..34;
//   * one record of EVERY registered type (and an unknown one) in the answer,
//     authority or additional section, its RDATA being a generated valid RDATA
//     cut at every length, zeros of every length 0..24, and RDLENGTH lying by a
//     few octets either way, alone and followed by another record.
// Oracle (serveOracle, from the property text, for every message on both
// paths): no panic; the handler runs exactly once iff the message decodes; if it
// does not decode the invalid-message callback is called once with the message's
// octets and exactly one FORMERR reply with the request's ID, QR and no records
// is written. A sample of each class is also a model case (Corr/C14.v `serve`).

import (
	"encoding/binary"

	"github.com/miekg/dns"
	. "verif/harness/common"
)

const (
	secAnswer = iota
	secAuthority
	secAdditional
)

// framedQuery: header (RD, one question, one record in section sec, plus a
// second additional record when tail is set), question `rd.example. A IN`, the
// record {owner, typ, class, ttl 0, RDLENGTH = claimed, rd}. owner: the root or a
// pointer to the question name.
func framedQuery(id uint16, sec int, ptrOwner bool, typ, class uint16, rd []byte, claimed int, tail bool) []byte {
	be := binary.BigEndian
	g := make([]byte, 12)
	be.PutUint16(g, id)
	be.PutUint16(g[2:], 0x0100)
	g[5] = 1
	g[7+2*sec] = 1
	if tail {
		g[11]++
	}
	g = append(g, 2, 'r', 'd', 7, 'e', 'x', 'a', 'm', 'p', 'l', 'e', 0, 0, 1, 0, 1)
	if ptrOwner {
		g = append(g, 0xc0, 12)
	} else {
		g = append(g, 0)
	}
	g = be.AppendUint16(g, typ)
	g = be.AppendUint16(g, class)
	g = append(g, 0, 0, 0, 0)
	g = be.AppendUint16(g, uint16(claimed))
	g = append(g, rd...)
	if tail {
		g = append(g, 0xc0, 12, 0, 1, 0, 1, 0, 0, 0, 0, 0, 4, 192, 0, 2, 7)
	}
	return g
}

func tlv(code, claimed int, val []byte) []byte {
	return append([]byte{byte(code >> 8), byte(code), byte(claimed >> 8), byte(claimed)}, val...)
}

func bodyOf(r *Rng, kind, l int) []byte {
	b := make([]byte, l)
	switch kind {
	case 0:
		copy(b, r.Bytes(l))
	case 2:
		for i := range b {
			b[i] = 0xff
		}
	}
	return b
}

func runRdataBounds(r *Rng, tier string) {
	n := 0
	trs := []string{"udp", "tcp"}
	feed := func(m []byte, emit bool, cls string) {
		n++
		stat["rdata_"+cls]++
		serveOne(trs[n&1], "default", m, emit)
		if n%5 == 0 {
			serveOne(trs[(n+1)&1], "accept", m, false)
		}
	}
	thorough := tier == "thorough"

	// ---- EDNS0 options
	var codes []int
	for c := 0; c <= 21; c++ {
		codes = append(codes, c)
	}
	codes = append(codes, 0xFDE9, 0xFFFE, 0xFFFF, 0x4000)
	lens := []int{}
	for l := 0; l <= 20; l++ {
		lens = append(lens, l)
	}
	lens = append(lens, 23, 24, 25, 31, 32, 33, 39, 40, 41, 64)
	nsid := tlv(3, 2, []byte{0xab, 0xcd})
	pad := tlv(12, 3, []byte{0, 0, 0})
	for _, code := range codes {
		for _, l := range lens {
			for kind := 0; kind < 3; kind++ {
				if kind == 2 && l == 0 {
					continue
				}
				val := bodyOf(r, kind, l)
				opt := tlv(code, l, val)
				id := uint16(r.Next())
				sample := kind == 0 && (l <= 1 || l == 3 || l == 4 || l == 5 || l == 8 || l == 17)
				feed(framedQuery(id, secAdditional, false, dns.TypeOPT, 0x1000, opt, len(opt), false), sample, "opt_alone")
				if kind != 2 {
					rd := append(append([]byte(nil), nsid...), opt...)
					feed(framedQuery(id, secAdditional, false, dns.TypeOPT, 0x04d0, rd, len(rd), kind == 1), false, "opt_second")
					rd = append(append([]byte(nil), opt...), pad...)
					feed(framedQuery(id, secAdditional, false, dns.TypeOPT, 0x1000, rd, len(rd), false), false, "opt_first")
				}
			}
		}
		// option length that lies about the octets present (-2..+3), the record being
		// the last thing in the message or followed by another record
		for _, have := range []int{0, 1, 2, 3, 4, 7, 8} {
			for _, d := range []int{-2, -1, 1, 2, 3} {
				if have+d < 0 {
					continue
				}
				opt := tlv(code, have+d, bodyOf(r, 0, have))
				feed(framedQuery(uint16(r.Next()), secAdditional, false, dns.TypeOPT, 0x1000, opt, len(opt), d > 0 && have&1 == 1),
					false, "opt_lying")
			}
		}
	}
	// an OPT record outside the additional section, and one whose RDATA ends inside
	// the option header
	for _, sec := range []int{secAnswer, secAuthority, secAdditional} {
		for _, code := range []int{8, 9, 10, 11, 15} {
			for l := 0; l <= 9; l++ {
				opt := tlv(code, l, bodyOf(r, 0, l))
				feed(framedQuery(uint16(r.Next()), sec, l&1 == 0, dns.TypeOPT, 0x1000, opt, len(opt), false), false, "opt_section")
			}
		}
		for cut := 0; cut <= 4; cut++ {
			opt := tlv(9, 4, []byte{0, 0, 1, 0})[:cut]
			feed(framedQuery(uint16(r.Next()), sec, false, dns.TypeOPT, 0x1000, opt, len(opt), false), false, "opt_header_cut")
		}
	}

	// ---- SVCB / HTTPS parameters
	keys := []int{0, 1, 2, 3, 4, 5, 6, 7, 8, 9, 10, 100, 65280, 65534, 65535}
	for _, key := range keys {
		for l := 0; l <= 34; l++ {
			for kind := 0; kind < 2; kind++ {
				rd := []byte{0, 1, 0} // priority 1, target root
				rd = append(rd, tlv(key, l, bodyOf(r, kind, l))...)
				typ := []uint16{dns.TypeSVCB, dns.TypeHTTPS}[(l+kind)&1]
				sec := []int{secAnswer, secAdditional}[(l>>1)&1]
				sample := kind == 0 && (l <= 5 || l == 15 || l == 16 || l == 17)
				feed(framedQuery(uint16(r.Next()), sec, l%3 == 0, typ, 1, rd, len(rd), false), sample, "svcb_param")
			}
		}
		for _, have := range []int{0, 1, 3, 4, 16} {
			for _, d := range []int{-1, 1, 2} {
				if have+d < 0 {
					continue
				}
				rd := append([]byte{0, 1, 0}, tlv(key, have+d, bodyOf(r, 0, have))...)
				feed(framedQuery(uint16(r.Next()), secAnswer, false, dns.TypeSVCB, 1, rd, len(rd), d > 0), false, "svcb_lying")
			}
		}
		// the parameter in second position, after a valid port parameter / before one
		for _, l := range []int{0, 1, 2, 3, 4, 5, 8, 15, 16, 17} {
			rd := append([]byte{0, 1, 0}, tlv(3, 2, []byte{1, 187})...)
			rd = append(rd, tlv(key, l, bodyOf(r, 0, l))...)
			feed(framedQuery(uint16(r.Next()), secAdditional, true, dns.TypeHTTPS, 1, rd, len(rd), false), false, "svcb_second")
		}
	}

	// ---- one record of every type, RDATA cut at every length
	pool := &NamePool{R: r}
	types := append(AllTypes(), 65280, 0, 65535)
	rounds := 1
	if thorough {
		rounds = 6
	}
	for round := 0; round < rounds; round++ {
		for ti, typ := range types {
			var full []byte
			if _, reg := dns.TypeToRR[typ]; reg {
				rr, _ := GenRR(r, pool, typ, false)
				rr.Header().Name = "."
				buf := make([]byte, 4096)
				off := 0
				var err error
				if Protect(func() string { off, err = dns.PackRR(rr, buf, 0, nil, false); return "" }) == "panic" || err != nil || off < 11 {
					stat["rdata_gen_unpackable"]++
					full = r.Bytes(12)
				} else {
					full = append([]byte(nil), buf[11:off]...)
				}
			} else {
				full = r.Bytes(10)
			}
			class := uint16(1)
			sec := (ti + round) % 3
			cuts := map[int]bool{}
			for k := 0; k <= len(full) && k <= 40; k++ {
				cuts[k] = true
			}
			for k := len(full) - 8; k <= len(full); k++ {
				if k >= 0 {
					cuts[k] = true
				}
			}
			for k := 0; k < 6; k++ {
				cuts[r.Intn(len(full)+1)] = true
			}
			mid := len(full) / 2
			for k := 0; k <= len(full); k++ {
				if !cuts[k] {
					continue
				}
				rd := full[:k]
				feed(framedQuery(uint16(r.Next()), sec, k&1 == 1, typ, class, rd, k, false), round == 0 && (k == mid || k == len(full)), "rr_cut")
				if k%4 == 1 {
					feed(framedQuery(uint16(r.Next()), secAdditional, false, typ, class, rd, k, true), false, "rr_cut_tail")
				}
			}
			for l := 0; l <= 24; l++ {
				feed(framedQuery(uint16(r.Next()), sec, false, typ, class, make([]byte, l), l, l%5 == 4), false, "rr_zeros")
			}
			for _, d := range []int{-3, -1, 1, 2, 5} {
				if len(full)+d < 0 {
					continue
				}
				feed(framedQuery(uint16(r.Next()), sec, true, typ, class, full, len(full)+d, d == 1 || d == -1), false, "rr_lying_rdlength")
			}
			// RDATA followed by a few octets RDLENGTH covers (a field decoder that reads
			// to the end of the RDATA gets more than it was packed with)
			for _, extra := range []int{1, 2, 3} {
				rd := append(append([]byte(nil), full...), bodyOf(r, 0, extra)...)
				feed(framedQuery(uint16(r.Next()), sec, false, typ, class, rd, len(rd), false), false, "rr_extra")
			}
		}
	}
	stat["rdata_messages"] = n
	stat["serve_cases"] = serveEmitted
}
