(* Props/C02.v — property C02: decoding hostile wire input never panics, hangs or
   over-produces.  Only statements; proofs in Proofs/Decode*Proofs.v.

   All theorems quantify over EVERY octet string [bs] ([wfb bs]: each element is
   an octet, < 256) — no length bound, no assumption that it is a DNS message.
   [Panic] is a Go run-time panic (index/slice out of range) in the modelled
   code; [OutOfFuel] is the exhaustion of one of the model's iteration budgets,
   which are fixed multiples of the input length (|bs|+1 rounds per list decoder,
   400 steps per name), so "not OutOfFuel" is the statement that the work is
   bounded by the input length whatever counts, RDLENGTHs and pointers claim.
   Real allocation and wall time are measured by the harness (partial). *)
From Dns Require Import Model.Msg Proofs.DecodeNameProofs Proofs.DecodeFieldsProofs Proofs.DecodeMsgProofs Gen.Consts.
Open Scope N_scope.

(* the name decoder: total, at most 400 loop iterations for any pointer graph *)
Theorem name_decoder_never_panics_or_hangs :
  forall (msg : bytes) (off : N),
    unpack_name msg off <> Panic /\ unpack_name msg off <> OutOfFuel.
Proof. exact unpack_name_total. Qed.

(* every name it accepts respects the 63/255-octet limits (it is the text of a
   valid wire name) and the offset it returns lies inside the message *)
Theorem accepted_names_respect_limits :
  forall (msg : bytes) (off : N) (r : bytes * N),
    wfb msg -> unpack_name msg off = Ok r ->
    exists ls, valid_wire ls = true /\ fst r = show_name ls /\ snd r <= lenN msg.
Proof. exact unpack_name_accepts_only_valid. Qed.

(* any generated unpack() (any field sequence, so also every type the
   translator will ever emit): no panic, no exhausted budget, offset in range *)
Theorem rdata_decoders_are_safe :
  forall (l : list ufield) (got : rdata) (msg : bytes) (off : N),
    wfb msg -> off <= lenN msg -> safe off (lenN msg) (unpack_fields l got msg off).
Proof. exact unpack_fields_safe. Qed.

(* a record decoder result ends inside the input *)
Theorem record_decoder_is_safe :
  forall (msg : bytes) (off : N),
    wfb msg -> off <= lenN msg -> safe off (lenN msg) (unpack_rr msg off).
Proof. exact unpack_rr_safe. Qed.

(* the message decoder *)
Theorem message_decoder_never_panics_or_hangs :
  forall bs : bytes, wfb bs -> unpack_msg bs <> Panic /\ unpack_msg bs <> OutOfFuel.
Proof. exact unpack_msg_total. Qed.

(* lying section counts: an accepted message holds at most one record per input
   octet after the header *)
Theorem accepted_records_bounded_by_input :
  forall (bs : bytes) (m : msg),
    wfb bs -> unpack_msg bs = Ok (m, false) ->
    N.of_nat (length (m_question m) + length (m_answer m) + length (m_ns m) + length (m_extra m)) <= lenN bs - 12.
Proof. exact accepted_sections_bounded. Qed.

(* the limits of the model are the constants of the current source (Gen/Consts.v is
   regenerated from msg.go on every run): a changed limit breaks this obligation *)
Theorem decoder_limits_are_the_source_constants :
  max_pointers = Gen.Consts.c_maxCompressionPointers /\
  max_name_wire = Gen.Consts.c_maxDomainNameWireOctets.
Proof. split; reflexivity. Qed.
