(* Proofs/DnssecProofs.v — lemmas about Model/Dnssec.v *)
From Dns Require Import Base.ListX Model.Dnssec Proofs.Nsec3Proofs Proofs.SortProofs.
From Coq Require Import Lia ZifyN ZifyNat ZifyBool Permutation Sorted.
Open Scope N_scope.

(* ====================================================================== *)
(* A. sorting pairs by RDATA = sorting the RDATA, when the prefix is a     *)
(*    function of the RDATA                                                *)
(* ====================================================================== *)
Section Shape.
  Variable f : bytes -> bytes.
  Definition gp (rd : bytes) : bytes * bytes := (f rd, rd).
  Definition hw (rd : bytes) : bytes := f rd ++ rd.
  Hypothesis hw_inj : forall a b, hw a = hw b -> a = b.

  Lemma insert_rd_map x l : insert_rd (gp x) (map gp l) = map gp (insert_b x l).
  Proof.
    induction l as [|y r IH]; cbn [map insert_rd insert_b]; [reflexivity|].
    change (rd_leb (gp x) (gp y)) with (ble x y).
    destruct (ble x y); cbn [map]; [reflexivity|]. now rewrite IH.
  Qed.

  Lemma isort_rd_map l : isort_rd (map gp l) = map gp (isort_b l).
  Proof.
    induction l as [|x r IH]; cbn [map isort_rd isort_b]; [reflexivity|].
    now rewrite IH, insert_rd_map.
  Qed.

  Lemma bytes_eqb_hw a b : bytes_eqb (hw a) (hw b) = bytes_eqb a b.
  Proof.
    destruct (bytes_eqb a b) eqn:E.
    - apply bytes_eqb_true in E. subst. now apply bytes_eqb_true.
    - destruct (bytes_eqb (hw a) (hw b)) eqn:E2; [|reflexivity].
      apply bytes_eqb_true in E2. apply hw_inj in E2. subst.
      rewrite (proj2 (bytes_eqb_true b b) eq_refl) in E. discriminate.
  Qed.

  Lemma dedup_adj_map l : forall prev,
    dedup_adj (option_map hw prev) (map hw l) = map hw (dedup_b prev l).
  Proof.
    induction l as [|w r IH]; intros prev; cbn [map dedup_adj dedup_b]; [reflexivity|].
    destruct prev as [p|]; cbn [option_map].
    - rewrite bytes_eqb_hw. destruct (bytes_eqb w p).
      + apply (IH (Some w)).
      + cbn [map]. f_equal. apply (IH (Some w)).
    - cbn [map]. f_equal. apply (IH (Some w)).
  Qed.

  Lemma canon_pairs l :
    dedup_adj None (map wire_of (isort_rd (map gp l))) = map hw (canon_list l).
  Proof.
    rewrite isort_rd_map, map_map. unfold canon_list.
    change (fun x => wire_of (gp x)) with hw.
    apply (dedup_adj_map (isort_b l) None).
  Qed.
End Shape.

(* ====================================================================== *)
(* B. canonical form of one record                                         *)
(* ====================================================================== *)
Lemma lower_name_skipn n o : lower_name (skipn n o) = skipn n (lower_name o).
Proof. unfold lower_name. revert o; induction n as [|n IH]; intros [|x o]; cbn; try reflexivity. apply IH. Qed.

Lemma lower_star : lower_bytes [42] = [42].
Proof. reflexivity. Qed.

Lemma canon_owner_lower L o :
  canon_owner L (lower_name o) =
  match canon_owner L o with Ok x => Ok (lower_name x) | Err c => Err c | Panic => Panic | OutOfFuel => OutOfFuel end.
Proof.
  unfold canon_owner.
  replace (length (lower_name o)) with (length o) by (unfold lower_name; now rewrite map_length).
  destruct (N.to_nat L <? length o)%nat; [|reflexivity].
  destruct (N.to_nat L =? 0)%nat; [reflexivity|].
  f_equal. cbn [lower_name map]. f_equal. fold (lower_name o). now rewrite lower_name_skipn.
Qed.

Definition canon_rdata (r : rr) : bytes := rdata_wire (lowered (r_type r)) (r_rdata r).

(* the fixed part of the canonical wire form of the records of one RRset *)
Definition hdr_prefix (sig : rrsig) (lo : list label) (ty cl : N) : bytes :=
  match canon_owner (s_labels sig) lo with Ok o => wire_name o | _ => [] end ++
  u16 ty ++ u16 cl ++ u32 (s_origttl sig).
Definition hdr_f (sig : rrsig) (lo : list label) (ty cl : N) (rd : bytes) : bytes :=
  hdr_prefix sig lo ty cl ++ u16 (lenN rd).

Lemma hdr_hw_inj sig lo ty cl a b :
  hw (hdr_f sig lo ty cl) a = hw (hdr_f sig lo ty cl) b -> a = b.
Proof.
  unfold hw, hdr_f. rewrite <- !app_assoc. intros E. apply app_inv_head in E.
  unfold u16 in E. cbn [app] in E. now injection E.
Qed.

Lemma canon_rr_cases sig r :
  canon_rr sig r = Err "pack"%string \/
  exists o, canon_owner (s_labels sig) (r_owner r) = Ok o /\
    canon_rr sig r =
    Ok (wire_name (lower_name o) ++ u16 (r_type r) ++ u16 (r_class r) ++ u32 (s_origttl sig) ++
        u16 (lenN (canon_rdata r)), canon_rdata r).
Proof.
  unfold canon_rr, canon_owner.
  destruct (N.to_nat (s_labels sig) <? length (r_owner r))%nat.
  - destruct (N.to_nat (s_labels sig) =? 0)%nat; [now left|]. cbn [bind].
    destruct (negb (valid_wire _)); [now left|].
    destruct (negb (forallb field_ok (r_rdata r))); [now left|].
    fold (canon_rdata r). destruct (65535 <? lenN (canon_rdata r)); [now left|].
    right. eexists. split; reflexivity.
  - cbn [bind].
    destruct (negb (valid_wire _)); [now left|].
    destruct (negb (forallb field_ok (r_rdata r))); [now left|].
    fold (canon_rdata r). destruct (65535 <? lenN (canon_rdata r)); [now left|].
    right. eexists. split; reflexivity.
Qed.

Lemma canon_rr_shape sig r lo c :
  lower_name (r_owner r) = lo -> canon_rr sig r = Ok c ->
  c = gp (hdr_f sig lo (r_type r) (r_class r)) (snd c) /\ snd c = canon_rdata r.
Proof.
  intros Hlo Hc. destruct (canon_rr_cases sig r) as [E|[o [Ho E]]]; [congruence|].
  rewrite E in Hc. injection Hc as <-. cbn [snd]. split; [|reflexivity].
  unfold gp, hdr_f, hdr_prefix. f_equal.
  rewrite <- Hlo, canon_owner_lower, Ho. now rewrite <- !app_assoc.
Qed.

(* ---- invariance of the canonical form of one record ---- *)
Lemma canon_ttl sig o ty cl t1 t2 rd :
  canon_rr sig {| r_owner := o; r_type := ty; r_class := cl; r_ttl := t1; r_rdata := rd |} =
  canon_rr sig {| r_owner := o; r_type := ty; r_class := cl; r_ttl := t2; r_rdata := rd |}.
Proof. reflexivity. Qed.

Lemma canon_case_owner sig o1 o2 ty cl t rd :
  lower_name o1 = lower_name o2 ->
  canon_rr sig {| r_owner := o1; r_type := ty; r_class := cl; r_ttl := t; r_rdata := rd |} =
  canon_rr sig {| r_owner := o2; r_type := ty; r_class := cl; r_ttl := t; r_rdata := rd |}.
Proof.
  intros E. unfold canon_rr. cbn [r_owner r_type r_class r_rdata].
  pose proof (canon_owner_lower (s_labels sig) o1) as C1.
  pose proof (canon_owner_lower (s_labels sig) o2) as C2.
  rewrite E in C1. rewrite C1 in C2.
  destruct (canon_owner (s_labels sig) o1) as [x1| | |], (canon_owner (s_labels sig) o2) as [x2| | |];
    try discriminate; cbn [bind]; try congruence.
  injection C2 as C2.
  rewrite (valid_wire_ci x1 x2 C2). unfold lower_name in C2. unfold lower_name. now rewrite C2.
Qed.

Inductive field_ci : rdfield -> rdfield -> Prop :=
| fci_name a b : lower_name a = lower_name b -> field_ci (RdName a) (RdName b)
| fci_bytes a : field_ci (RdBytes a) (RdBytes a).

Lemma rdata_ci fs1 fs2 :
  Forall2 field_ci fs1 fs2 ->
  rdata_wire true fs1 = rdata_wire true fs2 /\ forallb field_ok fs1 = forallb field_ok fs2.
Proof.
  induction 1 as [|f1 f2 r1 r2 Hf _ [IH1 IH2]]; [split; reflexivity|].
  unfold rdata_wire in *. cbn [flat_map forallb]. rewrite IH1, IH2.
  destruct Hf as [a b Hab|a]; cbn [field_wire field_ok]; [|split; reflexivity].
  rewrite Hab. unfold lower_name in Hab. now rewrite (valid_wire_ci a b Hab).
Qed.

Lemma canon_case_rdata sig o ty cl t fs1 fs2 :
  lowered ty = true -> Forall2 field_ci fs1 fs2 ->
  canon_rr sig {| r_owner := o; r_type := ty; r_class := cl; r_ttl := t; r_rdata := fs1 |} =
  canon_rr sig {| r_owner := o; r_type := ty; r_class := cl; r_ttl := t; r_rdata := fs2 |}.
Proof.
  intros Hl Hf. unfold canon_rr. cbn [r_owner r_type r_class r_rdata]. rewrite Hl.
  destruct (rdata_ci fs1 fs2 Hf) as [-> ->]. reflexivity.
Qed.

Lemma canon_wildcard sig pre suf ty cl t rd :
  pre <> [] -> length suf = N.to_nat (s_labels sig) ->
  canon_rr sig {| r_owner := pre ++ suf; r_type := ty; r_class := cl; r_ttl := t; r_rdata := rd |} =
  canon_rr sig {| r_owner := [42] :: suf; r_type := ty; r_class := cl; r_ttl := t; r_rdata := rd |}.
Proof.
  intros Hp Hl. unfold canon_rr, canon_owner. cbn [r_owner r_type r_class r_rdata length].
  rewrite app_length, <- Hl.
  assert (Hlen : (0 < length pre)%nat) by (destruct pre; [congruence|cbn; lia]).
  assert (E1 : (length suf <? length pre + length suf)%nat = true) by (apply Nat.ltb_lt; lia).
  assert (E2 : (length suf <? S (length suf))%nat = true) by (apply Nat.ltb_lt; lia).
  rewrite E1, E2. destruct (length suf =? 0)%nat; [reflexivity|].
  replace (length pre + length suf - length suf)%nat with (length pre) by lia.
  rewrite skipn_app_exact.
  replace (S (length suf) - length suf)%nat with 1%nat by lia. reflexivity.
Qed.

(* ====================================================================== *)
(* C. the signed RR list depends only on the set of canonical records      *)
(* ====================================================================== *)
Definition same_header (rs : list rr) : Prop :=
  exists lo ty cl, Forall (fun r => lower_name (r_owner r) = lo /\ r_type r = ty /\ r_class r = cl) rs.

Lemma map_res_canon sig rs :
  (exists r, In r rs /\ canon_rr sig r = Err "pack"%string) /\ map_res (canon_rr sig) rs = Err "pack"%string \/
  exists cs, map_res (canon_rr sig) rs = Ok cs /\ map (canon_rr sig) rs = map Ok cs.
Proof.
  induction rs as [|r rs IH]; [right; exists []; split; reflexivity|].
  cbn [map_res map].
  destruct (canon_rr_cases sig r) as [E|[o [_ E]]].
  - left. split; [exists r; split; [now left|exact E]|]. now rewrite E.
  - rewrite E. cbn [bind].
    destruct IH as [[[r' [Hin Hr']] IH]|[cs [IH1 IH2]]].
    + left. split; [exists r'; split; [now right|exact Hr']|]. now rewrite IH.
    + right. rewrite IH1. cbn [bind]. eexists. split; [reflexivity|]. cbn [map]. now rewrite IH2.
Qed.

Lemma ok_shape sig lo ty cl rs cs :
  Forall (fun r => lower_name (r_owner r) = lo /\ r_type r = ty /\ r_class r = cl) rs ->
  map (canon_rr sig) rs = map Ok cs ->
  cs = map (gp (hdr_f sig lo ty cl)) (map snd cs) /\ map snd cs = map canon_rdata rs.
Proof.
  revert cs; induction rs as [|r rs IH]; intros [|c cs] HF HM; try discriminate; [split; reflexivity|].
  inversion HF as [|? ? [Hlo [Hty Hcl]] HF']; subst. cbn [map] in HM. injection HM as Hc HM.
  destruct (IH cs HF' HM) as [A B].
  destruct (canon_rr_shape sig r _ c eq_refl Hc) as [C D].
  cbn [map]. split.
  - rewrite <- A. f_equal. exact C.
  - now rewrite B, D.
Qed.

Lemma signed_rrs_set sig rs1 rs2 :
  same_header (rs1 ++ rs2) ->
  (forall c, In c (map (canon_rr sig) rs1) <-> In c (map (canon_rr sig) rs2)) ->
  signed_rrs sig rs1 = signed_rrs sig rs2.
Proof.
  intros [lo [ty [cl HF]]] HS. apply Forall_app in HF as [HF1 HF2].
  unfold signed_rrs.
  destruct (map_res_canon sig rs1) as [[[r1 [Hin1 Hr1]] E1]|[cs1 [E1 M1]]];
    destruct (map_res_canon sig rs2) as [[[r2 [Hin2 Hr2]] E2]|[cs2 [E2 M2]]].
  - now rewrite E1, E2.
  - exfalso. assert (In (Err "pack"%string) (map (canon_rr sig) rs2)) as Hin.
    { apply HS. rewrite <- Hr1. now apply in_map. }
    rewrite M2 in Hin. apply in_map_iff in Hin as [x [Hx _]]. discriminate.
  - exfalso. assert (In (Err "pack"%string) (map (canon_rr sig) rs1)) as Hin.
    { apply HS. rewrite <- Hr2. now apply in_map. }
    rewrite M1 in Hin. apply in_map_iff in Hin as [x [Hx _]]. discriminate.
  - rewrite E1, E2. cbn [bind]. f_equal.
    destruct (ok_shape sig lo ty cl rs1 cs1 HF1 M1) as [A1 B1].
    destruct (ok_shape sig lo ty cl rs2 cs2 HF2 M2) as [A2 B2].
    rewrite A1, A2.
    rewrite !(canon_pairs _ (hdr_hw_inj sig lo ty cl)). f_equal.
    apply canon_list_set. intros x.
    assert (K : forall cs rs, map (canon_rr sig) rs = map Ok cs -> (In x (map snd cs) <-> exists c, In (Ok c) (map (canon_rr sig) rs) /\ snd c = x)).
    { intros cs rs M. rewrite M. split.
      - intros Hx. apply in_map_iff in Hx as [c [Hc Hin]]. exists c. split; [now apply in_map|exact Hc].
      - intros [c [Hin Hc]]. apply in_map_iff in Hin as [c' [Hc' Hin]]. injection Hc' as ->.
        apply in_map_iff. now exists c. }
    rewrite (K cs1 rs1 M1), (K cs2 rs2 M2).
    split; intros [c [Hin Hc]]; exists c; (split; [now apply HS|exact Hc]).
Qed.

Lemma signed_octets_set sig rs1 rs2 :
  same_header (rs1 ++ rs2) ->
  (forall c, In c (map (canon_rr sig) rs1) <-> In c (map (canon_rr sig) rs2)) ->
  signed_octets sig rs1 = signed_octets sig rs2.
Proof. intros H1 H2. unfold signed_octets. now rewrite (signed_rrs_set sig rs1 rs2 H1 H2). Qed.

Lemma same_header_perm rs1 rs2 : Permutation rs1 rs2 -> same_header rs1 -> same_header (rs1 ++ rs2).
Proof.
  intros P [lo [ty [cl HF]]]. exists lo, ty, cl. apply Forall_app. split; [exact HF|].
  eapply Permutation_Forall; eassumption.
Qed.

Lemma canon_perm sig rs1 rs2 :
  Permutation rs1 rs2 -> same_header rs1 -> signed_octets sig rs1 = signed_octets sig rs2.
Proof.
  intros P HH. apply signed_octets_set; [now apply same_header_perm|].
  intros c. split; apply Permutation_in; [|symmetry]; now apply Permutation_map.
Qed.

Lemma canon_dup sig r rs :
  same_header (r :: rs) -> In r rs -> signed_octets sig (r :: rs) = signed_octets sig rs.
Proof.
  intros [lo [ty [cl HF]]] Hin. apply signed_octets_set.
  - exists lo, ty, cl. apply Forall_app. split; [exact HF|]. now inversion HF.
  - intros c. cbn [map In]. split; [|now right].
    intros [<-|H]; [now apply in_map|exact H].
Qed.

(* more generally a record whose canonical form is already present (it may
   differ in TTL, letter case, or be the wildcard expansion) *)
Lemma canon_dup_canonical sig r r' rs :
  same_header (r :: rs) -> In r' rs -> canon_rr sig r = canon_rr sig r' ->
  signed_octets sig (r :: rs) = signed_octets sig rs.
Proof.
  intros [lo [ty [cl HF]]] Hin E. apply signed_octets_set.
  - exists lo, ty, cl. apply Forall_app. split; [exact HF|]. now inversion HF.
  - intros c. cbn [map In]. split; [|now right].
    intros [<-|H]; [rewrite E; now apply in_map|exact H].
Qed.

(* replacing every record by one with the same canonical form *)
Lemma canon_pointwise sig rs1 rs2 :
  same_header (rs1 ++ rs2) -> Forall2 (fun a b => canon_rr sig a = canon_rr sig b) rs1 rs2 ->
  signed_octets sig rs1 = signed_octets sig rs2.
Proof.
  intros HH HF. apply signed_octets_set; [exact HH|]. clear HH.
  assert (E : map (canon_rr sig) rs1 = map (canon_rr sig) rs2).
  { induction HF as [|a b r1 r2 Hab _ IH]; [reflexivity|]. cbn [map]. now rewrite Hab, IH. }
  now rewrite E.
Qed.

(* ====================================================================== *)
(* D. Verify / Sign                                                        *)
(* ====================================================================== *)
Lemma signed_octets_with_signature sig s rrset :
  signed_octets (with_signature sig s) rrset = signed_octets sig rrset.
Proof. reflexivity. Qed.

Lemma label_eq_ci_refl a : label_eq_ci a a = true.
Proof. unfold label_eq_ci. now apply bytes_eqb_true. Qed.
Lemma name_eq_ci_refl a : name_eq_ci a a = true.
Proof. unfold name_eq_ci. induction a as [|x a IH]; cbn; [reflexivity|]. now rewrite label_eq_ci_refl, IH. Qed.

Section Crypto.
  Variable V : N -> bytes -> bytes -> bytes -> bool.
  Variable sk : Type.
  Variable S : sk -> N -> bytes -> bytes.

  Lemma verify_sound k sig rrset :
    verify V k sig rrset = Ok tt ->
    is_rrset rrset = true /\ key_checks k sig = true /\
    (exists r0 rest, rrset = r0 :: rest /\ rrset_checks sig r0 = true) /\
    supported_alg (s_alg sig) = true /\ key_decodes (s_alg sig) (k_pub k) = true /\
    exists m, signed_octets sig rrset = Ok m /\ V (s_alg sig) (k_pub k) m (s_signature sig) = true.
  Proof.
    unfold verify.
    destruct (is_rrset rrset) eqn:E1; cbn [negb]; [|discriminate].
    destruct (key_checks k sig) eqn:E2; cbn [negb]; [|discriminate].
    destruct rrset as [|r0 rest]; [discriminate|].
    destruct (rrset_checks sig r0) eqn:E3; cbn [negb]; [|discriminate].
    destruct (signed_octets sig (r0 :: rest)) as [m| | |] eqn:E4; cbn [bind]; try discriminate.
    destruct (has_hash (s_alg sig)) eqn:E5; cbn [negb]; [|discriminate].
    destruct (supported_alg (s_alg sig)) eqn:E6; cbn [negb]; [|discriminate].
    destruct (key_decodes (s_alg sig) (k_pub k)) eqn:E7; cbn [negb]; [|discriminate].
    destruct (V (s_alg sig) (k_pub k) m (s_signature sig)) eqn:E8; [|discriminate].
    intros _. split; [reflexivity|]. split; [reflexivity|]. split.
    { exists r0, rest. split; [reflexivity|exact E3]. }
    split; [reflexivity|]. split; [reflexivity|].
    exists m. split; [reflexivity|exact E8].
  Qed.

  Lemma key_checks_spec k sig :
    key_checks k sig = true <->
    s_keytag sig = key_tag (k_flags k) (k_proto k) (k_alg k) (k_pub k) /\
    s_class sig = k_class k /\ s_alg sig = k_alg k /\
    name_eq_ci (s_signer sig) (k_owner k) = true /\ k_proto k = 3 /\ N.testbit (k_flags k) 8 = true.
  Proof.
    unfold key_checks, zone_flag. rewrite !andb_true_iff, !N.eqb_eq. tauto.
  Qed.

  Lemma rrset_checks_spec sig r0 :
    rrset_checks sig r0 = true <->
    r_class r0 = s_class sig /\ r_type r0 = s_covered sig /\
    s_labels sig <= N.of_nat (length (r_owner r0)) mod 256 /\
    name_eq_ci (r_owner r0) (s_owner sig) = true /\
    has_suffix (pres_lower (r_owner r0)) (pres_lower (s_signer sig)) = true.
  Proof.
    unfold rrset_checks. rewrite !andb_true_iff, !N.eqb_eq, negb_true_iff, N.ltb_ge. tauto.
  Qed.

  Lemma sign_verify key k sig sig' r0 rest :
    sign sk S key sig (r0 :: rest) = Ok sig' ->
    is_rrset (r0 :: rest) = true ->
    (length (r_owner r0) < 256)%nat ->
    s_keytag sig = key_tag (k_flags k) (k_proto k) (k_alg k) (k_pub k) ->
    k_class k = r_class r0 -> k_alg k = s_alg sig ->
    name_eq_ci (s_signer sig) (k_owner k) = true -> k_proto k = 3 -> N.testbit (k_flags k) 8 = true ->
    key_decodes (s_alg sig) (k_pub k) = true ->
    has_suffix (pres_lower (r_owner r0)) (pres_lower (s_signer sig)) = true ->
    (forall m, V (s_alg sig) (k_pub k) m (S key (s_alg sig) m) = true) ->
    verify V k sig' (r0 :: rest) = Ok tt.
  Proof.
    intros Hs Hrr Hlen Htag Hcl Halg Hname Hproto Hzone Hdec Hsuf Hcrypto.
    unfold sign, sign_as_is in Hs.
    set (sig1 := sign_fill sig r0) in *.
    change (s_alg sig1) with (s_alg sig) in Hs.
    destruct ((s_keytag sig1 =? 0) || (s_alg sig =? 0)); [discriminate|].
    destruct (signed_octets sig1 (r0 :: rest)) as [m| | |] eqn:Em; cbn [bind] in Hs; try discriminate.
    destruct (has_hash (s_alg sig)) eqn:Eh; cbn [negb] in Hs; [|discriminate].
    destruct (supported_alg (s_alg sig)) eqn:Es; cbn [negb] in Hs; [|discriminate].
    injection Hs as <-.
    unfold verify. rewrite Hrr. cbn [negb].
    assert (Ek : key_checks k (with_signature sig1 (S key (s_alg sig) m)) = true).
    { apply key_checks_spec. cbn [with_signature sign_fill sig1 s_keytag s_class s_alg s_signer].
      repeat split; try assumption; congruence. }
    rewrite Ek. cbn [negb].
    assert (Er : rrset_checks (with_signature sig1 (S key (s_alg sig) m)) r0 = true).
    { apply rrset_checks_spec.
      cbn [with_signature sign_fill sig1 s_keytag s_class s_alg s_signer s_covered s_labels s_owner].
      repeat split; try reflexivity; try assumption; [|apply name_eq_ci_refl].
      rewrite (N.mod_small (N.of_nat (length (r_owner r0))) 256) by lia.
      destruct (star_prefix (r_owner r0)) eqn:Est.
      - destruct (r_owner r0) as [|l0 o']; [discriminate|]. cbn [length] in *.
        replace (N.of_nat (Datatypes.S (length o')) + 256 - 1) with (N.of_nat (length o') + 1 * 256) by lia.
        rewrite N.mod_add by discriminate. rewrite N.mod_small by lia. lia.
      - replace (N.of_nat (length (r_owner r0)) + 256 - 0) with (N.of_nat (length (r_owner r0)) + 1 * 256) by lia.
        rewrite N.mod_add by discriminate. rewrite N.mod_small by lia. lia. }
    rewrite Er. cbn [negb].
    rewrite signed_octets_with_signature, Em. cbn [bind].
    change (s_alg (with_signature sig1 (S key (s_alg sig) m))) with (s_alg sig).
    rewrite Eh, Es, Hdec. cbn [negb].
    change (s_signature (with_signature sig1 (S key (s_alg sig) m))) with (S key (s_alg sig) m).
    now rewrite Hcrypto.
  Qed.

  (* any alteration fails, under the idealisation that one signature is valid
     for at most one message under a given key *)
  Lemma same_signature_same_octets k sig1 sig2 rs1 rs2 :
    (forall a p m m' s, V a p m s = true -> V a p m' s = true -> m = m') ->
    verify V k sig1 rs1 = Ok tt -> verify V k sig2 rs2 = Ok tt ->
    s_signature sig1 = s_signature sig2 ->
    signed_octets sig1 rs1 = signed_octets sig2 rs2.
  Proof.
    intros Hideal H1 H2 Hs.
    apply verify_sound in H1 as [_ [K1 [_ [_ [_ [m1 [E1 V1]]]]]]].
    apply verify_sound in H2 as [_ [K2 [_ [_ [_ [m2 [E2 V2]]]]]]].
    apply key_checks_spec in K1 as [_ [_ [A1 _]]]. apply key_checks_spec in K2 as [_ [_ [A2 _]]].
    rewrite E1, E2. f_equal. rewrite A1 in V1. rewrite A2 in V2. rewrite Hs in V1.
    eapply Hideal; eassumption.
  Qed.
End Crypto.

(* the code's lower-casing switch against RFC 4034 6.2 (3) as corrected by RFC 6840 5.1 *)
Lemma lowered_vs_rfc ty :
  mem ty rfc4034_6_2_types = lowered ty || (ty =? 38) || (ty =? 46).
Proof.
  unfold mem, rfc4034_6_2_types, lowered, mem. rewrite existsb_app. cbn [existsb].
  now rewrite orb_false_r, !orb_assoc.
Qed.

(* ---------- Examples (non-vacuity) ---------- *)
Definition ex_sig : rrsig :=
  {| s_owner := [[119]; [101; 120]]; s_class := 1; s_covered := 15; s_alg := 15; s_labels := 2;
     s_origttl := 300; s_exp := 2000; s_incep := 1000; s_keytag := 12345;
     s_signer := [[101; 120]]; s_signature := [] |}.
Definition ex_rr (pref : N) (host : list label) : rr :=
  {| r_owner := [[119]; [69; 120]]; r_type := 15; r_class := 1; r_ttl := 60;
     r_rdata := [RdBytes (u16 pref); RdName host] |}.
Example same_header_ex : same_header [ex_rr 10 [[77; 120]]; ex_rr 5 [[97]]].
Proof. exists [[119]; [101; 120]], 15, 1. repeat constructor. Qed.
Example signed_octets_ex :
  signed_octets ex_sig [ex_rr 10 [[77; 120]]; ex_rr 5 [[97]]; ex_rr 10 [[109; 88]]] =
  signed_octets ex_sig [ex_rr 5 [[97]]; ex_rr 10 [[77; 120]]] /\
  is_ok (signed_octets ex_sig [ex_rr 5 [[97]]; ex_rr 10 [[77; 120]]]) = true.
Proof. vm_compute. split; reflexivity. Qed.
Example lowered_ex : lowered 15 = true /\ lowered 30 = true /\ lowered 47 = false /\ lowered 16 = false.
Proof. repeat split. Qed.
Example field_ci_ex : Forall2 field_ci [RdBytes [0; 10]; RdName [[77; 120]]] [RdBytes [0; 10]; RdName [[109; 88]]].
Proof. repeat constructor. Qed.

(* Sign then Verify on a concrete RRset with a toy signature scheme (the
   signature is the message itself), showing the hypotheses of sign_verify and
   of the idealisation in same_signature_same_octets are satisfiable *)
Definition toy_V (a : N) (p m s : bytes) : bool := bytes_eqb m s.
Definition toy_S (k : unit) (a : N) (m : bytes) : bytes := m.
Definition ex_key : dnskey :=
  {| k_owner := [[69; 88]]; k_class := 1; k_flags := 256; k_proto := 3; k_alg := 15;
     k_pub := repeat 7 32 |}.
Definition ex_sig0 : rrsig :=
  {| s_owner := []; s_class := 0; s_covered := 0; s_alg := 15; s_labels := 0;
     s_origttl := 0; s_exp := 2000; s_incep := 1000;
     s_keytag := key_tag 256 3 15 (repeat 7 32);
     s_signer := [[101; 120]]; s_signature := [] |}.
Example sign_verify_ex :
  match sign unit toy_S tt ex_sig0 [ex_rr 10 [[77; 120]]; ex_rr 5 [[97]]] with
  | Ok s => verify toy_V ex_key s [ex_rr 5 [[97]]; ex_rr 10 [[77; 120]]; ex_rr 5 [[97]]] = Ok tt /\
            s_labels s = 2 /\ s_origttl s = 60
  | _ => False
  end.
Proof. vm_compute. repeat split. Qed.
Example toy_ideal : forall a p m m' s, toy_V a p m s = true -> toy_V a p m' s = true -> m = m'.
Proof. unfold toy_V. intros a p m m' s H1 H2. apply bytes_eqb_true in H1, H2. congruence. Qed.

Ltac Zify.zify_post_hook ::= Z.div_mod_to_equations.

(* ====================================================================== *)
(* E. unique parsing of the signed octet string                            *)
(* ====================================================================== *)
Lemma u8_inj a b : a < 256 -> b < 256 -> u8 a = u8 b -> a = b.
Proof. unfold u8. intros Ha Hb E. injection E as E. rewrite !N.mod_small in E by assumption. exact E. Qed.

Lemma u16_inj a b : a < 65536 -> b < 65536 -> u16 a = u16 b -> a = b.
Proof. unfold u16. intros Ha Hb E. injection E as E1 E2. lia. Qed.

Lemma u32_inj a b : a < 4294967296 -> b < 4294967296 -> u32 a = u32 b -> a = b.
Proof. unfold u32. intros Ha Hb E. injection E as E1 E2 E3 E4. lia. Qed.

Lemma app_inv_len {A} (l1 l2 r1 r2 : list A) :
  length l1 = length l2 -> l1 ++ r1 = l2 ++ r2 -> l1 = l2 /\ r1 = r2.
Proof.
  revert l2; induction l1 as [|x l1 IH]; intros [|y l2] L E; cbn in *; try discriminate.
  - split; [reflexivity|exact E].
  - injection E as -> E. injection L as L. destruct (IH l2 L E) as [-> ->]. split; reflexivity.
Qed.

Lemma labels_ok_cons l ls : labels_ok (l :: ls) = true -> 1 <= lenN l /\ labels_ok ls = true.
Proof.
  unfold labels_ok. cbn [forallb]. unfold label_ok. rewrite !andb_true_iff. intros [[[A _] _] B].
  split; [lia|exact B].
Qed.

Lemma wire_labels_inj n1 : forall n2 r1 r2,
  labels_ok n1 = true -> labels_ok n2 = true ->
  wire_labels n1 ++ 0 :: r1 = wire_labels n2 ++ 0 :: r2 -> n1 = n2 /\ r1 = r2.
Proof.
  induction n1 as [|l1 n1 IH]; intros [|l2 n2] r1 r2 V1 V2 E.
  - cbn in E. injection E as E. split; [reflexivity|exact E].
  - exfalso. apply labels_ok_cons in V2 as [L _]. cbn in E. injection E as E _. lia.
  - exfalso. apply labels_ok_cons in V1 as [L _]. cbn in E. injection E as E _. lia.
  - apply labels_ok_cons in V1 as [_ V1]. apply labels_ok_cons in V2 as [_ V2].
    unfold wire_labels in E. cbn [flat_map] in E. fold (wire_labels n1) in E. fold (wire_labels n2) in E.
    cbn [app] in E. injection E as EL E. rewrite <- !app_assoc in E.
    assert (L : length l1 = length l2) by (unfold lenN in EL; lia).
    destruct (app_inv_len _ _ _ _ L E) as [-> E'].
    destruct (IH n2 r1 r2 V1 V2 E') as [-> ->]. split; reflexivity.
Qed.

Lemma wire_name_inj n1 n2 r1 r2 :
  valid_wire n1 = true -> valid_wire n2 = true ->
  wire_name n1 ++ r1 = wire_name n2 ++ r2 -> n1 = n2 /\ r1 = r2.
Proof.
  unfold valid_wire, wire_name. rewrite !andb_true_iff. intros [V1 _] [V2 _] E.
  rewrite <- !app_assoc in E. cbn [app] in E. now apply wire_labels_inj.
Qed.

(* the canonical wire form of a record, as a predicate *)
Definition canon_wire (w : bytes) : Prop :=
  exists o ty cl ttl rd,
    valid_wire o = true /\ ty < 65536 /\ cl < 65536 /\ ttl < 4294967296 /\ lenN rd < 65536 /\
    w = wire_name o ++ u16 ty ++ u16 cl ++ u32 ttl ++ u16 (lenN rd) ++ rd.

Lemma canon_wire_prefix_free w1 w2 r1 r2 :
  canon_wire w1 -> canon_wire w2 -> w1 ++ r1 = w2 ++ r2 -> w1 = w2 /\ r1 = r2.
Proof.
  intros [o1 [ty1 [cl1 [t1 [rd1 [V1 [A1 [B1 [C1 [D1 ->]]]]]]]]]]
         [o2 [ty2 [cl2 [t2 [rd2 [V2 [A2 [B2 [C2 [D2 ->]]]]]]]]]] E.
  rewrite <- !app_assoc in E.
  destruct (wire_name_inj _ _ _ _ V1 V2 E) as [-> E1].
  destruct (app_inv_len (u16 ty1) (u16 ty2) _ _ eq_refl E1) as [T E2].
  destruct (app_inv_len (u16 cl1) (u16 cl2) _ _ eq_refl E2) as [C E3].
  destruct (app_inv_len (u32 t1) (u32 t2) _ _ eq_refl E3) as [TT E4].
  destruct (app_inv_len (u16 (lenN rd1)) (u16 (lenN rd2)) _ _ eq_refl E4) as [LL E5].
  apply u16_inj in T; [|assumption..]. apply u16_inj in C; [|assumption..].
  apply u32_inj in TT; [|assumption..]. apply u16_inj in LL; [|assumption..].
  assert (L : length rd1 = length rd2) by (unfold lenN in LL; lia).
  destruct (app_inv_len _ _ _ _ L E5) as [-> ->]. subst. split; reflexivity.
Qed.

Lemma concat_canon_inj ws1 : forall ws2,
  Forall canon_wire ws1 -> Forall canon_wire ws2 -> concat ws1 = concat ws2 -> ws1 = ws2.
Proof.
  induction ws1 as [|w1 ws1 IH]; intros [|w2 ws2] F1 F2 E.
  - reflexivity.
  - exfalso. inversion F2 as [|? ? [o [ty [cl [t [rd [_ [_ [_ [_ [_ ->]]]]]]]]]] _]; subst.
    cbn in E. unfold wire_name in E. destruct (wire_labels o); discriminate.
  - exfalso. inversion F1 as [|? ? [o [ty [cl [t [rd [_ [_ [_ [_ [_ ->]]]]]]]]]] _]; subst.
    cbn in E. unfold wire_name in E. destruct (wire_labels o); discriminate.
  - inversion F1; inversion F2; subst. cbn [concat] in E.
    destruct (canon_wire_prefix_free w1 w2 _ _ H1 H5 E) as [-> E'].
    f_equal. now apply IH.
Qed.

Definition wf_sig (s : rrsig) : Prop :=
  s_covered s < 65536 /\ s_alg s < 256 /\ s_labels s < 256 /\ s_origttl s < 4294967296 /\
  s_exp s < 4294967296 /\ s_incep s < 4294967296 /\ s_keytag s < 65536.
Definition wf_rr (r : rr) : Prop := r_type r < 65536 /\ r_class r < 65536.

Lemma canon_rr_wire sig r c :
  s_origttl sig < 4294967296 -> wf_rr r -> canon_rr sig r = Ok c -> canon_wire (wire_of c).
Proof.
  intros Ht [Hty Hcl]. unfold canon_rr.
  destruct (canon_owner (s_labels sig) (r_owner r)) as [o| | |]; cbn [bind]; try discriminate.
  destruct (valid_wire o) eqn:V; cbn [negb]; [|discriminate].
  destruct (forallb field_ok (r_rdata r)); cbn [negb]; [|discriminate].
  destruct (N.ltb_spec 65535 (lenN (rdata_wire (lowered (r_type r)) (r_rdata r)))) as [|L]; [discriminate|].
  intros E. injection E as <-. unfold wire_of. cbn [fst snd].
  exists (lower_name o), (r_type r), (r_class r), (s_origttl sig), (rdata_wire (lowered (r_type r)) (r_rdata r)).
  repeat split; try assumption; try lia.
  - unfold lower_name. now rewrite valid_wire_lower.
  - now rewrite <- !app_assoc.
Qed.

Lemma dedup_adj_in w l : forall prev, In w (dedup_adj prev l) -> In w l.
Proof.
  induction l as [|x l IH]; intros prev H; [exact H|]. cbn [dedup_adj] in H.
  destruct prev as [p|].
  - destruct (bytes_eqb x p).
    + right. eapply IH; eassumption.
    + destruct H as [<-|H]; [now left|right; eapply IH; eassumption].
  - destruct H as [<-|H]; [now left|right; eapply IH; eassumption].
Qed.

Lemma insert_rd_perm x l : Permutation (insert_rd x l) (x :: l).
Proof.
  induction l as [|y r IH]; cbn; [reflexivity|].
  destruct (rd_leb x y); [reflexivity|]. rewrite IH. apply perm_swap.
Qed.
Lemma isort_rd_perm l : Permutation (isort_rd l) l.
Proof. induction l as [|x r IH]; cbn; [reflexivity|]. rewrite insert_rd_perm. now constructor. Qed.

Lemma map_res_in {A B} (f : A -> res B) l : forall cs,
  map_res f l = Ok cs -> forall c, In c cs -> exists x, In x l /\ f x = Ok c.
Proof.
  induction l as [|a l IH]; intros cs E c Hc; cbn [map_res] in E.
  - injection E as <-. destruct Hc.
  - destruct (f a) as [b| | |] eqn:Fa; cbn [bind] in E; try discriminate.
    destruct (map_res f l) as [bs| | |]; cbn [bind] in E; try discriminate.
    injection E as <-. destruct Hc as [<-|Hc].
    + exists a. split; [now left|exact Fa].
    + destruct (IH bs eq_refl c Hc) as [x [Hx Fx]]. exists x. split; [now right|exact Fx].
Qed.

Lemma signed_rrs_canon sig rs ws :
  s_origttl sig < 4294967296 -> Forall wf_rr rs -> signed_rrs sig rs = Ok ws -> Forall canon_wire ws.
Proof.
  intros Ht HF. unfold signed_rrs.
  destruct (map_res (canon_rr sig) rs) as [cs| | |] eqn:E; cbn [bind]; try discriminate.
  intros Hw. injection Hw as <-. apply Forall_forall. intros w Hw.
  apply dedup_adj_in in Hw. apply in_map_iff in Hw as [c [<- Hc]].
  apply (Permutation_in _ (isort_rd_perm cs)) in Hc.
  destruct (map_res_in _ _ _ E c Hc) as [r [Hr Fr]].
  rewrite Forall_forall in HF. eapply canon_rr_wire; eauto.
Qed.

Lemma signed_octets_injective s1 s2 rs1 rs2 m :
  wf_sig s1 -> wf_sig s2 -> Forall wf_rr rs1 -> Forall wf_rr rs2 ->
  signed_octets s1 rs1 = Ok m -> signed_octets s2 rs2 = Ok m ->
  s_covered s1 = s_covered s2 /\ s_alg s1 = s_alg s2 /\ s_labels s1 = s_labels s2 /\
  s_origttl s1 = s_origttl s2 /\ s_exp s1 = s_exp s2 /\ s_incep s1 = s_incep s2 /\
  s_keytag s1 = s_keytag s2 /\ lower_name (s_signer s1) = lower_name (s_signer s2) /\
  signed_rrs s1 rs1 = signed_rrs s2 rs2.
Proof.
  intros [A1 [B1 [C1 [D1 [E1 [F1 G1]]]]]] [A2 [B2 [C2 [D2 [E2 [F2 G2]]]]]] W1 W2.
  unfold signed_octets.
  destruct (valid_wire (s_signer s1)) eqn:V1; cbn [negb]; [|discriminate].
  destruct (valid_wire (s_signer s2)) eqn:V2; cbn [negb]; [|discriminate].
  destruct (signed_rrs s1 rs1) as [ws1| | |] eqn:R1; cbn [bind]; try discriminate.
  destruct (signed_rrs s2 rs2) as [ws2| | |] eqn:R2; cbn [bind]; try discriminate.
  intros M1' M2'.
  assert (M1 : sig_rdata_prefix s1 ++ concat ws1 = sig_rdata_prefix s2 ++ concat ws2) by congruence.
  clear M1' M2' m.
  unfold sig_rdata_prefix in M1. rewrite <- !app_assoc in M1.
  destruct (app_inv_len (u16 (s_covered s1)) (u16 (s_covered s2)) _ _ eq_refl M1) as [X1 M2].
  destruct (app_inv_len (u8 (s_alg s1)) (u8 (s_alg s2)) _ _ eq_refl M2) as [X2 M3].
  destruct (app_inv_len (u8 (s_labels s1)) (u8 (s_labels s2)) _ _ eq_refl M3) as [X3 M4].
  destruct (app_inv_len (u32 (s_origttl s1)) (u32 (s_origttl s2)) _ _ eq_refl M4) as [X4 M5].
  destruct (app_inv_len (u32 (s_exp s1)) (u32 (s_exp s2)) _ _ eq_refl M5) as [X5 M6].
  destruct (app_inv_len (u32 (s_incep s1)) (u32 (s_incep s2)) _ _ eq_refl M6) as [X6 M7].
  destruct (app_inv_len (u16 (s_keytag s1)) (u16 (s_keytag s2)) _ _ eq_refl M7) as [X7 M8].
  apply u16_inj in X1; [|assumption..]. apply u8_inj in X2; [|assumption..].
  apply u8_inj in X3; [|assumption..]. apply u32_inj in X4; [|assumption..].
  apply u32_inj in X5; [|assumption..]. apply u32_inj in X6; [|assumption..].
  apply u16_inj in X7; [|assumption..].
  assert (VL1 : valid_wire (lower_name (s_signer s1)) = true) by (unfold lower_name; now rewrite valid_wire_lower).
  assert (VL2 : valid_wire (lower_name (s_signer s2)) = true) by (unfold lower_name; now rewrite valid_wire_lower).
  destruct (wire_name_inj _ _ _ _ VL1 VL2 M8) as [X8 M9].
  repeat (split; [assumption|]).
  f_equal. apply concat_canon_inj; [| |exact M9].
  - eapply (signed_rrs_canon s1 rs1); eassumption.
  - eapply (signed_rrs_canon s2 rs2); eassumption.
Qed.

Example wf_ex : wf_sig ex_sig /\ Forall wf_rr [ex_rr 10 [[77; 120]]; ex_rr 5 [[97]]].
Proof. unfold wf_sig, wf_rr. cbn. repeat split; try lia; repeat constructor; cbn; lia. Qed.
