// Package common is shared by the per-property harness commands. A harness runs the miekg/dns implementation (built from /repo's working
// tree with -tags verif) on generated inputs and prints, one JSON object per
// line, the projected observables that the Coq model is compared against
// ("case" lines) and the verdicts of the direct oracles ("viol" lines).
package common

import (
	"bufio"
	"encoding/hex"
	"encoding/json"
	"os"
	"strconv"
	"strings"
)

// ---- deterministic PRNG: splitmix64, one stream per run ----
type Rng struct{ S uint64 }

func (r *Rng) Next() uint64 {
	r.S += 0x9e3779b97f4a7c15
	z := r.S
	z = (z ^ (z >> 30)) * 0xbf58476d1ce4e5b9
	z = (z ^ (z >> 27)) * 0x94d049bb133111eb
	return z ^ (z >> 31)
}
func (r *Rng) Intn(n int) int {
	if n <= 0 {
		return 0
	}
	return int(r.Next() % uint64(n))
}
func (r *Rng) Bool() bool              { return r.Next()&1 == 1 }
func (r *Rng) Pick(xs []string) string { return xs[r.Intn(len(xs))] }
func (r *Rng) Bytes(n int) []byte {
	b := make([]byte, n)
	for i := range b {
		b[i] = byte(r.Next())
	}
	return b
}

var out = bufio.NewWriterSize(os.Stdout, 1<<20)

type line struct {
	K    string         `json:"k"`              // "case" | "viol" | "stat"
	Fn   string         `json:"fn,omitempty"`   // model function to run
	Args []string       `json:"args,omitempty"` // its arguments (hex / decimal strings)
	Out  string         `json:"out,omitempty"`  // what the implementation returned
	Key  string         `json:"key,omitempty"`  // viol: finding key (matched against known_findings.json)
	Desc string         `json:"desc,omitempty"` // viol: what failed
	In   any            `json:"in,omitempty"`   // viol: replayable input
	Stat map[string]int `json:"stat,omitempty"`
}

// Flush writes out everything emitted so far (before an early exit).
func Flush() { out.Flush() }

func Emit(fn string, args []string, o string) {
	b, _ := json.Marshal(line{K: "case", Fn: fn, Args: args, Out: o})
	out.Write(b)
	out.WriteByte('\n')
}

var violCount = map[string]int{}

// Viol reports a direct-oracle failure; at most 3 inputs per key are printed.
func Viol(key, desc string, in any) {
	violCount[key]++
	if violCount[key] > 3 {
		return
	}
	b, _ := json.Marshal(line{K: "viol", Key: key, Desc: desc, In: in})
	out.Write(b)
	out.WriteByte('\n')
}
func Stat(m map[string]int) {
	b, _ := json.Marshal(line{K: "stat", Stat: m})
	out.Write(b)
	out.WriteByte('\n')
}

func Hx(b []byte) string   { return hex.EncodeToString(b) }
func Hs(s string) string   { return hex.EncodeToString([]byte(s)) }
func Itoa(i int) string    { return strconv.Itoa(i) }
func Btoa(b bool) string   { return strconv.FormatBool(b) }
func Unhx(s string) []byte { b, _ := hex.DecodeString(s); return b }

// protect runs f and returns "panic" if it panicked.
func Protect(f func() string) (s string) {
	defer func() {
		if r := recover(); r != nil {
			s = "panic"
		}
	}()
	return f()
}

// ErrClass maps an error of the dns package to the class name the models use.
func ErrClass(err error) string {
	if err == nil {
		return ""
	}
	m := err.Error()
	for _, p := range [][2]string{
		{"buffer size too small", "buf"}, {"domain must be fully qualified", "fqdn"},
		{"bad rdata", "rdata"}, {"domain name exceeded", "longdomain"},
		{"too many compression pointers", "pointers"}, {"bad extended rcode", "extrcode"},
		{"bad rcode", "rcode"}, {"overflow", "overflow"}, {"bad rdlength", "rdlength"},
		{"bad off", "badoff"}, {"nil rr", "nilrr"},
	} {
		if strings.Contains(m, p[0]) {
			return p[1]
		}
	}
	return "other"
}

// Main parses "<seed> <tier> <n>" and runs f.
func Main(f func(r *Rng, tier string, n int)) {
	seed := uint64(1)
	tier := "quick"
	n := 0
	a := os.Args[1:]
	if len(a) > 0 && len(a[0]) > 0 && (a[0][0] == 'C' || a[0][0] == 'c') {
		a = a[1:] // optional property id
	}
	if len(a) > 0 {
		v, _ := strconv.ParseUint(a[0], 10, 64)
		seed = v
	}
	if len(a) > 1 {
		tier = a[1]
	}
	if len(a) > 2 {
		n, _ = strconv.Atoi(a[2])
	}
	defer out.Flush()
	f(&Rng{S: seed}, tier, n)
}
