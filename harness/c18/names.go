package main

import (
	"bytes"
	"strings"
	"time"
	"unicode"
	"unicode/utf8"

	"github.com/miekg/dns"
	. "verif/harness/common"
)

// ---------------------------------------------------------------------------
// Signer name against KEY owner name (round 5).
//
// "Verification fails if ... the key or signer name differs". A domain name is
// a sequence of labels of octets; two names are the same when they have the same
// labels up to the case of the ASCII letters A-Z / a-z (RFC 4343) - nothing
// else is a letter in the DNS: not the octets above 127, not the UTF-8 sequences
// some Unicode tables fold to an ASCII letter (U+212A KELVIN SIGN -> k, U+017F
// LONG S -> s, U+0130 / U+0131 dotted / dotless i), not '@' / '`' or '[' / '{'
// that differ by 0x20 like 'A' / 'a'.
//
// The SIG names the signer on the wire; the KEY's owner is a presentation
// string held by the caller - read from a key file or zone file, built in code,
// or unpacked from a message - so it may hold raw octets above 127 or escapes.
// Oracle (from the wire forms, found with PackDomainName and an independent
// label walker): the key name's labels differ from the signer's in any octet
// other than ASCII letter case, in a label length or in the number of labels
// (or the string is not a name at all) => Verify must fail; they differ in
// ASCII letter case at most and the string is written the way UnpackDomainName
// writes names (up to that case) => Verify must accept. The same name written
// another way (a letter as \DDD, an octet above 127 raw) is not judged: counted
// in same_name_other_presentation_*.
//
// Generated: signer names whose labels hold every octet value 0..255; at every
// position every one of the 256 values, the key name written canonically, with
// the octet raw and as \DDD; for every ASCII letter of several ASCII signer
// names every Unicode character that any of unicode.ToLower / ToUpper / ToTitle
// / SimpleFold relates to it, and its fullwidth form, as raw UTF-8 and escaped,
// one letter and all letters at a time, and the other way round (signer holds
// the UTF-8 octets, key the letter); random letter-case changes; labels added,
// dropped, merged, split, the dot escaped, root, "", no trailing dot. A sample
// of each kind is also a verify model case (Model/Sig0.v name_equal works on
// the label lists).
// ---------------------------------------------------------------------------

const (
	pCanon = iota // the way UnpackDomainName writes the octet
	pRaw          // the octet itself
	pDDD          // \DDD
)

func presentOctet(b byte, mode int) string {
	switch {
	case mode == pDDD:
		return "\\" + string([]byte{'0' + b/100, '0' + b/10%10, '0' + b%10})
	case mode == pRaw:
		return string([]byte{b})
	}
	switch b {
	case '.', ' ', '\'', '@', ';', '(', ')', '"', '\\':
		return "\\" + string([]byte{b})
	}
	if b < ' ' || b > '~' {
		return presentOctet(b, pDDD)
	}
	return string([]byte{b})
}

// present: the labels as a presentation string; mode(li, oi) says how octet oi of label li is written.
func present(ls [][]byte, mode func(li, oi int) int) string {
	if len(ls) == 0 {
		return "."
	}
	var sb strings.Builder
	for li, l := range ls {
		for oi, b := range l {
			sb.WriteString(presentOctet(b, mode(li, oi)))
		}
		sb.WriteByte('.')
	}
	return sb.String()
}

func allCanon(int, int) int { return pCanon }

func cloneLabels(ls [][]byte) [][]byte {
	o := make([][]byte, len(ls))
	for i, l := range ls {
		o[i] = append([]byte(nil), l...)
	}
	return o
}

func lowerASCII(b byte) byte {
	if b >= 'A' && b <= 'Z' {
		return b + 32
	}
	return b
}

func isLetter(b byte) bool { b = lowerASCII(b); return b >= 'a' && b <= 'z' }

// sameName: the same labels up to ASCII letter case.
func sameName(a, b [][]byte) bool {
	if len(a) != len(b) {
		return false
	}
	for i := range a {
		if len(a[i]) != len(b[i]) {
			return false
		}
		for j := range a[i] {
			if lowerASCII(a[i][j]) != lowerASCII(b[i][j]) {
				return false
			}
		}
	}
	return true
}

func sameStringASCII(a, b string) bool {
	if len(a) != len(b) {
		return false
	}
	for i := 0; i < len(a); i++ {
		if lowerASCII(a[i]) != lowerASCII(b[i]) {
			return false
		}
	}
	return true
}

const (
	expFail = iota
	expOK
	expUnjudged
)

// expectName: what the property demands for a KEY whose owner is the string v
// when the SIG names the signer with labels ls (canon: ls as UnpackDomainName writes them).
func expectName(ls [][]byte, canon, v string) int {
	w := nameWire(v)
	if v == "" || w == nil {
		return expFail // not a name
	}
	vl, end, ok := refName(w, 0)
	if !ok || end != len(w) || !sameName(vl, ls) {
		return expFail
	}
	if sameStringASCII(v, canon) {
		return expOK
	}
	return expUnjudged
}

// relatives: the characters outside ASCII that some Unicode case mapping or
// folding relates to the ASCII letter c (either case), and c's fullwidth forms.
var relativesTable map[byte][]rune

func relatives(c byte) []rune {
	if relativesTable == nil {
		relativesTable = map[byte][]rune{}
		add := func(to rune, r rune) {
			if to < 0x80 && isLetter(byte(to)) {
				l := lowerASCII(byte(to))
				for _, x := range relativesTable[l] {
					if x == r {
						return
					}
				}
				relativesTable[l] = append(relativesTable[l], r)
			}
		}
		for r := rune(0x80); r <= unicode.MaxRune; r++ {
			if r >= 0xD800 && r <= 0xDFFF {
				continue
			}
			add(unicode.ToLower(r), r)
			add(unicode.ToUpper(r), r)
			add(unicode.ToTitle(r), r)
			for f := unicode.SimpleFold(r); f != r; f = unicode.SimpleFold(f) {
				add(f, r)
			}
			for _, sc := range []unicode.SpecialCase{unicode.TurkishCase} {
				add(sc.ToLower(r), r)
				add(sc.ToUpper(r), r)
			}
		}
		for c := byte('a'); c <= 'z'; c++ {
			relativesTable[c] = append(relativesTable[c], 0xFF41+rune(c-'a'), 0xFF21+rune(c-'a'))
		}
	}
	return relativesTable[lowerASCII(c)]
}

func labelsOf(names ...string) [][]byte {
	var ls [][]byte
	for _, n := range names {
		ls = append(ls, []byte(n))
	}
	return ls
}

func oracleNames(r *Rng, keys []keyPair) {
	t0 := time.Now()
	defer func() { st["wall_ms_names"] = int(time.Since(t0).Milliseconds()) }()
	now := uint32(time.Now().Unix())

	type target struct {
		ls    [][]byte
		sweep bool // every octet value at every position
		uni   bool // Unicode relatives of its letters
	}
	var targets []target
	// every octet value occurs in a signer name
	for i := 0; i < 8; i++ {
		l := make([]byte, 32)
		for j := range l {
			l[j] = byte(32*i + j)
		}
		targets = append(targets, target{ls: [][]byte{l, []byte("x")}, sweep: true})
	}
	for _, n := range [][]string{{"k", "example"}, {"s", "example"}, {"sig0-key", "example"}, {"KISS", "Kiosk"}, {"i", "I", "is"},
		{"abcdefghijklm", "NOPQRSTUVWXYZ"}} {
		targets = append(targets, target{ls: labelsOf(n...), sweep: len(n[0]) <= 8, uni: true})
	}
	// signer names that hold the UTF-8 octets of such characters, raw high octets, specials
	targets = append(targets,
		target{ls: [][]byte{[]byte("\xe2\x84\xaa"), []byte("example")}, sweep: true},
		target{ls: [][]byte{[]byte("\xc5\xbfig0-\xe2\x84\xaaey"), []byte("example")}},
		target{ls: [][]byte{[]byte("a.b"), []byte("c\\d"), []byte("e f@g")}, sweep: true},
		target{ls: [][]byte{{0xff, 0xfe, 0x80, 0x00}, []byte("Z")}},
		target{ls: nil}, // root
	)
	for i := 0; i < 6; i++ {
		var ls [][]byte
		for j, n := 0, 1+r.Intn(4); j < n; j++ {
			l := make([]byte, 1+r.Intn(12))
			for k := range l {
				switch r.Intn(4) {
				case 0:
					l[k] = byte(r.Next())
				default:
					l[k] = labelAlpha[r.Intn(len(labelAlpha))]
				}
			}
			ls = append(ls, l)
		}
		targets = append(targets, target{ls: ls, sweep: i < 2})
	}

	modelTotal := map[string]int{}
	for ti, t := range targets {
		kp := keys[ti%len(keys)]
		canon, _, err := dns.UnpackDomainName(wireOf(t.ls), 0)
		if err != nil || present(t.ls, allCanon) != canon {
			st["names_presentation_differs"]++
			continue
		}
		kc := *kp.key
		kc.Hdr.Name = canon
		kpn := keyPair{&kc, kp.priv, kp.name}
		m := genMsg(r, 1)
		m.Compress = ti%2 == 0
		s := newSig(kpn, now-3000, now+3000)
		out, err := doSign(s, kpn, m)
		if err != nil {
			Viol("C18/Sign/error", "SIG.Sign failed for signer name "+canon+": "+err.Error(), c18in{Alg: kp.name, KeyRR: kc.String()})
			continue
		}
		first, used, _, _ := receive(out, s, &kc)
		if first != "ok:" {
			Viol("C18/Verify/signed-rejected", "signed message does not verify (signer name "+canon+"): "+first, c18in{Signed: Hx(out), Alg: kp.name, KeyRR: kc.String()})
			continue
		}
		modelLeft := map[string]int{}
		// check: Verify with a KEY owned by v; kind names the generator (and rations the model cases)
		check := func(v, kind string, model bool) {
			exp := expectName(t.ls, canon, v)
			k := *kp.key
			k.Hdr.Name = v
			var got string
			perTarget, global := 2, 6
			if strings.HasPrefix(kind, "octet-substituted") {
				perTarget, global = 4, 24
			}
			if model && exp != expUnjudged && modelLeft[kind] < perTarget && modelTotal[kind] < global && nameWire(v) != nil {
				modelLeft[kind]++
				modelTotal[kind]++
				st["key_name_model_cases"]++
				got = emitVerify(out, s, kp, &k)
			} else {
				got = verifyClass(used, &k, out)
			}
			st["key_names_checked"]++
			mkIn := func() c18in {
				return c18in{Signed: Hx(out), Alg: kp.name, KeyRR: k.String(),
					Detail: kind + ": signer " + Hx(wireOf(t.ls)) + " (" + canon + "), KEY owner string " + Hs(v) + ", as a name " + Hx(nameWire(v))}
			}
			switch {
			case got == "panic":
				Viol("C18/Verify/panic", "KEY owner name "+Hs(v)+": panic", mkIn())
			case exp == expFail && got == "ok:":
				Viol("C18/Verify/signer-name", "verified against a KEY whose owner name differs from the signer name ("+kind+")", mkIn())
			case exp == expFail:
				st["key_names_differing_checked"]++
			case exp == expOK && got != "ok:":
				Viol("C18/Verify/signer-name-case", "KEY owner differing from the signer in ASCII letter case only ("+kind+"): "+got, mkIn())
			case exp == expOK:
				st["key_names_same_checked"]++
			case got == "ok:":
				st["same_name_other_presentation_accepted"]++
			default:
				st["same_name_other_presentation_rejected"]++
			}
		}

		// (A) every octet value at every position
		if t.sweep {
			for li := range t.ls {
				for oi := range t.ls[li] {
					for b := 0; b < 256; b++ {
						ls2 := cloneLabels(t.ls)
						orig := ls2[li][oi]
						ls2[li][oi] = byte(b)
						at := func(mode int) func(int, int) int {
							return func(l, o int) int {
								if l == li && o == oi {
									return mode
								}
								return pCanon
							}
						}
						interesting := byte(b) == orig^0x20 || byte(b) == orig^0x80 || byte(b) == orig
						model := interesting && (ti+li+oi)%3 == 0 || (ti*7919+li*613+oi*31+b)%1733 == 0
						check(present(ls2, allCanon), "octet-substituted", model)
						if b >= 0x80 || (b > ' ' && b < 0x7f) {
							if v := present(ls2, at(pRaw)); v != present(ls2, allCanon) {
								check(v, "octet-substituted-raw", model)
							}
						}
						if byte(b) == orig || byte(b) == orig^0x20 || b%16 == 5 {
							check(present(ls2, at(pDDD)), "octet-substituted-escaped", false)
						}
					}
				}
			}
		}
		// (B) Unicode relatives of the ASCII letters
		if t.uni {
			type pos struct{ li, oi int }
			var letters []pos
			for li := range t.ls {
				for oi, b := range t.ls[li] {
					if isLetter(b) {
						letters = append(letters, pos{li, oi})
					}
				}
			}
			subst := func(which map[pos]rune) [][]byte {
				var ls2 [][]byte
				for li := range t.ls {
					var l []byte
					for oi, b := range t.ls[li] {
						if rn, ok := which[pos{li, oi}]; ok {
							l = utf8.AppendRune(l, rn)
						} else {
							l = append(l, b)
						}
					}
					ls2 = append(ls2, l)
				}
				return ls2
			}
			raw := func(ls [][]byte) string {
				return present(ls, func(li, oi int) int {
					if ls[li][oi] >= 0x80 {
						return pRaw
					}
					return pCanon
				})
			}
			for _, p := range letters {
				for _, rn := range relatives(t.ls[p.li][p.oi]) {
					ls2 := subst(map[pos]rune{p: rn})
					if len(ls2[p.li]) > 63 {
						continue
					}
					check(raw(ls2), "unicode-relative-raw", true)
					check(present(ls2, allCanon), "unicode-relative-escaped", true)
				}
			}
			// every letter that has a relative replaced at once (first, second, ... relative)
			for n := 0; n < 6; n++ {
				which := map[pos]rune{}
				for _, p := range letters {
					if rs := relatives(t.ls[p.li][p.oi]); len(rs) > 2 || len(letters) < 10 {
						which[p] = rs[n%len(rs)]
					}
				}
				ls2 := subst(which)
				long := false
				for _, l := range ls2 {
					long = long || len(l) > 63
				}
				if len(which) == 0 || long {
					continue
				}
				check(raw(ls2), "unicode-relatives-raw", true)
				check(present(ls2, allCanon), "unicode-relatives-escaped", false)
			}
		}
		// the other way round: where the signer holds octets above 127, a key with a letter there
		for li := range t.ls {
			for oi := 0; oi < len(t.ls[li]); oi++ {
				rn, size := utf8.DecodeRune(t.ls[li][oi:])
				if rn < 0x80 || rn == utf8.RuneError {
					continue
				}
				for _, c := range []rune{unicode.ToLower(rn), unicode.ToUpper(rn), unicode.SimpleFold(rn)} {
					if c >= 0x80 {
						continue
					}
					ls2 := cloneLabels(t.ls)
					ls2[li] = append(append(append([]byte(nil), t.ls[li][:oi]...), byte(c)), t.ls[li][oi+size:]...)
					check(present(ls2, allCanon), "letter-for-unicode-relative", true)
				}
			}
		}
		// (C) letter case: all upper, all lower, random
		check(strings.ToUpper(canon), "ascii-upper", true)
		check(strings.ToLower(canon), "ascii-lower", true)
		for n := 0; n < 8; n++ {
			b := []byte(canon)
			for i := range b {
				if isLetter(b[i]) && r.Bool() {
					b[i] ^= 0x20
				}
			}
			check(string(b), "ascii-case-random", n < 2)
		}
		// every octet of the string ^0x20 (letters: same name; anything else: another one or none)
		for i := 0; i < len(canon) && i < 80; i++ {
			b := []byte(canon)
			b[i] ^= 0x20
			check(string(b), "string-octet-xor-0x20", false)
		}
		// the same name written otherwise (not judged unless it is another name after all)
		check(present(t.ls, func(int, int) int { return pDDD }), "all-escaped", false)
		check(present(t.ls, func(li, oi int) int {
			if t.ls[li][oi] >= 0x80 {
				return pRaw
			}
			return pCanon
		}), "high-octets-raw", false)
		// (D) structure
		for _, v := range []string{"", ".", "x.", "x." + canon, canon + "x.", strings.TrimSuffix(canon, "."), canon + ".", "." + canon,
			strings.Replace(canon, ".", "\\.", 1), strings.Replace(canon, ".", "", 1), strings.Replace(canon, ".", "..", 1),
			canon + canon, "*." + canon, canon[:len(canon)/2] + ".", canon[len(canon)/2:]} {
			check(v, "structure", v != canon)
		}
		if len(t.ls) > 0 {
			check(present(t.ls[1:], allCanon), "first-label-dropped", true)
			check(present(t.ls[:len(t.ls)-1], allCanon), "last-label-dropped", true)
			l0 := t.ls[0]
			if len(l0) > 1 {
				split := append([][]byte{l0[:1], l0[1:]}, t.ls[1:]...)
				check(present(split, allCanon), "label-split", true)
				sh := cloneLabels(t.ls)
				sh[0] = sh[0][:len(l0)-1]
				check(present(sh, allCanon), "label-shortened", true)
			}
			if len(l0) < 63 {
				lg := cloneLabels(t.ls)
				lg[0] = append(lg[0], 0)
				check(present(lg, allCanon), "label-nul-appended", true)
				lg[0][len(l0)] = l0[len(l0)-1]
				check(present(lg, allCanon), "label-lengthened", false)
			}
			if len(t.ls) > 1 && len(l0)+len(t.ls[1]) <= 63 {
				merged := append([][]byte{append(append([]byte(nil), l0...), t.ls[1]...)}, t.ls[2:]...)
				check(present(merged, allCanon), "labels-merged", true)
				withDot := append([][]byte{bytes.Join([][]byte{l0, t.ls[1]}, []byte("."))}, t.ls[2:]...)
				if len(withDot[0]) <= 63 {
					check(present(withDot, allCanon), "labels-joined-by-dot-octet", true)
				}
			}
		}
	}
}
