(* Proofs/DedupProofs.v -- sanitize.go Dedup on (key, TTL) pairs: it keeps exactly
   the first occurrence of every key, in the original order, each with the
   smallest TTL among the records sharing that key; and normalizedString cuts
   the TTL column and lower-cases the owner column. *)
From Dns Require Import Base.ListX Model.Dup Proofs.EscapeProofs.
From Coq Require Import Lia ZifyN ZifyNat ZifyBool Sorted.
Open Scope list_scope.
Open Scope N_scope.

Definition key_of (l : list (bytes * N)) (i : nat) : bytes := fst (nth i l ([], 0)).
Definition ttl_of (l : list (bytes * N)) (i : nat) : N := snd (nth i l ([], 0)).

Lemma bytes_eqb_refl a : bytes_eqb a a = true.
Proof. now apply bytes_eqb_eq. Qed.
Lemma bytes_eqb_neq a b : bytes_eqb a b = false <-> a <> b.
Proof.
  split.
  - intros H E. apply bytes_eqb_eq in E. congruence.
  - intros H. destruct (bytes_eqb a b) eqn:E; [|reflexivity]. apply bytes_eqb_eq in E. contradiction.
Qed.
Lemma bytes_eqb_sym a b : bytes_eqb a b = bytes_eqb b a.
Proof.
  destruct (bytes_eqb a b) eqn:E.
  - apply bytes_eqb_eq in E. subst. symmetry. apply bytes_eqb_refl.
  - symmetry. apply bytes_eqb_neq. apply bytes_eqb_neq in E. congruence.
Qed.

(* ---------- 1. the in-place update of one map entry, as a top-level function ---------- *)
Section Upd.
  Variable k : bytes.
  Variable t : N.
  Fixpoint upd (m : list (bytes * (nat * N))) : option (list (bytes * (nat * N))) :=
    match m with
    | [] => None
    | (k', (j, t')) :: mr =>
      if bytes_eqb k' k then Some ((k', (j, if t <? t' then t else t')) :: mr)
      else match upd mr with Some mr' => Some ((k', (j, t')) :: mr') | None => None end
    end.
End Upd.

Lemma dedup_fill_step l i m k t :
  dedup_fill ((k, t) :: l) i m =
  match upd k t m with
  | Some m' => dedup_fill l (S i) m'
  | None => dedup_fill l (S i) (m ++ [(k, (i, t))])
  end.
Proof. reflexivity. Qed.

(* ---------- 2. functional specification ---------- *)
Definition mem (k : bytes) (keys : list bytes) : bool := existsb (fun x => bytes_eqb x k) keys.

Fixpoint min_over (l : list (bytes * N)) (k : bytes) (acc : N) : N :=
  match l with
  | [] => acc
  | (x, t) :: r => min_over r k (if bytes_eqb x k then N.min acc t else acc)
  end.

Fixpoint spec (l : list (bytes * N)) (i : nat) (seen : list bytes) : list (nat * N) :=
  match l with
  | [] => []
  | (k, t) :: r =>
    if mem k seen then spec r (S i) seen
    else (i, min_over r k t) :: spec r (S i) (seen ++ [k])
  end.

Definition lower1 (l : list (bytes * N)) (e : bytes * (nat * N)) : bytes * (nat * N) :=
  (fst e, (fst (snd e), min_over l (fst e) (snd (snd e)))).
Definition lower_map (l : list (bytes * N)) (m : list (bytes * (nat * N))) := map (lower1 l) m.

Lemma mem_In k keys : mem k keys = true <-> In k keys.
Proof.
  unfold mem. rewrite existsb_exists. split.
  - intros [x [Hx E]]. apply bytes_eqb_eq in E. now subst.
  - intros H. exists k. split; [exact H|apply bytes_eqb_refl].
Qed.
Lemma mem_false k keys : mem k keys = false <-> ~ In k keys.
Proof.
  rewrite <- mem_In. destruct (mem k keys); split; intros; congruence.
Qed.
Lemma mem_app k a b : mem k (a ++ b) = mem k a || mem k b.
Proof. apply existsb_app. Qed.

(* ---------- 3. the algorithm computes the specification ---------- *)
Lemma lower_map_id k t m : ~ In k (map fst m) ->
  map (lower1 [(k, t)]) m = m.
Proof.
  induction m as [|[k' [j t']] mr IH]; intros H; cbn; [reflexivity|].
  rewrite IH by (intro; apply H; now right). f_equal.
  unfold lower1; cbn. destruct (bytes_eqb k k') eqn:E; [|reflexivity].
  apply bytes_eqb_eq in E. subst. exfalso. apply H. now left.
Qed.

Lemma upd_spec k t m : NoDup (map fst m) ->
  upd k t m = if mem k (map fst m) then Some (map (lower1 [(k, t)]) m) else None.
Proof.
  induction m as [|[k' [j t']] mr IH]; intros ND; [reflexivity|].
  cbn [map fst] in ND. inversion ND as [|? ? Hn ND']; subst.
  cbn [upd map fst mem existsb]. fold (mem k (map fst mr)).
  destruct (bytes_eqb k' k) eqn:E.
  - cbn [orb]. apply bytes_eqb_eq in E. subst k'.
    rewrite (lower_map_id k t mr Hn). unfold lower1; cbn. rewrite bytes_eqb_refl.
    do 4 f_equal. destruct (t <? t') eqn:L; lia.
  - cbn [orb]. rewrite (IH ND'). destruct (mem k (map fst mr)); [|reflexivity].
    f_equal. f_equal. unfold lower1; cbn. rewrite bytes_eqb_sym, E. reflexivity.
Qed.

Lemma lower_map_cons k t r m : lower_map ((k, t) :: r) m = lower_map r (map (lower1 [(k, t)]) m).
Proof.
  unfold lower_map. rewrite map_map. apply map_ext. intros [k' [j t']]. reflexivity.
Qed.

Lemma map_fst_lower1 l m : map fst (map (lower1 l) m) = map fst m.
Proof. rewrite map_map. apply map_ext. intros [k' [j t']]. reflexivity. Qed.

Lemma NoDup_snoc {A} (l : list A) a : NoDup l -> ~ In a l -> NoDup (l ++ [a]).
Proof.
  induction l as [|x l IH]; intros ND H; cbn.
  - constructor; [intros []|constructor].
  - inversion ND; subst. constructor.
    + rewrite in_app_iff. intros [H1|[H1|[]]]; [contradiction|]. subst. apply H. now left.
    + apply IH; [assumption|]. intro; apply H; now right.
Qed.

Lemma dedup_fill_spec l : forall i m, NoDup (map fst m) ->
  map snd (dedup_fill l i m) = map snd (lower_map l m) ++ spec l i (map fst m).
Proof.
  induction l as [|[k t] r IH]; intros i m ND.
  - cbn. rewrite app_nil_r. unfold lower_map. f_equal.
    rewrite <- (map_id m) at 1. apply map_ext. intros [k' [j t']]. reflexivity.
  - rewrite dedup_fill_step, (upd_spec k t m ND). cbn [spec].
    destruct (mem k (map fst m)) eqn:M.
    + rewrite IH by (rewrite map_fst_lower1; exact ND).
      rewrite map_fst_lower1, lower_map_cons. reflexivity.
    + apply mem_false in M.
      rewrite IH.
      2:{ rewrite map_app. cbn [map fst]. apply NoDup_snoc; assumption. }
      rewrite lower_map_cons, (lower_map_id k t m M).
      unfold lower_map. rewrite !map_app. cbn [map]. rewrite <- app_assoc. reflexivity.
Qed.

Lemma dedup_spec l : dedup l = spec l 0 [].
Proof. unfold dedup. rewrite dedup_fill_spec by constructor. reflexivity. Qed.

(* ---------- 4. declarative characterisation ---------- *)
Lemma nth_skipn_add {A} (l : list A) n i d : nth i (skipn n l) d = nth (n + i) l d.
Proof.
  revert l; induction n as [|n IH]; intros l; [reflexivity|].
  destruct l as [|x l]; cbn; [now destruct i|apply IH].
Qed.

Lemma key_of_cons x l n : key_of (x :: l) (S n) = key_of l n.
Proof. reflexivity. Qed.
Lemma ttl_of_cons x l n : ttl_of (x :: l) (S n) = ttl_of l n.
Proof. reflexivity. Qed.

Lemma min_over_spec l k : forall acc,
  (min_over l k acc = acc \/
   exists i, (i < length l)%nat /\ key_of l i = k /\ ttl_of l i = min_over l k acc) /\
  min_over l k acc <= acc /\
  (forall i, (i < length l)%nat -> key_of l i = k -> min_over l k acc <= ttl_of l i).
Proof.
  induction l as [|[x t] r IH]; intros acc.
  - cbn. split; [now left|]. split; [lia|]. intros i Hi. lia.
  - cbn [min_over length].
    destruct (IH (if bytes_eqb x k then N.min acc t else acc)) as [H1 [H2 H3]].
    remember (if bytes_eqb x k then N.min acc t else acc) as a' eqn:Ea.
    split; [|split].
    + destruct H1 as [H1|[i [Hi [Hk Ht]]]].
      * subst a'. destruct (bytes_eqb x k) eqn:E; [|now left].
        apply bytes_eqb_eq in E.
        destruct (N.min_spec acc t) as [[_ M]|[_ M]]; rewrite M in H1 |- *.
        -- now left.
        -- right. exists O. split; [lia|]. split; [exact E|]. cbn. now rewrite H1.
      * right. exists (S i). split; [lia|]. rewrite key_of_cons, ttl_of_cons. auto.
    + subst a'. destruct (bytes_eqb x k); lia.
    + intros [|i] Hi Hk.
      * cbn in Hk |- *. subst x. rewrite bytes_eqb_refl in Ea. subst a'. lia.
      * rewrite key_of_cons in Hk. rewrite ttl_of_cons. apply H3; [lia|exact Hk].
Qed.

(* which (index, TTL) pairs the specification lists *)
Lemma spec_char l : forall i seen j t,
  In (j, t) (spec l i seen) <->
  exists n, j = (i + n)%nat /\ (n < length l)%nat /\ ~ In (key_of l n) seen /\
            (forall n', (n' < n)%nat -> key_of l n' <> key_of l n) /\
            t = min_over (skipn (S n) l) (key_of l n) (ttl_of l n).
Proof.
  induction l as [|[k t0] r IH]; intros i seen j t.
  - cbn. split; [intros []|]. intros [n [_ [H _]]]. lia.
  - cbn [spec]. destruct (mem k seen) eqn:M.
    + apply mem_In in M. rewrite IH. split.
      * intros [n [Hj [Hn [Hs [Hf Ht]]]]]. exists (S n). rewrite key_of_cons, ttl_of_cons.
        split; [lia|]. split; [cbn; lia|]. split; [exact Hs|]. split; [|exact Ht].
        intros [|n'] Hn'.
        -- cbn. intro E. apply Hs. now rewrite <- E.
        -- rewrite key_of_cons. apply Hf. lia.
      * intros [[|n] [Hj [Hn [Hs [Hf Ht]]]]].
        -- exfalso. apply Hs. exact M.
        -- rewrite key_of_cons, ttl_of_cons in *. exists n.
           split; [lia|]. split; [cbn in Hn; lia|]. split; [exact Hs|]. split; [|exact Ht].
           intros n' Hn'. specialize (Hf (S n')). rewrite key_of_cons in Hf. apply Hf. lia.
    + apply mem_false in M. cbn [In]. rewrite IH. split.
      * intros [E|[n [Hj [Hn [Hs [Hf Ht]]]]]].
        -- injection E as <- <-. exists O. split; [lia|]. split; [cbn; lia|].
           split; [exact M|]. split; [intros n' Hn'; lia|reflexivity].
        -- exists (S n). rewrite key_of_cons, ttl_of_cons.
           split; [lia|]. split; [cbn; lia|]. rewrite in_app_iff in Hs.
           split; [tauto|]. split; [|exact Ht].
           intros [|n'] Hn'.
           ++ cbn. intro E. apply Hs. right. left. exact E.
           ++ rewrite key_of_cons. apply Hf. lia.
      * intros [[|n] [Hj [Hn [Hs [Hf Ht]]]]].
        -- left. subst. cbn. f_equal. lia.
        -- right. rewrite key_of_cons, ttl_of_cons in *. exists n.
           split; [lia|]. split; [cbn in Hn; lia|]. split; [|split; [|exact Ht]].
           ++ rewrite in_app_iff. intros [H|[H|[]]]; [contradiction|].
              apply (Hf O); [lia|]. cbn. exact H.
           ++ intros n' Hn'. specialize (Hf (S n')). rewrite key_of_cons in Hf. apply Hf. lia.
Qed.

Lemma spec_sorted l : forall i seen,
  StronglySorted lt (map fst (spec l i seen)) /\
  Forall (fun j => (i <= j < i + length l)%nat) (map fst (spec l i seen)).
Proof.
  induction l as [|[k t0] r IH]; intros i seen.
  - cbn. split; constructor.
  - cbn [spec]. destruct (mem k seen).
    + destruct (IH (S i) seen) as [H1 H2]. split; [exact H1|].
      eapply Forall_impl; [|exact H2]. cbn. intros; lia.
    + destruct (IH (S i) (seen ++ [k])) as [H1 H2]. cbn [map fst]. split.
      * constructor; [exact H1|]. eapply Forall_impl; [|exact H2]. cbn. intros; lia.
      * constructor; [cbn; lia|]. eapply Forall_impl; [|exact H2]. cbn. intros; lia.
Qed.

(* --- the four clauses, on dedup itself --- *)
Lemma dedup_in_order l :
  StronglySorted lt (map fst (dedup l)) /\
  Forall (fun j => (j < length l)%nat) (map fst (dedup l)).
Proof.
  rewrite dedup_spec. destruct (spec_sorted l O []) as [H1 H2]. split; [exact H1|].
  eapply Forall_impl; [|exact H2]. cbn. intros; lia.
Qed.

Lemma dedup_char l j t :
  In (j, t) (dedup l) <->
  (j < length l)%nat /\ (forall j', (j' < j)%nat -> key_of l j' <> key_of l j) /\
  t = min_over (skipn (S j) l) (key_of l j) (ttl_of l j).
Proof.
  rewrite dedup_spec, spec_char. split.
  - intros [n [Hj [Hn [_ [Hf Ht]]]]]. cbn in Hj. subst n. auto.
  - intros [Hj [Hf Ht]]. exists j. cbn. repeat split; auto.
Qed.

Lemma dedup_first_occurrences l j :
  In j (map fst (dedup l)) <->
  (j < length l)%nat /\ (forall j', (j' < j)%nat -> key_of l j' <> key_of l j).
Proof.
  rewrite in_map_iff. split.
  - intros [[j0 t] [E H]]. cbn in E. subst j0. apply dedup_char in H. tauto.
  - intros [H1 H2]. eexists (j, _). split; [reflexivity|]. apply dedup_char. eauto.
Qed.

Lemma dedup_min_ttl l j t :
  In (j, t) (dedup l) ->
  (exists i, (i < length l)%nat /\ key_of l i = key_of l j /\ ttl_of l i = t) /\
  (forall i, (i < length l)%nat -> key_of l i = key_of l j -> t <= ttl_of l i).
Proof.
  intros H. apply dedup_char in H. destruct H as [Hj [Hf Ht]].
  destruct (min_over_spec (skipn (S j) l) (key_of l j) (ttl_of l j)) as [H1 [H2 H3]].
  rewrite <- Ht in *. assert (HL : length (skipn (S j) l) = (length l - S j)%nat) by apply skipn_length.
  split.
  - destruct H1 as [H1|[i [Hi [Hk Hti]]]].
    + exists j. auto.
    + exists (S j + i)%nat. unfold key_of, ttl_of in *. rewrite nth_skipn_add in Hk, Hti.
      split; [lia|]. split; assumption.
  - intros i Hi Hk.
    destruct (Nat.lt_trichotomy i j) as [L|[L|L]].
    + exfalso. exact (Hf i L Hk).
    + subst i. exact H2.
    + specialize (H3 (i - S j)%nat). unfold key_of, ttl_of in H3. rewrite !nth_skipn_add in H3.
      replace (S j + (i - S j))%nat with i in H3 by lia. apply H3; [lia|exact Hk].
Qed.

(* the first index carrying a given key *)
Lemma first_with_key l k : forall i, (i < length l)%nat -> key_of l i = k ->
  exists j, (j <= i)%nat /\ key_of l j = k /\ forall j', (j' < j)%nat -> key_of l j' <> k.
Proof.
  induction i as [i IH] using lt_wf_ind. intros Hi Hk.
  destruct (existsb (fun j' => bytes_eqb (key_of l j') k) (seq 0 i)) eqn:E.
  - apply existsb_exists in E. destruct E as [j' [Hin Hb]]. apply in_seq in Hin.
    apply bytes_eqb_eq in Hb. destruct (IH j') as [j [H1 [H2 H3]]]; [lia|lia|exact Hb|].
    exists j. split; [lia|]. auto.
  - exists i. split; [lia|]. split; [exact Hk|]. intros j' Hj' Hb.
    assert (X : existsb (fun j' => bytes_eqb (key_of l j') k) (seq 0 i) = true).
    { apply existsb_exists. exists j'. split; [apply in_seq; lia|now apply bytes_eqb_eq]. }
    congruence.
Qed.

Lemma dedup_complete l i : (i < length l)%nat ->
  exists j, (In j (map fst (dedup l)) /\ key_of l j = key_of l i) /\
            forall j', In j' (map fst (dedup l)) /\ key_of l j' = key_of l i -> j' = j.
Proof.
  intros Hi. destruct (first_with_key l (key_of l i) i Hi eq_refl) as [j [H1 [H2 H3]]].
  exists j. split.
  - split; [|exact H2]. apply dedup_first_occurrences. split; [lia|]. now rewrite H2.
  - intros j' [Hin Hk]. apply dedup_first_occurrences in Hin. destruct Hin as [Hl Hf].
    destruct (Nat.lt_trichotomy j' j) as [L|[L|L]]; [|exact L|].
    + exfalso. exact (H3 j' L Hk).
    + exfalso. apply (Hf j L). congruence.
Qed.

Lemma dedup_nodup l : NoDup (map fst (dedup l)).
Proof.
  destruct (dedup_in_order l) as [H _]. revert H. generalize (map fst (dedup l)).
  induction l0 as [|x r IH]; intros H; [constructor|].
  inversion H; subst. constructor; [|auto].
  intro Hin. rewrite Forall_forall in H3. specialize (H3 x Hin). lia.
Qed.

(* ---------- 5. normalizedString ---------- *)
(* The escape state is the automaton of EscapeProofs: an octet is escaped iff it
   is preceded by an odd number of backslashes.  [has_utab st s]: s read from
   state st contains an unescaped TAB; [esc_lower st s]: s with its unescaped
   upper-case letters lower-cased; [scan st s]: the state after s. *)
Fixpoint has_utab (st : bool) (s : bytes) : bool :=
  match s with
  | [] => false
  | c :: r => (negb st && (c =? 9)) || has_utab (esc_step st c) r
  end.
Fixpoint esc_lower (st : bool) (s : bytes) : bytes :=
  match s with
  | [] => []
  | c :: r => (if st then c else lower c) :: esc_lower (esc_step st c) r
  end.

Lemma esc_lower_length st s : length (esc_lower st s) = length s.
Proof. revert st; induction s as [|c r IH]; intros st; cbn; [reflexivity|]. now rewrite IH. Qed.

Lemma norm_scan_app p : forall q i st ts acc, has_utab st p = false ->
  norm_scan (p ++ q) i st ts acc = norm_scan q (i + length p) (scan st p) ts (acc ++ esc_lower st p).
Proof.
  induction p as [|c r IH]; intros q i st ts acc H.
  - cbn. now rewrite Nat.add_0_r, app_nil_r.
  - cbn [has_utab] in H. apply orb_false_elim in H. destruct H as [H1 H2].
    cbn [app norm_scan scan esc_lower length].
    replace (i + S (length r))%nat with (S i + length r)%nat by lia.
    replace (acc ++ (if st then c else lower c) :: esc_lower (esc_step st c) r)
      with ((acc ++ [if st then c else lower c]) ++ esc_lower (esc_step st c) r)
      by (rewrite <- app_assoc; reflexivity).
    destruct (c =? 92) eqn:E92.
    + apply N.eqb_eq in E92. subst c.
      rewrite IH by (destruct st; exact H2). destruct st; reflexivity.
    + assert (ES : esc_step st c = false) by (unfold esc_step; destruct st; [reflexivity|exact E92]).
      rewrite ES in *.
      destruct ((c =? 9) && negb st) eqn:E9.
      { apply andb_prop in E9. destruct E9 as [A B]. rewrite A, B in H1. discriminate. }
      destruct ((65 <=? c) && (c <=? 90) && negb st) eqn:EU.
      * apply andb_prop in EU. destruct EU as [A B]. destruct st; [discriminate|].
        unfold lower. rewrite A. rewrite IH by exact H2. reflexivity.
      * rewrite IH by exact H2. destruct st; [reflexivity|].
        unfold lower. cbn [negb] in EU. rewrite andb_true_r in EU. now rewrite EU.
Qed.

Lemma normalized_string_general o ttl rest :
  o <> [] ->
  has_utab false o = false -> scan false o = false ->
  has_utab false ttl = false -> scan false ttl = false ->
  normalized_string (o ++ [9] ++ ttl ++ [9] ++ rest) = esc_lower false o ++ [9] ++ rest.
Proof.
  intros Ho H1 H2 H3 H4. unfold normalized_string.
  rewrite norm_scan_app by exact H1. rewrite H2. cbn [app Nat.add].
  destruct (length o) as [|n] eqn:L; [destruct o; [congruence|discriminate]|].
  cbn [norm_scan N.eqb Pos.eqb andb negb]. 
  rewrite norm_scan_app by exact H3. rewrite H4.
  cbn [norm_scan N.eqb Pos.eqb andb negb].
  destruct (S (S n) + length ttl)%nat eqn:L2; [lia|]. rewrite <- L2, <- L.
  rewrite <- !app_assoc.
  rewrite <- (esc_lower_length false o) at 1. rewrite firstn_app_exact.
  replace (esc_lower false o ++ [9] ++ esc_lower false ttl ++ 9 :: rest)
    with ((esc_lower false o ++ [9] ++ esc_lower false ttl) ++ 9 :: rest)
    by (rewrite <- !app_assoc; reflexivity).
  replace (S (length o) + length ttl)%nat with (length (esc_lower false o ++ [9] ++ esc_lower false ttl)).
  2:{ rewrite !app_length, !esc_lower_length. cbn. lia. }
  rewrite skipn_app_exact. reflexivity.
Qed.

Definition plain (s : bytes) : Prop := Forall (fun c => c <> 9 /\ c <> 92) s.

Lemma plain_facts s : plain s ->
  has_utab false s = false /\ scan false s = false /\ esc_lower false s = lower_bytes s.
Proof.
  induction 1 as [|c r [A B] _ IH]; [repeat split|].
  assert (E : esc_step false c = false) by (cbn; now apply N.eqb_neq).
  unfold lower_bytes in *. cbn [has_utab scan esc_lower map negb andb].
  rewrite E. destruct IH as [I1 [I2 I3]]. rewrite I1, I2, I3.
  repeat split. apply N.eqb_neq in A. now rewrite A.
Qed.

Lemma normalized_string_plain o ttl rest :
  o <> [] -> plain o -> plain ttl ->
  normalized_string (o ++ [9] ++ ttl ++ [9] ++ rest) = lower_bytes o ++ [9] ++ rest.
Proof.
  intros Ho Po Pt. destruct (plain_facts o Po) as [A [B C]]. destruct (plain_facts ttl Pt) as [D [E _]].
  rewrite <- C. now apply normalized_string_general.
Qed.

(* the empty-owner corner: ttlStart = 0 doubles as the not-yet-seen marker, so
   with an empty first column the first TAB is not recognised as the start of
   the TTL and the wrong column is cut.  (Never reached from Dedup: String()
   of a record never starts with a TAB unless the owner name is empty.) *)
Lemma normalized_string_empty_owner_refuted :
  normalized_string ([] ++ [9] ++ [51] ++ [9] ++ [73; 78; 9; 65]) <> lower_bytes [] ++ [9] ++ [73; 78; 9; 65].
Proof. vm_compute. discriminate. Qed.

(* two record texts get the same key iff they differ at most in the letter case
   of the owner column and in the TTL column *)
Lemma app_tab_inj a : forall b x y, ~ In 9 a -> ~ In 9 b ->
  a ++ 9 :: x = b ++ 9 :: y -> a = b /\ x = y.
Proof.
  induction a as [|c a IH]; intros [|d b] x y Ha Hb E; cbn in E.
  - injection E as E. auto.
  - injection E as E1 E2. exfalso. apply Hb. left. congruence.
  - injection E as E1 E2. exfalso. apply Ha. left. congruence.
  - injection E as E1 E2. subst d. destruct (IH b x y) as [-> ->]; auto.
    + intro; apply Ha; now right.
    + intro; apply Hb; now right.
Qed.

Lemma plain_lower_no_tab o : plain o -> ~ In 9 (lower_bytes o).
Proof.
  unfold plain, lower_bytes. rewrite Forall_forall. intros H Hin. apply in_map_iff in Hin.
  destruct Hin as [c [E Hc]]. destruct (H c Hc) as [A _]. unfold lower in E.
  destruct ((65 <=? c) && (c <=? 90)) eqn:U; lia.
Qed.

Lemma normalized_key_eq_iff o1 t1 r1 o2 t2 r2 :
  o1 <> [] -> o2 <> [] -> plain o1 -> plain t1 -> plain o2 -> plain t2 ->
  (normalized_string (o1 ++ [9] ++ t1 ++ [9] ++ r1) = normalized_string (o2 ++ [9] ++ t2 ++ [9] ++ r2)
   <-> lower_bytes o1 = lower_bytes o2 /\ r1 = r2).
Proof.
  intros N1 N2 P1 Q1 P2 Q2. rewrite !normalized_string_plain by assumption. split.
  - intros E. cbn [app] in E. apply app_tab_inj in E; auto using plain_lower_no_tab.
  - intros [-> ->]. reflexivity.
Qed.
