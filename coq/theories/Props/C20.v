(* Props/C20.v -- property C20: record equality is a TTL/case-insensitive
   equivalence; Dedup keeps one record per group.  Only statements; proofs in
   Proofs/DedupProofs.v (sanitize.go) and Proofs/DupProofs.v (duplicate.go).

   Vocabulary, part A.  [dedup l] models sanitize.go Dedup on the list l of
   (normalised key, TTL) of the input records, in input order; it returns the
   indices of the records kept, each with its final TTL, in output order (the
   harness compares exactly this list against the Go result).  [key_of l i] and
   [ttl_of l i] are the key and TTL of record i.  Two records are in the same
   group iff their keys are equal; the key is normalizedString of the record
   text, characterised at the end of part A. *)
From Dns Require Import Model.Dup Gen.Dups Gen.Layouts Gen.Registry Proofs.EscapeProofs Proofs.DedupProofs Proofs.DupProofs Proofs.DupWireProofs.
From Coq Require Import Sorted.
Open Scope list_scope.
Open Scope N_scope.

(* ---------------- Part A: Dedup ---------------- *)

(* original order: the kept indices are strictly increasing and in range *)
Theorem dedup_in_order :
  forall l : list (bytes * N),
    StronglySorted lt (map fst (dedup l)) /\
    Forall (fun j => (j < length l)%nat) (map fst (dedup l)).
Proof. exact DedupProofs.dedup_in_order. Qed.
Print Assumptions dedup_in_order.

(* index j is kept iff it is the first record of its group *)
Theorem dedup_first_occurrences :
  forall (l : list (bytes * N)) (j : nat),
    In j (map fst (dedup l)) <->
    (j < length l)%nat /\ (forall j', (j' < j)%nat -> key_of l j' <> key_of l j).
Proof. exact DedupProofs.dedup_first_occurrences. Qed.
Print Assumptions dedup_first_occurrences.

(* the TTL of a kept record is the minimum over its group: attained by a record
   of the group, and below the TTL of every record of the group *)
Theorem dedup_min_ttl :
  forall (l : list (bytes * N)) (j : nat) (t : N),
    In (j, t) (dedup l) ->
    (exists i, (i < length l)%nat /\ key_of l i = key_of l j /\ ttl_of l i = t) /\
    (forall i, (i < length l)%nat -> key_of l i = key_of l j -> t <= ttl_of l i).
Proof. exact DedupProofs.dedup_min_ttl. Qed.
Print Assumptions dedup_min_ttl.

(* every input record is represented by exactly one kept record *)
Theorem dedup_complete :
  forall (l : list (bytes * N)) (i : nat),
    (i < length l)%nat ->
    exists j, (In j (map fst (dedup l)) /\ key_of l j = key_of l i) /\
              forall j', In j' (map fst (dedup l)) /\ key_of l j' = key_of l i -> j' = j.
Proof. exact DedupProofs.dedup_complete. Qed.
Print Assumptions dedup_complete.

(* no index is returned twice *)
Theorem dedup_no_repeats :
  forall l : list (bytes * N), NoDup (map fst (dedup l)).
Proof. exact DedupProofs.dedup_nodup. Qed.
Print Assumptions dedup_no_repeats.

(* non-vacuity: records 0,2,3 share a key, 1 and 4 share another one *)
Example dedup_example :
  let l := [([97], 30); ([98], 7); ([97], 20); ([97], 25); ([98], 9); ([99], 1)] in
  dedup l = [(0%nat, 20); (1%nat, 7); (5%nat, 1)] /\
  In (0%nat, 20) (dedup l) /\ (2 < length l)%nat /\ key_of l 2 = key_of l 0.
Proof. vm_compute. repeat split; auto. Qed.

(* normalizedString.  The record text is owner TAB ttl TAB rest.  Escape state:
   an octet is escaped iff preceded by an odd number of backslashes
   ([scan false s] is the state after s, [has_utab false s] says s contains an
   unescaped TAB, [esc_lower false s] lower-cases the unescaped letters of s).
   For an owner and a TTL column without unescaped TAB and not ending in a
   dangling backslash, the TTL column is cut out, the owner is lower-cased
   (escaped letters excepted, as in the Go code) and the rest is untouched. *)
Theorem normalized_string_cuts_ttl_and_lowers_owner :
  forall o ttl rest : bytes,
    o <> [] ->
    has_utab false o = false -> scan false o = false ->
    has_utab false ttl = false -> scan false ttl = false ->
    normalized_string (o ++ [9] ++ ttl ++ [9] ++ rest) = esc_lower false o ++ [9] ++ rest.
Proof. exact normalized_string_general. Qed.
Print Assumptions normalized_string_cuts_ttl_and_lowers_owner.

(* the common case: no TAB and no backslash at all in the first two columns *)
Theorem normalized_string_plain_columns :
  forall o ttl rest : bytes,
    o <> [] -> plain o -> plain ttl ->
    normalized_string (o ++ [9] ++ ttl ++ [9] ++ rest) = lower_bytes o ++ [9] ++ rest.
Proof. exact normalized_string_plain. Qed.
Print Assumptions normalized_string_plain_columns.

(* hence two record texts fall in the same Dedup group exactly when they differ
   at most in the letter case of the owner column and in the TTL column *)
Theorem same_key_iff_same_text_up_to_owner_case_and_ttl :
  forall o1 ttl1 rest1 o2 ttl2 rest2 : bytes,
    o1 <> [] -> o2 <> [] -> plain o1 -> plain ttl1 -> plain o2 -> plain ttl2 ->
    (normalized_string (o1 ++ [9] ++ ttl1 ++ [9] ++ rest1) = normalized_string (o2 ++ [9] ++ ttl2 ++ [9] ++ rest2)
     <-> lower_bytes o1 = lower_bytes o2 /\ rest1 = rest2).
Proof. exact normalized_key_eq_iff. Qed.
Print Assumptions same_key_iff_same_text_up_to_owner_case_and_ttl.

(* the hypothesis o <> [] is needed: with an empty owner column the code takes
   the second TAB for the first one (ttlStart = 0 is its not-yet-seen marker) *)
Theorem normalized_string_empty_owner_refuted :
  normalized_string ([] ++ [9] ++ [51] ++ [9] ++ [73; 78; 9; 65]) <> lower_bytes [] ++ [9] ++ [73; 78; 9; 65].
Proof. exact DedupProofs.normalized_string_empty_owner_refuted. Qed.
Print Assumptions normalized_string_empty_owner_refuted.

(* non-vacuity: Ab.\C TAB 300 TAB IN TAB A ... : the escaped C keeps its case *)
Example normalized_string_example :
  let o := [65; 98; 46; 92; 67; 46] in let ttl := [51; 48; 48] in
  o <> [] /\ has_utab false o = false /\ scan false o = false /\
  has_utab false ttl = false /\ scan false ttl = false /\ plain ttl /\
  normalized_string (o ++ [9] ++ ttl ++ [9] ++ [73; 78; 9; 65]) = [97; 98; 46; 92; 67; 46; 9; 73; 78; 9; 65].
Proof.
  cbv zeta. split; [discriminate|]. repeat split; try reflexivity.
  repeat constructor; discriminate.
Qed.

(* ---------------- Part B: IsDuplicate ---------------- *)
(* Vocabulary.  [is_duplicate r1 r2] models duplicate.go IsDuplicate; the RDATA
   part interprets the comparison list [dp_cmps] that tools/gotrans extracts for
   the record's Go type from the current zduplicate.go ([dups], regenerated on
   every run), so the theorems below are re-proved against whatever the
   generator emitted.  [cmps_wf cs] is a boolean check of one list: nothing
   untranslated, every element-wise loop and areSVCBPairArraysEqual preceded by
   the length comparison of the same field, every gateway comparison preceded
   by the comparison of the gateway type, return true/false only at the end.
   [typed_for cs v] says the RDATA v holds, in every field cs looks at, a value
   of the kind the Go field type dictates (or nothing: the zero value). *)

(* the whole current table is well-formed *)
Theorem dups_table_well_formed :
  forallb (fun t => cmps_wf (dp_cmps t)) dups = true.
Proof. exact dups_wf. Qed.
Print Assumptions dups_table_well_formed.

(* the RDATA comparison of a well-formed list: total (no panic of
   areSVCBPairArraysEqual, no error) on ALL values, typed or not ... *)
Theorem rdata_comparison_never_panics :
  forall (cs : list dcmp) (v1 v2 : rdata),
    cmps_wf cs = true -> exists b, dup_cmps cs v1 v2 = Ok b.
Proof. exact dup_cmps_total. Qed.
Print Assumptions rdata_comparison_never_panics.

(* ... reflexive on values of the right kinds, unless the list ends in return false ... *)
Theorem rdata_comparison_reflexive :
  forall (cs : list dcmp) (v : rdata),
    cmps_wf cs = true -> no_const_false cs = true -> typed_for cs v = true ->
    dup_cmps cs v v = Ok true.
Proof. exact dup_cmps_refl. Qed.
Print Assumptions rdata_comparison_reflexive.

(* ... symmetric (the two verdicts are the same, whatever the values) ... *)
Theorem rdata_comparison_symmetric :
  forall (cs : list dcmp) (v1 v2 : rdata),
    cmps_wf cs = true -> dup_cmps cs v1 v2 = dup_cmps cs v2 v1.
Proof. exact dup_cmps_sym. Qed.
Print Assumptions rdata_comparison_symmetric.

(* ... and transitive, for outer values of one Go type ([same_shape v1 v3]:
   wherever both hold a value it is of the same kind).  In the model a field the
   record does not carry (unpack() returned early) is the zero value of whatever
   the other side holds, so without this an absent middle field would link a
   number 0 to an empty string: the refuted statement below. *)
Theorem rdata_comparison_transitive :
  forall (cs : list dcmp) (v1 v2 v3 : rdata),
    cmps_wf cs = true -> same_shape v1 v3 ->
    dup_cmps cs v1 v2 = Ok true -> dup_cmps cs v2 v3 = Ok true -> dup_cmps cs v1 v3 = Ok true.
Proof. exact dup_cmps_trans. Qed.
Print Assumptions rdata_comparison_transitive.

Theorem rdata_comparison_transitive_untyped_refuted :
  let cs := [D_eq "X"; D_const true] in
  let v1 := [("X"%string, V_n 0)] in let v2 : rdata := [] in let v3 := [("X"%string, V_s [])] in
  cmps_wf cs = true /\ dup_cmps cs v1 v2 = Ok true /\ dup_cmps cs v2 v3 = Ok true /\ dup_cmps cs v1 v3 = Ok false.
Proof. exact dup_cmps_trans_untyped_witness. Qed.
Print Assumptions rdata_comparison_transitive_untyped_refuted.

(* a true verdict means every listed field agrees: scalars are equal
   ([val_agree]: equal, an absent field standing for the zero value), names are
   equal up to letter case *)
Theorem duplicate_rdata_agree_on_compared_fields :
  forall (cs : list dcmp) (v1 v2 : rdata) (f : string),
    cmps_wf cs = true -> dup_cmps cs v1 v2 = Ok true ->
    (In (D_eq f) cs -> val_agree (vget v1 f) (vget v2 f)) /\
    (In (D_name f) cs -> lower_bytes (as_s (vget v1 f)) = lower_bytes (as_s (vget v2 f))).
Proof. exact dup_cmps_true_fields. Qed.
Print Assumptions duplicate_rdata_agree_on_compared_fields.

(* --- on records --- *)
(* IsDuplicate never panics: it gives a verdict for every pair of records whose
   Go type has an entry in the table *)
Theorem is_duplicate_never_panics :
  forall r1 r2 : rr,
    (exists b, is_duplicate r1 r2 = Ok b) \/
    (find_dup dups (rr_kind r1) = None /\ is_duplicate r1 r2 = Err "nodup").
Proof. exact is_duplicate_total. Qed.
Print Assumptions is_duplicate_never_panics.

(* reflexive, for every record type but OPT and PrivateRR (next theorems) *)
Theorem is_duplicate_reflexive :
  forall (r : rr) (cs : list dcmp),
    rr_kind r <> "OPT"%string -> rr_kind r <> "PrivateRR"%string ->
    find_dup dups (rr_kind r) = Some cs -> typed_for cs (rr_data r) = true ->
    is_duplicate r r = Ok true.
Proof. exact is_duplicate_refl. Qed.
Print Assumptions is_duplicate_reflexive.

(* FINDING (known for OPT): OPT.isDuplicate and PrivateRR.isDuplicate are
   "return false": IsDuplicate(r, r) is false for every such record, so the
   relation is not reflexive there *)
Theorem is_duplicate_opt_not_reflexive_refuted :
  forall r : rr, rr_kind r = "OPT"%string -> is_duplicate r r = Ok false.
Proof. exact is_duplicate_opt_irrefl. Qed.
Print Assumptions is_duplicate_opt_not_reflexive_refuted.

Theorem is_duplicate_privaterr_not_reflexive_refuted :
  forall r : rr, rr_kind r = "PrivateRR"%string -> is_duplicate r r = Ok false.
Proof. exact is_duplicate_private_irrefl. Qed.
Print Assumptions is_duplicate_privaterr_not_reflexive_refuted.

(* symmetric: same outcome in both directions, for all records *)
Theorem is_duplicate_symmetric :
  forall r1 r2 : rr, is_duplicate r1 r2 = is_duplicate r2 r1.
Proof. exact is_duplicate_sym. Qed.
Print Assumptions is_duplicate_symmetric.

Theorem is_duplicate_transitive :
  forall r1 r2 r3 : rr,
    same_shape (rr_data r1) (rr_data r3) ->
    is_duplicate r1 r2 = Ok true -> is_duplicate r2 r3 = Ok true -> is_duplicate r1 r3 = Ok true.
Proof. exact is_duplicate_trans. Qed.
Print Assumptions is_duplicate_transitive.

(* duplicates have the same class, type, Go type, and owner up to letter case *)
Theorem is_duplicate_header :
  forall r1 r2 : rr,
    is_duplicate r1 r2 = Ok true ->
    rr_class r1 = rr_class r2 /\ rr_type r1 = rr_type r2 /\ rr_kind r1 = rr_kind r2 /\
    lower_bytes (rr_name r1) = lower_bytes (rr_name r2).
Proof. exact is_duplicate_true_header. Qed.
Print Assumptions is_duplicate_header.

(* TTL and Rdlength of either record are not looked at *)
Theorem is_duplicate_ignores_ttl :
  forall (r1 r2 : rr) (ttl1 rdlen1 ttl2 rdlen2 : N),
    is_duplicate (with_ttl r1 ttl1 rdlen1) (with_ttl r2 ttl2 rdlen2) = is_duplicate r1 r2.
Proof. exact DupProofs.is_duplicate_ignores_ttl. Qed.
Print Assumptions is_duplicate_ignores_ttl.

(* nor is the letter case of the owner name *)
Theorem is_duplicate_ignores_owner_case :
  forall (r1 r2 : rr) (n1 n2 : bytes),
    lower_bytes n1 = lower_bytes (rr_name r1) -> lower_bytes n2 = lower_bytes (rr_name r2) ->
    is_duplicate (with_name r1 n1) (with_name r2 n2) = is_duplicate r1 r2.
Proof. exact DupProofs.is_duplicate_ignores_owner_case. Qed.
Print Assumptions is_duplicate_ignores_owner_case.

(* nor the letter case of an embedded name (or list of names) f, provided the
   type's comparison list looks at f only through isDuplicateName ([ci_ok f]);
   [ci_variant o o']: o' is o up to the case of a name / of each name of a list *)
Theorem is_duplicate_ignores_embedded_name_case :
  forall (r1 r2 : rr) (v1' v2' : rdata) (f : string) (cs : list dcmp),
    find_dup dups (rr_kind r1) = Some cs -> forallb (ci_ok f) cs = true ->
    (forall g, g <> f -> vget v1' g = vget (rr_data r1) g /\ vget v2' g = vget (rr_data r2) g) ->
    ci_variant (vget (rr_data r1) f) (vget v1' f) -> ci_variant (vget (rr_data r2) f) (vget v2' f) ->
    is_duplicate (with_data r1 v1') (with_data r2 v2') = is_duplicate r1 r2.
Proof. exact DupProofs.is_duplicate_ignores_embedded_name_case. Qed.
Print Assumptions is_duplicate_ignores_embedded_name_case.

(* --- the table against the wire layouts (Gen/Layouts.v, from zmsg.go) --- *)
(* every field that pack() writes is looked at by the type's isDuplicate; the
   one exception is OPT.Option (OPT's isDuplicate is return false) *)
Theorem no_wire_field_omitted :
  filter (fun x => negb (Nat.eqb (length (snd x)) 0)) (map (fun t => (tl_name t, uncompared t)) layouts)
  = [("OPT"%string, ["Option"%string])].
Proof. exact every_wire_field_compared. Qed.
Print Assumptions no_wire_field_omitted.

(* every field packed as a domain name (single, list, gateway host) is compared
   by isDuplicateName with the same gateway mask and by nothing case-sensitive
   ([name_field_ok]); and only such fields are compared case-insensitively
   ([ci_cmp_ok]) *)
Theorem embedded_names_compared_case_insensitively :
  forallb (fun t => match find_dup dups (tl_name t) with
                    | Some cs => forallb (name_field_ok cs) (tl_pack t) && forallb (ci_cmp_ok t) cs
                    | None => false end) layouts = true.
Proof. exact wire_names_compared_ci. Qed.
Print Assumptions embedded_names_compared_case_insensitively.

(* --- names obtained from the wire --- *)
(* a valid wire name ls unpacks to the text show_name ls
   (NameRoundtripProofs.unpack_wire_name, used by C04); on such texts
   isDuplicateName holds exactly when the lower-cased uncompressed wire forms
   are equal *)
Theorem name_equal_iff_lowercased_wire_equal :
  forall a b : list label,
    valid_wire a = true -> valid_wire b = true ->
    (name_eq_ci (show_name a) (show_name b) = true <->
     lower_bytes (wire_name a) = lower_bytes (wire_name b)).
Proof. exact name_eq_ci_wire. Qed.
Print Assumptions name_equal_iff_lowercased_wire_equal.

(* --- non-vacuity --- *)
Definition mx_a : rr :=
  {| rr_name := bytes_of_string "Example.ORG."; rr_type := 15; rr_class := 1; rr_ttl := 300; rr_rdlength := 0;
     rr_kind := "MX"; rr_data := [("Preference"%string, V_n 10); ("Mx"%string, V_s (bytes_of_string "Mail.example.org."))] |}.
Definition mx_b : rr :=
  {| rr_name := bytes_of_string "example.org."; rr_type := 15; rr_class := 1; rr_ttl := 60; rr_rdlength := 20;
     rr_kind := "MX"; rr_data := [("Preference"%string, V_n 10); ("Mx"%string, V_s (bytes_of_string "mail.EXAMPLE.org."))] |}.
Definition mx_c : rr :=
  {| rr_name := bytes_of_string "example.org."; rr_type := 15; rr_class := 1; rr_ttl := 60; rr_rdlength := 20;
     rr_kind := "MX"; rr_data := [("Preference"%string, V_n 20); ("Mx"%string, V_s (bytes_of_string "mail.example.org."))] |}.
Definition mx_cmps : list dcmp := [D_eq "Preference"; D_name "Mx"; D_const true].

Example mx_records :
  find_dup dups "MX" = Some mx_cmps /\ cmps_wf mx_cmps = true /\ no_const_false mx_cmps = true /\
  typed_for mx_cmps (rr_data mx_a) = true /\ forallb (ci_ok "Mx") mx_cmps = true /\
  is_duplicate mx_a mx_a = Ok true /\ is_duplicate mx_a mx_b = Ok true /\ is_duplicate mx_b mx_a = Ok true /\
  is_duplicate mx_a mx_c = Ok false.
Proof. vm_compute. repeat split. Qed.

(* same_shape holds between records of one Go type *)
Example mx_same_shape : same_shape (rr_data mx_a) (rr_data mx_c).
Proof.
  intros f. unfold kinds_ok. cbn [rr_data mx_a mx_c vget].
  destruct (String.eqb f "Preference"); [reflexivity|]. destruct (String.eqb f "Mx"); reflexivity.
Qed.

(* SVCB parameters in a different order, equal lengths: no panic, duplicates *)
Example svcb_values :
  let cs := [D_eq "Priority"; D_name "Target"; D_len_eq "Value"; D_pairs "Value"; D_const true] in
  let v1 := [("Priority"%string, V_n 1); ("Target"%string, V_s [46]); ("Value"%string, V_pairs [(1, [2;104;50], 3); (3, [1;187], 2)])] in
  let v2 := [("Priority"%string, V_n 1); ("Target"%string, V_s [46]); ("Value"%string, V_pairs [(3, [1;187], 2); (1, [2;104;50], 3)])] in
  find_dup dups "SVCB" = Some cs /\ cmps_wf cs = true /\ typed_for cs v1 = true /\
  dup_cmps cs v1 v2 = Ok true /\ dup_cmps cs v1 v1 = Ok true.
Proof. vm_compute. repeat split. Qed.

(* IPSECKEY with a host gateway (case differs), TXT with two strings *)
Example ipseckey_and_txt_values :
  let cs := [D_eq "Precedence"; D_eq "GatewayType"; D_eq "Algorithm"; D_gateway "GatewayType" 255 "GatewayAddr" "GatewayHost"; D_eq "PublicKey"; D_const true] in
  let v1 := [("Precedence"%string, V_n 10); ("GatewayType"%string, V_n 3); ("Algorithm"%string, V_n 2);
             ("GatewayAddr"%string, V_b []); ("GatewayHost"%string, V_s (bytes_of_string "GW.example.")); ("PublicKey"%string, V_enc [1;2;3])] in
  let v2 := [("Precedence"%string, V_n 10); ("GatewayType"%string, V_n 3); ("Algorithm"%string, V_n 2);
             ("GatewayAddr"%string, V_b []); ("GatewayHost"%string, V_s (bytes_of_string "gw.EXAMPLE.")); ("PublicKey"%string, V_enc [1;2;3])] in
  let ts := [D_len_eq "Txt"; D_each_eq "Txt"; D_const true] in
  let t1 := [("Txt"%string, V_ss [[97]; [98; 99]])] in
  find_dup dups "IPSECKEY" = Some cs /\ cmps_wf cs = true /\ typed_for cs v1 = true /\ dup_cmps cs v1 v2 = Ok true /\
  find_dup dups "TXT" = Some ts /\ typed_for ts t1 = true /\ dup_cmps ts t1 t1 = Ok true /\
  dup_cmps ts t1 [("Txt"%string, V_ss [[97]; [98; 67]])] = Ok false.
Proof. vm_compute. repeat split. Qed.

(* the well-formedness check is not trivially true: the loop without its length
   test is rejected, and that list does panic on a shorter second argument *)
Example cmps_wf_rejects :
  cmps_wf [D_pairs "Value"; D_const true] = false /\
  dup_cmps [D_pairs "Value"; D_const true] [("Value"%string, V_pairs [(1, [], 0)])] [("Value"%string, V_pairs [])] = Panic /\
  cmps_wf [D_const true; D_eq "X"] = false /\ cmps_wf [D_other "x"] = false.
Proof. vm_compute. repeat split. Qed.

Example wire_names :
  let a := [[87; 87; 87]; [97]] in let b := [[119; 119; 119]; [65]] in
  valid_wire a = true /\ valid_wire b = true /\ name_eq_ci (show_name a) (show_name b) = true /\ a <> b.
Proof. vm_compute. repeat split. discriminate. Qed.

(* ---------------- Part B, continued: duplicates = all fields agree ---------------- *)
(* [agree c v1 v2]: the field(s) comparison c looks at agree, an absent field
   standing for the zero value / empty list (the as_ accessors) --
     D_eq f           val_agree: equal values;
     D_name f         the names are equal up to ASCII case (lower_bytes);
     D_len_eq f       same_len: lists of the same kind and length;
     D_each_eq f      same_len and the lists are equal;
     D_each_name f    the lists of names are equal up to case, element-wise;
     D_each_equals f  element-wise APLPrefix.equals (apl_agree: negation, prefix length,
                      address length equal, address equal up to the 4/16-octet form);
     D_ip_equal f     equal up to the 4/16-octet form (ip_norm);
     D_pairs f        the key-sorted lists of (key, packed value) are equal;
     D_gateway ..     gateway types equal, and the address (types 1,2: up to 4/16 form)
                      or the host name (type 3: up to case) agree  (gw_agree);
     D_const b        b = true. *)
Theorem rdata_duplicate_iff_all_compared_fields_agree :
  forall (cs : list dcmp) (v1 v2 : rdata),
    cmps_wf cs = true -> typed_for cs v1 = true -> typed_for cs v2 = true ->
    (dup_cmps cs v1 v2 = Ok true <-> forall c, In c cs -> agree c v1 v2).
Proof. exact dup_cmps_true_iff. Qed.
Print Assumptions rdata_duplicate_iff_all_compared_fields_agree.

(* The comparison list of every type with a wire layout, OPT excepted, is exactly
   the list derived from the pack statements of its layout ([expected_cmps]: a
   domain name gives D_name, a list of names D_len_eq + D_each_name, TXT and
   type bitmaps D_len_eq + D_each_eq, addresses D_ip_equal, SVCB parameters
   D_len_eq + D_pairs, APL D_len_eq + D_each_equals, the IPSECKEY/AMTRELAY
   gateway D_gateway, everything else D_eq), in order, followed by return true.
   So no wire field is omitted, none is compared twice or with the wrong test.
   Checked on the tables regenerated from zduplicate.go and zmsg.go at each run. *)
Theorem comparison_lists_are_the_wire_layouts :
  forallb (fun L => String.eqb (tl_name L) "OPT" ||
                    match find_dup dups (tl_name L) with
                    | Some cs => list_eqb dcmp_eqb cs (flat_map expected_cmps (tl_pack L) ++ [D_const true])
                    | None => false end) layouts = true.
Proof. exact dups_match_layouts. Qed.
Print Assumptions comparison_lists_are_the_wire_layouts.

(* [field_agree p v1 v2] for a pack statement p = (field, kind) of the layout, on
   the Go values of the field (absent = zero value): integers equal (as_n);
   names (K_name) equal up to case; character-strings equal (as_s); TXT and lists
   of names (K_names, up to case) equal element-wise; hex/base64/base32 blobs
   equal (as_enc); K_a/K_aaaa equal up to the 4/16-octet form; type bitmaps equal
   (as_ns); K_svcb/K_opt equal as key-sorted (key, packed value) lists; K_apl
   element-wise apl_agree; the gateway as gw_agree.
   [layout_typed L v]: every field of layout L holds in v a value of its Go type
   or is absent (all records from the wire do, see below).
   Hence two such records are duplicates EXACTLY when class, type, Go type agree,
   the owners agree up to case and every field of the wire layout agrees -- for
   every type with a layout other than OPT. *)
Theorem is_duplicate_iff_header_and_every_wire_field_agree :
  forall (r1 r2 : rr) (L : tlayout),
    rr_kind r1 <> "OPT"%string -> find_layout layouts (rr_kind r1) = Some L ->
    layout_typed L (rr_data r1) = true -> layout_typed L (rr_data r2) = true ->
    (is_duplicate r1 r2 = Ok true <->
     rr_class r1 = rr_class r2 /\ rr_type r1 = rr_type r2 /\ rr_kind r1 = rr_kind r2 /\
     lower_bytes (rr_name r1) = lower_bytes (rr_name r2) /\
     forall p, In p (tl_pack L) -> field_agree p (rr_data r1) (rr_data r2)).
Proof. exact is_duplicate_iff_fields. Qed.
Print Assumptions is_duplicate_iff_header_and_every_wire_field_agree.

(* --- decoder output is typed --- *)
(* table checks: each field a comparison looks at is assigned, by the unpack
   statements of the same type, a value of a kind that comparison expects
   ([assigned_classes]: which fval constructor each unpack statement stores,
   proved for unpack_field in DupWireProofs.unpack_field_classes); and every Go
   type UnpackRR can produce has a comparison list, only OPT's ending in
   return false *)
Theorem unpacked_field_kinds_fit_the_comparisons :
  forallb (fun L => match find_dup dups (tl_name L) with
                    | Some cs => forallb (fun c => forallb (fun gc => class_ok c (fst gc) (snd gc)) (layout_classes L)) cs
                    | None => false end) layouts = true.
Proof. exact layout_classes_fit_comparisons. Qed.
Print Assumptions unpacked_field_kinds_fit_the_comparisons.

Theorem unpacked_kinds_all_have_comparisons :
  forallb (fun k => match find_dup dups k with
                    | Some cs => no_const_false cs || String.eqb k "OPT"
                    | None => false end)
          ("RFC3597"%string :: map (fun p => base_kind (snd p)) type_to_rr) = true.
Proof. exact unpacked_kinds_have_comparisons. Qed.
Print Assumptions unpacked_kinds_all_have_comparisons.

(* whatever the generated unpack() of a type returns (also after an early exit
   on exhausted RDATA, which leaves the later fields absent) is typed for the
   comparison list of that type *)
Theorem unpacked_rdata_is_typed :
  forall (k : string) (L : tlayout) (cs : list dcmp) (msg : bytes) (off : N) (v : rdata) (off' : N),
    find_layout layouts k = Some L -> find_dup dups k = Some cs ->
    unpack_fields (tl_unpack L) [] msg off = Ok (v, off') -> typed_for cs v = true.
Proof. exact unpacked_rdata_typed. Qed.
Print Assumptions unpacked_rdata_is_typed.

(* and holds in every field of the layout a value of that field's Go type; table
   checks: the unpack statements assign each pack field a value of its type, and
   no field two kinds of value *)
Theorem unpacked_field_kinds_fit_the_layout :
  forallb (fun L => forallb (fun p => forallb (fun gc => field_class_ok p (fst gc) (snd gc)) (layout_classes L)) (tl_pack L))
          layouts = true.
Proof. exact layout_classes_fit_fields. Qed.
Print Assumptions unpacked_field_kinds_fit_the_layout.

Theorem unpacked_field_kinds_are_unambiguous :
  forallb (fun L => classes_functional (layout_classes L)) layouts = true.
Proof. exact layout_classes_functional. Qed.
Print Assumptions unpacked_field_kinds_are_unambiguous.

Theorem unpacked_rdata_has_the_layout_field_types :
  forall (k : string) (L : tlayout) (msg : bytes) (off : N) (v : rdata) (off' : N),
    find_layout layouts k = Some L ->
    unpack_fields (tl_unpack L) [] msg off = Ok (v, off') -> layout_typed L v = true.
Proof. exact unpacked_rdata_layout_typed. Qed.
Print Assumptions unpacked_rdata_has_the_layout_field_types.

(* every record UnpackRR returns, of any type but OPT, is a duplicate of itself *)
Theorem unpacked_record_is_its_own_duplicate :
  forall (msg : bytes) (off : N) (r : rr) (off' : N),
    unpack_rr msg off = Ok (r, off') -> rr_kind r <> "OPT"%string -> is_duplicate r r = Ok true.
Proof. exact unpacked_rr_is_own_duplicate. Qed.
Print Assumptions unpacked_record_is_its_own_duplicate.

(* transitivity needs no side condition when the outer records come from the wire *)
Theorem unpacked_records_duplicate_transitive :
  forall (m1 : bytes) (o1 : N) (r1 : rr) (o1' : N) (m3 : bytes) (o3 : N) (r3 : rr) (o3' : N) (r2 : rr),
    unpack_rr m1 o1 = Ok (r1, o1') -> unpack_rr m3 o3 = Ok (r3, o3') ->
    is_duplicate r1 r2 = Ok true -> is_duplicate r2 r3 = Ok true -> is_duplicate r1 r3 = Ok true.
Proof. exact unpacked_rr_duplicate_trans. Qed.
Print Assumptions unpacked_records_duplicate_transitive.

(* two records from the wire are duplicates exactly when header (owner up to
   case) and every field of the wire layout agree (names up to case) *)
Theorem unpacked_records_duplicate_iff_all_fields_agree :
  forall (m1 : bytes) (o1 : N) (r1 : rr) (o1' : N) (m2 : bytes) (o2 : N) (r2 : rr) (o2' : N) (L : tlayout),
    unpack_rr m1 o1 = Ok (r1, o1') -> unpack_rr m2 o2 = Ok (r2, o2') ->
    rr_kind r1 <> "OPT"%string -> find_layout layouts (rr_kind r1) = Some L ->
    (is_duplicate r1 r2 = Ok true <->
     rr_class r1 = rr_class r2 /\ rr_type r1 = rr_type r2 /\ rr_kind r1 = rr_kind r2 /\
     lower_bytes (rr_name r1) = lower_bytes (rr_name r2) /\
     forall p, In p (tl_pack L) -> field_agree p (rr_data r1) (rr_data r2)).
Proof. exact unpacked_rr_duplicate_iff. Qed.
Print Assumptions unpacked_records_duplicate_iff_all_fields_agree.

(* non-vacuity: two MX records on the wire (a. 300 IN MX 10 b.  /  A. 60 IN MX 10 B.) *)
Definition mx_wire_1 : bytes := [1;97;0; 0;15; 0;1; 0;0;1;44; 0;5; 0;10; 1;98;0].
Definition mx_wire_2 : bytes := [1;65;0; 0;15; 0;1; 0;0;0;60; 0;5; 0;10; 1;66;0].
Example mx_from_the_wire :
  exists r1 r2 L,
    unpack_rr mx_wire_1 0 = Ok (r1, 18) /\ unpack_rr mx_wire_2 0 = Ok (r2, 18) /\
    rr_kind r1 = "MX"%string /\ find_layout layouts (rr_kind r1) = Some L /\
    tl_pack L = [("Preference"%string, K_u16); ("Mx"%string, K_name true)] /\
    rr_data r1 = [("Preference"%string, V_n 10); ("Mx"%string, V_s [98; 46])] /\
    rr_data r2 = [("Preference"%string, V_n 10); ("Mx"%string, V_s [66; 46])] /\
    layout_typed L (rr_data r1) = true /\
    is_duplicate r1 r2 = Ok true.
Proof. do 3 eexists. vm_compute. repeat split. Qed.

(* FINDING (C20/wire/truncated-rdata-equals-zero-padded).  The generated unpack()
   returns early when the RDATA is exhausted and leaves the remaining struct
   fields at their zero value.  So the wire clause of C20 -- records from the wire
   are duplicates exactly when type, class, lower-cased owner and RDATA octets
   are equal -- fails for records whose RDATA ends early: CAA with RDATA 00
   (Flag only) and CAA with RDATA 00 00 (Flag and an empty Tag) are both
   accepted by UnpackRR (consuming the whole input), their RDATA octets differ,
   and IsDuplicate says true in both directions (both are CAA(Flag 0, Tag empty,
   Value empty)); the Go library, run on these octets, agrees. *)
Theorem wire_clause_truncated_rdata_refuted :
  match unpack_rr caa_wire_short 0, unpack_rr caa_wire_empty_tag 0 with
  | Ok (r1, o1), Ok (r2, o2) =>
    rr_kind r1 = "CAA"%string /\ rr_kind r2 = "CAA"%string /\
    o1 = lenN caa_wire_short /\ o2 = lenN caa_wire_empty_tag /\
    rr_data r1 = [("Flag"%string, V_n 0)] /\
    rr_data r2 = [("Flag"%string, V_n 0); ("Tag"%string, V_s [])] /\
    ([0] : bytes) <> [0; 0] /\
    is_duplicate r1 r2 = Ok true /\ is_duplicate r2 r1 = Ok true
  | _, _ => False
  end.
Proof. exact truncated_rdata_witness. Qed.
Print Assumptions wire_clause_truncated_rdata_refuted.

(* the two inputs: the same header (a. CAA IN 60), RDLENGTH 1 / 2, RDATA 00 / 00 00 *)
Example truncated_rdata_inputs :
  caa_wire_short = [1;97;0; 1;1; 0;1; 0;0;0;60; 0;1; 0] /\
  caa_wire_empty_tag = [1;97;0; 1;1; 0;1; 0;0;0;60; 0;2; 0;0].
Proof. split; reflexivity. Qed.

(* ---------------- Part B, end: the wire clause ---------------- *)
(* The clause: for records obtained from the wire, IsDuplicate holds exactly when
   type, class and the lower-cased uncompressed owner and RDATA octets are equal.
   It is FALSE as it stands (refutations below and [wire_clause_truncated_rdata_refuted]
   above); it is proved here on the records whose wire form is canonical, for
   every record type but OPT.  Proofs in Proofs/DupOctetsProofs.v.

   Vocabulary.
   [packs_to ps v cap b]   the generated pack() of the layout ps, run on the RDATA
                    value v in an empty buffer of cap octets with no compression
                    map, writes exactly the octets b.
   [lower_names ps v]  the value v with every struct field that ps packs as a
                    domain name -- a name, a list of names, the gateway host --
                    lower-cased (ASCII, the text form; for names from the wire
                    this lower-cases the label octets, see
                    [name_equal_iff_lowercased_wire_equal]); every other field
                    is left alone ([lower_names_lowers_exactly_the_name_fields]).
                    So the octets b with [packs_to ps (lower_names ps v) cap b] are
                    the uncompressed RDATA octets with exactly the octets of the
                    embedded domain names lower-cased.
   [rr_wire ls r rd]   the RFC 1035 record: owner wire_name ls, TYPE, CLASS, TTL,
                    RDLENGTH, RDATA rd (C01).
   [fields_canon], [present], [plain_fields2], [layout_ok], [sides_agree]
                    as in Props/C01.v.
   [sep_ok ps]      in the layout ps a field packed as a name is packed by no other
                    statement, the gateway type is an integer field of ps, and
                    there is no EDNS0 option list. *)
From Dns Require Import Model.Msg Proofs.LayoutProofs Proofs.RoundtripFieldProofs Proofs.RoundtripRRProofs Proofs.RoundtripConverseProofs
  Proofs.DupOctetsProofs.

(* what [lower_names] does to each struct field *)
Theorem lower_names_lowers_exactly_the_name_fields :
  forall (ps : list pfield) (v : rdata) (g : string),
    vget (lower_names ps v) g =
    if is_name_field ps g then option_map lower_val (vget v g) else vget v g.
Proof. exact vget_lower. Qed.
Print Assumptions lower_names_lowers_exactly_the_name_fields.

(* every layout regenerated from zmsg.go, OPT excepted, keeps its name fields apart *)
Theorem name_fields_are_separate_in_every_layout :
  forallb (fun L => String.eqb (tl_name L) "OPT" || sep_ok (tl_pack L)) layouts = true.
Proof. exact layouts_sep_ok. Qed.
Print Assumptions name_fields_are_separate_in_every_layout.

(* without a compression map, what pack() writes for a canonical value does not
   depend on where it starts nor on the buffer length (given 320 octets of room):
   the uncompressed RDATA octets of a value are well defined *)
Theorem uncompressed_rdata_octets_are_position_independent :
  forall (v : rdata) (ps : list pfield) (cap : N) (out : bytes) (st' : pn_state),
    fields_canon v ps -> Dns.Model.Rdata.pack_fields v ps cap (st0 out) = Ok st' ->
    exists b, st' = st0 (out ++ b) /\
      forall (cap' : N) (out' : bytes), lenN out' + lenN b + 320 <= cap' ->
        Dns.Model.Rdata.pack_fields v ps cap' (st0 out') = Ok (st0 (out' ++ b)).
Proof. exact packed_octets_position_free. Qed.
Print Assumptions uncompressed_rdata_octets_are_position_independent.

(* RDATA values, any layout meeting [layout_ok] and [sep_ok] (all but OPT do): two
   canonical, complete values agree field by field in the sense of IsDuplicate
   ([field_agree]: names up to case) EXACTLY when their uncompressed octets, names
   lower-cased, are equal.  Covers every field kind but the EDNS0 option list. *)
Theorem rdata_fields_agree_iff_lowercased_octets_equal :
  forall (ps : list pfield) (us : list ufield) (v1 v2 : rdata) (cap : N) (ln1 ln2 : bytes),
    sides_agree ps us = true -> layout_ok [] ps = true -> sep_ok ps = true ->
    fields_canon v1 ps -> fields_canon v2 ps -> present ps v1 -> present ps v2 ->
    packs_to ps (lower_names ps v1) cap ln1 -> packs_to ps (lower_names ps v2) cap ln2 ->
    ((forall p, In p ps -> field_agree p v1 v2) <-> ln1 = ln2).
Proof. exact fields_agree_iff_octets. Qed.
Print Assumptions rdata_fields_agree_iff_lowercased_octets_equal.

(* THE WIRE CLAUSE, partial.  Full clause: for ALL records obtained from the wire,
   IsDuplicate r1 r2 iff TYPE, CLASS, lower-cased uncompressed owner octets and
   lower-cased uncompressed RDATA octets are equal.
   Proved: for two records returned by UnpackRR, each under exactly the conditions
   of C01's [record_converse] -- owner written out in full (wire_name ls), RDLENGTH
   not 0, unpack() ran through all its statements ([present]), canonical RDATA
   encodings ([plain_fields2], which includes: APL addresses masked) -- and of any
   type but OPT:
     - the record's octets msg[off:off'] are rr_wire ls r rd where rd is what pack()
       writes for the decoded RDATA without compression (anywhere);
     - the decoded RDATA with its names lower-cased is packed too, to ln, as long as rd;
     - IsDuplicate r1 r2 = true  <->  TYPE, CLASS equal, lower-cased owner octets
       equal, ln1 = ln2.
   Not covered, and why (each is a _refuted theorem below or above unless said):
     OPT (all types of comparison: isDuplicate is return false);
     RDLENGTH 0 and RDATA that ends early (absent fields compare as zero values);
     type bitmaps (NSEC, NSEC3, CSYNC, NXT) with a block ending in a zero octet;
     SVCB / HTTPS mandatory lists that are not sorted (compared and packed sorted);
     APL addresses with bits beyond the prefix (the clause holds on the wire
       octets, but pack() masks, so the re-packed octets say nothing);
     not refuted, only outside the proof: compression pointers inside the owner or
       the RDATA (the uncompressed octets are then not msg[off:off']), CAA values
       whose text exceeds the 1025 octets packStringOctet accepts. *)
Theorem wire_duplicate_iff_lowercased_octets_equal_partial :
  forall (m1 : bytes) (o1 : N) (r1 : rr) (o1' : N) (L1 : tlayout) (ls1 : list label)
         (m2 : bytes) (o2 : N) (r2 : rr) (o2' : N) (L2 : tlayout) (ls2 : list label) (cap : N),
    wfb m1 -> unpack_rr m1 o1 = Ok (r1, o1') ->
    find_layout layouts (rr_kind r1) = Some L1 -> rr_kind r1 <> "OPT"%string -> rr_rdlength r1 <> 0 ->
    valid_wire ls1 = true -> o1 + lenN (wire_name ls1) <= lenN m1 ->
    take_at m1 o1 (lenN (wire_name ls1)) = wire_name ls1 ->
    plain_fields2 (tl_pack L1) (tl_unpack L1) [] (takeN o1' m1) (o1 + lenN (wire_name ls1) + 10) ->
    present (tl_pack L1) (rr_data r1) ->
    wfb m2 -> unpack_rr m2 o2 = Ok (r2, o2') ->
    find_layout layouts (rr_kind r2) = Some L2 -> rr_kind r2 <> "OPT"%string -> rr_rdlength r2 <> 0 ->
    valid_wire ls2 = true -> o2 + lenN (wire_name ls2) <= lenN m2 ->
    take_at m2 o2 (lenN (wire_name ls2)) = wire_name ls2 ->
    plain_fields2 (tl_pack L2) (tl_unpack L2) [] (takeN o2' m2) (o2 + lenN (wire_name ls2) + 10) ->
    present (tl_pack L2) (rr_data r2) ->
    65855 <= cap ->
    exists rd1 ln1 rd2 ln2 : bytes,
      (take_at m1 o1 (o1' - o1) = rr_wire ls1 r1 rd1 /\
       packs_to (tl_pack L1) (rr_data r1) cap rd1 /\
       packs_to (tl_pack L1) (lower_names (tl_pack L1) (rr_data r1)) cap ln1 /\ lenN ln1 = lenN rd1) /\
      (take_at m2 o2 (o2' - o2) = rr_wire ls2 r2 rd2 /\
       packs_to (tl_pack L2) (rr_data r2) cap rd2 /\
       packs_to (tl_pack L2) (lower_names (tl_pack L2) (rr_data r2)) cap ln2 /\ lenN ln2 = lenN rd2) /\
      (is_duplicate r1 r2 = Ok true <->
       rr_type r1 = rr_type r2 /\ rr_class r1 = rr_class r2 /\
       lower_bytes (wire_name ls1) = lower_bytes (wire_name ls2) /\ ln1 = ln2).
Proof. exact wire_duplicate_iff_octets. Qed.
Print Assumptions wire_duplicate_iff_lowercased_octets_equal_partial.

(* --- where the clause fails --- *)
(* [wire_verdict t k rd1 rd2 b]: the records a. 60 IN TYPE t with RDATA rd1 / rd2
   ([rrw t rd]: owner 01 61 00, TYPE, CLASS 1, TTL 60, RDLENGTH, rd) are both
   accepted by UnpackRR, consuming the whole input, as records of Go type k, and
   IsDuplicate answers b in both directions *)

(* FINDING (known: C20/wire/bitmap-encoding/trailing-zero).  NSEC, next name the
   root: bitmap block 00 01 60 against 00 02 60 00 (a trailing zero octet): both
   decode to the types A NS, duplicates, octets differ *)
Theorem wire_clause_trailing_zero_bitmap_refuted :
  wire_verdict 47 "NSEC" [0; 0; 1; 96] [0; 0; 2; 96; 0] true /\ ([0; 0; 1; 96] : bytes) <> [0; 0; 2; 96; 0].
Proof. exact trailing_zero_bitmap_witness. Qed.
Print Assumptions wire_clause_trailing_zero_bitmap_refuted.

(* the same family: no bitmap at all against an empty block 00 01 00 *)
Theorem wire_clause_empty_bitmap_block_refuted :
  wire_verdict 47 "NSEC" [0] [0; 0; 1; 0] true /\ ([0] : bytes) <> [0; 0; 1; 0].
Proof. exact empty_bitmap_block_witness. Qed.
Print Assumptions wire_clause_empty_bitmap_block_refuted.

(* FINDING (candidate C20/wire/svcb-mandatory-order; replayed on the library).
   SVCB 1 . mandatory=port,alpn alpn=h2 port=443 against mandatory=alpn,port:
   both accepted (the decoder does not ask for sorted mandatory keys), the value
   is compared through pack(), which sorts: duplicates, octets differ *)
Theorem wire_clause_svcb_mandatory_order_refuted :
  wire_verdict 64 "SVCB" ([0; 1; 0; 0; 0; 0; 4; 0; 3; 0; 1] ++ svcb_rest) ([0; 1; 0; 0; 0; 0; 4; 0; 1; 0; 3] ++ svcb_rest) true /\
  [0; 1; 0; 0; 0; 0; 4; 0; 3; 0; 1] ++ svcb_rest <> [0; 1; 0; 0; 0; 0; 4; 0; 1; 0; 3] ++ svcb_rest /\
  svcb_rest = [0; 1; 0; 3; 2; 104; 50; 0; 3; 0; 2; 1; 187].
Proof. split; [exact (proj1 svcb_mandatory_order_witness)|]. split; [exact (proj2 svcb_mandatory_order_witness)|reflexivity]. Qed.
Print Assumptions wire_clause_svcb_mandatory_order_refuted.

(* the family of [wire_clause_truncated_rdata_refuted]: CAA with RDLENGTH 0 against
   CAA with RDATA 00 *)
Theorem wire_clause_empty_rdata_refuted :
  wire_verdict 257 "CAA" [] [0] true /\ ([] : bytes) <> [0].
Proof. exact empty_rdata_witness. Qed.
Print Assumptions wire_clause_empty_rdata_refuted.

(* OPT: the same octets twice (one COOKIE option) are not duplicates *)
Theorem wire_clause_opt_refuted : wire_verdict 41 "OPT" [0; 10; 0; 2; 1; 2] [0; 10; 0; 2; 1; 2] false.
Proof. exact opt_same_octets_witness. Qed.
Print Assumptions wire_clause_opt_refuted.

(* the APL condition of [plain_fields2] (no address bits beyond the prefix) cannot
   be dropped: APL 1:10.1.1.1/8 and 1:10.0.0.0/8 are not duplicates (and their wire
   octets differ), but pack() writes 00 01 08 01 0a for both *)
Theorem repacked_octets_apl_unmasked_refuted :
  wire_verdict 42 "APL" [0; 1; 8; 4; 10; 1; 1; 1] [0; 1; 8; 1; 10] false /\
  match unpack_rr (rrw 42 [0; 1; 8; 4; 10; 1; 1; 1]) 0, unpack_rr (rrw 42 [0; 1; 8; 1; 10]) 0 with
  | Ok (r1, _), Ok (r2, _) =>
    packs_to [("Prefixes"%string, K_apl)] (rr_data r1) 70000 [0; 1; 8; 1; 10] /\
    packs_to [("Prefixes"%string, K_apl)] (rr_data r2) 70000 [0; 1; 8; 1; 10]
  | _, _ => False
  end.
Proof. exact apl_unmasked_repack_witness. Qed.
Print Assumptions repacked_octets_apl_unmasked_refuted.

(* --- non-vacuity --- *)
(* [wire_hyps w o r o' L ls]: every hypothesis the theorem makes about one record.
   a. 300 IN MX 10 b. (mxw_1) and A. 60 IN MX 10 B. (mxw_2) differ in name case (and
   TTL) only: both meet the hypotheses, are duplicates, and their lower-cased RDATA
   octets are 00 0a 01 62 00 (the second one's RDATA octets are 00 0a 01 42 00);
   a. 60 IN MX 11 b. (mxw_3) differs from the first in one RDATA octet: not a duplicate *)
Example wire_clause_mx_examples :
  mxw_1 = [1;97;0; 0;15; 0;1; 0;0;1;44; 0;5; 0;10; 1;98;0] /\
  mxw_2 = [1;65;0; 0;15; 0;1; 0;0;0;60; 0;5; 0;10; 1;66;0] /\
  mxw_3 = [1;97;0; 0;15; 0;1; 0;0;0;60; 0;5; 0;11; 1;98;0] /\
  exists r1 r2 r3 L,
    wire_hyps mxw_1 0 r1 18 L [[97]] /\ wire_hyps mxw_2 0 r2 18 L [[65]] /\ wire_hyps mxw_3 0 r3 18 L [[97]] /\
    tl_pack L = [("Preference"%string, K_u16); ("Mx"%string, K_name true)] /\
    is_duplicate r1 r2 = Ok true /\ is_duplicate r1 r3 = Ok false /\
    packs_to (tl_pack L) (lower_names (tl_pack L) (rr_data r1)) 70000 [0; 10; 1; 98; 0] /\
    packs_to (tl_pack L) (lower_names (tl_pack L) (rr_data r2)) 70000 [0; 10; 1; 98; 0] /\
    packs_to (tl_pack L) (rr_data r2) 70000 [0; 10; 1; 66; 0] /\
    packs_to (tl_pack L) (lower_names (tl_pack L) (rr_data r3)) 70000 [0; 11; 1; 98; 0].
Proof. repeat (split; [reflexivity|]). exact mx_wire_hyps. Qed.

(* the hypotheses of [rdata_fields_agree_iff_lowercased_octets_equal] hold of the two MX values *)
Example rdata_clause_mx_example :
  let ps := [("Preference"%string, K_u16); ("Mx"%string, K_name true)] in
  let us := [{| uf_name := "Preference"; uf_kind := K_u16; uf_exit := true |}; {| uf_name := "Mx"; uf_kind := K_name true; uf_exit := false |}] in
  let v1 := [("Preference"%string, V_n 10); ("Mx"%string, V_s [98; 46])] in
  let v2 := [("Preference"%string, V_n 10); ("Mx"%string, V_s [66; 46])] in
  sides_agree ps us = true /\ layout_ok [] ps = true /\ sep_ok ps = true /\
  fields_canon v1 ps /\ fields_canon v2 ps /\ present ps v1 /\ present ps v2 /\
  packs_to ps (lower_names ps v1) 100 [0; 10; 1; 98; 0] /\ packs_to ps (lower_names ps v2) 100 [0; 10; 1; 98; 0].
Proof. exact mx_values_hyps. Qed.
