package main

// C12: two-octet length framing under any segmentation, ID matching, no
// cross-talk. The harness drives the REAL dns.Conn (ReadMsgHeader, Read, Write,
// WriteMsg, ReadMsg), Client.ExchangeWithConn and dns.Server (readTCP,
// serveTCPConn, response.Write, the UDP buffer pool) over scripted net.Conn /
// net.PacketConn objects that deliver model-chosen chunkings, EOF positions and
// reply orders, plus real sockets on 127.0.0.1 for the concurrent part.

import (
	"bytes"
	"crypto/sha1"
	"encoding/binary"
	"errors"
	"fmt"
	"io"
	"net"
	"runtime"
	"strings"
	"sync"
	"time"

	"github.com/miekg/dns"
	. "verif/harness/common"
	"verif/harness/netfake"
)

func main() { Main(runC12) }

var stat = map[string]int{}

const infraWait = 20 * time.Second

// ------------------------------------------------------------------ recipes (same expansion as Model/Frame.v)

func prng(n int, x uint64) []byte {
	b := make([]byte, n)
	for i := range b {
		x = (1103515245*x + 12345) & 0x7fffffff
		b[i] = byte(x >> 16)
	}
	return b
}

func wsum(b []byte) uint32 {
	var acc uint32
	for _, c := range b {
		acc = 31*acc + uint32(c) + 1
	}
	return acc
}

func render(m []byte) string {
	if len(m) <= 24 {
		return "h" + Hx(m)
	}
	return fmt.Sprintf("L%dS%d", len(m), wsum(m))
}

func frame(m []byte) []byte {
	b := make([]byte, 2, 2+len(m))
	binary.BigEndian.PutUint16(b, uint16(len(m)))
	return append(b, m...)
}

// item of a stream recipe
type item struct {
	spec string
	data []byte // octets on the stream
	msg  []byte // the framed message, nil for raw items
}

func itFrame(n int, seed uint64) item {
	m := prng(n, seed)
	return item{fmt.Sprintf("f%d.%d", n, seed), frame(m), m}
}
func itRaw(n int, seed uint64) item {
	return item{fmt.Sprintf("p%d.%d", n, seed), prng(n, seed), nil}
}
func itHex(b []byte) item { return item{"x" + Hx(b), b, nil} }
func itMsgFrame(m []byte) item {
	return item{"x" + Hx(frame(m)), frame(m), m}
}

func specOf(items []item) (string, []byte) {
	var s []string
	var d []byte
	for _, it := range items {
		s = append(s, it.spec)
		d = append(d, it.data...)
	}
	return strings.Join(s, ","), d
}

func cut(sizes []int, s []byte) [][]byte {
	var out [][]byte
	for _, n := range sizes {
		if n > len(s) {
			n = len(s)
		}
		out = append(out, append([]byte(nil), s[:n]...))
		s = s[n:]
	}
	if len(s) > 0 {
		out = append(out, append([]byte(nil), s...))
	}
	return out
}

func sizesString(sz []int) string {
	s := make([]string, len(sz))
	for i, v := range sz {
		s[i] = Itoa(v)
	}
	return strings.Join(s, ",")
}

// chunkings of a stream of n octets whose frames start at the offsets bounds
func genSizes(r *Rng, n int, bounds []int) []int {
	switch r.Intn(7) {
	case 0: // one piece
		return nil
	case 1: // octet by octet (bounded)
		if n <= 300 {
			sz := make([]int, n)
			for i := range sz {
				sz[i] = 1
			}
			return sz
		}
		fallthrough
	case 2: // cuts exactly at, just before and just after frame boundaries
		var sz []int
		pos := 0
		for _, b := range bounds {
			t := b + r.Intn(3) - 1
			if t > pos && t <= n {
				sz = append(sz, t-pos)
				pos = t
			}
		}
		return sz
	case 3: // random pieces with empty reads in between
		var sz []int
		for left := n; left > 0; {
			if r.Intn(4) == 0 {
				sz = append(sz, 0)
				continue
			}
			k := 1 + r.Intn(1+left/2)
			if len(sz) > 40 {
				k = left
			}
			sz = append(sz, k)
			left -= k
		}
		return sz
	case 4: // the length octets split
		var sz []int
		pos := 0
		for _, b := range bounds {
			if b+1 > pos && b+1 <= n {
				sz = append(sz, b+1-pos)
				pos = b + 1
			}
		}
		return sz
	case 5: // small random pieces
		var sz []int
		for left := n; left > 0 && len(sz) < 60; {
			k := 1 + r.Intn(7)
			if k > left {
				k = left
			}
			sz = append(sz, k)
			left -= k
		}
		return sz
	}
	return []int{r.Intn(n + 1)}
}

func classify(err error) string {
	var ne net.Error
	switch {
	case err == nil:
		return "nil"
	case errors.Is(err, io.EOF):
		return "eof"
	case errors.Is(err, io.ErrUnexpectedEOF):
		return "unexpected-eof"
	case errors.Is(err, dns.ErrShortRead):
		return "short-read"
	case errors.Is(err, io.ErrShortBuffer):
		return "short-buffer"
	case errors.Is(err, dns.ErrId):
		return "id"
	case errors.As(err, &ne) && ne.Timeout():
		return "timeout"
	case strings.Contains(err.Error(), "message too large"):
		return "too-large"
	}
	return "other"
}

// refParse is the property stated directly: the complete frames of the stream in
// order, then how the stream ends.
func refParse(s []byte, limit int) ([][]byte, string) {
	var ms [][]byte
	for {
		if limit >= 0 && len(ms) == limit {
			return ms, "limit"
		}
		if len(s) == 0 {
			return ms, "eof"
		}
		if len(s) < 2 {
			return ms, "unexpected-eof"
		}
		l := int(binary.BigEndian.Uint16(s))
		s = s[2:]
		if len(s) < l {
			if len(s) == 0 {
				return ms, "eof"
			}
			return ms, "unexpected-eof"
		}
		ms = append(ms, s[:l])
		s = s[l:]
	}
}

func renderAll(ms [][]byte) string {
	s := make([]string, len(ms))
	for i, m := range ms {
		s[i] = render(m)
	}
	return strings.Join(s, ",")
}

// ------------------------------------------------------------------ server-side reader

type recReader struct {
	dns.Reader
	mu   sync.Mutex
	msgs [][]byte
	err  error
}

func (r *recReader) ReadTCP(conn net.Conn, t time.Duration) ([]byte, error) {
	m, err := r.Reader.ReadTCP(conn, t)
	r.mu.Lock()
	if err != nil {
		r.err = err
	} else {
		r.msgs = append(r.msgs, append([]byte(nil), m...))
	}
	r.mu.Unlock()
	return m, err
}

func ignoreAll(dns.Header) dns.MsgAcceptAction { return dns.MsgIgnore }

// serverRead feeds the chunks to a real server's TCP connection loop and returns
// the raw messages readTCP produced and how the loop ended.
func serverRead(chunks [][]byte, limit int) ([][]byte, string, bool) {
	rr := &recReader{}
	c := netfake.NewConn(chunks)
	srv := &dns.Server{Listener: netfake.NewListener(c), MsgAcceptFunc: ignoreAll, MaxTCPQueries: limit,
		DecorateReader: func(in dns.Reader) dns.Reader { rr.Reader = in; return rr }}
	done := make(chan error, 1)
	go func() { done <- srv.ActivateAndServe() }()
	if !netfake.WaitClosed(c, infraWait) {
		return nil, "", false
	}
	sd := make(chan error, 1)
	go func() { sd <- srv.Shutdown() }()
	select {
	case <-sd:
	case <-time.After(infraWait):
		return nil, "", false
	}
	<-done
	rr.mu.Lock()
	defer rr.mu.Unlock()
	end := "limit"
	if rr.err != nil {
		end = classify(rr.err)
	}
	return rr.msgs, end, true
}

// clientRead calls Conn.ReadMsgHeader until the stream ends. Every returned
// slice is kept until then (a caller is free to decode them later) and rendered
// only after the last read.
func clientRead(chunks [][]byte) (string, []string) {
	co := &dns.Conn{Conn: netfake.NewConn(chunks)}
	var out, early []string
	var held [][]byte
	finish := func() {
		for i, p := range held {
			if p == nil {
				continue
			}
			if out[i] = render(p); out[i] != early[i] {
				Viol("C12/Crosstalk/client-read-retained", "several replies read from ONE connection with the earlier results still held: a result is not (or no longer) the reply it was returned for",
					heldIn{Transport: "stream", Reader: "Conn.ReadMsgHeader", What: []string{fmt.Sprintf("the octets returned by read %d of %d rendered as %s when they were returned and as %s after the later reads on the same connection", i, len(held), early[i], out[i])}})
			}
		}
	}
	for i := 0; i < 100000; i++ {
		p, err := co.ReadMsgHeader(nil)
		if err == nil {
			out, early, held = append(out, ""), append(early, render(p)), append(held, p)
			if p == nil {
				out[len(out)-1] = early[len(early)-1]
			}
			continue
		}
		c := classify(err)
		if c == "short-read" {
			out, early, held = append(out, "err:short-read"), append(early, "err:short-read"), append(held, nil)
			continue
		}
		finish()
		return strings.Join(out, ",") + "|" + c, out
	}
	finish()
	return "noend", out
}

func connRead(bufsize int, chunks [][]byte) string {
	co := &dns.Conn{Conn: netfake.NewConn(chunks)}
	var out []string
	for i := 0; i < 100000; i++ {
		buf := make([]byte, bufsize)
		n, err := co.Read(buf)
		if err != nil {
			return strings.Join(out, ",") + "|" + classify(err)
		}
		out = append(out, render(buf[:n]))
	}
	return "noend"
}

type streamIn struct {
	Stream string `json:"stream_recipe"`
	Sizes  string `json:"chunk_sizes"`
	Limit  int    `json:"limit,omitempty"`
	Got    string `json:"got,omitempty"`
	Want   string `json:"want,omitempty"`
}

var frameSizes = []int{0, 1, 2, 11, 12, 13, 17, 40, 100, 255, 256, 257, 511, 512, 513, 1500, 4095}

func genItems(r *Rng, big bool) ([]item, []int) {
	var items []item
	var bounds []int
	pos := 0
	n := 1 + r.Intn(5)
	for i := 0; i < n; i++ {
		sz := frameSizes[r.Intn(len(frameSizes))]
		if r.Intn(3) == 0 {
			sz = r.Intn(60)
		}
		if big && i == 0 {
			sz = []int{65535, 65534, 65535, 32768}[r.Intn(4)]
		}
		it := itFrame(sz, r.Next()%100000)
		items = append(items, it)
		bounds = append(bounds, pos)
		pos += len(it.data)
	}
	bounds = append(bounds, pos)
	return items, bounds
}

func runReaders(r *Rng, tier string) {
	rounds := 260
	bigs := 6
	if tier == "thorough" {
		rounds, bigs = 3000, 40
	}
	for round := 0; round < rounds+bigs; round++ {
		big := round >= rounds
		items, bounds := genItems(r, big)
		// early EOF / trailing partial frame
		mode := r.Intn(4)
		spec, data := specOf(items)
		if mode == 0 && !big {
			// cut the last frame at a chosen offset (every offset is reached over the rounds;
			// small streams are swept exhaustively below)
			last := items[len(items)-1]
			j := r.Intn(len(last.data))
			items[len(items)-1] = itHex(last.data[:j])
			if len(last.data) > 60 {
				items[len(items)-1] = itRaw(0, 0)
				// express the prefix through the recipe of the frame: length octets + prng prefix
				pre := last.data[:j]
				if j >= 2 {
					items[len(items)-1] = item{"x" + Hx(pre[:2]), pre[:2], nil}
					seed := last.spec[strings.IndexByte(last.spec, '.')+1:]
					items = append(items, item{fmt.Sprintf("p%d.%s", j-2, seed), pre[2:], nil})
				} else {
					items[len(items)-1] = itHex(pre)
				}
			}
			spec, data = specOf(items)
		}
		sizes := genSizes(r, len(data), bounds)
		chunks := cut(sizes, data)
		limit := 128
		if r.Intn(6) == 0 {
			limit = 1 + r.Intn(4)
		}
		in := streamIn{Stream: spec, Sizes: sizesString(sizes), Limit: limit}

		// server
		got, end, ok := serverRead(chunks, limit)
		if !ok {
			stat["infra_timeout"]++
		} else {
			out := renderAll(got) + "|" + end
			Emit("readtcp", []string{spec, sizesString(sizes), Itoa(limit)}, out)
			stat["readtcp_cases"]++
			wantMs, wantEnd := refParse(data, limit)
			if want := renderAll(wantMs) + "|" + wantEnd; want != out {
				in.Got, in.Want = out, want
				Viol("C12/Frame/server-reframe", "readTCP/serveTCPConn did not deliver exactly the framed messages", in)
			}
			stat["reader_oracle_checked"]++
		}
		// client ReadMsgHeader
		cout, _ := clientRead(chunks)
		Emit("readclient", []string{spec, sizesString(sizes)}, cout)
		stat["readclient_cases"]++
		{
			wantMs, wantEnd := refParse(data, -1)
			var w []string
			for _, m := range wantMs {
				if len(m) < 12 {
					w = append(w, "err:short-read")
				} else {
					w = append(w, render(m))
				}
			}
			if want := strings.Join(w, ",") + "|" + wantEnd; want != cout {
				in.Got, in.Want = cout, want
				Viol("C12/Frame/client-reframe", "Conn.ReadMsgHeader did not return exactly the framed messages", in)
			}
			stat["reader_oracle_checked"]++
		}
		// Conn.Read with a caller buffer
		if round%3 == 0 && !big {
			bs := []int{0, 1, 12, 40, 256, 512, 4096}[r.Intn(7)]
			o := connRead(bs, chunks)
			Emit("connread", []string{Itoa(bs), spec, sizesString(sizes)}, o)
			stat["connread_cases"]++
			wantMs, wantEnd := refParse(data, -1)
			var w []string
			e := wantEnd
			for _, m := range wantMs {
				if len(m) > bs {
					e = "short-buffer"
					break
				}
				w = append(w, render(m))
			}
			// a frame announced longer than the buffer is refused before its body is awaited
			if e != "short-buffer" {
				rest := data
				for range wantMs {
					l := int(binary.BigEndian.Uint16(rest))
					rest = rest[2+l:]
				}
				if len(rest) >= 2 && int(binary.BigEndian.Uint16(rest)) > bs {
					e = "short-buffer"
				}
			}
			if want := strings.Join(w, ",") + "|" + e; want != o {
				in.Got, in.Want = o, want
				Viol("C12/Frame/conn-read", "Conn.Read did not return whole frames / ErrShortBuffer", in)
			}
		}
	}
	// exhaustive: every EOF offset x every single split point of a small two-frame stream
	items := []item{itFrame(12, 5), itFrame(3, 6), itFrame(0, 0), itFrame(14, 7)}
	_, full := specOf(items)
	for j := 0; j <= len(full); j++ {
		pre := full[:j]
		for k := 0; k <= j; k++ {
			chunks := cut([]int{k}, pre)
			got, end, ok := serverRead(chunks, 128)
			if !ok {
				stat["infra_timeout"]++
				continue
			}
			stat["eof_sweep_checked"]++
			wantMs, wantEnd := refParse(pre, 128)
			out, want := renderAll(got)+"|"+end, renderAll(wantMs)+"|"+wantEnd
			if out != want {
				Viol("C12/Frame/short-stream", "early EOF: partial or missing message", streamIn{Stream: "x" + Hx(pre), Sizes: Itoa(k), Limit: 128, Got: out, Want: want})
			}
			if k == j/2 {
				Emit("readtcp", []string{"x" + Hx(pre), Itoa(k), "128"}, out)
				co, _ := clientRead(chunks)
				Emit("readclient", []string{"x" + Hx(pre), Itoa(k)}, co)
			}
		}
	}
}

// ------------------------------------------------------------------ writers

func showWrite(n int, err error, writes [][]byte) string {
	if err != nil {
		if classify(err) == "too-large" && len(writes) == 0 && n == 0 {
			return "err:too-large"
		}
		return fmt.Sprintf("err:%s:writes=%d:n=%d", classify(err), len(writes), n)
	}
	if len(writes) != 1 {
		return fmt.Sprintf("ok-but-%d-writes", len(writes))
	}
	w := writes[0]
	return fmt.Sprintf("ok:%d:%s:S%d", len(w), Hx(w[:min(2, len(w))]), wsum(w))
}

func runWriters(r *Rng, tier string) {
	sizes := []int{0, 1, 12, 13, 255, 256, 512, 4096, 65534, 65535, 65536, 65537, 70000}
	for i, n := range sizes {
		seed := uint64(100 + i)
		p := prng(n, seed)
		// client side
		fc := netfake.NewConn(nil)
		co := &dns.Conn{Conn: fc}
		wn, err := co.Write(p)
		out := showWrite(wn, err, fc.Writes())
		Emit("write", []string{Itoa(n), Itoa(int(seed))}, out)
		writeOracle("Conn.Write", n, p, wn, err, fc.Writes())
		// server side: response.Write from a handler on a TCP connection
		q := new(dns.Msg)
		q.SetQuestion("w.example.", dns.TypeA)
		qb, _ := q.Pack()
		sc := netfake.NewConn([][]byte{frame(qb)})
		var hn int
		var herr error
		called := false
		srv := &dns.Server{Listener: netfake.NewListener(sc), Handler: dns.HandlerFunc(func(w dns.ResponseWriter, _ *dns.Msg) {
			called = true
			hn, herr = w.Write(p)
		})}
		done := make(chan error, 1)
		go func() { done <- srv.ActivateAndServe() }()
		if !netfake.WaitClosed(sc, infraWait) {
			stat["infra_timeout"]++
			continue
		}
		srv.Shutdown()
		<-done
		if !called {
			Viol("C12/Frame/handler-not-called", "framed query did not reach the handler", Hx(frame(qb)))
			continue
		}
		out = showWrite(hn, herr, sc.Writes())
		Emit("write", []string{Itoa(n), Itoa(int(seed))}, out)
		writeOracle("response.Write", n, p, hn, herr, sc.Writes())
	}
	// WriteMsg of a message that packs to more than 65535 octets
	big := new(dns.Msg)
	big.SetQuestion("big.example.", dns.TypeTXT)
	for i := 0; i < 300; i++ {
		big.Answer = append(big.Answer, &dns.TXT{Hdr: dns.RR_Header{Name: fmt.Sprintf("r%d.big.example.", i), Rrtype: dns.TypeTXT, Class: 1},
			Txt: []string{strings.Repeat("x", 250)}})
	}
	if b, err := big.Pack(); err == nil && len(b) > 65535 {
		fc := netfake.NewConn(nil)
		err := (&dns.Conn{Conn: fc}).WriteMsg(big)
		stat["writer_oracle_checked"]++
		if err == nil || len(fc.Written()) != 0 {
			Viol("C12/Frame/oversize-written", fmt.Sprintf("WriteMsg of a %d-octet message: err=%v, %d octets written", len(b), err, len(fc.Written())), len(b))
		}
	}
	// a conn that accepts only part of the frame: the error must surface
	for _, lim := range []int{1, 2, 3, 10} {
		fc := netfake.NewConn(nil)
		fc.WriteLimit, fc.ShortErr = lim, true
		m := new(dns.Msg)
		m.SetQuestion("short.example.", dns.TypeA)
		err := (&dns.Conn{Conn: fc}).WriteMsg(m)
		stat["writer_oracle_checked"]++
		if err == nil {
			Viol("C12/Frame/short-write-hidden", "WriteMsg reported success although the conn accepted only part of the frame", lim)
		}
		if len(fc.Writes()) != 1 {
			Viol("C12/Frame/short-write-retry", "a frame was not written by exactly one Write call", lim)
		}
	}
}

func writeOracle(what string, n int, p []byte, wn int, err error, writes [][]byte) {
	stat["writer_oracle_checked"]++
	in := map[string]any{"op": what, "len": n}
	if n > 65535 {
		if err == nil || len(writes) != 0 {
			Viol("C12/Frame/oversize-written", what+": a message above 65535 octets was not refused cleanly", in)
		}
		return
	}
	if err != nil {
		Viol("C12/Frame/write-refused", what+": a message of at most 65535 octets was refused: "+err.Error(), in)
		return
	}
	if len(writes) != 1 || !bytes.Equal(writes[0], frame(p)) {
		Viol("C12/Frame/write-frame", what+": the octets written are not one length-prefixed copy of the message", in)
	}
	if wn != len(p)+2 {
		// both writers report the octets the transport accepted (prefix included)
		Viol("C12/Frame/write-count", fmt.Sprintf("%s returned n=%d for a %d-octet message", what, wn, len(p)), in)
	}
}

// ------------------------------------------------------------------ exchange

func mkReply(id uint16, name string, r *Rng) *dns.Msg {
	m := new(dns.Msg)
	m.Id = id
	m.Response = true
	m.Question = []dns.Question{{Name: name, Qtype: dns.TypeA, Qclass: 1}}
	for k := r.Intn(3); k > 0; k-- {
		m.Answer = append(m.Answer, &dns.A{Hdr: dns.RR_Header{Name: name, Rrtype: dns.TypeA, Class: 1, Ttl: 3}, A: net.IPv4(192, 0, 2, byte(r.Intn(250)))})
	}
	return m
}

func decodesOK(b []byte) bool { return new(dns.Msg).Unpack(b) == nil }

type xIn struct {
	Transport string   `json:"transport"`
	Qid       uint16   `json:"query_id"`
	Replies   []string `json:"replies_hex"`
	Sizes     string   `json:"chunk_sizes,omitempty"`
	Got       string   `json:"got"`
	Want      string   `json:"want,omitempty"`
}

// xSchedule: the script of replies a peer plays back to the query with ID qid:
// up to four replies with other IDs (random, qid+1, qid^0x100), then nothing / an
// undecodable one / a short one / the matching reply (possibly followed by a stale
// one and a duplicate); one time in eight a reply longer than the receive buffer
// comes first. Used for every exchange entry point (runExchange, entrypoints.go).
func xSchedule(r *Rng, qid uint16) [][]byte {
	// the script of replies
	var reps [][]byte
	nf := r.Intn(5)
	for i := 0; i < nf; i++ {
		id := uint16(r.Next())
		switch r.Intn(6) {
		case 0:
			id = qid + 1
		case 1:
			id = qid ^ 0x100
		}
		if id == qid {
			id++
		}
		b, _ := mkReply(id, "x.example.", r).Pack()
		reps = append(reps, b)
	}
	kind := r.Intn(8)
	switch kind {
	case 0: // nothing matches
	case 1: // undecodable datagram somewhere
		b, _ := mkReply(qid, "x.example.", r).Pack()
		b = append(b[:12], 0xc0, 0x0c, 0, 1, 0, 1) // pointer loop
		b[5] = 1
		reps = append(reps, b)
	case 2: // short datagram / frame
		reps = append(reps, r.Bytes(r.Intn(12)))
	default:
		b, _ := mkReply(qid, "x.example.", r).Pack()
		reps = append(reps, b)
		if r.Bool() { // duplicates / stale replies after the real one
			b2, _ := mkReply(uint16(r.Next()), "x.example.", r).Pack()
			reps = append(reps, b2, b)
		}
	}
	if kind == 7 { // a reply longer than the receive buffer
		m := mkReply(qid, "x.example.", r)
		for i := 0; i < 40; i++ {
			m.Answer = append(m.Answer, &dns.A{Hdr: dns.RR_Header{Name: "x.example.", Rrtype: dns.TypeA, Class: 1}, A: net.IPv4(10, 0, 0, byte(i))})
		}
		b, _ := m.Pack()
		reps = append([][]byte{b}, reps...)
	}
	return reps
}

func runExchange(r *Rng, tier string) {
	rounds := 220
	if tier == "thorough" {
		rounds = 3000
	}
	for round := 0; round < rounds; round++ {
		qid := uint16(r.Next())
		q := new(dns.Msg)
		q.SetQuestion("x.example.", dns.TypeA)
		q.Id = qid
		qb, _ := q.Pack()
		reps := xSchedule(r, qid)
		var repHex []string
		for _, b := range reps {
			repHex = append(repHex, Hx(b))
		}

		// ---------- datagrams
		{
			udpSize := []uint16{0, 0, 512, 1232, 4096}[r.Intn(5)]
			bufsize := 512
			if int(udpSize) > bufsize {
				bufsize = int(udpSize)
			}
			// expectation from the property text
			want, wantIdx := "err:timeout", -1
			var bad []string
			for i, d := range reps {
				p := d
				if len(p) > bufsize {
					p = p[:bufsize]
				}
				if len(p) < 12 {
					want = "err:short-read"
					break
				}
				if !decodesOK(p) {
					bad = append(bad, Hx(p))
					want = "err:unpack"
					break
				}
				if binary.BigEndian.Uint16(p) == qid {
					want, wantIdx = "ok:"+render(p), i
					break
				}
			}
			dc := netfake.NewDgramConn(reps)
			c := &dns.Client{UDPSize: udpSize, Timeout: 10 * time.Second}
			if want == "err:timeout" {
				c.Timeout = 40 * time.Millisecond
			}
			rep, _, err := c.ExchangeWithConn(q, &dns.Conn{Conn: dc})
			got := ""
			switch {
			case err == nil && wantIdx >= 0:
				p := reps[wantIdx]
				if len(p) > bufsize {
					p = p[:bufsize]
				}
				var um dns.Msg
				um.Unpack(p)
				if rep.String() == um.String() {
					got = "ok:" + render(p)
				} else {
					got = "ok:OTHER-REPLY-id" + Itoa(int(rep.Id))
				}
			case err == nil:
				got = "ok:UNEXPECTED-id" + Itoa(int(rep.Id))
			default:
				got = "err:" + classify(err)
				if classify(err) == "other" && want == "err:unpack" {
					got = "err:unpack"
				}
			}
			dg := make([]string, len(repHex)) // "d"+hex, so that an empty datagram is distinguishable from no datagram
			for i, h := range repHex {
				dg[i] = "d" + h
			}
			Emit("xdgram", []string{Itoa(int(qid)), Itoa(bufsize), strings.Join(dg, ","), strings.Join(bad, ",")}, got)
			stat["xdgram_cases"]++
			if strings.HasPrefix(got, "ok:") {
				stat["xdgram_ok"]++
			} else {
				stat["xdgram_"+got]++
			}
			in := xIn{"udp", qid, repHex, "", got, want}
			if err == nil && rep.Id != qid {
				Viol("C12/Exchange/udp-foreign-id-returned", "exchange over datagrams returned a reply with another ID", in)
			}
			if got != want {
				Viol("C12/Exchange/udp-skip", "datagram exchange did not skip foreign IDs until the matching reply / deadline", in)
			}
			if w := dc.Writes(); len(w) != 1 || !bytes.Equal(w[0].Data, qb) {
				Viol("C12/Exchange/udp-request", "the request was not sent as exactly one datagram", in)
			}
			stat["exchange_oracle_checked"]++
		}
		// ---------- stream
		{
			var items []item
			var bounds []int
			pos := 0
			for _, b := range reps {
				it := itMsgFrame(b)
				bounds = append(bounds, pos)
				pos += len(it.data)
				items = append(items, it)
			}
			spec, data := specOf(items)
			if r.Intn(6) == 0 && len(data) > 0 { // early EOF
				data = data[:r.Intn(len(data))]
				spec = "x" + Hx(data)
			}
			sizes := genSizes(r, len(data), bounds)
			fc := netfake.NewConn(cut(sizes, data))
			c := &dns.Client{Timeout: 10 * time.Second}
			rep, _, err := c.ExchangeWithConn(q, &dns.Conn{Conn: fc})
			// expectation: the FIRST frame decides
			want := ""
			var bad []string
			ms, end := refParse(data, 1)
			switch {
			case len(ms) == 0:
				want = "err:" + end
			case len(ms[0]) < 12:
				want = "err:short-read"
			case !decodesOK(ms[0]):
				want = "err:unpack"
				bad = append(bad, Hx(ms[0]))
			case binary.BigEndian.Uint16(ms[0]) != qid:
				want = "err:id"
			default:
				want = "ok:" + render(ms[0])
			}
			got := ""
			if err == nil {
				var um dns.Msg
				if len(ms) > 0 {
					um.Unpack(ms[0])
				}
				if len(ms) > 0 && rep.String() == um.String() {
					got = "ok:" + render(ms[0])
				} else {
					got = "ok:OTHER-REPLY-id" + Itoa(int(rep.Id))
				}
			} else {
				got = "err:" + classify(err)
				if classify(err) == "other" && want == "err:unpack" {
					got = "err:unpack"
				}
			}
			Emit("xstream", []string{Itoa(int(qid)), spec, sizesString(sizes), strings.Join(bad, ",")}, got)
			stat["xstream_cases"]++
			in := xIn{"tcp", qid, repHex, sizesString(sizes), got, want}
			if err == nil && rep.Id != qid {
				Viol("C12/Exchange/tcp-foreign-id-returned", "exchange over a stream returned a reply with another ID without ErrId", in)
			}
			if got != want {
				Viol("C12/Exchange/tcp-id", "stream exchange: wrong outcome for the first reply frame", in)
			}
			if w := fc.Writes(); len(w) != 1 || !bytes.Equal(w[0], frame(qb)) {
				Viol("C12/Exchange/tcp-request", "the request was not written as exactly one length-prefixed frame", in)
			}
			stat["exchange_oracle_checked"]++
		}
	}
}

// ------------------------------------------------------------------ cross-talk (runtime observation)

func payloadHash(p []byte) string {
	h := sha1.Sum(p)
	return Hx(h[:8])
}

// mkRequest: the question name carries client, sequence and a hash of the TXT
// payload in the additional section, so a request assembled from two different
// packets is recognisable by whoever sees it.
func mkRequest(cid, seq int, r *Rng) *dns.Msg {
	pl := r.Bytes(r.Intn(110))
	m := new(dns.Msg)
	m.Id = uint16(r.Next())
	m.Question = []dns.Question{{Name: fmt.Sprintf("c%d-s%d.%s.xt.", cid, seq, payloadHash(pl)), Qtype: dns.TypeTXT, Qclass: 1}}
	m.Extra = []dns.RR{&dns.TXT{Hdr: dns.RR_Header{Name: "p.", Rrtype: dns.TypeTXT, Class: 1}, Txt: []string{Hx(pl)}}}
	return m
}

func requestConsistent(m *dns.Msg) bool {
	if len(m.Question) != 1 || len(m.Extra) != 1 {
		return false
	}
	t, ok := m.Extra[0].(*dns.TXT)
	if !ok || len(t.Txt) != 1 {
		return false
	}
	f := strings.Split(m.Question[0].Name, ".")
	return len(f) >= 3 && f[1] == payloadHash(Unhx(t.Txt[0]))
}

func answerFor(req *dns.Msg) *dns.Msg {
	rep := new(dns.Msg)
	rep.SetReply(req)
	t := ""
	if len(req.Extra) == 1 {
		if x, ok := req.Extra[0].(*dns.TXT); ok && len(x.Txt) == 1 {
			t = x.Txt[0]
		}
	}
	rep.Answer = []dns.RR{&dns.TXT{Hdr: dns.RR_Header{Name: req.Question[0].Name, Rrtype: dns.TypeTXT, Class: 1}, Txt: []string{"re:" + t}}}
	return rep
}

func replyMatches(req, rep *dns.Msg) bool {
	if rep == nil || rep.Id != req.Id || len(rep.Question) != 1 || rep.Question[0] != req.Question[0] || len(rep.Answer) != 1 {
		return false
	}
	t, ok := rep.Answer[0].(*dns.TXT)
	return ok && len(t.Txt) == 1 && t.Txt[0] == "re:"+req.Extra[0].(*dns.TXT).Txt[0] && t.Hdr.Name == req.Question[0].Name
}

type xtalk struct {
	mu  sync.Mutex
	bad []string
}

func (x *xtalk) add(s string) {
	x.mu.Lock()
	if len(x.bad) < 5 {
		x.bad = append(x.bad, s)
	}
	x.mu.Unlock()
}

func (x *xtalk) handler(w dns.ResponseWriter, req *dns.Msg) {
	if !requestConsistent(req) {
		x.add("handler saw a request that no client sent: " + req.Question[0].Name)
	}
	w.WriteMsg(answerFor(req))
}

// scripted UDP server, all datagrams queued at once
func runScriptedUDP(r *Rng, n int) {
	reqs := make([]*dns.Msg, n)
	var in [][]byte
	for i := range reqs {
		reqs[i] = mkRequest(i, 0, r)
		b, _ := reqs[i].Pack()
		in = append(in, b)
	}
	x := &xtalk{}
	pc := netfake.NewPacketConn(in, nil)
	srv := &dns.Server{PacketConn: pc, Handler: dns.HandlerFunc(x.handler)}
	done := make(chan error, 1)
	go func() { done <- srv.ActivateAndServe() }()
	if !netfake.WaitChan(pc.Drained, infraWait) {
		stat["infra_timeout"]++
		return
	}
	srv.Shutdown()
	<-done
	seen := map[int]int{}
	for _, w := range pc.Writes() {
		k := w.To.(netfake.Addr).N
		seen[k]++
		var rep dns.Msg
		if err := rep.Unpack(w.Data); err != nil || !replyMatches(reqs[k], &rep) {
			x.add(fmt.Sprintf("client %d received a reply that is not the answer to its request", k))
		}
	}
	for k := range reqs {
		if seen[k] != 1 {
			x.add(fmt.Sprintf("client %d received %d replies", k, seen[k]))
		}
	}
	stat["crosstalk_udp_scripted_checked"] += n
	if len(x.bad) > 0 {
		Viol("C12/Crosstalk/udp", "scripted UDP server with pooled buffers mixed requests/replies", x.bad)
	}
}

// pool reuse made deterministic: one P, each request pauses in the accept
// function (after the header has been decoded, before the body is) until the
// serve loop has read two more datagrams. A buffer handed back to the pool
// before the message has been decoded is then overwritten under the decoder.
func runPoolOrder(r *Rng, n int) {
	old := runtime.GOMAXPROCS(1)
	defer runtime.GOMAXPROCS(old)
	var in [][]byte
	for k := 0; k < n; k++ {
		m := new(dns.Msg)
		m.SetQuestion(fmt.Sprintf("q%05d.pool.test.", k), dns.TypeA)
		m.Id = uint16(k)
		b, _ := m.Pack()
		in = append(in, b)
	}
	pc := netfake.NewPacketConn(in, nil)
	reached := make([]chan struct{}, n)
	for i := range reached {
		reached[i] = make(chan struct{})
	}
	infra := false
	pc.Hold = func(k int) {
		if k >= 1 {
			if !netfake.WaitChan(reached[k-1], 5*time.Second) {
				infra = true
			}
		}
	}
	var mu sync.Mutex
	var bad []string
	handled := 0
	srv := &dns.Server{PacketConn: pc,
		MsgAcceptFunc: func(dh dns.Header) dns.MsgAcceptAction {
			k := int(dh.Id)
			if k < n {
				select {
				case <-reached[k]:
				default:
					close(reached[k])
				}
				want := k + 3
				if want > n {
					want = n
				}
				for t0 := time.Now(); pc.Delivered() < want && time.Since(t0) < 5*time.Second; {
					runtime.Gosched()
				}
			}
			return dns.DefaultMsgAcceptFunc(dh)
		},
		Handler: dns.HandlerFunc(func(w dns.ResponseWriter, req *dns.Msg) {
			mu.Lock()
			handled++
			if want := fmt.Sprintf("q%05d.pool.test.", req.Id); len(req.Question) != 1 || req.Question[0].Name != want {
				if len(bad) < 5 {
					bad = append(bad, fmt.Sprintf("request with ID %d reached the handler with question %v", req.Id, req.Question))
				}
			}
			mu.Unlock()
		})}
	done := make(chan error, 1)
	go func() { done <- srv.ActivateAndServe() }()
	if !netfake.WaitChan(pc.Drained, infraWait) {
		stat["infra_timeout"]++
		return
	}
	srv.Shutdown()
	<-done
	if infra {
		stat["infra_timeout"]++
	}
	stat["pool_order_checked"] += handled
	if len(bad) > 0 {
		Viol("C12/Pool/buffer-reused-before-decode", "a receive buffer was recycled before its request had been decoded", bad)
	}
	if handled != n && !infra {
		Viol("C12/Pool/lost-request", fmt.Sprintf("%d of %d queued datagrams reached the handler", handled, n), nil)
	}
}

// the decoded request must not share memory with the receive buffer: overwrite
// the buffer readUDP returned while the handler holds the message
type bufReader struct {
	dns.Reader
	mu   sync.Mutex
	last []byte
}

func (b *bufReader) ReadPacketConn(conn net.PacketConn, t time.Duration) ([]byte, net.Addr, error) {
	m, a, err := b.Reader.(dns.PacketConnReader).ReadPacketConn(conn, t)
	if err == nil {
		b.mu.Lock()
		b.last = m[:cap(m)]
		b.mu.Unlock()
	}
	return m, a, err
}

func runAliasing(r *Rng, n int) {
	for i := 0; i < n; i++ {
		req := mkRequest(i, 1, r)
		b, _ := req.Pack()
		br := &bufReader{}
		pc := netfake.NewPacketConn([][]byte{b}, nil)
		ok := true
		called := false
		srv := &dns.Server{PacketConn: pc,
			DecorateReader: func(in dns.Reader) dns.Reader { br.Reader = in; return br },
			Handler: dns.HandlerFunc(func(w dns.ResponseWriter, got *dns.Msg) {
				called = true
				before := got.String()
				br.mu.Lock()
				for j := range br.last {
					br.last[j] = 0xAA
				}
				br.mu.Unlock()
				ok = got.String() == before && requestConsistent(got) && got.Question[0] == req.Question[0]
			})}
		done := make(chan error, 1)
		go func() { done <- srv.ActivateAndServe() }()
		if !netfake.WaitChan(pc.Drained, infraWait) {
			stat["infra_timeout"]++
			continue
		}
		srv.Shutdown()
		<-done
		stat["aliasing_checked"]++
		if called && !ok {
			Viol("C12/Pool/decoded-aliases-buffer", "the decoded request changed when the receive buffer was overwritten", Hx(b))
		}
		if !called {
			Viol("C12/Pool/lost-request", "a valid datagram did not reach the handler", Hx(b))
		}
	}
}

// scripted TCP: several connections served concurrently, each stream cut differently
func runScriptedTCP(r *Rng, nconn, per int) {
	x := &xtalk{}
	conns := make([]*netfake.Conn, nconn)
	reqs := make([][]*dns.Msg, nconn)
	l := netfake.NewListener()
	for c := 0; c < nconn; c++ {
		var stream []byte
		var bounds []int
		for s := 0; s < per; s++ {
			m := mkRequest(c, s, r)
			reqs[c] = append(reqs[c], m)
			b, _ := m.Pack()
			bounds = append(bounds, len(stream))
			stream = append(stream, frame(b)...)
		}
		conns[c] = netfake.NewConn(cut(genSizes(r, len(stream), bounds), stream))
		conns[c].Remote = netfake.Addr{N: c}
		l.Add(conns[c])
	}
	srv := &dns.Server{Listener: l, Handler: dns.HandlerFunc(x.handler)}
	done := make(chan error, 1)
	go func() { done <- srv.ActivateAndServe() }()
	for _, c := range conns {
		if !netfake.WaitClosed(c, infraWait) {
			stat["infra_timeout"]++
			srv.Shutdown()
			return
		}
	}
	srv.Shutdown()
	<-done
	for c, fc := range conns {
		ms, end := refParse(fc.Written(), -1)
		if end != "eof" || len(ms) != per {
			x.add(fmt.Sprintf("connection %d: %d reply frames (%s), want %d", c, len(ms), end, per))
			continue
		}
		for s, b := range ms {
			var rep dns.Msg
			if err := rep.Unpack(b); err != nil || !replyMatches(reqs[c][s], &rep) {
				x.add(fmt.Sprintf("connection %d: reply %d is not the answer to request %d of that connection", c, s, s))
			}
		}
		for _, w := range fc.Writes() { // one Write per reply
			if len(w) < 2 || int(binary.BigEndian.Uint16(w)) != len(w)-2 {
				x.add(fmt.Sprintf("connection %d: a Write call did not carry exactly one frame", c))
				break
			}
		}
	}
	stat["crosstalk_tcp_scripted_checked"] += nconn * per
	if len(x.bad) > 0 {
		Viol("C12/Crosstalk/tcp", "scripted TCP server mixed requests/replies across connections or frames", x.bad)
	}
}

// real sockets on loopback, N concurrent clients per transport
func runLoopback(r *Rng, nclients, per int) {
	for _, network := range []string{"udp", "tcp"} {
		x := &xtalk{}
		srv := &dns.Server{Handler: dns.HandlerFunc(x.handler), MaxTCPQueries: -1} // clients keep one connection for all requests
		started := make(chan struct{})
		srv.NotifyStartedFunc = func() { close(started) }
		var addr string
		if network == "udp" {
			pc, err := net.ListenPacket("udp", "127.0.0.1:0")
			if err != nil {
				stat["infra_loopback_unavailable"]++
				continue
			}
			srv.PacketConn, addr = pc, pc.LocalAddr().String()
		} else {
			l, err := net.Listen("tcp", "127.0.0.1:0")
			if err != nil {
				stat["infra_loopback_unavailable"]++
				continue
			}
			srv.Listener, addr = l, l.Addr().String()
		}
		done := make(chan error, 1)
		go func() { done <- srv.ActivateAndServe() }()
		if !netfake.WaitChan(started, infraWait) {
			stat["infra_timeout"]++
			continue
		}
		var wg sync.WaitGroup
		var smu sync.Mutex
		seeds := make([]uint64, nclients)
		for i := range seeds {
			seeds[i] = r.Next()
		}
		for c := 0; c < nclients; c++ {
			wg.Add(1)
			go func(c int) {
				defer wg.Done()
				rr := &Rng{S: seeds[c]}
				cl := &dns.Client{Net: network, Timeout: 10 * time.Second}
				var co *dns.Conn
				if network == "tcp" {
					var err error
					if co, err = cl.Dial(addr); err != nil {
						smu.Lock()
						stat["infra_timeout"]++
						smu.Unlock()
						return
					}
					defer co.Close()
				}
				for s := 0; s < per; s++ {
					req := mkRequest(c, s, rr)
					var rep *dns.Msg
					var err error
					if network == "tcp" {
						rep, _, err = cl.ExchangeWithConn(req, co)
					} else {
						rep, _, err = cl.Exchange(req, addr)
					}
					smu.Lock()
					if err != nil {
						var ne net.Error
						if errors.As(err, &ne) && ne.Timeout() || strings.Contains(err.Error(), "connection re") {
							stat["infra_timeout"]++
						} else {
							x.add(fmt.Sprintf("%s client %d request %d: %v", network, c, s, err))
						}
						smu.Unlock()
						if network == "tcp" {
							return
						}
						continue
					}
					stat["crosstalk_loopback_checked"]++
					smu.Unlock()
					if !replyMatches(req, rep) {
						x.add(fmt.Sprintf("%s client %d request %d received a reply that is not its answer (id %d, %v)", network, c, s, rep.Id, rep.Question))
					}
				}
			}(c)
		}
		wg.Wait()
		sd := make(chan error, 1)
		go func() { sd <- srv.Shutdown() }()
		select {
		case <-sd:
		case <-time.After(infraWait):
			stat["infra_timeout"]++
		}
		if len(x.bad) > 0 {
			Viol("C12/Crosstalk/loopback-"+network, "concurrent clients against a real "+network+" server: wrong request seen or wrong reply received", x.bad)
		}
	}
}

func runC12(r *Rng, tier string, n int) {
	runReaders(r, tier)
	runWriters(r, tier)
	runExchange(r, tier)
	runEntryPoints(r, tier)
	k := 1
	if tier == "thorough" {
		k = 10
	}
	for i := 0; i < 8*k; i++ {
		runScriptedUDP(r, 300)
		runScriptedTCP(r, 8, 12)
	}
	for i := 0; i < 2*k; i++ {
		runPoolOrder(r, 120)
	}
	runAliasing(r, 12*k)
	runLoopback(r, 8, 25*k)
	runRetain(r, tier)
	runPoison(r, tier)
	runDecorated(r, tier)
	runTsigPool(r, tier)
	runStreamSeq(r, tier)
	runMultiHomed(r, tier)
	runSessions(r, tier)
	runKeptWriters(r, tier)
	runPipelined(r, tier)
	runDeadlines(r, tier)
	stat["retain_gen_retry"] = int(genRetries.Load())
	Stat(stat)
}
