(* Proofs/LenNameProofs.v — length of a name on the wire versus what
   domainNameLen / escapedNameLen predict. *)
From Dns Require Import Base.ListX Model.Len Spec.NameSpec Proofs.EscapeProofs Proofs.TokenProofs Proofs.NameWireProofs.
From Coq Require Import Lia ZifyN ZifyNat ZifyBool.
Open Scope N_scope.

(* escapedNameLen per token *)
Lemma enl_ddd a b c r3 : ddd3 a b c = true ->
  escaped_name_len (92 :: a :: b :: c :: r3) = 1 + escaped_name_len r3.
Proof. intro H. cbn. unfold ddd3 in H. now rewrite H. Qed.
Lemma enl_esc a r1 : is_ddd (a :: r1) = false -> escaped_name_len (92 :: a :: r1) = 1 + escaped_name_len r1.
Proof.
  intro H. destruct r1 as [|b [|c r3]]; try reflexivity.
  cbn. unfold is_ddd in H. now rewrite H.
Qed.
Lemma enl_plain x r : x <> 92 -> escaped_name_len (x :: r) = 1 + escaped_name_len r.
Proof. intro H. destruct x as [|p]; [reflexivity|]. repeat (destruct p as [p|p|]; try reflexivity). congruence. Qed.

(* escapedNameLen never exceeds the length of the text, and equals it when the
   text holds no backslash *)
Lemma enl_le (s : bytes) : escaped_name_len s <= lenN s.
Proof.
  induction s as [| a b c r3 Hd IH | a r1 Hd IH | | r IH | x r H1 H2 IH] using tok_ind.
  - cbn. lia.
  - rewrite enl_ddd by auto. repeat rewrite lenN_cons. lia.
  - rewrite enl_esc by auto. repeat rewrite lenN_cons. lia.
  - cbn. lia.
  - rewrite enl_plain by lia. rewrite lenN_cons. lia.
  - rewrite enl_plain by auto. rewrite lenN_cons. lia.
Qed.
Lemma enl_no_backslash (s : bytes) : has_backslash s = false -> escaped_name_len s = lenN s.
Proof.
  unfold has_backslash. induction s as [|x r IH]; intro H; [reflexivity|].
  cbn [existsb] in H. apply orb_false_elim in H. destruct H as [Hx Hr].
  rewrite enl_plain by (intro E; subst; discriminate). rewrite lenN_cons, IH by exact Hr. reflexivity.
Qed.

(* the text of a name denotes labels whose wire form has exactly escapedNameLen
   octets (each label: length octet instead of the dot) *)
Lemma parse_go_wire_len (s : bytes) : forall lab ls,
  parse_go s lab [] = Some ls ->
  lenN (wire_labels ls) = escaped_name_len s + lenN lab.
Proof.
  induction s as [| a b c r3 Hd IH | a r1 Hd IH | | r IH | x r H1 H2 IH] using tok_ind; intros lab ls H.
  - cbn in H. destruct lab; [|discriminate]. injection H as <-. reflexivity.
  - rewrite parse_go_ddd in H by auto. rewrite (IH _ _ H), enl_ddd, lenN_app, lenN_cons, lenN_nil by auto. lia.
  - rewrite parse_go_esc in H by auto. rewrite (IH _ _ H), enl_esc, lenN_app, lenN_cons, lenN_nil by auto. lia.
  - discriminate.
  - cbn [parse_go] in H. rewrite parse_go_acc in H. cbn [rev app] in H.
    destruct (parse_go r [] []) as [ls'|] eqn:E; [|discriminate]. cbn in H. injection H as <-.
    rewrite wire_labels_cons, lenN_cons, lenN_app, (IH [] ls' E), enl_plain, lenN_nil by lia. lia.
  - rewrite parse_go_plain in H by auto. rewrite (IH _ _ H), enl_plain, lenN_app, lenN_cons, lenN_nil by auto. lia.
Qed.

(* domainNameLen without a compression map is exact: it is the number of octets
   PackDomainName writes for that name *)
Theorem domain_name_len_plain_exact s ls cap off cp :
  is_fqdn s = true -> parse_name s = Some ls -> name_len_ok ls = true -> 320 <= cap ->
  exists w, pack_name_plain s cap = Ok w /\ fst (domain_name_len s off None cp) = lenN w.
Proof.
  intros Hf Hp Hok Hcap.
  destruct (pack_name_plain_spec s ls cap Hf Hp Hcap) as [Hpack _].
  exists (wire_name ls). split; [apply Hpack, Hok|].
  unfold domain_name_len, wire_name. rewrite lenN_app, lenN_cons, lenN_nil.
  destruct (list_eq_dec N.eq_dec s [46]) as [->|Hne].
  { cbn in Hp. injection Hp as <-. reflexivity. }
  assert (Hs : s <> []) by (intro E; subst; discriminate).
  assert (E1 : bytes_eqb s [] = false).
  { destruct (bytes_eqb s []) eqn:B; [apply bytes_eqb_eq in B; congruence|reflexivity]. }
  assert (E2 : bytes_eqb s [46] = false).
  { destruct (bytes_eqb s [46]) eqn:B; [apply bytes_eqb_eq in B; congruence|reflexivity]. }
  rewrite E1, E2. cbn [orb fst].
  rewrite parse_name_nonroot in Hp by assumption.
  pose proof (parse_go_wire_len s [] ls Hp) as Hw. rewrite lenN_nil in Hw.
  destruct (has_backslash s) eqn:Hb.
  - cbn [fst]. lia.
  - cbn [fst]. rewrite <- (enl_no_backslash s Hb). lia.
Qed.
