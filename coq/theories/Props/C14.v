(* Props/C14.v — property C14 (server admission and routing: each inbound
   message is handled, rejected or reported).  Only statements; each is closed
   by [exact] of a lemma proved in Proofs/ServeProofs.v or Proofs/MuxProofs.v.

   Vocabulary (Model/Serve.v, Model/Mux.v):
     serve accept unpack tr m   the events the server produces for the inbound
                                octet string m over transport tr (Udp/Tcp), for
                                ANY accept policy and ANY decoder outcome
                                [unpack] (the full message decoder is a
                                parameter: UOk r = decoded request r, UErr qs =
                                error after the questions qs were decoded);
     handler_calls / invalid_calls / writes   its projections;
     accept_default             defaultMsgAcceptFunc;
     mux_match z q t            ServeMux.match on the registered patterns z;
     label_start s p            p is the offset of the first octet of a label
                                of the presentation-form name s (offset 0, or
                                just after a dot preceded by an even number of
                                backslashes, the final dot excluded). *)
From Dns Require Import Model.Serve Model.Mux Proofs.ServeProofs Proofs.MuxProofs Proofs.MuxLabelProofs.
Open Scope N_scope.

(* ---- admission: exactly once / not at all / accounted ---- *)

(* The handler is invoked exactly once, with the decoded request, iff the
   message has a header, passes the accept policy and decodes. *)
Theorem exactly_once :
  forall (R : Type) (accept : header -> action) (unpack : bytes -> unpack_result R)
         (tr : transport) (m : bytes) (r : R),
    handler_calls (serve accept unpack tr m) = [r] <->
    exists dh, unpack_hdr m = Ok dh /\ accept dh = MsgAccept /\ unpack m = UOk r.
Proof. exact @serve_exactly_once. Qed.

(* ... never more than once ... *)
Theorem at_most_once :
  forall (R : Type) (accept : header -> action) (unpack : bytes -> unpack_result R)
         (tr : transport) (m : bytes),
    handler_calls (serve accept unpack tr m) = [] \/
    exists r, handler_calls (serve accept unpack tr m) = [r].
Proof. exact @serve_at_most_once. Qed.

(* ... and not at all otherwise. *)
Theorem not_at_all_otherwise :
  forall (R : Type) (accept : header -> action) (unpack : bytes -> unpack_result R)
         (tr : transport) (m : bytes),
    (forall dh r, unpack_hdr m = Ok dh -> accept dh = MsgAccept -> unpack m <> UOk r) ->
    handler_calls (serve accept unpack tr m) = [].
Proof. exact @serve_not_at_all. Qed.

(* Every message that does not reach the handler was refused or ignored by the
   policy, or is reported to the invalid-message callback (once, with the
   octets received). *)
Theorem accounted :
  forall (R : Type) (accept : header -> action) (unpack : bytes -> unpack_result R)
         (tr : transport) (m : bytes),
    handler_calls (serve accept unpack tr m) = [] ->
    (exists dh, unpack_hdr m = Ok dh /\ accept dh <> MsgAccept /\
                invalid_calls (serve accept unpack tr m) = []) \/
    (exists c, invalid_calls (serve accept unpack tr m) = [(c, m)]).
Proof. exact @serve_accounted. Qed.

(* A string shorter than a header is reported and never answered or handled
   (no reply that could be used for amplification). *)
Theorem short_message_reported_not_answered :
  forall (R : Type) (accept : header -> action) (unpack : bytes -> unpack_result R)
         (tr : transport) (m : bytes),
    (length m < 12)%nat ->
    writes (serve accept unpack tr m) = [] /\ handler_calls (serve accept unpack tr m) = [] /\
    exists c, invalid_calls (serve accept unpack tr m) = [(c, m)].
Proof. exact @serve_short_no_reply. Qed.

(* What the library itself writes back, by policy action. *)
Theorem replies_by_action :
  forall (R : Type) (accept : header -> action) (unpack : bytes -> unpack_result R)
         (tr : transport) (m : bytes) (dh : header),
    unpack_hdr m = Ok dh ->
    writes (serve accept unpack tr m) =
    match accept dh with
    | MsgAccept => match unpack m with UOk _ => [] | UErr qs => [reject_reply dh false qs] end
    | MsgReject => [reject_reply dh false []]
    | MsgRejectNotImplemented => [reject_reply dh true []]
    | MsgIgnore => []
    end.
Proof. exact @serve_writes. Qed.

(* Every reply serveDNS constructs itself (FORMERR / NOTIMP, with whatever
   questions were decoded) carries the request's ID with QR set, the stated
   RCODE and no answer, authority or additional records. *)
Theorem reject_reply_skeleton :
  forall (dh : header) (notimp : bool) (qs : list bytes),
    h_id dh < 65536 ->
    let b := reject_reply dh notimp qs in
    reply_id b = h_id dh /\ reply_qr b = true /\
    reply_rcode b = (if notimp then 4 else 1) /\
    reply_opcode b = (if notimp then hdr_opcode dh else 0) /\
    reply_an b = 0 /\ reply_ns b = 0 /\ reply_ar b = 0.
Proof. exact reject_reply_spec. Qed.

(* ---- the default policy ---- *)

(* ---- stream messages: framing (serveTCPConn / readTCP) ---- *)

(* A stream carrying the messages ms, each preceded by its two-octet length,
   and then nothing, half a length prefix or a frame the stream does not
   complete, is read back as exactly those messages in order (at most [limit]
   of them per connection).  The stream is an octet string: how the transport
   cuts it into reads is not an input. *)
Theorem stream_messages_read_in_order :
  forall (ms : list bytes) (t : bytes) (limit : nat),
    Forall (fun m => lenN m < 65536) ms -> incomplete_frame t ->
    read_frames limit (flat_map frame ms ++ t) = firstn limit ms.
Proof. exact read_frames_framed. Qed.

(* ... so every message of the stream is served as it would be alone: the
   handler calls of the connection are those of its messages, in order. *)
Theorem stream_messages_each_served :
  forall (R : Type) (accept : header -> action) (unpack : bytes -> unpack_result R)
         (ms : list bytes) (t : bytes) (limit : nat),
    Forall (fun m => lenN m < 65536) ms -> incomplete_frame t -> (length ms <= limit)%nat ->
    serve_stream accept unpack limit (flat_map frame ms ++ t) =
      flat_map (serve accept unpack Tcp) ms /\
    handler_calls (serve_stream accept unpack limit (flat_map frame ms ++ t)) =
      flat_map (fun m => handler_calls (serve accept unpack Tcp m)) ms.
Proof.
  intros R accept unpack ms t limit Hl Ht Hn. split.
  - rewrite (serve_stream_framed accept unpack ms t limit Hl Ht), firstn_all2 by exact Hn. reflexivity.
  - exact (serve_stream_handler_calls accept unpack ms t limit Hl Ht Hn).
Qed.

(* defaultMsgAcceptFunc, completely: a function of QR, opcode and the four counts *)
Theorem default_policy_complete :
  forall dh : header,
    accept_default dh =
    if hdr_qr dh then MsgIgnore
    else if negb ((hdr_opcode dh =? 0) || (hdr_opcode dh =? 4)) then MsgRejectNotImplemented
    else if (h_qd dh =? 1) && (h_an dh <=? 1) && (h_ns dh <=? 1) && (h_ar dh <=? 2) then MsgAccept
    else MsgReject.
Proof. exact accept_default_cases. Qed.

(* Messages with QR set are never answered (nor handled, nor reported). *)
Theorem qr_never_answered :
  forall (R : Type) (unpack : bytes -> unpack_result R) (tr : transport) (m : bytes) (dh : header),
    unpack_hdr m = Ok dh -> hdr_qr dh = true ->
    serve accept_default unpack tr m = [].
Proof. exact @default_qr_silent. Qed.

(* Opcodes other than QUERY and NOTIFY get exactly one reply: NOTIMP. *)
Theorem notimp_for_other_opcodes :
  forall (R : Type) (unpack : bytes -> unpack_result R) (tr : transport) (m : bytes) (dh : header),
    unpack_hdr m = Ok dh -> hdr_qr dh = false -> hdr_opcode dh <> 0 -> hdr_opcode dh <> 4 ->
    serve accept_default unpack tr m = [EvWrite (reject_reply dh true [])].
Proof. exact @default_notimp. Qed.

(* Over-populated queries get exactly one reply: FORMERR. *)
Theorem formerr_for_counts :
  forall (R : Type) (unpack : bytes -> unpack_result R) (tr : transport) (m : bytes) (dh : header),
    unpack_hdr m = Ok dh -> hdr_qr dh = false -> (hdr_opcode dh = 0 \/ hdr_opcode dh = 4) ->
    (h_qd dh <> 1 \/ 1 < h_an dh \/ 1 < h_ns dh \/ 2 < h_ar dh) ->
    serve accept_default unpack tr m = [EvWrite (reject_reply dh false [])].
Proof. exact @default_formerr_counts. Qed.

(* Malformed queries (accepted by the policy, not decodable) are reported and
   get FORMERR. *)
Theorem formerr_for_malformed :
  forall (R : Type) (unpack : bytes -> unpack_result R) (tr : transport) (m : bytes) (dh : header)
         (qs : list bytes),
    unpack_hdr m = Ok dh -> accept_default dh = MsgAccept -> unpack m = UErr qs ->
    serve accept_default unpack tr m = [EvInvalid "unpack" m; EvWrite (reject_reply dh false qs)].
Proof. exact @default_formerr_malformed. Qed.

(* ---- routing ---- *)

(* match never panics and always terminates *)
Theorem match_total :
  forall (H : Type) (z : mux H) (q : bytes) (t : N), exists r, mux_match z q t = Ok r.
Proof. exact @mux_match_total. Qed.

(* A non-DS request goes to the handler registered for the longest suffix of
   the (canonical) question name that starts on a label boundary. *)
Theorem match_longest_suffix :
  forall (H : Type) (z : mux H) (q : bytes) (t : N) (off : nat) (h : H),
    t <> 43 ->
    label_start (canonical_name q) off ->
    lookup z (skipn off (canonical_name q)) = Some h ->
    (forall o, (o < off)%nat -> label_start (canonical_name q) o ->
               lookup z (skipn o (canonical_name q)) = None) ->
    mux_match z q t = Ok (Some h).
Proof. exact @mux_match_longest. Qed.

(* "Label boundary" is the wire-level notion: for a question name printed from
   its wire labels ls (show_name = the presentation UnpackDomainName produces,
   with dots, backslashes and non-printing octets inside labels escaped) the
   offsets match visits in the canonical name are exactly the offsets at which
   the labels of ls begin - one candidate suffix per label, none inside a label. *)
Theorem label_boundaries_are_wire_labels :
  forall (ls : list label) (p : nat),
    ls <> [] -> Forall wfb ls ->
    (label_start (canonical_name (show_name ls)) p <->
     exists k, (k < length ls)%nat /\ p = length (show_labels (firstn k ls))).
Proof. exact label_start_canonical_wire. Qed.

(* ... ignoring ASCII case in the question name ... *)
Theorem match_ignores_case :
  forall (H : Type) (z : mux H) (q1 q2 : bytes) (t : N),
    lower_bytes q1 = lower_bytes q2 -> mux_match z q1 t = mux_match z q2 t.
Proof. exact @mux_match_case. Qed.

(* ... and in the pattern: Handle files the handler under the canonical form. *)
Theorem handle_ignores_case :
  forall (H : Type) (z : mux H) (p p' : bytes) (h : H) (z' : mux H),
    mux_handle z p h = Ok z' -> lower_bytes p = lower_bytes p' ->
    lookup z' (canonical_name p') = Some h.
Proof. exact @mux_handle_lookup. Qed.

(* HandleRemove deletes exactly that pattern. *)
Theorem handle_remove_exact :
  forall (H : Type) (z : mux H) (p : bytes) (z' : mux H) (k : bytes),
    mux_remove z p = Ok z' ->
    lookup z' k = if bytes_eqb (canonical_name p) k then None else lookup z k.
Proof. exact @mux_remove_lookup. Qed.

(* The root pattern is the last resort, and nothing is chosen when nothing
   matches (any query type). *)
Theorem root_last_resort :
  forall (H : Type) (z : mux H) (q : bytes) (t : N),
    (forall o, label_start (canonical_name q) o -> lookup z (skipn o (canonical_name q)) = None) ->
    mux_match z q t = Ok (lookup z [46]).
Proof. exact @mux_match_none. Qed.

(* REFUSED is what ServeDNS answers exactly when there is no question or
   nothing matches. *)
Theorem refused_when_none :
  forall (H : Type) (z : mux H) (qs : list (bytes * N)),
    mux_serve z qs = Ok Refused <->
    (qs = [] \/ exists name qtype rest, qs = (name, qtype) :: rest /\ mux_match z name qtype = Ok None).
Proof. exact @mux_serve_refused_iff. Qed.

(* DS queries: when the root pattern or the pattern of a proper ancestor of
   the name is registered, the query goes to one of those (the parent side),
   never to the zone of the name itself. *)
Theorem ds_goes_to_ancestor :
  forall (H : Type) (z : mux H) (q : bytes),
    (lookup z [46] <> None \/
     exists off, (0 < off)%nat /\ label_start (canonical_name q) off /\
                 lookup z (skipn off (canonical_name q)) <> None) ->
    exists h, mux_match z q 43 = Ok (Some h) /\
              (lookup z [46] = Some h \/
               exists off, (0 < off)%nat /\ label_start (canonical_name q) off /\
                           lookup z (skipn off (canonical_name q)) = Some h).
Proof. exact @mux_match_ds_ancestor. Qed.

(* exactly which one: the root pattern if registered ... *)
Theorem ds_root_first :
  forall (H : Type) (z : mux H) (q : bytes) (h : H),
    lookup z [46] = Some h -> mux_match z q 43 = Ok (Some h).
Proof. exact @mux_match_ds_root. Qed.

(* ... else the registered suffix with the fewest labels. *)
Theorem ds_topmost :
  forall (H : Type) (z : mux H) (q : bytes) (off : nat) (h : H),
    lookup z [46] = None ->
    label_start (canonical_name q) off ->
    lookup z (skipn off (canonical_name q)) = Some h ->
    (forall o, (off < o)%nat -> label_start (canonical_name q) o ->
               lookup z (skipn o (canonical_name q)) = None) ->
    mux_match z q 43 = Ok (Some h).
Proof. exact @mux_match_ds_topmost. Qed.

(* The stricter reading of the property text - "DS queries go to the handler of
   the ENCLOSING parent zone", i.e. of the closest registered proper ancestor -
   is FALSE on the faithful model: there are patterns z (no root pattern), a name
   q that is itself registered and whose closest registered proper ancestor, at
   label start off, has handler h, such that match does not return h (with
   a.example.org., example.org. and org. registered the DS query for
   a.example.org. goes to org.).  Known finding C14/Mux/ds-not-closest-parent. *)
Theorem ds_closest_parent_refuted :
  exists (z : mux N) (q : bytes) (off : nat) (h : N),
    lookup z [46] = None /\ lookup z (canonical_name q) <> None /\
    (0 < off)%nat /\ label_start (canonical_name q) off /\
    lookup z (skipn off (canonical_name q)) = Some h /\
    (forall o, (0 < o < off)%nat -> label_start (canonical_name q) o ->
               lookup z (skipn o (canonical_name q)) = None) /\
    mux_match z q 43 <> Ok (Some h).
Proof. exact ds_closest_parent_refuted_witness. Qed.

(* Without a registered ancestor the child (the name itself) gets the DS query. *)
Theorem ds_child_otherwise :
  forall (H : Type) (z : mux H) (q : bytes),
    lookup z [46] = None ->
    (forall o, (0 < o)%nat -> label_start (canonical_name q) o ->
               lookup z (skipn o (canonical_name q)) = None) ->
    mux_match z q 43 = Ok (lookup z (canonical_name q)).
Proof. exact @mux_match_ds_child. Qed.

(* ---- reply skeletons ---- *)

Theorem set_reply_carries_id_qr :
  forall (Q RR : Type) (dns request : smsg Q RR),
    m_id (s_hdr (set_reply dns request)) = m_id (s_hdr request) /\
    m_response (s_hdr (set_reply dns request)) = true.
Proof. exact @set_reply_id_qr. Qed.

Theorem set_rcode_carries_id_qr :
  forall (Q RR : Type) (dns request : smsg Q RR) (rc : N),
    m_id (s_hdr (set_rcode dns request rc)) = m_id (s_hdr request) /\
    m_response (s_hdr (set_rcode dns request rc)) = true /\
    m_rcode (s_hdr (set_rcode dns request rc)) = rc.
Proof. exact @set_rcode_id_qr. Qed.

Theorem set_rcode_format_error_carries_id_qr :
  forall (Q RR : Type) (dns request : smsg Q RR),
    m_id (s_hdr (set_rcode_format_error dns request)) = m_id (s_hdr request) /\
    m_response (s_hdr (set_rcode_format_error dns request)) = true /\
    m_rcode (s_hdr (set_rcode_format_error dns request)) = 1.
Proof. exact @set_rcode_format_error_id_qr. Qed.

(* REFUSED: id, QR, rcode 5, the opcode, RD and CD of a query, the first
   question, no records. *)
Theorem refused_reply_echoes :
  forall (Q RR : Type) (request : smsg Q RR),
    let rep := handle_refused request in
    m_id (s_hdr rep) = m_id (s_hdr request) /\
    m_response (s_hdr rep) = true /\
    m_rcode (s_hdr rep) = 5 /\
    m_opcode (s_hdr rep) = m_opcode (s_hdr request) /\
    (m_opcode (s_hdr request) = 0 ->
       m_rd (s_hdr rep) = m_rd (s_hdr request) /\ m_cd (s_hdr rep) = m_cd (s_hdr request)) /\
    (forall q0 rest, s_question request = q0 :: rest -> s_question rep = [q0]) /\
    s_answer rep = [] /\ s_ns rep = [] /\ s_extra rep = [].
Proof. exact @handle_refused_spec. Qed.

(* The QR flag of a message survives header packing (bit 15 of the word). *)
Theorem packed_header_keeps_qr :
  forall h : mhdr, bit (pack_bits h) 15 = m_response h.
Proof. exact pack_bits_qr. Qed.
