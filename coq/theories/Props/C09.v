(* Props/C09.v — property C09: Truncate keeps section prefixes and the OPT record,
   sets TC exactly when a record was dropped (or it was set), leaves fitting
   messages and TSIG-signed messages alone.  Only statements; proofs in
   Proofs/TruncateProofs.v.

   [truncate m size] models Msg.Truncate; [msg_len_with m None] is the
   uncompressed length Len() predicts; [pop_edns0] is the removal of the last OPT
   record of the additional section; [has_tsig] is IsTsig() != nil.
   The clause "the packed message fits in max(size, 512)" rests on C08's
   Len() >= len(Pack()) and is stated there (see docs). *)
From Dns Require Import Model.Truncate Proofs.TruncateProofs Gen.Consts.
Open Scope N_scope.

(* a message with a TSIG record is left untouched *)
Theorem tsig_message_untouched :
  forall (m : msg) (size : Z), has_tsig m = true -> truncate m size = m.
Proof. exact truncate_tsig. Qed.

(* a message that already fits (uncompressed) keeps all its records, its TC bit,
   and is marked as not needing compression *)
Theorem fitting_message_keeps_everything :
  forall (m : msg) (size : Z),
    has_tsig m = false ->
    (Z.of_N (msg_len_with m None) <= Z.max size (Z.of_N c_MinMsgSize))%Z ->
    truncate m size = set_sections m (m_tc m) false (m_answer m) (m_ns m) (m_extra m).
Proof. exact truncate_fits. Qed.

(* otherwise: each section keeps a prefix (na, nn, ne records) in the original
   order, the OPT record (if any) is re-appended, compression is switched on, TC
   is set exactly when it was set or some section lost a record, and nothing of a
   later section is kept once an earlier section lost a record *)
Theorem truncation_keeps_prefixes_sets_tc_and_drops_later_sections :
  forall (m : msg) (size : Z),
    has_tsig m = false ->
    (Z.max size (Z.of_N c_MinMsgSize) < Z.of_N (msg_len_with m None))%Z ->
    exists na nn ne,
      let extra := snd (pop_edns0 (m_extra m)) in
      let opt := fst (pop_edns0 (m_extra m)) in
      truncate m size =
        set_sections m (m_tc m || Nat.ltb na (length (m_answer m)) || Nat.ltb nn (length (m_ns m))
                        || Nat.ltb ne (length extra))
                     true (firstn na (m_answer m)) (firstn nn (m_ns m))
                     (firstn ne extra ++ match opt with Some o => [o] | None => [] end) /\
      (na <= length (m_answer m))%nat /\ (nn <= length (m_ns m))%nat /\ (ne <= length extra)%nat /\
      ((na < length (m_answer m))%nat -> nn = 0%nat /\ ne = 0%nat) /\
      ((nn < length (m_ns m))%nat -> ne = 0%nat).
Proof. exact truncate_drop. Qed.

(* the OPT record set aside is the last OPT of the additional section and the
   remaining records keep their order *)
Theorem opt_record_is_set_aside_in_order :
  forall ex : list rr,
    (pop_edns0 ex = (None, ex) /\ forallb (fun r => negb (is_opt r)) ex = true) \/
    (exists pre o post, ex = pre ++ o :: post /\ is_opt o = true /\
                        forallb (fun r => negb (is_opt r)) post = true /\
                        pop_edns0 ex = (Some o, pre ++ post)).
Proof. exact pop_edns0_spec. Qed.

