(* Proofs/HeaderProofs.v — the 16-bit flags word and the 12-bit RCODE split. *)
From Dns Require Import Model.Msg Gen.Consts.
From Coq Require Import Lia ZifyN ZifyNat ZifyBool.
Open Scope N_scope.

Fixpoint enum (n : nat) (start : N) : list N :=
  match n with O => [] | S k => start :: enum k (N.succ start) end.
Definition upto (n : N) : list N := enum (N.to_nat n) 0.
Lemma in_enum n : forall s x, s <= x < s + N.of_nat n -> In x (enum n s).
Proof.
  induction n as [|n IH]; intros s x H; [lia|]. cbn [enum].
  destruct (N.eq_dec s x) as [->|Hne]; [now left|]. right. apply IH. lia.
Qed.
Lemma in_upto n x : x < n -> In x (upto n).
Proof. intro H. unfold upto. apply in_enum. lia. Qed.

(* unpack then pack: every flags/opcode/low-RCODE word comes back *)
Lemma hdr_word_sweep :
  forallb (fun w => hdr_word (msg_of_bits 0 w [] [] [] [] (w mod 16)) =? w) (upto 65536) = true.
Proof. vm_compute. reflexivity. Qed.

Lemma hdr_word_roundtrip w id qs an ns ex :
  w < 65536 -> hdr_word (msg_of_bits id w qs an ns ex (w mod 16)) = w.
Proof.
  intro H. pose proof hdr_word_sweep as S. rewrite forallb_forall in S.
  specialize (S w (in_upto 65536 w H)). apply N.eqb_eq in S. exact S.
Qed.

(* pack then unpack: every combination of the eight flags, opcode and low RCODE *)
Definition flag_msg (q a t r v z d c : bool) (op rc : N) : msg :=
  {| m_id := 0; m_response := q; m_opcode := op; m_aa := a; m_tc := t; m_rd := r; m_ra := v; m_z := z; m_ad := d;
     m_cd := c; m_rcode := rc; m_compress := false; m_question := []; m_answer := []; m_ns := []; m_extra := [] |}.
Definition flags_eq (m1 m2 : msg) : bool :=
  Bool.eqb (m_response m1) (m_response m2) && (m_opcode m1 =? m_opcode m2) && Bool.eqb (m_aa m1) (m_aa m2)
  && Bool.eqb (m_tc m1) (m_tc m2) && Bool.eqb (m_rd m1) (m_rd m2) && Bool.eqb (m_ra m1) (m_ra m2)
  && Bool.eqb (m_z m1) (m_z m2) && Bool.eqb (m_ad m1) (m_ad m2) && Bool.eqb (m_cd m1) (m_cd m2)
  && (m_rcode m1 =? m_rcode m2).
Definition bools : list bool := [false; true].
Lemma flags_sweep :
  forallb (fun q => forallb (fun a => forallb (fun t => forallb (fun r => forallb (fun v => forallb (fun z =>
  forallb (fun d => forallb (fun c => forallb (fun op => forallb (fun rc =>
    let m := flag_msg q a t r v z d c op rc in
    flags_eq (msg_of_bits 0 (hdr_word m) [] [] [] [] (hdr_word m mod 16)) m)
  (upto 16)) (upto 16)) bools) bools) bools) bools) bools) bools) bools) bools = true.
Proof. vm_compute. reflexivity. Qed.

(* the 12-bit RCODE: low four bits in the header, upper eight in the OPT TTL *)
Lemma ext_rcode_set_get r rc :
  ext_rcode_of_ttl (rr_ttl (set_ext_rcode r rc)) = ((rc / 16) mod 256) * 16.
Proof.
  unfold ext_rcode_of_ttl, set_ext_rcode. cbn [rr_ttl].
  replace (((rr_ttl r) mod 16777216 + (rc / 16) mod 256 * 16777216) / 16777216) with ((rc / 16) mod 256).
  - now rewrite N.mod_mod by lia.
  - symmetry. rewrite N.div_add by lia. rewrite N.div_small by (apply N.mod_lt; lia). lia.
Qed.
Lemma rcode_sweep : forallb (fun rc => N.lor (rc mod 16) (((rc / 16) mod 256) * 16) =? rc) (upto 4096) = true.
Proof. vm_compute. reflexivity. Qed.
Lemma rcode_rejoin rc : rc < 4096 -> N.lor (rc mod 16) (((rc / 16) mod 256) * 16) = rc.
Proof.
  intro H. pose proof rcode_sweep as S. rewrite forallb_forall in S.
  specialize (S rc (in_upto 4096 rc H)). now apply N.eqb_eq in S.
Qed.
(* SetExtendedRcode leaves the other OPT TTL bits (version, DO, Z) alone *)
Lemma set_ext_rcode_keeps_low_bits r rc :
  rr_ttl (set_ext_rcode r rc) mod 16777216 = rr_ttl r mod 16777216.
Proof.
  unfold set_ext_rcode. cbn [rr_ttl]. rewrite N.mod_add by lia. apply N.mod_mod. lia.
Qed.
