(* Proofs/Sig0Proofs.v — lemmas about Model/Sig0.v *)
From Coq Require Import Lia ZifyN ZifyNat ZifyBool.
From Dns Require Import Base.ListX Model.Sig0 Model.Tsig Proofs.WireProofs Proofs.TsigProofs.
Open Scope N_scope.

Ltac Zify.zify_post_hook ::= Z.div_mod_to_equations.

(* ---------- safety: neither a Go panic nor the model's fuel ---------- *)
Definition safe {A} (r : res A) : Prop := r <> Panic /\ r <> OutOfFuel.

Lemma safe_ok {A} (a : A) : safe (Ok a). Proof. split; discriminate. Qed.
Lemma safe_err {A} c : safe (@Err A c). Proof. split; discriminate. Qed.
Lemma safe_bind {A B} (r : res A) (f : A -> res B) :
  safe r -> (forall a, r = Ok a -> safe (f a)) -> safe (bind r f).
Proof.
  intros [H1 H2] Hf. destruct r; cbn; try contradiction.
  - now apply Hf.
  - apply safe_err.
Qed.

Lemma name_loop_no_panic f : forall msg off b p o1 acc, name_loop f msg off b p o1 acc <> Panic.
Proof.
  induction f as [|f IH]; intros msg off b p o1 acc; [discriminate|].
  cbn [name_loop].
  destruct (lenN msg <=? off); [discriminate|].
  destruct (nthN msg off 0 <? 64).
  - destruct (nthN msg off 0 =? 0); [discriminate|].
    destruct (lenN msg <? off + 1 + nthN msg off 0); [discriminate|].
    destruct (b <=? nthN msg off 0 + 1); [discriminate|]. apply IH.
  - destruct ((192 <=? nthN msg off 0) && (nthN msg off 0 <? 256)); [|discriminate].
    destruct (lenN msg <=? off + 1); [discriminate|].
    destruct (max_ptrs <? p + 1); [discriminate|]. apply IH.
Qed.

Lemma unpack_name_safe msg off : safe (unpack_name msg off).
Proof. split; [unfold unpack_name; apply name_loop_no_panic|apply unpack_name_total]. Qed.

Lemma be_at_ok n buf off : off + n <= lenN buf -> exists v, be_at n buf off = Ok v.
Proof.
  intros H. unfold be_at. replace (off + n <=? lenN buf) with true by (symmetry; now apply N.leb_le). eauto.
Qed.
Lemma be_at_safe n buf off : off + n <= lenN buf -> safe (be_at n buf off).
Proof. intros H. destruct (be_at_ok n buf off H) as [v ->]. apply safe_ok. Qed.
Lemma slice_safe {A} (l : list A) a b : a <= b -> b <= lenN l -> safe (slice l a b).
Proof.
  intros H1 H2. unfold slice.
  replace ((a <=? b) && (b <=? lenN l)) with true
    by (symmetry; apply andb_true_intro; split; now apply N.leb_le).
  apply safe_ok.
Qed.

Section Safety.
  Variable sig_sign : N -> bytes -> res bytes.
  Variable sig_check : N -> bytes -> bytes -> res unit.

  Lemma q_loop_S n buf off :
    q_loop (S n) buf off =
    if lenN buf <=? off then Ok off
    else bind (unpack_name buf off) (fun p => let '(_, o) := p in q_loop n buf (o + 4)).
  Proof. reflexivity. Qed.
  Lemma rr_loop_S n buf off :
    rr_loop (S n) buf off =
    if lenN buf <=? off then Ok off
    else bind (unpack_name buf off) (fun p => let '(_, o) := p in
           if lenN buf <=? o + 8 + 1 then rr_loop n buf (o + 8)
           else bind (be_at 2 buf (o + 8)) (fun rdlen => rr_loop n buf (o + 8 + 2 + rdlen))).
  Proof. reflexivity. Qed.

  Lemma q_loop_safe n : forall buf off, safe (q_loop n buf off).
  Proof.
    induction n as [|n IH]; intros buf off; [apply safe_ok|].
    rewrite q_loop_S. destruct (lenN buf <=? off); [apply safe_ok|].
    apply safe_bind; [apply unpack_name_safe|]. intros [ls o] _. apply IH.
  Qed.
  Lemma q_loop_mono n : forall buf off o, q_loop n buf off = Ok o -> off <= o.
  Proof.
    induction n as [|n IH]; intros buf off o H.
    - cbn in H. inversion H. lia.
    - rewrite q_loop_S in H. destruct (lenN buf <=? off); [inversion H; lia|].
      apply bind_ok in H. destruct H as ([ls o1] & U & H).
      apply unpack_name_bounds in U. apply IH in H. lia.
  Qed.

  Lemma rr_loop_safe n : forall buf off, safe (rr_loop n buf off).
  Proof.
    induction n as [|n IH]; intros buf off; [apply safe_ok|].
    rewrite rr_loop_S. destruct (lenN buf <=? off); [apply safe_ok|].
    apply safe_bind; [apply unpack_name_safe|]. intros [ls o] _.
    destruct (lenN buf <=? o + 8 + 1) eqn:E; [apply IH|]. apply N.leb_gt in E.
    apply safe_bind; [apply be_at_safe; lia|]. intros rdlen _. apply IH.
  Qed.
  Lemma rr_loop_mono n : forall buf off o, rr_loop n buf off = Ok o -> off <= o.
  Proof.
    induction n as [|n IH]; intros buf off o H.
    - cbn in H. inversion H. lia.
    - rewrite rr_loop_S in H. destruct (lenN buf <=? off); [inversion H; lia|].
      apply bind_ok in H. destruct H as ([ls o1] & U & H).
      apply unpack_name_bounds in U.
      destruct (lenN buf <=? o1 + 8 + 1).
      + apply IH in H. lia.
      + apply bind_ok in H. destruct H as (rdlen & _ & H). apply IH in H. lia.
  Qed.

  (* SIG.Verify on any buffer of at least header size: an error or a verdict,
     never a panic (and never the model's own fuel), provided the signature
     check itself does not panic *)
  Theorem verify_safe r kname buf now :
    12 <= lenN buf -> (forall a d s, safe (sig_check a d s)) ->
    safe (sig0_verify sig_check r kname buf now).
  Proof.
    intros Hlen Hsc. unfold sig0_verify.
    destruct (key_fields_bad r); [apply safe_err|].
    destruct (negb (has_hash (s_alg r))); [apply safe_err|].
    apply safe_bind; [apply be_at_safe; lia|]. intros qdc _.
    apply safe_bind; [apply be_at_safe; lia|]. intros anc _.
    apply safe_bind; [apply be_at_safe; lia|]. intros auc _.
    apply safe_bind; [apply be_at_safe; lia|]. intros adc _.
    apply safe_bind; [apply q_loop_safe|]. intros o1 Hq. apply q_loop_mono in Hq.
    apply safe_bind; [apply rr_loop_safe|]. intros bodyend Hr. apply rr_loop_mono in Hr.
    destruct (lenN buf <=? bodyend) eqn:E1; [apply safe_err|]. apply N.leb_gt in E1.
    apply safe_bind; [apply unpack_name_safe|]. intros [ls1 o2] U1. apply unpack_name_bounds in U1.
    destruct (lenN buf <=? o2 + 10 + 8 + 8) eqn:E2; [apply safe_err|]. apply N.leb_gt in E2.
    apply safe_bind; [apply be_at_safe; lia|]. intros expire _.
    apply safe_bind; [apply be_at_safe; lia|]. intros incept _.
    destruct ((now <? incept) || (expire <? now)); [apply safe_err|].
    apply safe_bind; [apply unpack_name_safe|]. intros [signer sigend] U2. apply unpack_name_bounds in U2.
    destruct (negb (name_equal signer kname)); [apply safe_err|].
    apply safe_bind.
    - unfold verify_data.
      apply safe_bind; [apply slice_safe; lia|]. intros rd _.
      apply safe_bind; [apply slice_safe; lia|]. intros h10 _.
      apply safe_bind; [apply slice_safe; lia|]. intros body _. apply safe_ok.
    - intros data _. apply safe_bind; [apply slice_safe; lia|]. intros sg _. apply Hsc.
  Qed.
End Safety.

(* ---------- SIG.Sign ---------- *)
Lemma put_u16_mid (a b : bytes) x v : put_u16 (a ++ u16 x ++ b) (lenN a) v = Ok (a ++ u16 v ++ b).
Proof.
  unfold put_u16. rewrite lenN_app, lenN_app, len_u16.
  replace (lenN a + 2 <=? lenN a + (2 + lenN b)) with true by (symmetry; apply N.leb_le; lia).
  rewrite takeN_app_exact. f_equal. f_equal. f_equal.
  rewrite dropN_add, dropN_app_exact. reflexivity.
Qed.
Lemma be_at_mid (a b : bytes) x : be_at 2 (a ++ u16 x ++ b) (lenN a) = Ok (x mod 65536).
Proof.
  unfold be_at. rewrite lenN_app, lenN_app, len_u16.
  replace (lenN a + 2 <=? lenN a + (2 + lenN b)) with true by (symmetry; apply N.leb_le; lia).
  f_equal. unfold get. rewrite dropN_app_exact.
  change 2 with (lenN (u16 x)). rewrite takeN_app_exact. apply be_u16.
Qed.

Lemma put_u16_len b off v b' : put_u16 b off v = Ok b' -> lenN b' = lenN b.
Proof.
  unfold put_u16. destruct (off + 2 <=? lenN b) eqn:E; [|discriminate]. apply N.leb_le in E.
  intros H. assert (E' : b' = takeN off b ++ u16 v ++ dropN (off + 2) b) by congruence.
  rewrite E'. rewrite !lenN_app, len_u16, lenN_takeN, lenN_dropN by lia. lia.
Qed.

Definition sig_pre : bytes := [0] ++ u16 TypeSIG ++ u16 255 ++ u32 0.   (* owner . type class TTL *)

Lemma sig_rr_hdr_split L : sig_rr_hdr L = sig_pre ++ u16 L.
Proof. reflexivity. Qed.

Section SignFacts.
  Variable sig_sign : N -> bytes -> res bytes.

  Lemma sign_spec clen ulen h body r out :
    sig0_sign sig_sign clen ulen (hdr_wire h ++ body) r = Ok out ->
    exists sg,
      key_fields_bad r = false /\ valid_wire (s_signer r) = true /\ has_hash (s_alg r) = true /\
      ulen + 1 <= clen + lenN (sig_rr_wire r) /\
      sig_sign (s_alg r) (sig_rdata r ++ hdr_wire h ++ body) = Ok sg /\
      lenN out <= 65535 /\
      out = hdr_wire (set_ar h ((h_ar h mod 65536 + 1) mod 65536)) ++ body ++
            sig_rr_hdr ((lenN (sig_rdata r) mod 65536 + lenN sg) mod 65536) ++ sig_rdata r ++ sg.
  Proof.
    unfold sig0_sign. intros H.
    destruct (key_fields_bad r) eqn:Ek; [discriminate|].
    destruct (clen + lenN (sig_rr_wire r) <? ulen + 1) eqn:Eb; [discriminate|]. apply N.ltb_ge in Eb.
    destruct (valid_wire (s_signer r)) eqn:Ev; [|discriminate]. cbn [negb] in H.
    destruct (clen + lenN (sig_rr_wire r) <? lenN (hdr_wire h ++ body) + lenN (sig_rr_wire r)); [discriminate|].
    destruct (has_hash (s_alg r)) eqn:Eh; [|discriminate]. cbn [negb] in H.
    apply bind_ok in H. destruct H as (sg & Hs & H).
    destruct (65535 <? _) eqn:El; [discriminate|]. apply N.ltb_ge in El.
    exists sg. repeat split; try assumption; try lia.
    - (* length of the result = length before the two patches *)
      apply bind_ok in H. destruct H as (rdlen & _ & H).
      apply bind_ok in H. destruct H as (o1 & P1 & H).
      apply bind_ok in H. destruct H as (adc & _ & P2).
      apply put_u16_len in P1. apply put_u16_len in P2. lia.
    - unfold sig_rr_wire in H. rewrite sig_rr_hdr_split in H.
      set (mbuf := hdr_wire h ++ body) in *.
      replace (mbuf ++ ((sig_pre ++ u16 (lenN (sig_rdata r))) ++ sig_rdata r) ++ sg)
        with ((mbuf ++ sig_pre) ++ u16 (lenN (sig_rdata r)) ++ (sig_rdata r ++ sg)) in H
        by (rewrite <- !app_assoc; reflexivity).
      replace (lenN mbuf + 1 + 2 + 2 + 4) with (lenN (mbuf ++ sig_pre)) in H
        by (rewrite lenN_app; reflexivity).
      rewrite be_at_mid in H. cbn [bind] in H.
      rewrite put_u16_mid in H. cbn [bind] in H.
      unfold mbuf in H. rewrite <- !app_assoc in H.
      rewrite be_ar_wire in H. cbn [bind] in H.
      rewrite put_ar_wire in H.
      assert (E : out = hdr_wire (set_ar h ((h_ar h mod 65536 + 1) mod 65536)) ++ body ++ sig_pre ++
                        u16 ((lenN (sig_rdata r) mod 65536 + lenN sg) mod 65536) ++ sig_rdata r ++ sg)
        by congruence.
      rewrite E. rewrite sig_rr_hdr_split. rewrite <- !app_assoc. reflexivity.
  Qed.

  (* The buffer-size test is the only way Sign can fail on a packable message
     with a usable SIG and a working signer: it does when compression saves at
     least the size of the SIG record. *)
  Lemma sign_succeeds clen ulen mbuf r sg :
    key_fields_bad r = false -> valid_wire (s_signer r) = true -> has_hash (s_alg r) = true ->
    12 <= lenN mbuf -> lenN mbuf <= clen ->
    ulen < clen + lenN (sig_rr_wire r) ->
    sig_sign (s_alg r) (sig_rdata r ++ mbuf) = Ok sg ->
    lenN mbuf + lenN (sig_rr_wire r) + lenN sg <= 65535 ->
    exists out, sig0_sign sig_sign clen ulen mbuf r = Ok out.
  Proof.
    intros Hk Hv Hh Hl Hc Hu Hs Ht. unfold sig0_sign.
    rewrite Hk, Hv, Hh. cbn [negb].
    replace (clen + lenN (sig_rr_wire r) <? ulen + 1) with false by (symmetry; apply N.ltb_ge; lia).
    replace (clen + lenN (sig_rr_wire r) <? lenN mbuf + lenN (sig_rr_wire r)) with false
      by (symmetry; apply N.ltb_ge; lia).
    rewrite Hs. cbn [bind].
    replace (65535 <? lenN (mbuf ++ sig_rr_wire r ++ sg)) with false
      by (symmetry; apply N.ltb_ge; lens; lia).
    assert (Lr : 11 <= lenN (sig_rr_wire r)) by (unfold sig_rr_wire, sig_rr_hdr; lens; lia).
    assert (Lo : lenN (mbuf ++ sig_rr_wire r ++ sg) = lenN mbuf + lenN (sig_rr_wire r) + lenN sg) by (lens; lia).
    destruct (be_at_ok 2 (mbuf ++ sig_rr_wire r ++ sg) (lenN mbuf + 1 + 2 + 2 + 4)) as [rdlen ->]; [lia|].
    cbn [bind]. unfold put_u16 at 2.
    replace (lenN mbuf + 1 + 2 + 2 + 4 + 2 <=? lenN (mbuf ++ sig_rr_wire r ++ sg)) with true
      by (symmetry; apply N.leb_le; lia).
    cbn [bind].
    set (o1 := takeN _ _ ++ u16 _ ++ dropN _ _).
    assert (L1 : lenN o1 = lenN (mbuf ++ sig_rr_wire r ++ sg)).
    { unfold o1. lens. rewrite lenN_takeN, lenN_dropN by lia. lia. }
    destruct (be_at_ok 2 o1 10) as [adc ->]; [lia|]. cbn [bind].
    unfold put_u16. replace (10 + 2 <=? lenN o1) with true by (symmetry; apply N.leb_le; lia).
    eauto.
  Qed.
End SignFacts.

(* the defect: a message whose compressed length plus the SIG is not more than
   its uncompressed length cannot be signed *)
Lemma sign_errbuf clen ulen mbuf r ss :
  key_fields_bad r = false -> clen + lenN (sig_rr_wire r) <= ulen ->
  sig0_sign ss clen ulen mbuf r = Err "buf".
Proof.
  intros Hk Hc. unfold sig0_sign. rewrite Hk.
  replace (clen + lenN (sig_rr_wire r) <? ulen + 1) with true by (symmetry; apply N.ltb_lt; lia).
  reflexivity.
Qed.
