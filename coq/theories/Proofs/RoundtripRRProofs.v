(* Proofs/RoundtripRRProofs.v — value -> wire -> value for whole field sequences
   (the generated pack()/unpack() methods run by the interpreter of
   Model/Rdata.v) and for whole records (packRR / UnpackRR of Model/Msg.v),
   generically over the translated layout tables. *)
From Dns Require Import Gen.Layouts Gen.Registry.
From Dns Require Import Base.ListX Model.Msg Spec.NameSpec
  Proofs.EscapeProofs Proofs.NameWireProofs Proofs.NameRoundtripProofs
  Proofs.LayoutProofs Proofs.DecodeFieldsProofs Proofs.RoundtripFieldProofs.
From Coq Require Import Lia ZifyN ZifyNat ZifyBool.
Open Scope list_scope.
Open Scope N_scope.

Ltac Zify.zify_post_hook ::= Z.div_mod_to_equations.

(* ------------------------------------------------------------------ *)
(* association lists *)
Lemma vget_app a b g : vget (a ++ b) g = match vget a g with Some y => Some y | None => vget b g end.
Proof.
  induction a as [|[h y] a IH]; cbn [app vget]; [reflexivity|].
  destruct (String.eqb g h); [reflexivity|exact IH].
Qed.

Lemma existsb_eqb_in s l : existsb (String.eqb s) l = true -> In s l.
Proof.
  intro H. apply existsb_exists in H. destruct H as [y [Hin E]]. apply String.eqb_eq in E. now subst.
Qed.
Lemma existsb_eqb_notin s l : existsb (String.eqb s) l = false -> ~ In s l.
Proof.
  intros H Hin. assert (E : existsb (String.eqb s) l = true).
  { apply existsb_exists. exists s. split; [exact Hin|apply String.eqb_refl]. }
  congruence.
Qed.

(* ------------------------------------------------------------------ *)
(* what the proof needs of a field sequence: the struct fields it assigns are
   pairwise distinct, a sized field (or the gateway union) depends on an
   earlier field, and only the last field is of to-the-end extent *)
Definition names_distinct (l : list string) : bool :=
  match l with [a; b] => negb (String.eqb a b) | _ => true end.
Fixpoint layout_ok (seen : list string) (ps : list pfield) : bool :=
  match ps with
  | [] => true
  | (f, k) :: r =>
    forallb (fun g => negb (existsb (String.eqb g) seen)) (knames f k) && names_distinct (knames f k) &&
    (match depends_on k with Some s => existsb (String.eqb s) seen | None => true end) &&
    (match r with [] => true | _ => negb (to_end k) end) &&
    layout_ok (knames f k ++ seen) r
  end.

Definition fields_canon (v : rdata) (ps : list pfield) : Prop :=
  Forall (fun fk : pfield => field_canon v (fst fk) (snd fk)) ps.

(* the decoded struct field is the packed one, or (RDATA exhausted early) absent
   while the packed one was the zero value *)
Definition same_val (z : fval) (got want : option fval) : Prop :=
  got = want \/ (got = None /\ want = Some z).
Definition same_fields (k : fkind) (names : list string) (got want : rdata) : Prop :=
  Forall (fun g => same_val (kzero k g) (vget got g) (vget want g)) names.
Definition all_same (ps : list pfield) (got want : rdata) : Prop :=
  Forall (fun fk : pfield => same_fields (snd fk) (knames (fst fk) (snd fk)) got want) ps.
Definition all_zero (ps : list pfield) (v : rdata) : Prop :=
  Forall (fun fk : pfield => Forall (fun g => vget v g = Some (kzero (snd fk) g)) (knames (fst fk) (snd fk))) ps.

Definition got_inv (v : rdata) (seen : list string) (got : rdata) : Prop :=
  (forall g, In g seen -> exists y, vget v g = Some y /\ vget got g = Some y) /\
  (forall g, ~ In g seen -> vget got g = None).

Lemma got_inv_equiv v seen seen' got :
  (forall g, In g seen <-> In g seen') -> got_inv v seen got -> got_inv v seen' got.
Proof.
  intros He [H1 H2]. split; intros g Hg.
  - apply H1, He, Hg.
  - apply H2. intro Hs. apply Hg, He, Hs.
Qed.

Lemma got_inv_extend1 v seen got g y :
  got_inv v seen got -> vget v g = Some y -> ~ In g seen -> got_inv v (g :: seen) (got ++ [(g, y)]).
Proof.
  intros [Hi1 Hi2] Hv Hnf. split.
  - intros h [<-|Hh].
    + exists y. split; [exact Hv|]. rewrite vget_app, (Hi2 g Hnf). cbn. now rewrite String.eqb_refl.
    + destruct (Hi1 h Hh) as [z [Hz1 Hz2]]. exists z. split; [exact Hz1|]. now rewrite vget_app, Hz2.
  - intros h Hh. rewrite vget_app, Hi2 by (intro; apply Hh; now right). cbn.
    destruct (String.eqb_spec h g) as [->|]; [exfalso; apply Hh; now left|reflexivity].
Qed.

Lemma got_inv_extend v names : forall vals seen got,
  got_inv v seen got -> Forall2 (fun g y => vget v g = Some y) names vals ->
  (forall g, In g names -> ~ In g seen) -> NoDup names ->
  got_inv v (names ++ seen) (got ++ combine names vals).
Proof.
  induction names as [|g names IH]; intros vals seen got Hi Hf Hfresh Hnd.
  - cbn. now rewrite app_nil_r.
  - inversion Hf as [|? y ? vals' Hy Hf']; subst. inversion Hnd as [|? ? Hng Hnd']; subst.
    cbn [combine].
    replace (got ++ (g, y) :: combine names vals') with ((got ++ [(g, y)]) ++ combine names vals')
      by (rewrite <- app_assoc; reflexivity).
    apply (got_inv_equiv v (names ++ g :: seen)).
    { intro h. cbn [app]. rewrite !in_app_iff. cbn [In]. rewrite ?in_app_iff. tauto. }
    apply IH; [|exact Hf'| |exact Hnd'].
    + apply got_inv_extend1; [exact Hi|exact Hy|]. apply Hfresh. now left.
    + intros h Hh [<-|Hs]; [contradiction|]. apply (Hfresh h); [now right|exact Hs].
Qed.

Lemma names_distinct_nodup f k : names_distinct (knames f k) = true -> NoDup (knames f k).
Proof.
  assert (H1 : forall g : string, NoDup [g]) by (intro g; constructor; [intros []|constructor]).
  destruct k; cbn [knames names_distinct]; intro H; try apply H1.
  constructor; [|apply H1].
  intros [E|[]]. subst. rewrite String.eqb_refl in H. discriminate.
Qed.

Lemma layout_ok_fresh ps : forall seen f k g,
  layout_ok seen ps = true -> In (f, k) ps -> In g (knames f k) -> ~ In g seen.
Proof.
  induction ps as [|[f0 k0] ps IH]; intros seen f k g H Hin Hg; [destruct Hin|].
  cbn [layout_ok] in H. repeat (apply andb_prop in H; destruct H as [H ?]).
  destruct Hin as [E|Hin].
  - injection E as -> ->. rewrite forallb_forall in H. specialize (H g Hg).
    apply existsb_eqb_notin. now destruct (existsb _ seen).
  - intro Hs. eapply IH; [eassumption|exact Hin|exact Hg|]. apply in_app_iff. now right.
Qed.

Lemma assigned_knames u f k : kind_agree k (uf_kind u) = true -> f = uf_name u -> assigned u = knames f k.
Proof.
  unfold assigned. intros H ->. destruct k; destruct (uf_kind u); cbn in *; try discriminate; try reflexivity.
  repeat (apply andb_prop in H; destruct H as [H ?]).
  repeat match goal with H : String.eqb _ _ = true |- _ => apply String.eqb_eq in H end. subst. reflexivity.
Qed.

Lemma vget_n_eq v got s : (exists y, vget v s = Some y /\ vget got s = Some y) -> vget_n got s = vget_n v s.
Proof. intros [y [H1 H2]]. unfold vget_n. now rewrite H1, H2. Qed.

Lemma fields_roundtrip v cap ps : forall us seen got pre out st',
  sides_agree ps us = true -> layout_ok seen ps = true ->
  fields_canon v ps -> got_inv v seen got ->
  pack_fields v ps cap (st0 out) = Ok st' ->
  exists b ext, st' = st0 (out ++ b) /\
    unpack_fields us got (pre ++ b) (lenN pre) = Ok (got ++ ext, lenN pre + lenN b) /\
    (b = [] -> all_zero ps v) /\
    (ps = [] -> b = []) /\
    all_same ps (got ++ ext) v.
Proof.
  induction ps as [|[f k] ps IH]; intros us seen got pre out st' Hs Hl Hc Hi Hp.
  - destruct us; [|discriminate]. cbn in Hp. injection Hp as <-.
    exists [], []. rewrite !app_nil_r. cbn [unpack_fields lenN length N.of_nat].
    repeat split; try constructor. f_equal. f_equal. lia.
  - destruct us as [|u us]; [discriminate|]. cbn [sides_agree] in Hs.
    apply andb_prop in Hs. destruct Hs as [Hs Hs']. apply andb_prop in Hs. destruct Hs as [Hname Hk].
    apply String.eqb_eq in Hname.
    cbn [layout_ok] in Hl. apply andb_prop in Hl. destruct Hl as [Hl Hl'].
    apply andb_prop in Hl. destruct Hl as [Hl Hlast]. apply andb_prop in Hl. destruct Hl as [Hl Hsz].
    apply andb_prop in Hl. destruct Hl as [Hfresh Hdist].
    set (names := knames f k) in *.
    assert (Hnf : forall g, In g names -> ~ In g seen).
    { intros g Hg. rewrite forallb_forall in Hfresh. specialize (Hfresh g Hg).
      apply existsb_eqb_notin. now destruct (existsb _ seen). }
    pose proof (Forall_inv_tail Hc) as Hc'. apply Forall_inv in Hc. cbn [fst snd] in Hc.
    cbn [pack_fields] in Hp. inv_bind Hp.
    destruct (field_roundtrip_gen v f k (uf_kind u) cap out a Hk Hc Ha) as [b1 [vals [-> [Hvals [Hz Hu]]]]].
    fold names in Hvals, Hz.
    assert (Hi' : got_inv v (names ++ seen) (got ++ combine names vals)).
    { apply got_inv_extend; try assumption. apply names_distinct_nodup, Hdist. }
    destruct (IH us (names ++ seen) (got ++ combine names vals) (pre ++ b1) (out ++ b1) st' Hs' Hl' Hc' Hi' Hp)
      as [b2 [ext [-> [Hun [Hz2 [Hnil Hsame]]]]]].
    assert (Hpost : to_end k = true -> b2 = []).
    { intro Ht. destruct ps; [now apply Hnil|]. rewrite Ht in Hlast. discriminate. }
    assert (Hdep : forall s, depends_on k = Some s -> vget_n got s = vget_n v s).
    { intros s Es. rewrite Es in Hsz. apply existsb_eqb_in in Hsz. destruct Hi as [Hi1 _].
      apply vget_n_eq, Hi1, Hsz. }
    specialize (Hu pre b2 got Hpost Hdep).
    assert (Hzero : b1 ++ b2 = [] -> all_zero ((f, k) :: ps) v).
    { intro E. apply app_eq_nil in E. destruct E as [E1 E2]. constructor; [|now apply Hz2].
      cbn [fst snd]. now apply Hz. }
    assert (Hstep : unpack_fields (u :: us) got (pre ++ b1 ++ b2) (lenN pre) =
      if uf_exit u && (lenN pre + lenN b1 =? lenN (pre ++ b1 ++ b2))
      then Ok (got ++ combine names vals, lenN pre + lenN b1)
      else unpack_fields us (got ++ combine names vals) (pre ++ b1 ++ b2) (lenN pre + lenN b1)).
    { cbn [unpack_fields]. rewrite Hu. cbn [bind fst snd].
      rewrite (assigned_knames u f k Hk Hname). reflexivity. }
    assert (Hthis : forall ext', same_fields k names ((got ++ combine names vals) ++ ext') v).
    { intro ext'. unfold same_fields. rewrite Forall_forall. intros g Hg. left.
      destruct Hi' as [Hi'1 _]. destruct (Hi'1 g) as [y [Hy1 Hy2]]; [apply in_app_iff; now left|].
      now rewrite vget_app, Hy2, Hy1. }
    destruct (uf_exit u && (lenN pre + lenN b1 =? lenN (pre ++ b1 ++ b2))) eqn:Hex.
    + (* the RDATA is exhausted: unpack() returns early *)
      apply andb_prop in Hex. destruct Hex as [_ Hex]. rewrite !lenN_app in Hex.
      assert (E2 : b2 = []) by (apply lenN_0; lia). subst b2.
      exists (b1 ++ []), (combine names vals). split; [now rewrite app_assoc|]. split.
      { rewrite Hstep. f_equal. f_equal. rewrite !lenN_app. lia. }
      split; [exact Hzero|]. split; [discriminate|].
      constructor.
      * cbn [fst snd]. specialize (Hthis []). now rewrite app_nil_r in Hthis.
      * specialize (Hz2 eq_refl). unfold all_zero, all_same, same_fields in *.
        rewrite Forall_forall in *. intros [f' k'] Hin. cbn [fst snd].
        specialize (Hz2 (f', k') Hin). cbn [fst snd] in Hz2. rewrite Forall_forall in *.
        intros g Hg. right. split; [|now apply Hz2].
        destruct Hi' as [_ Hi'2]. apply Hi'2. eapply layout_ok_fresh; eassumption.
    + exists (b1 ++ b2), (combine names vals ++ ext). split; [now rewrite app_assoc|].
      split.
      { rewrite Hstep. replace (lenN pre + lenN b1) with (lenN (pre ++ b1)) by apply lenN_app.
        rewrite (app_assoc pre b1 b2), Hun. rewrite <- app_assoc. f_equal. f_equal. rewrite !lenN_app. lia. }
      split; [exact Hzero|]. split; [discriminate|].
      rewrite app_assoc.
      constructor; [|exact Hsame]. cbn [fst snd]. apply Hthis.
Qed.

(* the field-sequence theorem, from an empty record *)
Theorem fields_roundtrip_top v cap ps us pre out st' :
  sides_agree ps us = true -> layout_ok [] ps = true -> fields_canon v ps ->
  pack_fields v ps cap (st0 out) = Ok st' ->
  exists b got', st' = st0 (out ++ b) /\
    unpack_fields us [] (pre ++ b) (lenN pre) = Ok (got', lenN pre + lenN b) /\
    (b = [] -> all_zero ps v) /\
    all_same ps got' v.
Proof.
  intros Hs Hl Hc Hp.
  destruct (fields_roundtrip v cap ps us [] [] pre out st' Hs Hl Hc) as [b [ext [H1 [H2 [H3 [_ H4]]]]]]; auto.
  { split; [intros g []|reflexivity]. }
  exists b, ext. auto.
Qed.

(* ------------------------------------------------------------------ *)
(* records *)
Lemma set_at_exact (p : bytes) x r y : set_at (p ++ x :: r) (length p) y = p ++ y :: r.
Proof. induction p as [|z p IH]; cbn; [reflexivity|]. now rewrite IH. Qed.

Lemma find_layout_in l k L : find_layout l k = Some L -> In L l.
Proof.
  induction l as [|t l IH]; cbn; [discriminate|].
  destruct (String.eqb (tl_name t) k); [intro H; injection H as <-; now left|]. intro H. right. now apply IH.
Qed.

Lemma unpack_fixed_at msg (pre b post : bytes) off n :
  msg = pre ++ b ++ post -> off = lenN pre -> n = lenN b ->
  unpack_fixed n msg off = Ok (b, off + n).
Proof. intros -> -> ->. apply unpack_fixed_exact. reflexivity. Qed.

Definition rr_ok (r : rr) (ls : list label) : Prop :=
  rr_name r = show_name ls /\ valid_wire ls = true /\
  rr_type r < 65536 /\ rr_class r < 65536 /\ rr_ttl r < 4294967296 /\
  rr_kind r = kind_of_type (rr_type r).

(* the RFC 1035 record: owner name, TYPE, CLASS, TTL, RDLENGTH, RDATA *)
Definition rr_wire (ls : list label) (r : rr) (rd : bytes) : bytes :=
  wire_name ls ++ u16 (rr_type r) ++ u16 (rr_class r) ++ u32 (rr_ttl r) ++ u16 (lenN rd) ++ rd.

Lemma u16_small n : n < 65536 -> [n / 256; n mod 256] = u16 n.
Proof. intro H. unfold u16. f_equal. lia. Qed.

Lemma len_rr_wire ls r rd : lenN (rr_wire ls r rd) = lenN (wire_name ls) + 10 + lenN rd.
Proof. unfold rr_wire. rewrite !lenN_app. cbn [u16 u32 lenN length N.of_nat]. lia. Qed.

Lemma wire_name_len_pos ls : 1 <= lenN (wire_name ls).
Proof. unfold wire_name. rewrite lenN_app. cbn. lia. Qed.

Lemma unpack_rr_header_wire out ls r rd post :
  valid_wire ls = true -> rr_type r < 65536 -> rr_class r < 65536 -> rr_ttl r < 4294967296 ->
  lenN rd <= 65535 ->
  unpack_rr_header (out ++ rr_wire ls r rd ++ post) (lenN out) =
  Ok ({| h_name := show_name ls; h_type := rr_type r; h_class := rr_class r; h_ttl := rr_ttl r;
         h_rdlength := lenN rd |},
      lenN out + lenN (wire_name ls) + 10, out ++ rr_wire ls r rd).
Proof.
  intros Hls Ht Hc Httl Hrd. unfold unpack_rr_header.
  pose proof (wire_name_len_pos ls) as Hwn.
  assert (Hlen : lenN (out ++ rr_wire ls r rd ++ post) = lenN out + (lenN (wire_name ls) + 10 + lenN rd) + lenN post).
  { rewrite !lenN_app, len_rr_wire. lia. }
  rewrite Hlen. bfalse (lenN out =? lenN out + (lenN (wire_name ls) + 10 + lenN rd) + lenN post).
  set (T := u16 (rr_type r)). set (C := u16 (rr_class r)). set (TT := u32 (rr_ttl r)). set (RL := u16 (lenN rd)).
  set (msg := out ++ rr_wire ls r rd ++ post).
  assert (Hn : unpack_name msg (lenN out) = Ok (show_name ls, lenN out + lenN (wire_name ls))).
  { unfold msg, rr_wire. rewrite <- !app_assoc. apply unpack_name_exact, Hls. }
  rewrite Hn. cbn [bind fst snd].
  rewrite (unpack_fixed_at msg (out ++ wire_name ls) T (C ++ TT ++ RL ++ rd ++ post));
    [|unfold msg, rr_wire; rewrite <- !app_assoc; reflexivity|now rewrite lenN_app|reflexivity].
  cbn [bind fst snd].
  rewrite (unpack_fixed_at msg (out ++ wire_name ls ++ T) C (TT ++ RL ++ rd ++ post));
    [|unfold msg, rr_wire; rewrite <- !app_assoc; reflexivity|rewrite !lenN_app; unfold T; cbn [u16 lenN length N.of_nat]; lia|reflexivity].
  cbn [bind fst snd].
  rewrite (unpack_fixed_at msg (out ++ wire_name ls ++ T ++ C) TT (RL ++ rd ++ post));
    [|unfold msg, rr_wire; rewrite <- !app_assoc; reflexivity|rewrite !lenN_app; unfold T, C; cbn [u16 lenN length N.of_nat]; lia|reflexivity].
  cbn [bind fst snd].
  rewrite (unpack_fixed_at msg (out ++ wire_name ls ++ T ++ C ++ TT) RL (rd ++ post));
    [|unfold msg, rr_wire; rewrite <- !app_assoc; reflexivity|rewrite !lenN_app; unfold T, C, TT; cbn [u16 u32 lenN length N.of_nat]; lia|reflexivity].
  cbn [bind fst snd].
  unfold T, C, TT, RL. rewrite !be_u16, be_u32 by lia.
  bfalse (lenN out + (lenN (wire_name ls) + 10 + lenN rd) + lenN post <? lenN out + lenN (wire_name ls) + 2 + 2 + 4 + 2 + lenN rd).
  f_equal. f_equal; [f_equal; lia|].
  unfold msg. rewrite app_assoc.
  replace (lenN out + lenN (wire_name ls) + 2 + 2 + 4 + 2 + lenN rd) with (lenN (out ++ rr_wire ls r rd))
    by (rewrite lenN_app, len_rr_wire; lia).
  apply takeN_app_exact.
Qed.

Definition rr_same (L : tlayout) (r' r : rr) : Prop :=
  rr_name r' = rr_name r /\ rr_type r' = rr_type r /\ rr_class r' = rr_class r /\
  rr_ttl r' = rr_ttl r /\ rr_kind r' = rr_kind r /\
  all_same (tl_pack L) (rr_data r') (rr_data r).

Theorem rr_roundtrip r L ls cap out st' post :
  find_layout layouts (rr_kind r) = Some L -> layout_ok [] (tl_pack L) = true ->
  rr_ok r ls -> fields_canon (rr_data r) (tl_pack L) ->
  lenN out < cap ->
  pack_rr r cap false (st0 out) = Ok st' ->
  exists rd r',
    st' = st0 (out ++ rr_wire ls r rd) /\
    unpack_rr (out ++ rr_wire ls r rd ++ post) (lenN out) = Ok (r', lenN out + lenN (rr_wire ls r rd)) /\
    rr_rdlength r' = lenN rd /\ rr_same L r' r.
Proof.
  intros Hfind Hlok [Hname [Hls [Ht [Hc [Httl Hkind]]]]] Hcanon Hcap Hp.
  assert (Hsides : sides_agree (tl_pack L) (tl_unpack L) = true).
  { pose proof pack_unpack_sides_agree as H. rewrite forallb_forall in H. apply H. eapply find_layout_in; eauto. }
  unfold pack_rr in Hp. rewrite Hfind in Hp. inv_bind Hp.
  unfold pack_header in Ha. rewrite poff_st0 in Ha.
  replace (lenN out =? cap) with false in Ha by lia.
  inv_bind Ha. rewrite Hname in Ha0. apply pack_name_show in Ha0; [|exact Hls]. subst a0.
  inv_bind Ha. apply pack_fixed_ok in Ha0. subst a0.
  inv_bind Ha. apply pack_fixed_ok in Ha0. subst a0.
  inv_bind Ha. apply pack_fixed_ok in Ha0. subst a0.
  apply pack_fixed_ok in Ha. subst a.
  set (P := (((out ++ wire_name ls) ++ u16 (rr_type r)) ++ u16 (rr_class r)) ++ u32 (rr_ttl r)) in *.
  inv_bind Hp.
  destruct (fields_roundtrip_top _ _ _ _ [] _ _ Hsides Hlok Hcanon Ha) as [rd [got0 [-> [_ [Hzero _]]]]].
  exists rd.
  assert (E1 : lenN ((P ++ u16 0) ++ rd) - lenN (P ++ u16 0) = lenN rd) by (rewrite !lenN_app; lia).
  assert (E2 : lenN (P ++ u16 0) = lenN P + 2) by (rewrite lenN_app; reflexivity).
  unfold poff in Hp. cbn [st0 pn_out pn_cm] in Hp. rewrite E1, E2 in Hp.
  destruct (65535 <? lenN rd) eqn:Erd; [discriminate|].
  replace (lenN P + 2 <? 2) with false in Hp by lia.
  injection Hp as <-.
  assert (Eout : set_at (set_at ((P ++ u16 0) ++ rd) (N.to_nat (lenN P + 2 - 2)) (lenN rd / 256))
                   (N.to_nat (lenN P + 2 - 1)) (lenN rd mod 256) = out ++ rr_wire ls r rd).
  { replace (N.to_nat (lenN P + 2 - 2)) with (length P) by (unfold lenN; lia).
    replace (N.to_nat (lenN P + 2 - 1)) with (length (P ++ [lenN rd / 256]))
      by (rewrite app_length; unfold lenN; cbn [length]; lia).
    change (u16 0) with [0; 0]. rewrite <- app_assoc. cbn [app]. rewrite set_at_exact.
    replace (P ++ lenN rd / 256 :: 0 :: rd) with ((P ++ [lenN rd / 256]) ++ 0 :: rd)
      by (rewrite <- app_assoc; reflexivity).
    rewrite set_at_exact. unfold rr_wire, P. rewrite <- (u16_small (lenN rd)) by lia.
    rewrite <- !app_assoc. reflexivity. }
  rewrite Eout. clear Eout.
  set (Hd := out ++ wire_name ls ++ u16 (rr_type r) ++ u16 (rr_class r) ++ u32 (rr_ttl r) ++ u16 (lenN rd)).
  assert (EHd : out ++ rr_wire ls r rd = Hd ++ rd) by (unfold Hd, rr_wire; rewrite <- !app_assoc; reflexivity).
  assert (LHd : lenN Hd = lenN out + lenN (wire_name ls) + 10).
  { unfold Hd. rewrite !lenN_app. cbn [u16 u32 lenN length N.of_nat]. lia. }
  destruct (fields_roundtrip_top _ _ _ _ Hd _ _ Hsides Hlok Hcanon Ha) as [rd' [got' [Est [Hun [_ Hsame]]]]].
  assert (rd' = rd). { injection Est as E. apply app_inv_head in E. auto. } subst rd'. clear Est.
  pose (mk := fun d => {| rr_name := show_name ls; rr_type := rr_type r; rr_class := rr_class r;
                          rr_ttl := rr_ttl r; rr_rdlength := lenN rd; rr_kind := rr_kind r; rr_data := d |}).
  assert (Hres : exists d, unpack_rr (out ++ rr_wire ls r rd ++ post) (lenN out) =
                   Ok (mk d, lenN out + lenN (rr_wire ls r rd)) /\
                 all_same (tl_pack L) d (rr_data r)).
  { unfold unpack_rr. rewrite unpack_rr_header_wire by (assumption || lia).
    cbn [bind]. unfold unpack_rr_with_header. cbn [h_type h_name h_class h_ttl h_rdlength].
    rewrite <- Hkind, Hfind, EHd, lenN_app, LHd, len_rr_wire.
    bfalse (lenN out + lenN (wire_name ls) + 10 + lenN rd <? lenN out + lenN (wire_name ls) + 10).
    bfalse (lenN out + lenN (wire_name ls) + 10 + lenN rd <? lenN out + lenN (wire_name ls) + 10 + lenN rd).
    destruct (lenN rd =? 0) eqn:E0.
    - exists []. split.
      + unfold mk. f_equal. f_equal. lia.
      + assert (rd = []) by (apply lenN_0; lia). specialize (Hzero H).
        unfold all_zero, all_same, same_fields in *. rewrite Forall_forall in *. intros fk Hin.
        specialize (Hzero fk Hin). rewrite Forall_forall in *. intros g Hg.
        right. split; [reflexivity|now apply Hzero].
    - exists got'. split; [|exact Hsame].
      rewrite <- LHd, Hun. cbn [bind fst snd].
      btrue (lenN Hd + lenN rd =? lenN Hd + lenN rd). unfold mk. f_equal. f_equal. lia. }
  destruct Hres as [d [Hres Hf]].
  exists (mk d). split; [reflexivity|]. split; [exact Hres|]. split; [reflexivity|].
  unfold rr_same, mk. cbn. rewrite Hname. repeat split; auto.
Qed.

(* ------------------------------------------------------------------ *)
(* coverage: every record type of the translated table meets [layout_ok] *)
Definition layout_supported (L : tlayout) : bool := layout_ok [] (tl_pack L).

Lemma all_layouts_supported : forallb layout_supported layouts = true.
Proof. vm_compute. reflexivity. Qed.

Lemma supported_census :
  map tl_name (filter layout_supported layouts) =
  ["A"; "AAAA"; "AFSDB"; "AMTRELAY"; "ANY"; "APL"; "AVC"; "CAA"; "CDNSKEY"; "CDS"; "CERT"; "CNAME";
   "CSYNC"; "DHCID"; "DLV"; "DNAME"; "DNSKEY"; "DS"; "EID"; "EUI48"; "EUI64"; "GID"; "GPOS"; "HINFO";
   "HIP"; "HTTPS"; "IPSECKEY"; "ISDN"; "KEY"; "KX"; "L32"; "L64"; "LOC"; "LP"; "MB"; "MD"; "MF"; "MG";
   "MINFO"; "MR"; "MX"; "NAPTR"; "NID"; "NIMLOC"; "NINFO"; "NS"; "NSAPPTR"; "NSEC"; "NSEC3";
   "NSEC3PARAM"; "NULL"; "NXNAME"; "NXT"; "OPENPGPKEY"; "OPT"; "PTR"; "PX"; "RESINFO"; "RFC3597";
   "RKEY"; "RP"; "RRSIG"; "RT"; "SIG"; "SMIMEA"; "SOA"; "SPF"; "SRV"; "SSHFP"; "SVCB"; "TA"; "TALINK";
   "TKEY"; "TLSA"; "TSIG"; "TXT"; "UID"; "UINFO"; "URI"; "X25"; "ZONEMD"]%string.
Proof. vm_compute. reflexivity. Qed.

(* the record theorem for every record type that has a layout *)
Theorem rr_roundtrip_all r L ls cap out st' post :
  find_layout layouts (rr_kind r) = Some L ->
  rr_ok r ls -> fields_canon (rr_data r) (tl_pack L) ->
  lenN out < cap ->
  pack_rr r cap false (st0 out) = Ok st' ->
  exists rd r',
    st' = st0 (out ++ rr_wire ls r rd) /\
    unpack_rr (out ++ rr_wire ls r rd ++ post) (lenN out) = Ok (r', lenN out + lenN (rr_wire ls r rd)) /\
    rr_rdlength r' = lenN rd /\ rr_same L r' r.
Proof.
  intros Hfind. apply rr_roundtrip; [exact Hfind|].
  pose proof all_layouts_supported as H. rewrite forallb_forall in H. apply H. eapply find_layout_in; eauto.
Qed.

(* ------------------------------------------------------------------ *)
(* non-vacuity: concrete records *)
Definition ex_owner : list label := [[101; 120]; [99; 111; 109]].           (* ex.com. *)
Definition ex_mx : rr :=
  {| rr_name := show_name ex_owner; rr_type := 15; rr_class := 1; rr_ttl := 3600; rr_rdlength := 0;
     rr_kind := "MX";
     rr_data := [("Preference"%string, V_n 10); ("Mx"%string, V_s (show_name [[109; 120]; [92; 46]]))] |}.
Definition ex_txt : rr :=
  {| rr_name := show_name ex_owner; rr_type := 16; rr_class := 1; rr_ttl := 4294967295; rr_rdlength := 7;
     rr_kind := "TXT";
     rr_data := [("Txt"%string, V_ss (map show_txt [[104; 105; 34; 0]; []; [255; 92]]))] |}.
(* an IPSECKEY with an IPv4 gateway and an empty key: the generated unpack()
   returns before the PublicKey statement *)
Definition ex_ipseckey : rr :=
  {| rr_name := show_name ex_owner; rr_type := 45; rr_class := 1; rr_ttl := 0; rr_rdlength := 0;
     rr_kind := "IPSECKEY";
     rr_data := [("Precedence"%string, V_n 10); ("GatewayType"%string, V_n 1); ("Algorithm"%string, V_n 2);
                 ("GatewayAddr"%string, V_b [192; 0; 2; 1]); ("GatewayHost"%string, V_s []);
                 ("PublicKey"%string, V_enc [])] |}.

Example mx_hypotheses_hold :
  exists L st',
    find_layout layouts (rr_kind ex_mx) = Some L /\ layout_ok [] (tl_pack L) = true /\
    rr_ok ex_mx ex_owner /\ fields_canon (rr_data ex_mx) (tl_pack L) /\
    pack_rr ex_mx 100 false (st0 [7; 7; 7]) = Ok st' /\
    pn_out st' = [7; 7; 7] ++ rr_wire ex_owner ex_mx [0; 10; 2; 109; 120; 2; 92; 46; 0] /\
    unpack_rr (pn_out st' ++ [9; 9]) 3 =
      Ok ({| rr_name := rr_name ex_mx; rr_type := 15; rr_class := 1; rr_ttl := 3600; rr_rdlength := 9;
             rr_kind := "MX"; rr_data := rr_data ex_mx |}, 30).
Proof.
  eexists. eexists. split; [vm_compute; reflexivity|]. split; [vm_compute; reflexivity|].
  split. { unfold rr_ok. repeat split; try reflexivity; cbn; lia. }
  split.
  { repeat constructor; cbn [fst snd field_canon].
    - eexists. split; [reflexivity|]. exists 10. split; [reflexivity|lia].
    - eexists. split; [reflexivity|]. exists [[109; 120]; [92; 46]]. split; reflexivity. }
  split; [vm_compute; reflexivity|]. split; vm_compute; reflexivity.
Qed.

Example txt_hypotheses_hold :
  exists L st',
    find_layout layouts (rr_kind ex_txt) = Some L /\ layout_ok [] (tl_pack L) = true /\
    rr_ok ex_txt ex_owner /\ fields_canon (rr_data ex_txt) (tl_pack L) /\
    pack_rr ex_txt 100 false (st0 []) = Ok st' /\
    pn_out st' = rr_wire ex_owner ex_txt [4; 104; 105; 34; 0; 0; 2; 255; 92] /\
    unpack_rr (pn_out st') 0 =
      Ok ({| rr_name := rr_name ex_txt; rr_type := 16; rr_class := 1; rr_ttl := 4294967295; rr_rdlength := 9;
             rr_kind := "TXT"; rr_data := rr_data ex_txt |}, 27).
Proof.
  eexists. eexists. split; [vm_compute; reflexivity|]. split; [vm_compute; reflexivity|].
  split. { unfold rr_ok. repeat split; try reflexivity; cbn; lia. }
  split.
  { repeat constructor; cbn [fst snd field_canon].
    eexists. split; [reflexivity|]. exists [[104; 105; 34; 0]; []; [255; 92]].
    split; [reflexivity|].
    repeat constructor; cbn; lia. }
  split; [vm_compute; reflexivity|]. split; vm_compute; reflexivity.
Qed.

Example ipseckey_hypotheses_hold :
  exists L st',
    find_layout layouts (rr_kind ex_ipseckey) = Some L /\
    rr_ok ex_ipseckey ex_owner /\ fields_canon (rr_data ex_ipseckey) (tl_pack L) /\
    pack_rr ex_ipseckey 100 false (st0 []) = Ok st' /\
    pn_out st' = rr_wire ex_owner ex_ipseckey [10; 1; 2; 192; 0; 2; 1] /\
    unpack_rr (pn_out st') 0 =
      Ok ({| rr_name := rr_name ex_ipseckey; rr_type := 45; rr_class := 1; rr_ttl := 0; rr_rdlength := 7;
             rr_kind := "IPSECKEY";
             rr_data := [("Precedence"%string, V_n 10); ("GatewayType"%string, V_n 1); ("Algorithm"%string, V_n 2);
                         ("GatewayAddr"%string, V_b [192; 0; 2; 1]); ("GatewayHost"%string, V_s [])] |}, 25).
Proof.
  eexists. eexists. split; [vm_compute; reflexivity|].
  split. { unfold rr_ok. repeat split; try reflexivity; cbn; lia. }
  split.
  { repeat constructor; cbn [fst snd field_canon].
    - eexists. split; [reflexivity|]. exists 10. split; [reflexivity|lia].
    - eexists. split; [reflexivity|]. exists 1. split; [reflexivity|lia].
    - eexists. split; [reflexivity|]. exists 2. split; [reflexivity|lia].
    - discriminate.
    - exists [192; 0; 2; 1], []. split; [reflexivity|]. split; [reflexivity|]. left. repeat split.
    - eexists. split; [reflexivity|]. exists []. split; reflexivity. }
  split; [vm_compute; reflexivity|]. split; vm_compute; reflexivity.
Qed.

(* why the record theorem asks for lenN out < cap: at off = len(msg) packHeader
   writes nothing, and packRR then back-patches an RDLENGTH over the two octets
   BEFORE the record; nothing of the record can be read back *)
Definition ex_any : rr :=
  {| rr_name := show_name ex_owner; rr_type := 255; rr_class := 1; rr_ttl := 0; rr_rdlength := 0;
     rr_kind := "ANY"; rr_data := [] |}.
Example full_buffer_quirk :
  rr_ok ex_any ex_owner /\ fields_canon (rr_data ex_any) [] /\
  find_layout layouts (rr_kind ex_any) = Some {| tl_name := "ANY"; tl_pack := []; tl_unpack := [] |} /\
  pack_rr ex_any 3 false (st0 [1; 2; 3]) = Ok (st0 [1; 0; 0]) /\
  unpack_rr [1; 0; 0] 3 =
    Ok ({| rr_name := []; rr_type := 0; rr_class := 0; rr_ttl := 0; rr_rdlength := 0;
           rr_kind := kind_of_type 0; rr_data := [] |}, 3).
Proof.
  split. { unfold rr_ok. repeat split; try reflexivity; cbn; lia. }
  split; [constructor|]. split; [vm_compute; reflexivity|]. split; vm_compute; reflexivity.
Qed.

(* ================================================================== *)
(* wire -> value -> wire for field sequences and records *)
Fixpoint conv_layout_ok (seen : list string) (ps : list pfield) : bool :=
  match ps with
  | [] => true
  | (f, k) :: r => conv_kind k && negb (existsb (String.eqb f) seen) && conv_layout_ok (f :: seen) r
  end.

(* the octets of every field are plain, following the decoder through all the
   statements of the layout *)
Fixpoint plain_fields (ps : list pfield) (us : list ufield) (got : rdata) (msg : bytes) (off : N) : Prop :=
  match ps, us with
  | (f, k) :: ps', u :: us' =>
    match unpack_field got (uf_kind u) msg off with
    | Ok (vals, off') =>
      plain_at k msg off off' /\ plain_fields ps' us' (got ++ combine (assigned u) vals) msg off'
    | _ => False
    end
  | _, _ => True
  end.

Lemma assigned_conv u k : kind_agree k (uf_kind u) = true -> conv_kind k = true -> assigned u = [uf_name u].
Proof. unfold assigned. destruct k; destruct (uf_kind u); cbn; try discriminate; reflexivity. Qed.

Lemma conv_layout_fresh ps : forall seen f k, conv_layout_ok seen ps = true -> In (f, k) ps -> ~ In f seen.
Proof.
  induction ps as [|[f0 k0] ps IH]; intros seen f k H Hin; [destruct Hin|].
  cbn [conv_layout_ok] in H. repeat (apply andb_prop in H; destruct H as [H ?]).
  destruct Hin as [E|Hin].
  - injection E as -> ->. apply existsb_eqb_notin. now destruct (existsb _ seen).
  - intro Hs. eapply IH; [eassumption|exact Hin|right; exact Hs].
Qed.

Lemma fields_converse cap ps : forall us seen got msg off gotF off' out,
  wfb msg -> sides_agree ps us = true -> conv_layout_ok seen ps = true -> off <= lenN msg ->
  (forall g, ~ In g seen -> vget got g = None) ->
  unpack_fields us got msg off = Ok (gotF, off') ->
  plain_fields ps us got msg off ->
  Forall (fun fk : pfield => vget gotF (fst fk) <> None) ps ->
  lenN msg + 320 <= cap -> lenN out = off ->
  off <= off' <= lenN msg /\ (exists ext, gotF = got ++ ext) /\
  pack_fields gotF ps cap (st0 out) = Ok (st0 (out ++ take_at msg off (off' - off))).
Proof.
  induction ps as [|[f k] ps IH]; intros us seen got msg off gotF off' out Hw Hs Hl Hoff Hkeys Hun Hplain Hpres Hcap Ho.
  - destruct us; [|discriminate]. cbn in Hun. injection Hun as <- <-. split; [lia|].
    split; [exists []; now rewrite app_nil_r|]. cbn [pack_fields]. rewrite N.sub_diag.
    unfold take_at, takeN. cbn. now rewrite app_nil_r.
  - destruct us as [|u us]; [discriminate|]. cbn [sides_agree] in Hs.
    apply andb_prop in Hs. destruct Hs as [Hs Hs']. apply andb_prop in Hs. destruct Hs as [Hname Hk].
    apply String.eqb_eq in Hname.
    cbn [conv_layout_ok] in Hl. apply andb_prop in Hl. destruct Hl as [Hl Hl'].
    apply andb_prop in Hl. destruct Hl as [Hck Hfresh].
    assert (Hnf : ~ In f seen). { apply existsb_eqb_notin. now destruct (existsb _ seen). }
    cbn [unpack_fields] in Hun. cbn [plain_fields] in Hplain.
    destruct (unpack_field got (uf_kind u) msg off) as [[vals o]| | |] eqn:Eu; try contradiction.
    destruct Hplain as [Hpl Hplain]. cbn [bind fst snd] in Hun.
    destruct (field_converse got k (uf_kind u) msg off vals o cap Hw Hck Hk Hoff Eu Hpl Hcap)
      as [Hro [x [-> Hpack]]].
    rewrite (assigned_conv u k Hk Hck), <- Hname in *. cbn [combine] in *.
    assert (Hkeys' : forall g, ~ In g (f :: seen) -> vget (got ++ [(f, x)]) g = None).
    { intros g Hg. rewrite vget_app, Hkeys by (intro; apply Hg; now right). cbn.
      destruct (String.eqb_spec g f) as [->|]; [exfalso; apply Hg; now left|reflexivity]. }
    assert (Hfx : forall ext, vget ((got ++ [(f, x)]) ++ ext) f = Some x).
    { intro ext. rewrite !vget_app, (Hkeys f Hnf). cbn. now rewrite String.eqb_refl. }
    pose proof (Forall_inv_tail Hpres) as Hpres'.
    destruct (uf_exit u && (o =? lenN msg)) eqn:Hex.
    + (* early return: nothing may be left to pack *)
      injection Hun as <- <-.
      assert (ps = []).
      { destruct ps as [|[f' k'] ps']; [reflexivity|]. exfalso.
        pose proof (Forall_inv Hpres') as Hp. cbn [fst] in Hp. apply Hp, Hkeys'.
        eapply conv_layout_fresh; [exact Hl'|now left]. }
      subst ps. split; [lia|]. split; [now exists [(f, x)]|].
      cbn [pack_fields]. specialize (Hfx []). rewrite app_nil_r in Hfx.
      rewrite (Hpack _ f out Hfx Ho). reflexivity.
    + destruct (IH us (f :: seen) (got ++ [(f, x)]) msg o gotF off' (out ++ take_at msg off (o - off)))
        as [Hr2 [[ext ->] Hp2]]; try assumption; try lia.
      { rewrite lenN_app, lenN_take_at by lia. lia. }
      split; [lia|]. split; [exists ([(f, x)] ++ ext); now rewrite app_assoc|].
      cbn [pack_fields]. rewrite (Hpack _ f out (Hfx ext) Ho). cbn [bind].
      rewrite Hp2. f_equal. f_equal. rewrite <- app_assoc. f_equal.
      replace (off' - off) with ((o - off) + (off' - o)) by lia.
      rewrite take_at_split by lia. f_equal. unfold take_at. f_equal. f_equal. lia.
Qed.

Lemma take_at_takeN (msg : bytes) m off n : off + n <= m -> take_at (takeN m msg) off n = take_at msg off n.
Proof.
  intro H. unfold take_at, takeN, dropN.
  rewrite skipn_firstn_comm, firstn_firstn. f_equal. lia.
Qed.
Lemma wfb_takeN msg m : wfb msg -> wfb (takeN m msg).
Proof. intro H. apply Forall_firstn', H. Qed.

Local Opaque un_go.
Local Strategy opaque [unpack_name_fuel un_go].

(* a record read by UnpackRR from plain octets packs to those octets again *)
Theorem rr_converse msg off r off' L ls cap out :
  wfb msg -> unpack_rr msg off = Ok (r, off') ->
  find_layout layouts (rr_kind r) = Some L -> conv_layout_ok [] (tl_pack L) = true ->
  rr_rdlength r <> 0 ->
  valid_wire ls = true -> off + lenN (wire_name ls) <= lenN msg ->
  take_at msg off (lenN (wire_name ls)) = wire_name ls ->
  plain_fields (tl_pack L) (tl_unpack L) [] (takeN off' msg) (off + lenN (wire_name ls) + 10) ->
  Forall (fun fk : pfield => vget (rr_data r) (fst fk) <> None) (tl_pack L) ->
  lenN msg + 320 <= cap -> lenN out = off ->
  off < off' <= lenN msg /\
  pack_rr r cap false (st0 out) = Ok (st0 (out ++ take_at msg off (off' - off))).
Proof.
  intros Hw H Hfind Hlok Hrdl Hls Hwl Ewire Hplain Hpres Hcap Ho.
  pose proof (wire_name_len_pos ls) as Hwn1.
  unfold unpack_rr in H. inv_bind H. destruct a as [[hd off1] tmsg].
  unfold unpack_rr_header in Ha.
  destruct (off =? lenN msg) eqn:E0; [lia|].
  assert (Hun : unpack_name msg off = Ok (show_name ls, off + lenN (wire_name ls))).
  { assert (Emsg : msg = takeN off msg ++ wire_name ls ++ dropN (off + lenN (wire_name ls)) msg).
    { rewrite <- Ewire at 1. rewrite app_assoc, <- takeN_split by lia. symmetry. apply firstn_skipn. }
    set (pre := takeN off msg) in *. set (post := dropN (off + lenN (wire_name ls)) msg) in *.
    assert (Eoff : lenN pre = off) by (apply lenN_takeN'; lia).
    rewrite Emsg, <- Eoff. apply unpack_name_exact, Hls. }
  rewrite Hun in Ha. cbn [bind fst snd] in Ha.
  set (o1 := off + lenN (wire_name ls)) in *.
  unfold unpack_fixed in Ha.
  destruct (lenN msg <? o1 + 2) eqn:E1; [discriminate|]. cbn [bind fst snd] in Ha.
  destruct (lenN msg <? o1 + 2 + 2) eqn:E2; [discriminate|]. cbn [bind fst snd] in Ha.
  destruct (lenN msg <? o1 + 2 + 2 + 4) eqn:E3; [discriminate|]. cbn [bind fst snd] in Ha.
  destruct (lenN msg <? o1 + 2 + 2 + 4 + 2) eqn:E4; [discriminate|]. cbn [bind fst snd] in Ha.
  set (T := take_at msg o1 2) in *. set (C := take_at msg (o1 + 2) 2) in *.
  set (TT := take_at msg (o1 + 2 + 2) 4) in *. set (RL := take_at msg (o1 + 2 + 2 + 4) 2) in *.
  set (rdl := be RL 0) in *.
  destruct (lenN msg <? o1 + 2 + 2 + 4 + 2 + rdl) eqn:E5; [discriminate|].
  injection Ha as <- <- <-.
  assert (HT : wfb T /\ lenN T = 2) by (split; [apply wfb_take_at, Hw|apply lenN_take_at; lia]).
  assert (HC : wfb C /\ lenN C = 2) by (split; [apply wfb_take_at, Hw|apply lenN_take_at; lia]).
  assert (HTT : wfb TT /\ lenN TT = 4) by (split; [apply wfb_take_at, Hw|apply lenN_take_at; lia]).
  assert (HRL : wfb RL /\ lenN RL = 2) by (split; [apply wfb_take_at, Hw|apply lenN_take_at; lia]).
  assert (Hrdl16 : rdl < 65536).
  { unfold rdl. pose proof (be_bound RL (proj1 HRL)) as Hb. rewrite (proj2 HRL) in Hb. exact Hb. }
  set (off1 := o1 + 2 + 2 + 4 + 2) in *.
  set (tmsg := takeN (off1 + rdl) msg) in *.
  assert (Htl : lenN tmsg = off1 + rdl) by (apply lenN_takeN'; lia).
  unfold unpack_rr_with_header in H. cbn [h_type h_name h_class h_ttl h_rdlength] in H.
  rewrite Htl in H.
  replace (off1 + rdl <? off1) with false in H by lia.
  replace (off1 + rdl <? off1 + rdl) with false in H by lia.
  destruct (rdl =? 0) eqn:Er0.
  { injection H as <- <-. cbn [rr_rdlength] in Hrdl. lia. }
  destruct (find_layout layouts (kind_of_type (be T 0))) as [L'|] eqn:EL; [|discriminate].
  inv_bind H. destruct a as [gotF e]. cbn [fst snd] in H.
  destruct (e =? off1 + rdl) eqn:Ee; [|discriminate]. injection H as <- <-.
  cbn [rr_kind rr_data rr_rdlength] in *. rewrite EL in Hfind. injection Hfind as ->.
  assert (Ee' : e = off1 + rdl) by lia. subst e.
  split; [lia|].
  assert (Hsides : sides_agree (tl_pack L) (tl_unpack L) = true).
  { pose proof pack_unpack_sides_agree as Hx. rewrite forallb_forall in Hx. apply Hx. eapply find_layout_in; eauto. }
  (* the packer *)
  unfold pack_rr. cbn [rr_kind rr_data rr_name rr_type rr_class rr_ttl]. rewrite EL.
  unfold pack_header. cbn [rr_name rr_type rr_class rr_ttl]. rewrite poff_st0, Ho.
  bfalse (off =? cap).
  rewrite (pack_name_at (show_name ls) ls);
    [|apply is_fqdn_show_name, Hls|apply parse_show_name, Hls|apply valid_wire_len_ok, Hls|lia].
  cbn [bind]. rewrite !u16_be, u32_be by tauto.
  rewrite pack_fixed_room by (rewrite lenN_app; lia). cbn [bind].
  rewrite pack_fixed_room by (rewrite !lenN_app; lia). cbn [bind].
  rewrite pack_fixed_room by (rewrite !lenN_app; lia). cbn [bind].
  rewrite pack_fixed_room by (rewrite !lenN_app; cbn [u16 lenN length N.of_nat]; lia). cbn [bind].
  set (P := (((out ++ wire_name ls) ++ T) ++ C) ++ TT).
  assert (HP : lenN P = off1 - 2). { unfold P. rewrite !lenN_app. lia. }
  assert (Hplain' : plain_fields (tl_pack L) (tl_unpack L) [] tmsg off1).
  { unfold tmsg. replace (off1 + rdl) with (off1 + rdl) by lia.
    replace off1 with (off + lenN (wire_name ls) + 10) at 2 by lia. exact Hplain. }
  destruct (fields_converse cap (tl_pack L) (tl_unpack L) [] [] tmsg off1 gotF (off1 + rdl) (P ++ u16 0))
    as [_ [_ Hpf]]; try assumption; try lia.
  { apply wfb_takeN, Hw. }
  { reflexivity. }
  { rewrite lenN_app, HP. cbn [u16 lenN length N.of_nat]. lia. }
  rewrite Hpf. cbn [bind].
  set (RD := take_at tmsg off1 (off1 + rdl - off1)).
  assert (HRD : lenN RD = rdl). { unfold RD. rewrite lenN_take_at by lia. lia. }
  unfold poff. cbn [st0 pn_out pn_cm].
  replace (lenN ((P ++ u16 0) ++ RD) - lenN (P ++ u16 0)) with rdl by (rewrite !lenN_app; lia).
  replace (lenN (P ++ u16 0)) with (lenN P + 2) by (rewrite lenN_app; reflexivity).
  bfalse (65535 <? rdl). bfalse (lenN P + 2 <? 2).
  f_equal. unfold st0. f_equal.
  replace (N.to_nat (lenN P + 2 - 2)) with (length P) by (unfold lenN; lia).
  replace (N.to_nat (lenN P + 2 - 1)) with (length (P ++ [rdl / 256]))
    by (rewrite app_length; unfold lenN; cbn [length]; lia).
  change (u16 0) with [0; 0]. rewrite <- app_assoc. cbn [app]. rewrite set_at_exact.
  replace (P ++ rdl / 256 :: 0 :: RD) with ((P ++ [rdl / 256]) ++ 0 :: RD)
    by (rewrite <- app_assoc; reflexivity).
  rewrite set_at_exact. rewrite <- app_assoc. cbn [app].
  change (rdl / 256 :: rdl mod 256 :: RD) with ([rdl / 256; rdl mod 256] ++ RD).
  rewrite (u16_small rdl) by lia. unfold rdl at 1. rewrite u16_be by tauto.
  unfold P. rewrite <- !app_assoc. f_equal.
  (* the octets msg[off:off'] *)
  assert (ERD : RD = take_at msg off1 rdl).
  { unfold RD, tmsg. replace (off1 + rdl - off1) with rdl by lia. apply take_at_takeN. lia. }
  rewrite ERD, <- Ewire. unfold T, C, TT, RL.
  replace (off1 + rdl - off) with (lenN (wire_name ls) + (2 + (2 + (4 + (2 + rdl))))) by lia.
  rewrite take_at_split by lia. f_equal. fold o1.
  rewrite take_at_split by lia. f_equal.
  rewrite take_at_split by lia. f_equal.
  rewrite take_at_split by lia. f_equal.
  rewrite take_at_split by lia. f_equal.
Qed.

(* coverage of the converse theorem *)
Definition layout_conv_supported (L : tlayout) : bool := conv_layout_ok [] (tl_pack L).
Lemma converse_census :
  map tl_name (filter layout_conv_supported layouts) =
  ["A"; "AAAA"; "AFSDB"; "ANY"; "AVC"; "CAA"; "CDNSKEY"; "CDS"; "CERT"; "CNAME"; "DHCID"; "DLV";
   "DNAME"; "DNSKEY"; "DS"; "EID"; "EUI48"; "EUI64"; "GID"; "GPOS"; "HINFO"; "ISDN"; "KEY"; "KX";
   "L32"; "L64"; "LOC"; "LP"; "MB"; "MD"; "MF"; "MG"; "MINFO"; "MR"; "MX"; "NAPTR"; "NID"; "NIMLOC";
   "NINFO"; "NS"; "NSAPPTR"; "NSEC3PARAM"; "NULL"; "NXNAME"; "OPENPGPKEY"; "PTR"; "PX"; "RESINFO";
   "RFC3597"; "RKEY"; "RP"; "RRSIG"; "RT"; "SIG"; "SMIMEA"; "SOA"; "SPF"; "SRV"; "SSHFP"; "TA";
   "TALINK"; "TKEY"; "TLSA"; "TSIG"; "TXT"; "UID"; "UINFO"; "URI"; "X25"; "ZONEMD"]%string.
Proof. vm_compute. reflexivity. Qed.
Lemma converse_uncovered_census :
  map tl_name (filter (fun L => negb (layout_conv_supported L)) layouts) =
  ["AMTRELAY"; "APL"; "CSYNC"; "HIP"; "HTTPS"; "IPSECKEY"; "NSEC"; "NSEC3"; "NXT"; "OPT"; "SVCB"]%string.
Proof. vm_compute. reflexivity. Qed.

(* non-vacuity of the converse: the octets of the MX example, between other octets *)
Definition ex_mx_wire : bytes :=
  [7; 7; 7] ++ rr_wire ex_owner ex_mx [0; 10; 2; 109; 120; 2; 92; 46; 0] ++ [9; 9].
Example mx_converse_hypotheses_hold :
  exists r L,
    wfb ex_mx_wire /\ unpack_rr ex_mx_wire 3 = Ok (r, 30) /\
    find_layout layouts (rr_kind r) = Some L /\ conv_layout_ok [] (tl_pack L) = true /\
    rr_rdlength r <> 0 /\ valid_wire ex_owner = true /\
    take_at ex_mx_wire 3 (lenN (wire_name ex_owner)) = wire_name ex_owner /\
    plain_fields (tl_pack L) (tl_unpack L) [] (takeN 30 ex_mx_wire) (3 + lenN (wire_name ex_owner) + 10) /\
    Forall (fun fk : pfield => vget (rr_data r) (fst fk) <> None) (tl_pack L) /\
    pack_rr r 400 false (st0 [7; 7; 7]) = Ok (st0 (takeN 30 ex_mx_wire)).
Proof.
  eexists. eexists. split. { unfold wfb. vm_compute. repeat constructor. }
  split; [vm_compute; reflexivity|]. split; [vm_compute; reflexivity|]. split; [vm_compute; reflexivity|].
  split; [cbn; lia|]. split; [reflexivity|]. split; [vm_compute; reflexivity|].
  split.
  { vm_compute. split; [exact I|]. split; [|exact I]. exists [[109; 120]; [92; 46]]. split; reflexivity. }
  split; [repeat constructor; cbn; discriminate|]. vm_compute. reflexivity.
Qed.
