package common

// Conversion of dns.RR / dns.Msg values into the textual form that the Coq model
// reads and prints (Corr/Wire.v).  A record is
//
//	kind/namehex/type/class/ttl/rdlength/F1/F2/...
//
// with one F per struct field (in declaration order, Hdr excluded):
//
//	n<dec>                       integers
//	s<hex>                       string (name, character-string text, raw)
//	S<count>:<hex>|<hex>...      []string
//	b<hex>                       net.IP
//	e<hex>                       hex/base64/base32 text field, as the octets it denotes
//	N<dec>,<dec>...              []uint16
//	P<code>:<hex>:<len>;...      []EDNS0 / []SVCBKeyValue (code, packed value, reported len)
//	A<0|1>:<prefix>:<hex>;...    []APLPrefix (negation, prefix length, address as held: 4 or 16 octets)
//
// Trailing zero-valued fields are dropped (a record unpacked from truncated RDATA
// leaves them at their zero value).

import (
	"encoding/base64"
	"encoding/hex"
	"fmt"
	"net"
	"reflect"
	"strings"

	"github.com/miekg/dns"
)

func isZeroField(f string) bool {
	switch f {
	case "n0", "s", "S0:", "b", "e", "N", "P", "A":
		return true
	}
	return false
}

func optPairs(opts []dns.EDNS0) (string, bool) {
	var parts []string
	ok := true
	for _, o := range opts {
		b, err := VerifPackOption(o)
		if err != nil {
			ok = false
		}
		parts = append(parts, fmt.Sprintf("%d:%s:%d", o.Option(), Hx(b), len(b)))
	}
	return "P" + strings.Join(parts, ";"), ok
}

// VerifPackOption / VerifPackSVCB / VerifLenSVCB are set by the hook file users
// (the option codecs are unexported); see harness/common/hooks.go.
var VerifPackOption = func(o dns.EDNS0) ([]byte, error) { return dns.VerifOptPack(o) }

func svcbPairs(kvs []dns.SVCBKeyValue) (string, bool) {
	var parts []string
	ok := true
	for _, kv := range kvs {
		b, err := dns.VerifSVCBPack(kv)
		if err != nil {
			ok = false
		}
		parts = append(parts, fmt.Sprintf("%d:%s:%d", uint16(kv.Key()), Hx(b), dns.VerifSVCBLen(kv)))
	}
	return "P" + strings.Join(parts, ";"), ok
}

func aplText(ps []dns.APLPrefix) (string, bool) {
	var parts []string
	ok := true
	for _, p := range ps {
		if len(p.Network.IP) != len(p.Network.Mask) {
			ok = false
		}
		ones, bits := p.Network.Mask.Size()
		if bits == 0 {
			ok = false
		}
		neg := "0"
		if p.Negation {
			neg = "1"
		}
		parts = append(parts, fmt.Sprintf("%s:%d:%s", neg, ones, Hx(p.Network.IP)))
	}
	return "A" + strings.Join(parts, ";"), ok
}

// FieldTexts renders the RDATA fields; canonical=false when some text field is
// not in the canonical form the model's value domain covers.
func FieldTexts(rr dns.RR) (fields []string, canonical bool) {
	canonical = true
	v := Flatten(reflect.ValueOf(rr).Elem())
	t := v.Type()
	for i := 0; i < t.NumField(); i++ {
		f := t.Field(i)
		if f.Name == "Hdr" {
			continue
		}
		tag := f.Tag.Get("dns")
		fv := v.Field(i)
		switch f.Type.Kind() {
		case reflect.Uint8, reflect.Uint16, reflect.Uint32, reflect.Uint64:
			fields = append(fields, fmt.Sprintf("n%d", fv.Uint()))
		case reflect.String:
			s := fv.String()
			switch {
			case strings.Contains(tag, "hex"):
				if s == "-" {
					s = ""
				}
				b, err := hex.DecodeString(s)
				if err != nil || hex.EncodeToString(b) != s {
					canonical = false
				}
				fields = append(fields, "e"+Hx(b))
			case strings.Contains(tag, "base64"):
				b, err := base64.StdEncoding.DecodeString(s)
				if err != nil || base64.StdEncoding.EncodeToString(b) != s {
					canonical = false
				}
				fields = append(fields, "e"+Hx(b))
			case strings.Contains(tag, "base32"):
				b, err := b32.DecodeString(strings.ToUpper(s))
				if err != nil || b32.EncodeToString(b) != s {
					canonical = false
				}
				fields = append(fields, "e"+Hx(b))
			default:
				fields = append(fields, "s"+Hs(s))
			}
		case reflect.Slice:
			switch x := fv.Interface().(type) {
			case net.IP:
				fields = append(fields, "b"+Hx(x))
			case []string:
				hs := make([]string, len(x))
				for j, s := range x {
					hs[j] = Hs(s)
				}
				fields = append(fields, fmt.Sprintf("S%d:%s", len(x), strings.Join(hs, "|")))
			case []uint16:
				ns := make([]string, len(x))
				for j, n := range x {
					ns[j] = Itoa(int(n))
				}
				fields = append(fields, "N"+strings.Join(ns, ","))
			case []dns.EDNS0:
				s, ok := optPairs(x)
				canonical = canonical && ok
				fields = append(fields, s)
			case []dns.SVCBKeyValue:
				s, ok := svcbPairs(x)
				canonical = canonical && ok
				fields = append(fields, s)
			case []dns.APLPrefix:
				s, ok := aplText(x)
				canonical = canonical && ok
				fields = append(fields, s)
			default:
				canonical = false
				fields = append(fields, "?")
			}
		default:
			canonical = false
			fields = append(fields, "?")
		}
	}
	for len(fields) > 0 && isZeroField(fields[len(fields)-1]) {
		fields = fields[:len(fields)-1]
	}
	return
}

// Flatten follows single embedded structs (SIG embeds RRSIG, KEY embeds DNSKEY, ...):
// the generated pack/unpack/len/copy methods are those of the embedded type.
func Flatten(v reflect.Value) reflect.Value {
	for v.Kind() == reflect.Struct && v.NumField() == 1 && v.Type().Field(0).Anonymous && v.Field(0).Kind() == reflect.Struct {
		v = v.Field(0)
	}
	return v
}

func KindOf(rr dns.RR) string {
	return Flatten(reflect.ValueOf(rr).Elem()).Type().Name()
}

// RRText renders a record for the model.
func RRText(rr dns.RR) (string, bool) {
	h := rr.Header()
	fs, ok := FieldTexts(rr)
	parts := []string{KindOf(rr), Hs(h.Name), Itoa(int(h.Rrtype)), Itoa(int(h.Class)), fmt.Sprint(h.Ttl), Itoa(int(h.Rdlength))}
	parts = append(parts, fs...)
	return strings.Join(parts, "/"), ok
}

func b01(b bool) string {
	if b {
		return "1"
	}
	return "0"
}

// MsgText renders a message: header fields, then sections separated by '#',
// records within a section by '+', questions as namehex/type/class.
func MsgText(m *dns.Msg) (string, bool) {
	ok := true
	hdr := strings.Join([]string{Itoa(int(m.Id)), b01(m.Response), Itoa(m.Opcode), b01(m.Authoritative), b01(m.Truncated),
		b01(m.RecursionDesired), b01(m.RecursionAvailable), b01(m.Zero), b01(m.AuthenticatedData), b01(m.CheckingDisabled),
		Itoa(m.Rcode), b01(m.Compress)}, ",")
	var qs []string
	for _, q := range m.Question {
		qs = append(qs, Hs(q.Name)+"/"+Itoa(int(q.Qtype))+"/"+Itoa(int(q.Qclass)))
	}
	sec := func(rs []dns.RR) string {
		var out []string
		for _, r := range rs {
			t, o := RRText(r)
			ok = ok && o
			out = append(out, t)
		}
		return strings.Join(out, "+")
	}
	return hdr + "#" + strings.Join(qs, "+") + "#" + sec(m.Answer) + "#" + sec(m.Ns) + "#" + sec(m.Extra), ok
}

// ForEachNameField visits the string fields tagged domain-name / cdomain-name.
func ForEachNameField(rr dns.RR, f func(get func() string, set func(string))) {
	v := Flatten(reflect.ValueOf(rr).Elem())
	t := v.Type()
	for i := 0; i < t.NumField(); i++ {
		tag := t.Field(i).Tag.Get("dns")
		if (tag == "domain-name" || tag == "cdomain-name") && t.Field(i).Type.Kind() == reflect.String {
			fv := v.Field(i)
			f(func() string { return fv.String() }, func(s string) { fv.SetString(s) })
		}
		// lists of names (HIP rendezvous servers): every element
		if tag == "domain-name" && t.Field(i).Type.Kind() == reflect.Slice && t.Field(i).Type.Elem().Kind() == reflect.String {
			fv := v.Field(i)
			for j := 0; j < fv.Len(); j++ {
				e := fv.Index(j)
				f(func() string { return e.String() }, func(s string) { e.SetString(s) })
			}
		}
	}
}
