(* Props/C19.v — property C19: the label helpers agree with the wire-format label
   sequence of every valid name.  Only statements; each is closed by [exact] of a
   lemma proved in Proofs/LabelsProofs.v.

   Vocabulary.  A name is a list of wire labels [ls]; [labels_wf ls] says every
   label is a non-empty list of octets (< 256).  [show_labels ls] is the
   presentation text UnpackDomainName produces (escaping of dots, backslashes,
   specials as \c and non-printables as \DDD, every label followed by a dot);
   [name_form true ls] is that text, [name_form false ls] the same without the
   final dot.  [mid ++ [last]] is an arbitrary non-root name. *)
From Dns Require Import Model.Labels Proofs.EscapeProofs Proofs.LabelsProofs.

(* IsFqdn: exactly the strings ending in a dot that is preceded by an even
   number (possibly zero) of backslashes. *)
Theorem fqdn_iff_unescaped_trailing_dot :
  forall s : bytes,
    is_fqdn s = true <->
    exists p k, s = p ++ repeat 92%N k ++ [46%N] /\ Nat.even k = true /\
                (forall q, p <> q ++ [92%N]).
Proof. exact is_fqdn_spec. Qed.

(* CountLabel = number of wire labels, for both presentation forms. *)
Theorem count_label_is_wire_label_count :
  forall (fq : bool) (mid : list label) (last : label),
    labels_wf mid -> last <> [] /\ wfb last ->
    count_label (name_form fq (mid ++ [last])) = Some (length (mid ++ [last])).
Proof. exact count_label_spec. Qed.

(* Split = the offsets at which the printed labels start:
   0, |l1'|+1, |l1'|+1+|l2'|+1, ...  where li' is the printed form of label i. *)
Theorem split_is_wire_label_starts :
  forall (fq : bool) (mid : list label) (last : label),
    labels_wf mid -> last <> [] /\ wfb last ->
    split (name_form fq (mid ++ [last])) = Some (label_starts 0 (mid ++ [last])).
Proof. exact split_spec. Qed.

(* NextLabel from the start of any label goes to the start of the next label, and
   from the last label reports the end of the string. *)
Theorem next_label_visits_exactly_the_label_starts :
  forall (fq : bool) (pre : list label) (l : label) (post : list label),
    labels_wf pre -> l <> [] /\ wfb l -> labels_wf post ->
    next_label (name_form fq (pre ++ l :: post)) (length (show_labels pre)) =
    match post with
    | [] => (length (name_form fq (pre ++ [l])), true)
    | _ => ((length (show_labels pre) + length (show_label l) + 1)%nat, false)
    end.
Proof. exact next_label_visits. Qed.

(* Fqdn changes nothing but appending the root dot. *)
Theorem fqdn_only_appends_root :
  forall (fq : bool) (mid : list label) (last : label),
    labels_wf mid -> last <> [] /\ wfb last ->
    fqdn (name_form fq (mid ++ [last])) = show_labels (mid ++ [last]).
Proof. exact fqdn_spec. Qed.

(* CanonicalName = the FQDN text of the same labels with ASCII letters lower-cased
   (escapes are untouched: lower-casing commutes with printing). *)
Theorem canonical_name_lowercases_labels :
  forall (fq : bool) (mid : list label) (last : label),
    labels_wf mid -> last <> [] /\ wfb last ->
    canonical_name (name_form fq (mid ++ [last])) =
    show_labels (map lower_bytes (mid ++ [last])).
Proof. exact canonical_name_spec. Qed.
