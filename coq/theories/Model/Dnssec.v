(* Model/Dnssec.v — dnssec.go RRSIG.Sign / signAsIs / Verify / rawSignatureData /
   packSigWire.  A record is owner labels, type, class, TTL and RDATA given as a
   list of fields that are either an embedded domain name or opaque octets; the
   RFC 4034 6.2 lower-casing applies to the embedded names of the types in the
   code's switch.  Signature primitives are Section variables.  Definitions
   only. *)
From Dns Require Export Base.Bytes Model.Name Model.Nsec3 Model.KeyEnc.
Open Scope N_scope.

Inductive rdfield := RdName (n : list label) | RdBytes (b : bytes).

Record rr := {
  r_owner : list label; r_type : N; r_class : N; r_ttl : N; r_rdata : list rdfield }.

Record rrsig := {
  s_owner : list label; s_class : N;
  s_covered : N; s_alg : N; s_labels : N; s_origttl : N; s_exp : N; s_incep : N; s_keytag : N;
  s_signer : list label; s_signature : bytes }.

Record dnskey := {
  k_owner : list label; k_class : N; k_flags : N; k_proto : N; k_alg : N; k_pub : bytes }.

(* the types whose RDATA names rawSignatureData lower-cases (the switch on r1.(type)):
   NS MD MF CNAME SOA MB MG MR PTR MINFO MX RP AFSDB RT SIG PX NXT SRV NAPTR KX DNAME
   (NXT since fix 14c62e1) *)
Definition code_lower_types : list N :=
  [2; 3; 4; 5; 6; 7; 8; 9; 12; 14; 15; 17; 18; 21; 24; 26; 30; 33; 35; 36; 39].
(* RFC 4034 6.2 (3) as corrected by RFC 6840 5.1 (HINFO has no names, NSEC is
   not lower-cased): the above plus A6 (38, no Go type) and RRSIG (46, never signed) *)
Definition rfc4034_6_2_types : list N := code_lower_types ++ [38; 46].
Definition mem (x : N) (l : list N) : bool := existsb (N.eqb x) l.
Definition lowered (ty : N) : bool := mem ty code_lower_types.

Definition lower_name (n : list label) : list label := map lower_bytes n.

Definition field_wire (low : bool) (f : rdfield) : bytes :=
  match f with
  | RdName n => wire_name (if low then lower_name n else n)
  | RdBytes b => b
  end.
Definition rdata_wire (low : bool) (fs : list rdfield) : bytes := flat_map (field_wire low) fs.
Definition field_ok (f : rdfield) : bool :=
  match f with RdName n => valid_wire n | RdBytes b => wfbb b end.

(* 6.2 (4): an owner with more labels than the RRSIG Labels field is replaced by
   "*." + its last Labels labels.  With Labels = 0 the code builds the text "*.."
   which PackRR rejects. *)
Definition canon_owner (labels : N) (owner : list label) : res (list label) :=
  let n := length owner in
  let L := N.to_nat labels in
  if (L <? n)%nat then
    (if (L =? 0)%nat then Err "pack"%string else Ok ([42] :: skipn (n - L) owner))
  else Ok owner.

(* one record in canonical form: (owner | type | class | OrigTTL | RDLENGTH, RDATA) *)
Definition canon_rr (sig : rrsig) (r : rr) : res (bytes * bytes) :=
  do o <- canon_owner (s_labels sig) (r_owner r);
  if negb (valid_wire o) then Err "pack"%string
  else if negb (forallb field_ok (r_rdata r)) then Err "pack"%string
  else
    let rd := rdata_wire (lowered (r_type r)) (r_rdata r) in
    if 65535 <? lenN rd then Err "pack"%string
    else Ok (wire_name (lower_name o) ++ u16 (r_type r) ++ u16 (r_class r) ++ u32 (s_origttl sig) ++ u16 (lenN rd), rd).

Fixpoint map_res {A B} (f : A -> res B) (l : list A) : res (list B) :=
  match l with
  | [] => Ok []
  | x :: r => do y <- f x; do ys <- map_res f r; Ok (y :: ys)
  end.

(* sort.Sort(wires) with Less = bytes.Compare on the RDATA part *)
Definition rd_leb (a b : bytes * bytes) : bool :=
  match lex_cmp (snd a) (snd b) with Gt => false | _ => true end.
Fixpoint insert_rd (x : bytes * bytes) (l : list (bytes * bytes)) : list (bytes * bytes) :=
  match l with
  | [] => [x]
  | y :: r => if rd_leb x y then x :: l else y :: insert_rd x r
  end.
Fixpoint isort_rd (l : list (bytes * bytes)) : list (bytes * bytes) :=
  match l with [] => [] | x :: r => insert_rd x (isort_rd r) end.

Definition wire_of (p : bytes * bytes) : bytes := fst p ++ snd p.
(* skip a wire equal to the previous one *)
Fixpoint dedup_adj (prev : option bytes) (l : list bytes) : list bytes :=
  match l with
  | [] => []
  | w :: r =>
    match prev with
    | Some p => if bytes_eqb w p then dedup_adj (Some w) r else w :: dedup_adj (Some w) r
    | None => w :: dedup_adj (Some w) r
    end
  end.

Definition signed_rrs (sig : rrsig) (rrset : list rr) : res (list bytes) :=
  do cs <- map_res (canon_rr sig) rrset;
  Ok (dedup_adj None (map wire_of (isort_rd cs))).

(* packSigWire: RRSIG RDATA without the signature, signer name lower-cased *)
Definition sig_rdata_prefix (sig : rrsig) : bytes :=
  u16 (s_covered sig) ++ u8 (s_alg sig) ++ u8 (s_labels sig) ++ u32 (s_origttl sig) ++
  u32 (s_exp sig) ++ u32 (s_incep sig) ++ u16 (s_keytag sig) ++ wire_name (lower_name (s_signer sig)).

(* RFC 4034 3.1.8.1: signature = sign(RRSIG_RDATA | RR(1) | RR(2) ...) *)
Definition signed_octets (sig : rrsig) (rrset : list rr) : res bytes :=
  if negb (valid_wire (s_signer sig)) then Err "pack"%string
  else do ws <- signed_rrs sig rrset; Ok (sig_rdata_prefix sig ++ concat ws).

(* ---------- pre-checks ---------- *)
Definition name_eqb (a b : list label) : bool := list_eqb bytes_eqb a b.
Definition name_eq_ci (a b : list label) : bool := list_eqb label_eq_ci a b.

(* IsRRset: at least one record, all with the type, class and (exactly, as a
   string) the name of the first *)
Definition is_rrset (rrset : list rr) : bool :=
  match rrset with
  | [] => false
  | r0 :: rest =>
    forallb (fun r => (r_type r =? r_type r0) && (r_class r =? r_class r0) &&
                      name_eqb (r_owner r) (r_owner r0)) rest
  end.

(* strings.HasSuffix on the lower-cased presentation forms *)
Definition has_suffix (s t : bytes) : bool :=
  (length t <=? length s)%nat && bytes_eqb (skipn (length s - length t) s) t.
Definition pres_lower (n : list label) : bytes := lower_bytes (show_name n).

Definition supported_alg (a : N) : bool :=
  (a =? 5) || (a =? 7) || (a =? 8) || (a =? 10) || (a =? 13) || (a =? 14) || (a =? 15).
(* AlgorithmToHash has an entry (hashFromAlgorithm succeeds) *)
Definition has_hash (a : N) : bool := supported_alg a || (a =? 1) || (a =? 3).

Definition key_decodes (alg : N) (pub : bytes) : bool :=
  if (alg =? 5) || (alg =? 7) || (alg =? 8) || (alg =? 10) then
    match rsa_pub_dec pub with Some _ => true | None => false end
  else if (alg =? 13) || (alg =? 14) then
    match ecdsa_pub_dec alg pub with Some _ => true | None => false end
  else if alg =? 15 then
    match ed25519_pub_dec pub with Some _ => true | None => false end
  else false.

Definition zone_flag (flags : N) : bool := N.testbit flags 8.

Definition key_checks (k : dnskey) (sig : rrsig) : bool :=
  (s_keytag sig =? key_tag (k_flags k) (k_proto k) (k_alg k) (k_pub k)) &&
  (s_class sig =? k_class k) && (s_alg sig =? k_alg k) &&
  name_eq_ci (s_signer sig) (k_owner k) && (k_proto k =? 3) && zone_flag (k_flags k).

Definition rrset_checks (sig : rrsig) (r0 : rr) : bool :=
  (r_class r0 =? s_class sig) && (r_type r0 =? s_covered sig) &&
  negb (N.of_nat (length (r_owner r0)) mod 256 <? s_labels sig) &&
  name_eq_ci (r_owner r0) (s_owner sig) &&
  has_suffix (pres_lower (r_owner r0)) (pres_lower (s_signer sig)).

Section Crypto.
  (* verification primitive of algorithm alg: public key octets, message, signature *)
  Variable sig_verify : N -> bytes -> bytes -> bytes -> bool.

  (* RRSIG.Verify: error class or success *)
  Definition verify (k : dnskey) (sig : rrsig) (rrset : list rr) : res unit :=
    if negb (is_rrset rrset) then Err "rrset"%string
    else if negb (key_checks k sig) then Err "key"%string
    else match rrset with
    | [] => Err "rrset"%string
    | r0 :: _ =>
      if negb (rrset_checks sig r0) then Err "rrset"%string
      else
        do m <- signed_octets sig rrset;
        if negb (has_hash (s_alg sig)) then Err "alg"%string
        else if negb (supported_alg (s_alg sig)) then Err "alg"%string
        else if negb (key_decodes (s_alg sig) (k_pub k)) then Err "key"%string
        else if sig_verify (s_alg sig) (k_pub k) m (s_signature sig) then Ok tt
        else Err "sig"%string
    end.

  (* ---------- Sign ---------- *)
  Variable sk : Type.
  Variable sig_sign : sk -> N -> bytes -> bytes.

  (* strings.HasPrefix(h0.Name, "*."): the first label is exactly "*" (fix 893029e) *)
  Definition star_prefix (n : list label) : bool :=
    match n with [42] :: _ => true | _ => false end.

  (* the fields Sign copies from the RRset *)
  Definition sign_fill (sig : rrsig) (r0 : rr) : rrsig :=
    {| s_owner := r_owner r0; s_class := r_class r0;
       s_covered := r_type r0; s_alg := s_alg sig;
       s_labels := (N.of_nat (length (r_owner r0)) mod 256 + 256 -
                    (if star_prefix (r_owner r0) then 1 else 0)) mod 256;
       s_origttl := if s_origttl sig =? 0 then r_ttl r0 else s_origttl sig;
       s_exp := s_exp sig; s_incep := s_incep sig; s_keytag := s_keytag sig;
       s_signer := s_signer sig; s_signature := s_signature sig |}.

  Definition with_signature (sig : rrsig) (s : bytes) : rrsig :=
    {| s_owner := s_owner sig; s_class := s_class sig; s_covered := s_covered sig; s_alg := s_alg sig;
       s_labels := s_labels sig; s_origttl := s_origttl sig; s_exp := s_exp sig; s_incep := s_incep sig;
       s_keytag := s_keytag sig; s_signer := s_signer sig; s_signature := s |}.

  Definition sign_as_is (key : sk) (sig : rrsig) (rrset : list rr) : res rrsig :=
    if (s_keytag sig =? 0) || (s_alg sig =? 0) then Err "key"%string
    else
      do m <- signed_octets sig rrset;
      if negb (has_hash (s_alg sig)) then Err "alg"%string
      else if negb (supported_alg (s_alg sig)) then Err "alg"%string
      else Ok (with_signature sig (sig_sign key (s_alg sig) m)).

  Definition sign (key : sk) (sig : rrsig) (rrset : list rr) : res rrsig :=
    match rrset with
    | [] => Panic                                  (* rrset[0] *)
    | r0 :: _ => sign_as_is key (sign_fill sig r0) rrset
    end.
End Crypto.
