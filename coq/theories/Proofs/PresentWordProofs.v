(* Proofs/PresentWordProofs.v — the words printed for integers, addresses,
   hex and base64 text, type mnemonics and canonical names are words the lexer
   keeps whole (C05, layer 3 support); sprintName leaves a name in the form
   UnpackDomainName produces unchanged; sprintTxtOctet preserves what its
   argument denotes; hex text round trip. *)
From Dns Require Import Base.ListX Model.Present Proofs.EscapeProofs Proofs.PresentEscProofs
     Proofs.PresentCodeProofs Proofs.PresentLexProofs Proofs.PresentTxtProofs.
From Coq Require Import Lia ZifyN ZifyNat ZifyBool.
Open Scope N_scope.

(* ---- ordinary characters ---- *)
Definition ordinary (x : N) : bool := negb (word_special x) && negb (x =? 92).

Lemma wscan_ordinary w : forall sp, forallb ordinary w = true ->
  wscan false sp w = Some (if is_nil w then sp else false).
Proof.
  induction w as [|x r IH]; intros sp H; [reflexivity|].
  cbn [forallb] in H. apply andb_prop in H. destruct H as [Hx Hr].
  unfold ordinary in Hx. apply andb_prop in Hx. destruct Hx as [H1 H2].
  cbn [wscan is_nil]. destruct (word_special x); [discriminate|]. destruct (x =? 92); [discriminate|].
  rewrite IH by exact Hr. destruct r; reflexivity.
Qed.

Lemma word_ok_ordinary w : w <> [] -> forallb ordinary w = true -> word_ok w = true.
Proof.
  intros Hne H. unfold word_ok. rewrite wscan_ordinary by exact H. destruct w; [congruence|reflexivity].
Qed.

Lemma digit_ordinary c : is_digit c = true -> ordinary c = true.
Proof. unfold is_digit, ordinary, word_special. intro H. lia. Qed.

Lemma digits_ordinary s : forallb is_digit s = true -> forallb ordinary s = true.
Proof.
  induction s as [|c r IH]; [reflexivity|]. cbn [forallb]. intro H. apply andb_prop in H. destruct H as [Hc Hr].
  now rewrite digit_ordinary, IH.
Qed.

Lemma dec_word_ok n : word_ok (dec_bytes n) = true.
Proof. apply word_ok_ordinary; [apply dec_bytes_nonempty|apply digits_ordinary, dec_bytes_digits]. Qed.

Lemma ordinary_app a b : forallb ordinary (a ++ b) = forallb ordinary a && forallb ordinary b.
Proof. apply forallb_app. Qed.

(* ---- type mnemonics ---- *)
Lemma type_table_ordinary :
  forallb (fun e => negb (is_nil (snd e)) && forallb ordinary (snd e)) type_table = true.
Proof. vm_compute. reflexivity. Qed.

Lemma show_type_word_ok t : word_ok (show_type t) = true.
Proof.
  unfold show_type. destruct (lookup_code type_table t) as [m|] eqn:L.
  - apply lookup_code_in in L. pose proof type_table_ordinary as C. rewrite forallb_forall in C.
    specialize (C _ L). cbn [snd] in C. apply andb_prop in C. destruct C as [C1 C2].
    apply word_ok_ordinary; [|exact C2]. destruct m; [discriminate|congruence].
  - apply word_ok_ordinary; [discriminate|]. rewrite ordinary_app.
    replace (forallb ordinary b_TYPE) with true by reflexivity. apply digits_ordinary, dec_bytes_digits.
Qed.

Lemma class_table_ordinary :
  forallb (fun e => negb (is_nil (snd e)) && forallb ordinary (snd e)) class_table = true.
Proof. vm_compute. reflexivity. Qed.

Lemma show_class_word_ok c : word_ok (show_class c) = true.
Proof.
  assert (Hn : word_ok (b_CLASS ++ dec_bytes c) = true).
  { apply word_ok_ordinary; [discriminate|]. rewrite ordinary_app.
    replace (forallb ordinary b_CLASS) with true by reflexivity. apply digits_ordinary, dec_bytes_digits. }
  unfold show_class. destruct (lookup_code class_table c) as [m|] eqn:L; [|exact Hn].
  destruct (string_to_type m); [exact Hn|].
  apply lookup_code_in in L. pose proof class_table_ordinary as C. rewrite forallb_forall in C.
  specialize (C _ L). cbn [snd] in C. apply andb_prop in C. destruct C as [C1 C2].
  apply word_ok_ordinary; [|exact C2]. destruct m; [discriminate|congruence].
Qed.

(* ---- IPv4 dotted quads ---- *)
Lemma octet_dec_checked :
  forallb (fun x => match parse_ip4_field (dec_bytes x) with Some y => y =? x | None => false end &&
                    forallb is_digit (dec_bytes x) && negb (is_nil (dec_bytes x))) all_octets = true.
Proof. vm_compute. reflexivity. Qed.

Lemma parse_ip4_field_dec x : x < 256 -> parse_ip4_field (dec_bytes x) = Some x.
Proof.
  intro H. pose proof (octet_sweep _ octet_dec_checked x H) as C. cbv beta in C.
  apply andb_prop in C. destruct C as [C _]. apply andb_prop in C. destruct C as [C _].
  destruct (parse_ip4_field (dec_bytes x)); [|discriminate]. apply N.eqb_eq in C. now subst.
Qed.

Lemma split_on_digits w : forall r cur, forallb is_digit w = true ->
  split_on 46 (w ++ 46 :: r) cur = (rev cur ++ w) :: split_on 46 r [].
Proof.
  induction w as [|c w IH]; intros r cur H.
  - cbn [app split_on]. rewrite N.eqb_refl. now rewrite app_nil_r.
  - cbn [forallb] in H. apply andb_prop in H. destruct H as [Hc Hw].
    cbn [app split_on]. replace (c =? 46) with false by (unfold is_digit in Hc; lia).
    rewrite IH by exact Hw. cbn [rev]. now rewrite <- app_assoc.
Qed.
Lemma split_on_digits_end w : forall cur, forallb is_digit w = true ->
  split_on 46 w cur = [rev cur ++ w].
Proof.
  induction w as [|c w IH]; intros cur H.
  - cbn. now rewrite app_nil_r.
  - cbn [forallb] in H. apply andb_prop in H. destruct H as [Hc Hw].
    cbn [split_on]. replace (c =? 46) with false by (unfold is_digit in Hc; lia).
    rewrite IH by exact Hw. cbn [rev]. now rewrite <- app_assoc.
Qed.

Theorem parse_ip4_present a : length a = 4%nat -> wfb a -> parse_ip4 (present_ip4 a) = Some a.
Proof.
  intros Hl Hw. destruct a as [|x1 [|x2 [|x3 [|x4 [|? ?]]]]]; try discriminate.
  inversion Hw as [|? ? H1 Hw1]; subst. inversion Hw1 as [|? ? H2 Hw2]; subst.
  inversion Hw2 as [|? ? H3 Hw3]; subst. inversion Hw3 as [|? ? H4 _]; subst.
  unfold parse_ip4, present_ip4. cbn [map join_bytes]. change ([46] ++ ?x) with (46 :: x).
  cbn [app].
  rewrite split_on_digits by apply dec_bytes_digits.
  rewrite split_on_digits by apply dec_bytes_digits.
  rewrite split_on_digits by apply dec_bytes_digits.
  rewrite split_on_digits_end by apply dec_bytes_digits.
  cbn [rev app map]. now rewrite !parse_ip4_field_dec.
Qed.

Lemma ip4_word_ok a : length a = 4%nat -> word_ok (present_ip4 a) = true.
Proof.
  intro Hl. destruct a as [|x1 [|x2 [|x3 [|x4 [|? ?]]]]]; try discriminate.
  unfold present_ip4. cbn [map join_bytes].
  apply word_ok_ordinary.
  - destruct (dec_bytes_head x1) as (c & r & -> & _). discriminate.
  - rewrite !ordinary_app. cbn [forallb].
    rewrite !(digits_ordinary _ (dec_bytes_digits _)). reflexivity.
Qed.

(* ---- hex text ---- *)
Lemma hexdigit_val n : n < 16 -> unhexdigit (hexdigit n) = n.
Proof.
  intro H. unfold hexdigit, unhexdigit. destruct (n <? 10) eqn:E.
  - rewrite N_ascii_embedding by lia.
    replace ((48 <=? 48 + n) && (48 + n <=? 57)) with true by lia. lia.
  - rewrite N_ascii_embedding by lia.
    replace ((48 <=? 87 + n) && (87 + n <=? 57)) with false by lia.
    replace ((97 <=? 87 + n) && (87 + n <=? 102)) with true by lia. lia.
Qed.

Theorem unhex_hex w : wfb w -> unhex (hex w) = w.
Proof.
  induction 1 as [|b w Hb _ IH]; [reflexivity|].
  cbn [hex unhex]. rewrite IH, !hexdigit_val by lia. f_equal. lia.
Qed.

Lemma string_of_bytes_of_string s : string_of_bytes (bytes_of_string s) = s.
Proof. induction s as [|c s IH]; [reflexivity|]. cbn. now rewrite ascii_N_embedding, IH. Qed.

Lemma hexdigit_ordinary n : n < 16 -> ordinary (N_of_ascii (hexdigit n)) = true.
Proof.
  intro H. unfold hexdigit. destruct (n <? 10) eqn:E; rewrite N_ascii_embedding by lia;
  unfold ordinary, word_special; lia.
Qed.

Lemma hex_bytes_ordinary w : wfb w -> forallb ordinary (hex_bytes w) = true.
Proof.
  unfold hex_bytes. induction 1 as [|b w Hb _ IH]; [reflexivity|].
  cbn [hex bytes_of_string forallb]. rewrite !hexdigit_ordinary by lia. exact IH.
Qed.

Lemma hex_bytes_length w : length (hex_bytes w) = (2 * length w)%nat.
Proof.
  unfold hex_bytes. induction w as [|b w IH]; [reflexivity|]. cbn [hex bytes_of_string length]. lia.
Qed.

(* upper-casing hex text does not change the octets it denotes *)
Lemma unhexdigit_upper_checked :
  forallb (fun c => unhexdigit (ascii_of_N (upper c)) =? unhexdigit (ascii_of_N c)) all_octets = true.
Proof. vm_compute. reflexivity. Qed.
Lemma unhexdigit_upper c : c < 256 -> unhexdigit (ascii_of_N (upper c)) = unhexdigit (ascii_of_N c).
Proof. intro H. apply N.eqb_eq. exact (octet_sweep _ unhexdigit_upper_checked c H). Qed.

Theorem unhex_upper_n n : forall h, (length h <= n)%nat -> wfb h ->
  unhex (string_of_bytes (upper_bytes h)) = unhex (string_of_bytes h).
Proof.
  induction n as [|n IH]; intros h Hl Hw.
  - destruct h; [reflexivity|cbn in Hl; lia].
  - destruct h as [|a [|b r]]; try reflexivity.
    inversion Hw as [|? ? Ha Hw1]; subst. inversion Hw1 as [|? ? Hb Hw2]; subst.
    unfold upper_bytes in *. cbn [map string_of_bytes unhex].
    rewrite !unhexdigit_upper by assumption. f_equal. apply IH; [cbn [length] in Hl; lia|exact Hw2].
Qed.
Theorem unhex_upper h : wfb h -> unhex (string_of_bytes (upper_bytes h)) = unhex (string_of_bytes h).
Proof. apply (unhex_upper_n (length h)). lia. Qed.

(* ---- names in the form UnpackDomainName produces ---- *)

Lemma next_byte_show_octet b r : b < 256 ->
  next_byte (show_octet b ++ r) = (b, length (show_octet b)).
Proof.
  intro Hb. unfold show_octet.
  destruct (label_special b) eqn:Hs.
  - cbn [app next_byte length]. rewrite N.eqb_refl.
    assert (Hd : is_digit b = false).
    { unfold label_special in Hs. unfold is_digit. lia. }
    unfold is_ddd. rewrite Hd. destruct r as [|? [|? ?]]; reflexivity.
  - destruct ((b <? 32) || (126 <? b)) eqn:Hn.
    + unfold ddd. cbn [app next_byte length]. rewrite N.eqb_refl. cbn [is_ddd ddd_to_byte].
      destruct (ddd_digits b Hb) as (H1 & H2 & H3). rewrite H1, H2, H3. cbn [andb].
      now rewrite ddd_value.
    + cbn [app next_byte length].
      replace (b =? 92) with false by (unfold label_special in Hs; lia). reflexivity.
Qed.

Lemma show_octet_not_dot b : b < 256 -> exists c r, show_octet b = c :: r /\ (c =? 46) = false.
Proof.
  intro Hb. unfold show_octet. destruct (label_special b) eqn:Hs; [exists 92, [b]; split; reflexivity|].
  destruct ((b <? 32) || (126 <? b)) eqn:Hn.
  - unfold ddd. eexists _, _. split; reflexivity.
  - exists b, []. split; [reflexivity|]. unfold label_special in Hs. lia.
Qed.

(* text made of canonically printed octets and separating dots *)
Inductive canon : bytes -> Prop :=
| canon_nil : canon []
| canon_dot r : canon r -> canon (46 :: r)
| canon_octet b r : b < 256 -> canon r -> canon (show_octet b ++ r).

Lemma canon_app a b : canon a -> canon b -> canon (a ++ b).
Proof.
  induction 1 as [|r _ IH|x r Hx _ IH]; intro Hb; [exact Hb| |].
  - cbn [app]. constructor. now apply IH.
  - rewrite <- app_assoc. constructor; [exact Hx|now apply IH].
Qed.
Lemma canon_label l : wfb l -> canon (show_label l).
Proof.
  unfold show_label. induction 1 as [|b l Hb _ IH]; [constructor|]. cbn [flat_map]. now constructor.
Qed.
Lemma canon_labels ls : Forall wfb ls -> canon (show_labels ls).
Proof.
  unfold show_labels. induction 1 as [|l ls Hl _ IH]; [constructor|]. cbn [flat_map].
  rewrite <- app_assoc. apply canon_app; [now apply canon_label|]. cbn [app]. now constructor.
Qed.
Lemma canon_name ls : Forall wfb ls -> canon (show_name ls).
Proof.
  intro H. unfold show_name. destruct ls; [repeat constructor|now apply canon_labels].
Qed.

(* the loop invariant on canonical text: the builder is either still empty or
   holds exactly the prefix consumed so far; the result is the whole text *)
Lemma sname_canon s : canon s -> forall fuel pre dst, (length s < fuel)%nat ->
  (dst = [] \/ dst = pre) -> sname_loop fuel pre s dst = pre ++ s.
Proof.
  induction 1 as [|r _ IH|b r Hb _ IH]; intros fuel pre dst Hf Hd.
  - destruct fuel; [lia|]. cbn [sname_loop]. rewrite app_nil_r.
    destruct Hd as [->| ->]; [reflexivity|]. destruct pre; reflexivity.
  - destruct fuel as [|f]; [lia|]. cbn [sname_loop]. rewrite N.eqb_refl.
    rewrite IH; [now rewrite <- app_assoc|cbn [length] in Hf; lia|].
    destruct Hd as [->| ->]; [now left|]. destruct pre; [now left|now right].
  - destruct fuel as [|f]; [lia|].
    destruct (show_octet_not_dot b Hb) as (c & r0 & Ec & Hc).
    pose proof (next_byte_show_octet b r Hb) as Hnb.
    rewrite app_length in Hf.
    rewrite Ec in Hnb, Hf |- *. cbn [app length] in Hnb, Hf |- *.
    cbn [sname_loop]. rewrite Hc, Hnb.
    change (c :: r0 ++ r) with ((c :: r0) ++ r).
    replace (S (length r0)) with (length (c :: r0)) by reflexivity.
    rewrite firstn_app_exact, skipn_app_exact. cbn [length].
    unfold show_octet in Ec.
    assert (Hcases : (dst = [] /\ True) \/ (dst = [] /\ pre = []) \/ (dst = pre /\ pre <> [])).
    { destruct Hd as [->| ->]; [now left|]. destruct pre; [right; left; auto|right; right; split; [reflexivity|discriminate]]. }
    destruct (label_special b) eqn:Hs; [|destruct ((b <? 32) || (126 <? b)) eqn:Hn].
    + injection Ec as <- <-.
      destruct Hcases as [[-> _]|[[-> ->]|[-> Hne]]]; cbn [is_nil app].
      * rewrite IH; [now rewrite <- app_assoc|cbn [length] in Hf; lia|now right].
      * rewrite IH; [reflexivity|cbn [length] in Hf; lia|now right].
      * destruct pre; [congruence|]. cbn [is_nil].
        rewrite IH; [now rewrite <- app_assoc|cbn [length] in Hf; lia|now right].
    + rewrite Ec.
      destruct Hcases as [[-> _]|[[-> ->]|[-> Hne]]]; cbn [is_nil app].
      * rewrite IH; [now rewrite <- app_assoc|lia|now right].
      * rewrite IH; [reflexivity|lia|now right].
      * destruct pre; [congruence|]. cbn [is_nil].
        rewrite IH; [now rewrite <- app_assoc|lia|now right].
    + injection Ec as <- <-.
      destruct Hcases as [[-> _]|[[-> ->]|[-> Hne]]]; cbn [is_nil app].
      * rewrite IH; [now rewrite <- app_assoc|cbn [length] in Hf; lia|now left].
      * rewrite IH; [reflexivity|cbn [length] in Hf; lia|now left].
      * destruct pre; [congruence|]. cbn [is_nil].
        rewrite IH; [now rewrite <- app_assoc|cbn [length] in Hf; lia|now right].
Qed.

(* sprintName leaves every name UnpackDomainName can produce unchanged *)
Theorem sprint_name_canonical ls : Forall wfb ls -> sprint_name (show_name ls) = show_name ls.
Proof.
  intro H. unfold sprint_name. rewrite sname_canon; [reflexivity|now apply canon_name|lia|now left].
Qed.

(* ... and such a name is one word for the lexer *)
Lemma wscan_app a : forall esc sp sp1 b, wscan esc sp a = Some sp1 -> wscan esc sp (a ++ b) = wscan false sp1 b.
Proof.
  induction a as [|x a IH]; intros esc sp sp1 b H.
  - cbn in H. destruct esc; [discriminate|]. now injection H as ->.
  - cbn [app wscan] in *. destruct esc.
    + destruct ((x =? 13) || (x =? 10)); [discriminate|].
      destruct (word_special x || (x =? 92)); now apply IH.
    + destruct (word_special x); [discriminate|]. destruct (x =? 92); now apply IH.
Qed.

Lemma wscan_show_octet b sp : b < 256 -> exists sp1, wscan false sp (show_octet b) = Some sp1.
Proof.
  intro Hb. unfold show_octet. destruct (label_special b) eqn:Hs.
  - cbn [wscan]. replace (word_special 92) with false by reflexivity. rewrite N.eqb_refl.
    replace ((b =? 13) || (b =? 10)) with false by (unfold label_special in Hs; lia).
    destruct (word_special b || (b =? 92)); eauto.
  - destruct ((b <? 32) || (126 <? b)) eqn:Hn.
    + unfold ddd. cbn [wscan]. replace (word_special 92) with false by reflexivity. rewrite N.eqb_refl.
      assert (b / 100 < 3 /\ (b / 10) mod 10 < 10 /\ b mod 10 < 10) as (A1 & A2 & A3) by lia.
      unfold word_special. kill_eqb. cbn [orb]. eauto.
    + cbn [wscan]. unfold word_special. unfold label_special in Hs. kill_eqb. cbn [orb]. eauto.
Qed.

Lemma wscan_canon s : canon s -> forall sp, exists sp1, wscan false sp s = Some sp1.
Proof.
  induction 1 as [|r _ IH|b r Hb _ IH]; intro sp.
  - cbn. eauto.
  - cbn [wscan]. replace (word_special 46) with false by reflexivity. replace (46 =? 92) with false by reflexivity.
    apply IH.
  - destruct (wscan_show_octet b sp Hb) as [sp1 E]. destruct (IH sp1) as [sp2 E2].
    exists sp2. now rewrite (wscan_app _ _ _ _ _ E).
Qed.

Theorem show_name_word_ok ls : Forall wfb ls -> word_ok (show_name ls) = true.
Proof.
  intro H. unfold word_ok, show_name. destruct ls as [|l ls]; [reflexivity|].
  (* the text ends with the dot of the last label *)
  assert (E : exists x, show_labels (l :: ls) = x ++ [46] /\ canon x).
  { clear -H. revert l H. induction ls as [|l2 ls IH]; intros l H.
    - inversion H; subst. exists (show_label l). unfold show_labels. cbn [flat_map]. rewrite app_nil_r.
      split; [reflexivity|now apply canon_label].
    - inversion H as [|? ? Hl Hr]; subst. destruct (IH l2 Hr) as (x & Ex & Cx).
      exists (show_label l ++ [46] ++ x). split.
      + unfold show_labels in *. cbn [flat_map] in *. rewrite Ex. now rewrite <- !app_assoc.
      + apply canon_app; [now apply canon_label|]. cbn [app]. now constructor. }
  destruct E as (x & -> & Cx). destruct (wscan_canon x Cx true) as [sp1 E1].
  rewrite (wscan_app _ _ _ _ _ E1). reflexivity.
Qed.

(* ---- sprintTxtOctet: the body is a good quoted string denoting the same octets ---- *)
Lemma stxo_spec fuel : forall s, (length s < fuel)%nat -> wfb s ->
  qbody_ok false (stxo_loop fuel s) = true /\ unescape (stxo_loop fuel s) = unescape s.
Proof.
  induction fuel as [|f IH]; intros s Hl Hw; [lia|].
  destruct s as [|a r]; [split; reflexivity|].
  inversion Hw as [|? ? Ha Hr]; subst.
  cbn [stxo_loop].
  (* the generic step, shared by both shapes *)
  assert (G : qbody_ok false (let '(b, n) := next_byte (a :: r) in
                              match n with O => stxo_loop f r | _ => write_txt_byte b ++ stxo_loop f (skipn n (a :: r)) end) = true /\
              unescape (let '(b, n) := next_byte (a :: r) in
                        match n with O => stxo_loop f r | _ => write_txt_byte b ++ stxo_loop f (skipn n (a :: r)) end)
              = unescape (a :: r)).
  { cbn [next_byte unescape]. destruct (a =? 92) eqn:Ea.
    - destruct r as [|d1 r1].
      + destruct f; split; reflexivity.
      + inversion Hr as [|? ? Hd1 Hr1]; subst.
        destruct r1 as [|d2 [|d3 r3]].
        * cbn [is_ddd skipn]. destruct (IH [] ltac:(cbn in *; lia) ltac:(constructor)) as [I1 I2].
          rewrite qbody_write, unescape_write by assumption. now rewrite I1, I2.
        * cbn [is_ddd skipn]. destruct (IH [d2] ltac:(cbn in *; lia) Hr1) as [I1 I2].
          rewrite qbody_write, unescape_write by assumption. now rewrite I1, I2.
        * cbn [is_ddd ddd_to_byte]. destruct (is_digit d1 && is_digit d2 && is_digit d3) eqn:Hd.
          -- cbn [skipn].
             assert (Hr3 : wfb r3) by (inversion Hr1 as [|? ? _ Hx]; subst; inversion Hx; subst; assumption).
             destruct (IH r3 ltac:(cbn [length] in *; lia) Hr3) as [I1 I2].
             rewrite qbody_write, unescape_write by lia. now rewrite I1, I2.
          -- cbn [skipn]. destruct (IH (d2 :: d3 :: r3) ltac:(cbn [length] in *; lia) Hr1) as [I1 I2].
             rewrite qbody_write, unescape_write by assumption. now rewrite I1, I2.
    - cbn [skipn]. destruct (IH r ltac:(cbn [length] in *; lia) Hr) as [I1 I2].
      rewrite qbody_write, unescape_write by assumption. now rewrite I1, I2. }
  destruct r as [|c r']; [exact G|].
  destruct ((a =? 92) && (c =? 46)) eqn:E; [|exact G].
  apply andb_prop in E. destruct E as [Ea Ec]. apply N.eqb_eq in Ea, Ec. subst a c.
  assert (Hr' : wfb r') by (inversion Hr; subst; assumption).
  destruct (IH r' ltac:(cbn [length] in *; lia) Hr') as [I1 I2]. split.
  - cbn [qbody_ok]. exact I1.
  - cbn [unescape]. rewrite N.eqb_refl.
    replace (is_digit 46) with false by reflexivity. cbn [andb].
    rewrite <- I2. destruct (stxo_loop f r') as [|? [|? ?]]; destruct r' as [|? [|? ?]]; reflexivity.
Qed.
