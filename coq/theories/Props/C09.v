(* Props/C09.v — property C09: Truncate keeps section prefixes and the OPT record,
   sets TC exactly when a record was dropped (or it was set), leaves fitting
   messages and TSIG-signed messages alone.  Only statements; proofs in
   Proofs/TruncateProofs.v.

   [truncate m size] models Msg.Truncate; [msg_len_with m None] is the
   uncompressed length Len() predicts; [pop_edns0] is the removal of the last OPT
   record of the additional section; [has_tsig] is IsTsig() != nil.
   The clause "the packed message fits in max(size, 512)" rests on C08's
   Len() >= len(Pack()) and is stated there (see docs). *)
From Dns Require Import Model.Truncate Proofs.TruncateProofs Gen.Consts.
Open Scope N_scope.

(* a message with a TSIG record is left untouched *)
Theorem tsig_message_untouched :
  forall (m : msg) (size : Z), has_tsig m = true -> truncate m size = m.
Proof. exact truncate_tsig. Qed.

(* a message that already fits (uncompressed) keeps all its records, its TC bit,
   and is marked as not needing compression *)
Theorem fitting_message_keeps_everything :
  forall (m : msg) (size : Z),
    has_tsig m = false ->
    (Z.of_N (msg_len_with m None) <= Z.max size (Z.of_N c_MinMsgSize))%Z ->
    truncate m size = set_sections m (m_tc m) false (m_answer m) (m_ns m) (m_extra m).
Proof. exact truncate_fits. Qed.

(* otherwise: each section keeps a prefix (na, nn, ne records) in the original
   order, the OPT record (if any) is re-appended, compression is switched on, TC
   is set exactly when it was set or some section lost a record, and nothing of a
   later section is kept once an earlier section lost a record *)
Theorem truncation_keeps_prefixes_sets_tc_and_drops_later_sections :
  forall (m : msg) (size : Z),
    has_tsig m = false ->
    (Z.max size (Z.of_N c_MinMsgSize) < Z.of_N (msg_len_with m None))%Z ->
    exists na nn ne,
      let extra := snd (pop_edns0 (m_extra m)) in
      let opt := fst (pop_edns0 (m_extra m)) in
      truncate m size =
        set_sections m (m_tc m || Nat.ltb na (length (m_answer m)) || Nat.ltb nn (length (m_ns m))
                        || Nat.ltb ne (length extra))
                     true (firstn na (m_answer m)) (firstn nn (m_ns m))
                     (firstn ne extra ++ match opt with Some o => [o] | None => [] end) /\
      (na <= length (m_answer m))%nat /\ (nn <= length (m_ns m))%nat /\ (ne <= length extra)%nat /\
      ((na < length (m_answer m))%nat -> nn = 0%nat /\ ne = 0%nat) /\
      ((nn < length (m_ns m))%nat -> ne = 0%nat).
Proof. exact truncate_drop. Qed.

(* the OPT record set aside is the last OPT of the additional section and the
   remaining records keep their order *)
Theorem opt_record_is_set_aside_in_order :
  forall ex : list rr,
    (pop_edns0 ex = (None, ex) /\ forallb (fun r => negb (is_opt r)) ex = true) \/
    (exists pre o post, ex = pre ++ o :: post /\ is_opt o = true /\
                        forallb (fun r => negb (is_opt r)) post = true /\
                        pop_edns0 ex = (Some o, pre ++ post)).
Proof. exact pop_edns0_spec. Qed.


(* ---------------- the truncated message fits ---------------- *)
(* (proofs in Proofs/TruncateFitProofs.v, on top of C08's Len() >= len(Pack()))

   [msg_len] is Msg.Len() under the message's own compression setting;
   [trunc_size size] = max(size, MinMsgSize);
   [set_aside m] is the OPT record popEdns0 removes, [set_aside_ok m] asks of it
   that its len() walks no name but the owner's (true of the kind OPT) and that
   the owner name has no label start that is a lone backslash (true of the root);
   [fixed_part m] is what Truncate cannot drop: header + question section
   (measured with the compression set, as Truncate does) + Len(OPT). *)
From Dns Require Import Proofs.LenFieldProofs Proofs.LenMsgProofs Proofs.LenCompressMsgProofs Proofs.TruncateFitProofs.
Open Scope list_scope.

(* the length truncateLoop accumulates IS the Len() of what Truncate leaves:
   same folds over the kept prefixes, same offsets, same suffix set; the OPT is
   budgeted by its uncompressed Len, which its Len at the real offset never
   exceeds.  Hence Len() of the result is at most max(size, 512) — or the fixed
   part, when that alone is larger *)
Theorem truncated_len_is_bounded :
  forall (m : msg) (size : Z),
    has_tsig m = false -> set_aside_ok m = true ->
    (Z.of_N (msg_len (truncate m size)) <= Z.max (trunc_size size) (fixed_part m))%Z.
Proof. exact truncate_len_bound. Qed.
Print Assumptions truncated_len_is_bounded.

Theorem truncated_len_fits :
  forall (m : msg) (size : Z),
    has_tsig m = false -> set_aside_ok m = true -> (fixed_part m <= trunc_size size)%Z ->
    (Z.of_N (msg_len (truncate m size)) <= trunc_size size)%Z.
Proof. exact truncate_len_fits. Qed.
Print Assumptions truncated_len_fits.

(* the clause of C09: the packed message fits in max(size, 512)
   ([msg_okb2]: see Props/C08.v) *)
Theorem truncated_message_fits_when_packed :
  forall (m : msg) (size : Z) (w : bytes),
    has_tsig m = false -> set_aside_ok m = true -> (fixed_part m <= trunc_size size)%Z ->
    msg_okb2 (truncate m size) = true -> pack_msg (truncate m size) = Ok w ->
    (Z.of_N (lenN w) <= trunc_size size)%Z.
Proof. exact truncated_message_fits. Qed.
Print Assumptions truncated_message_fits_when_packed.

Theorem truncated_message_is_bounded_when_packed :
  forall (m : msg) (size : Z) (w : bytes),
    has_tsig m = false -> set_aside_ok m = true ->
    msg_okb2 (truncate m size) = true -> pack_msg (truncate m size) = Ok w ->
    (Z.of_N (lenN w) <= Z.max (trunc_size size) (fixed_part m))%Z.
Proof. exact truncated_message_bound. Qed.
Print Assumptions truncated_message_is_bounded_when_packed.

(* the hypothesis on the fixed part cannot be dropped: a question plus an OPT
   record with 500 octets of padding is 544 octets; Truncate(512) removes every
   answer and the message still measures and packs to 544 *)
Theorem truncate_cannot_always_fit :
  has_tsig t_padded = false /\ set_aside_ok t_padded = true /\ msg_okb2 (truncate t_padded 512) = true /\
  m_answer (truncate t_padded 512) = [] /\ fixed_part t_padded = 544%Z /\
  msg_len (truncate t_padded 512) = 544 /\
  (exists w, pack_msg (truncate t_padded 512) = Ok w /\ lenN w = 544).
Proof. exact truncate_len_fits_refuted. Qed.
Print Assumptions truncate_cannot_always_fit.

(* nor the one on the OPT owner name: with a lone backslash after the last dot
   the compressed estimate of a name exceeds the plain one *)
Theorem compressed_name_estimate_can_exceed_plain :
  fst (domain_name_len [97; 46; 92] 0 (Some [[92]]) true) = 4 /\ name_est [97; 46; 92] = 3.
Proof. exact dnl_le_plain_refuted. Qed.
Print Assumptions compressed_name_estimate_can_exceed_plain.

(* non-vacuity: three 200-octet TXT answers and an OPT, Truncate(512): one answer
   is lost, TC is set, Len() drops from 722 to 474 and Pack gives 474 octets *)
Example ex_truncate_three_answers :
  has_tsig t_three = false /\ set_aside_ok t_three = true /\ (fixed_part t_three <= trunc_size 512)%Z /\
  msg_len t_three = 722 /\
  length (m_answer (truncate t_three 512)) = 2%nat /\ length (m_extra (truncate t_three 512)) = 1%nat /\
  m_tc (truncate t_three 512) = true /\ msg_len (truncate t_three 512) = 474 /\
  msg_okb2 (truncate t_three 512) = true /\
  (exists w, pack_msg (truncate t_three 512) = Ok w /\ lenN w = 474).
Proof. exact t_three_facts. Qed.


(* ---------------- the first dropped record would not have fitted ---------------- *)
(* (proofs in Proofs/TruncateTightProofs.v)

   [step_r a r] is one step of Msg.Len over a record: a = (offset, suffix set);
   [run rrs j a] = the state of Msg.Len after the first j records of rrs;
   [questions_len qs] = that state after header and question section;
   [all_len m an ns ex] = the running length after header, questions of m and the
   records an, ns, ex;  [rest_extra m] = the additional section without the OPT
   that was set aside;  [trunc_budget m size] = max(size, 512) - Len(OPT);
   [set_aside_exact m]: the OPT record set aside (if any) is owned by the root
   and its len() walks no other name, so it measures Len(OPT) wherever it stands;
   [next_dropped m size] = the message Truncate leaves with one more record, the
   first one it dropped, put back in its place (None when nothing was dropped). *)
From Dns Require Import Proofs.LenRRProofs Proofs.LenCompressProofs Proofs.TruncateTightProofs.
Open Scope list_scope.
Open Scope N_scope.

(* the counting form on truncateLoop: with j records kept, the running length
   after each of the first j - 1 was strictly below size, and exactly one of
   (over)  record j exists and the running length INCLUDING it (same offsets
           and suffix set as Msg.Len) exceeds size: no slack, no off-by-one;
   (equal) the running length including record j - 1 is exactly size and that
           record IS kept;
   (end)   every record is kept and the running length is returned *)
Theorem truncate_loop_stops_exactly :
  forall (rrs : list rr) (size : Z) (L : N) (c : option lset) (i : nat) (l' : Z) (k : nat) (c' : option lset),
    truncate_loop rrs size (Z.of_N L) c i = (l', k, c') ->
    exists j, k = (i + j)%nat /\ (j <= length rrs)%nat /\
      (forall j', (0 < j' < j)%nat -> (Z.of_N (fst (run rrs j' (L, c))) < size)%Z) /\
      ( ((j < length rrs)%nat /\ ((0 < j)%nat -> (Z.of_N (fst (run rrs j (L, c))) < size)%Z) /\
         (size < Z.of_N (fst (run rrs (S j) (L, c))))%Z /\ l' = size /\ c' = snd (run rrs (S j) (L, c)))
      \/ ((0 < j)%nat /\ Z.of_N (fst (run rrs j (L, c))) = size /\ l' = size /\ c' = snd (run rrs j (L, c)))
      \/ (j = length rrs /\ ((0 < j)%nat -> (Z.of_N (fst (run rrs j (L, c))) < size)%Z) /\
          l' = Z.of_N (fst (run rrs j (L, c))) /\ c' = snd (run rrs j (L, c))) ).
Proof. exact truncate_loop_stop. Qed.
Print Assumptions truncate_loop_stops_exactly.

(* every record adds to the running length (its header alone is 11 octets), so
   after an exact stop no further record fits *)
Theorem every_record_adds_to_the_running_length :
  forall (r : rr) (L : N) (c : option lset), 10 < fst (len_rr r L c).
Proof. exact len_rr_pos. Qed.
Print Assumptions every_record_adds_to_the_running_length.

(* through the three sections, for ANY message without TSIG that does not fit
   uncompressed: in the first section that loses a record (all earlier sections
   are kept whole, all later ones emptied), the running length of Msg.Len over
   header, questions, the kept records and the first dropped record exceeds the
   budget max(size, 512) - Len(OPT) *)
Theorem first_dropped_record_exceeds_the_budget :
  forall (m : msg) (size : Z),
    has_tsig m = false -> (trunc_size size < Z.of_N (msg_len_with m None))%Z ->
    let t := truncate m size in
    exists na nn ne,
      t = set_sections m (m_tc t) true (firstn na (m_answer m)) (firstn nn (m_ns m))
                       (firstn ne (rest_extra m) ++ opt_list (set_aside m)) /\
      (na <= length (m_answer m))%nat /\ (nn <= length (m_ns m))%nat /\ (ne <= length (rest_extra m))%nat /\
      ((na < length (m_answer m))%nat ->
         nn = 0%nat /\ ne = 0%nat /\
         (trunc_budget m size < Z.of_N (all_len m (firstn (S na) (m_answer m)) [] []))%Z) /\
      (na = length (m_answer m) -> (nn < length (m_ns m))%nat ->
         ne = 0%nat /\
         (trunc_budget m size < Z.of_N (all_len m (m_answer m) (firstn (S nn) (m_ns m)) []))%Z) /\
      (na = length (m_answer m) -> nn = length (m_ns m) -> (ne < length (rest_extra m))%nat ->
         (trunc_budget m size < Z.of_N (all_len m (m_answer m) (m_ns m) (firstn (S ne) (rest_extra m))))%Z).
Proof. exact first_dropped_over_budget. Qed.
Print Assumptions first_dropped_record_exceeds_the_budget.

(* the clause of C09 on Len(): the message made of the kept records, the first
   dropped record and the OPT record measures more than max(size, 512).  No
   restriction on the content of the records: only the OPT must be a real one *)
Theorem first_dropped_record_would_not_have_fitted :
  forall (m : msg) (size : Z) (m' : msg),
    has_tsig m = false -> set_aside_exact m = true -> next_dropped m size = Some m' ->
    (trunc_size size < Z.of_N (msg_len m'))%Z.
Proof. exact first_dropped_does_not_fit. Qed.
Print Assumptions first_dropped_record_would_not_have_fitted.

(* [next_dropped] is defined whenever a record was dropped *)
Theorem no_first_dropped_record_only_if_nothing_dropped :
  forall (m : msg) (size : Z),
    has_tsig m = false -> next_dropped m size = None ->
    m_answer (truncate m size) = m_answer m /\ m_ns (truncate m size) = m_ns m /\
    length (m_extra (truncate m size)) = length (m_extra m).
Proof. exact next_dropped_none. Qed.
Print Assumptions no_first_dropped_record_only_if_nothing_dropped.

(* ---- Len() is exact WITH compression (C08 proves exactness without, and
   Len() >= len(Pack()) with) ----
   [q_plain], [rr_plain], [msg_okb]: see Props/C08.v.
   [kind_cexact k]: the pack() and len() sequences of kind k align exactly (as
   C08's kind_exact) and, besides, no constant counted by len() is still
   unwritten when a name is reached, so the name is measured at the offset it is
   written at; [rr_cplain r] = rr_plain r && kind_cexact (rr_kind r);
   [opt_plain r]: an OPT record owned by the root whose options have the length
   their own len() reports; [rr_cok r] = rr_cplain r || opt_plain r;
   [msg_cplain m]: escape-free non-empty question names and every record rr_cok.
   The invariant behind it: the packer's compression map and the length walk's
   suffix set hold the same keys, at equal offsets (C08 has one inclusion). *)
Theorem the_sixteen_common_kinds_are_exact_with_compression : forallb kind_cexact exact_kinds = true.
Proof. exact exact_kinds_cexact. Qed.
Print Assumptions the_sixteen_common_kinds_are_exact_with_compression.

(* one escape-free, non-empty name, packed and measured at the same offset with
   equal key sets [Je cm ls P]: domainNameLen is exactly what packDomainName
   writes, and the key sets stay equal *)
Theorem compressed_name_len_is_exact :
  forall (s : bytes) (cap : N) (cp : bool) (st : pn_state) (cm : cmap) (ls : lset) (n : N)
         (c' : option lset) (st' : pn_state),
    has_backslash s = false -> s <> [] -> pn_cm st = Some cm -> Je cm ls (poff st) ->
    pack_name s cap cp st = Ok st' ->
    domain_name_len s (poff st) (Some ls) cp = (n, c') ->
    exists cm' ls', pn_cm st' = Some cm' /\ c' = Some ls' /\ poff st' = poff st + n /\ Je cm' ls' (poff st').
Proof. exact name_joint_eq. Qed.
Print Assumptions compressed_name_len_is_exact.

Theorem msg_len_is_exact_with_compression :
  forall (m : msg) (w : bytes),
    msg_cplain m = true -> msg_okb m = true -> msg_compress m = true -> pack_msg m = Ok w ->
    lenN w = msg_len m.
Proof. exact msg_len_exact_compressed. Qed.
Print Assumptions msg_len_is_exact_with_compression.

(* the clause of C09 on the packed octets: for an escape-free message of the
   common types, the records Truncate kept, the first record it dropped and the
   OPT record do not pack into max(size, 512) octets *)
Theorem first_dropped_record_would_not_have_fitted_when_packed :
  forall (m : msg) (size : Z) (m' : msg) (w : bytes),
    has_tsig m = false -> set_aside_exact m = true -> msg_cplain m = true -> msg_okb m = true ->
    next_dropped m size = Some m' -> pack_msg m' = Ok w ->
    (trunc_size size < Z.of_N (lenN w))%Z.
Proof. exact first_dropped_does_not_fit_packed_plain. Qed.
Print Assumptions first_dropped_record_would_not_have_fitted_when_packed.

(* the same for any message, given exactness of Len() for the message with the
   first dropped record: [len_exact_compressed m'] :=
     forall w, pack_msg m' = Ok w -> lenN w = msg_len m' *)
Theorem first_dropped_record_would_not_have_fitted_when_packed_given_exactness :
  forall (m : msg) (size : Z) (m' : msg) (w : bytes),
    has_tsig m = false -> set_aside_exact m = true -> next_dropped m size = Some m' ->
    len_exact_compressed m' -> pack_msg m' = Ok w ->
    (trunc_size size < Z.of_N (lenN w))%Z.
Proof. exact first_dropped_does_not_fit_packed. Qed.
Print Assumptions first_dropped_record_would_not_have_fitted_when_packed_given_exactness.

(* the hypothesis on the OPT cannot be dropped: an OPT record owned by
   example.org. is budgeted at its uncompressed Len (23) but takes 12 octets;
   Truncate(512) drops the third answer although the message with it measures
   and packs to 511 octets *)
Theorem a_compressible_opt_owner_leaves_slack :
  has_tsig t_named = false /\ set_aside_ok t_named = true /\ set_aside_exact t_named = false /\
  msg_okb2 t_named = true /\
  length (m_answer (truncate t_named 512)) = 2%nat /\
  next_dropped t_named 512 = Some t_named_next /\
  m_answer t_named_next = m_answer t_named /\ m_extra t_named_next = m_extra t_named /\
  msg_len t_named_next = 511 /\ packed_len t_named_next = Some 511 /\ trunc_size 512 = 512%Z.
Proof. exact first_dropped_does_not_fit_refuted. Qed.
Print Assumptions a_compressible_opt_owner_leaves_slack.

(* the clause holds of the FIRST dropped record only: (a) a later, smaller
   record of the same section and (b) a record of a later section are dropped
   although the kept records, that record and the OPT take 494 <= 512 octets *)
Theorem later_dropped_records_may_have_fitted :
  (has_tsig t_four = false /\ set_aside_exact t_four = true /\
   length (m_answer (truncate t_four 512)) = 2%nat /\
   msg_len t_four_alt = 494 /\ packed_len t_four_alt = Some 494) /\
  (has_tsig t_later = false /\ set_aside_exact t_later = true /\
   length (m_answer (truncate t_later 512)) = 2%nat /\ m_extra (truncate t_later 512) = [t_opt 0] /\
   msg_len t_later_alt = 494 /\ packed_len t_later_alt = Some 494).
Proof. exact every_dropped_record_does_not_fit_refuted. Qed.
Print Assumptions later_dropped_records_may_have_fitted.

(* non-vacuity: three 200-octet TXT answers and an OPT, Truncate(512): the third
   answer is dropped; put back, the message measures and packs to 689 > 512;
   Len() is exact for that message *)
Example ex_first_dropped_three_answers :
  has_tsig t_three = false /\ set_aside_exact t_three = true /\
  next_dropped t_three 512 = Some t_three_next /\
  length (m_answer (truncate t_three 512)) = 2%nat /\
  m_answer t_three_next = m_answer t_three /\ m_extra t_three_next = m_extra t_three /\
  msg_len t_three_next = 689 /\ packed_len t_three_next = Some 689 /\
  trunc_budget t_three 512 = 497%Z.
Proof. exact t_three_next_facts. Qed.
Example ex_len_exact_compressed_instance : len_exact_compressed t_three_next.
Proof. exact t_three_next_exact. Qed.
(* the early stop at l = size: two answers and the OPT are exactly 512 octets, the
   second answer is kept, the third is never measured and would not have fitted *)
Example ex_exact_stop :
  has_tsig t_exact = false /\ set_aside_exact t_exact = true /\
  msg_len (truncate t_exact 512) = 512 /\ packed_len (truncate t_exact 512) = Some 512 /\
  length (m_answer (truncate t_exact 512)) = 2%nat /\
  next_dropped t_exact 512 = Some t_exact_next /\
  msg_len t_exact_next = 727 /\ packed_len t_exact_next = Some 727.
Proof. exact t_exact_facts. Qed.
Example ex_len_exact_compressed_instance2 : len_exact_compressed t_exact_next.
Proof. exact t_exact_next_exact. Qed.
(* the hypotheses of the packed form are satisfiable: they hold of the two
   messages above, and of a reply whose names share suffixes all over (MX, SRV,
   NS, A, TXT, OPT with padding): Len() = len(Pack()) = 639 with compression
   against 791 without; Truncate(512) drops only the last TXT record and leaves
   422 octets; with that record back the message packs to 639 > 512 *)
Example ex_plain_hypotheses :
  msg_cplain t_three = true /\ msg_okb t_three = true /\ msg_cplain t_exact = true /\ msg_okb t_exact = true.
Proof. exact t_three_plain. Qed.
Example ex_mixed_reply :
  has_tsig t_mixed = false /\ set_aside_exact t_mixed = true /\ msg_cplain t_mixed = true /\ msg_okb t_mixed = true /\
  msg_compress t_mixed = true /\ msg_len t_mixed = 639 /\ msg_len_with t_mixed None = 791 /\
  packed_len t_mixed = Some 639 /\
  msg_len (truncate t_mixed 512) = 422 /\ packed_len (truncate t_mixed 512) = Some 422 /\
  length (m_answer (truncate t_mixed 512)) = 3%nat /\ length (m_ns (truncate t_mixed 512)) = 2%nat /\
  length (m_extra (truncate t_mixed 512)) = 4%nat /\
  next_dropped t_mixed 512 = Some t_mixed_next /\ length (m_extra t_mixed_next) = 5%nat /\
  msg_len t_mixed_next = 639 /\ packed_len t_mixed_next = Some 639.
Proof. exact t_mixed_facts. Qed.
