(* Proofs/CompressRoundtripProofs.v — value -> wire -> value WITH a compression
   map: the field, field-sequence and record round trips of
   Proofs/RoundtripFieldProofs.v / RoundtripRRProofs.v redone for a packer state
   that carries a compression map.

   Octets written for names now depend on the map and decode through pointers
   into earlier octets, so the decoding facts are stated for every buffer
   content [pre] of the right length in which the map entries are laid
   (cm_laid), as in Proofs/CompressProofs.v.  Fields that are not names write the
   same octets as without a map; their decoding facts are taken from the
   uncompressed round trip, which is why the statements are about two runs: the
   run with the map (c) and a run of the same values without one (u). *)
From Dns Require Import Gen.Layouts.
From Dns Require Import Base.ListX Model.Msg Spec.NameSpec Proofs.EscapeProofs Proofs.LabelsProofs Proofs.NameWireProofs
  Proofs.NameRoundtripProofs Proofs.LayoutProofs Proofs.DecodeFieldsProofs
  Proofs.RoundtripFieldProofs Proofs.RoundtripRRProofs
  Proofs.CompressProofs Proofs.CompressFieldsProofs Proofs.CompressMsgProofs.
From Coq Require Import Lia ZifyN ZifyNat ZifyBool.
Open Scope list_scope.
Open Scope N_scope.

(* ================= names ================= *)
Lemma show_name_nonempty ls : show_name ls <> [].
Proof.
  unfold show_name. destruct ls as [|l ls]; [discriminate|]. apply show_labels_nonempty.
Qed.

Lemma cname_roundtrip ls cap cp st st' :
  valid_wire ls = true -> opt_all cm_keys (pn_cm st) ->
  pack_name (show_name ls) cap cp st = Ok st' ->
  exists b, b <> [] /\ pn_out st' = pn_out st ++ b /\ opt_all cm_keys (pn_cm st') /\
    (pn_cm st = None -> pn_cm st' = None) /\
    forall pre post, lenN pre = lenN (pn_out st) -> opt_all (cm_laid pre) (pn_cm st) ->
      unpack_name (pre ++ b ++ post) (lenN pre) = Ok (show_name ls, lenN pre + lenN b) /\
      opt_all (cm_laid (pre ++ b)) (pn_cm st').
Proof.
  intros Hv Hk H.
  destruct (pack_name_step _ _ _ _ _ (show_name_nonempty ls) Hk H)
    as [ls' [b [Hp [Hlen [Hout [_ [Hk' [Hn [Hb Hc]]]]]]]]].
  rewrite (parse_show_name ls Hv) in Hp. injection Hp as <-.
  exists b. split.
  { destruct Hb as [->|[ls1 [lsT [q [k [cm [_ [_ [-> _]]]]]]]]].
    - apply wire_name_nonempty.
    - unfold u16. intro E. apply app_eq_nil in E. destruct E; discriminate. }
  split; [exact Hout|]. split; [exact Hk'|]. split; [exact Hn|].
  intros pre post Hpre Hl. destruct (Hc pre Hpre Hl) as [[h Hlay] Hl']. split; [|exact Hl'].
  apply (laysn_app _ _ _ _ _ post) in Hlay. rewrite <- app_assoc in Hlay.
  exact (lays_unpack_labels _ _ _ _ _ Hlay Hlen).
Qed.

Lemma cnames_roundtrip lss : forall cap cp st st',
  Forall (fun ls => valid_wire ls = true) lss -> opt_all cm_keys (pn_cm st) ->
  pack_names (map show_name lss) cap cp st = Ok st' ->
  exists b, pn_out st' = pn_out st ++ b /\ opt_all cm_keys (pn_cm st') /\
    (pn_cm st = None -> pn_cm st' = None) /\
    (b = [] -> lss = []) /\ (length lss <= length b)%nat /\
    forall pre fuel acc, lenN pre = lenN (pn_out st) -> opt_all (cm_laid pre) (pn_cm st) ->
      (length lss < fuel)%nat ->
      loop unpack_name (pre ++ b) fuel (lenN pre) acc =
        Ok (acc ++ map show_name lss, lenN pre + lenN b) /\
      opt_all (cm_laid (pre ++ b)) (pn_cm st').
Proof.
  induction lss as [|ls lss IH]; intros cap cp st st' Hv Hk H.
  - cbn in H. injection H as <-. exists []. split; [now rewrite app_nil_r|]. split; [exact Hk|].
    split; [auto|]. split; [auto|]. split; [cbn; lia|].
    intros pre fuel acc _ Hl Hf. rewrite !app_nil_r. split; [|exact Hl].
    destruct fuel as [|f]; [cbn in Hf; lia|]. cbn [loop map].
    bfalse (lenN pre <? lenN pre). rewrite lenN_nil. f_equal. f_equal. lia.
  - inversion Hv as [|? ? Hls Hv']; subst. cbn [map pack_names] in H. inv_bind H.
    destruct (cname_roundtrip ls cap cp st a Hls Hk Ha) as [b1 [Hne [E1 [Hk1 [Hn1 C1]]]]].
    destruct (IH cap cp a st' Hv' Hk1 H) as [b2 [E2 [Hk2 [Hn2 [_ [Hlen2 C2]]]]]].
    exists (b1 ++ b2). split; [now rewrite E2, E1, app_assoc|]. split; [exact Hk2|].
    split; [auto|]. split. { intro E. apply app_eq_nil in E. destruct E. congruence. }
    split. { rewrite app_length. cbn [length]. destruct b1; [congruence|]. cbn [length]. lia. }
    intros pre fuel acc Hpre Hl Hf.
    destruct fuel as [|f]; [cbn in Hf; lia|]. cbn [loop map].
    assert (Hpos : 1 <= lenN b1). { destruct b1; [congruence|]. rewrite lenN_cons. lia. }
    rewrite !lenN_app. btrue (lenN pre <? lenN pre + (lenN b1 + lenN b2)).
    destruct (C1 pre b2 Hpre Hl) as [Hu Hl1]. rewrite Hu. cbn [bind fst snd].
    assert (Hpre2 : lenN (pre ++ b1) = lenN (pn_out a)) by (rewrite E1, !lenN_app, Hpre; reflexivity).
    destruct (C2 (pre ++ b1) f (acc ++ [show_name ls]) Hpre2 Hl1 ltac:(cbn [length] in Hf; lia)) as [Hloop Hl2].
    rewrite (app_assoc pre b1 b2). split; [|exact Hl2].
    replace (lenN pre + lenN b1) with (lenN (pre ++ b1)) by apply lenN_app.
    rewrite Hloop. rewrite <- app_assoc. cbn [app]. f_equal. f_equal. rewrite lenN_app. lia.
Qed.

(* ================= one field ================= *)
Definition cfield_post (v : rdata) (f : string) (k k' : fkind) (stc stc' : pn_state) (outu : bytes)
  (stu' : pn_state) : Prop :=
  exists b bu vals,
    pn_out stc' = pn_out stc ++ b /\ stu' = st0 (outu ++ bu) /\
    opt_all cm_keys (pn_cm stc') /\
    Forall2 (fun g y => vget v g = Some y) (knames f k) vals /\
    (b = [] -> Forall (fun g => vget v g = Some (kzero k g)) (knames f k)) /\
    forall pre post got,
      lenN pre = lenN (pn_out stc) -> opt_all (cm_laid pre) (pn_cm stc) ->
      (to_end k = true -> post = []) ->
      (forall s, depends_on k = Some s -> vget_n got s = vget_n v s) ->
      unpack_field got k' (pre ++ b ++ post) (lenN pre) = Ok (vals, lenN pre + lenN b) /\
      opt_all (cm_laid (pre ++ b)) (pn_cm stc').

(* a field whose pack statement only appends value-determined octets *)
Lemma cfield_of_emits v f k k' F capc stc stc' capu outu stu' :
  emits F -> (forall cap st, pack_field v f k cap st = F cap st) ->
  kind_agree k k' = true -> field_canon v f k -> opt_all cm_keys (pn_cm stc) ->
  pack_field v f k capc stc = Ok stc' -> pack_field v f k capu (st0 outu) = Ok stu' ->
  cfield_post v f k k' stc stc' outu stu'.
Proof.
  intros HF HE Ha Hc Hk Hpc Hpu.
  destruct (field_roundtrip_gen v f k k' capu outu stu' Ha Hc Hpu) as [bu [vals [Eu [Hvals [Hz Hun]]]]].
  rewrite HE in Hpc, Hpu. destruct (HF capc stc stc' Hpc) as [b [-> K]].
  pose proof (K _ _ _ Hpu) as E. rewrite Eu, pemit_st0 in E. injection E as E. apply app_inv_head in E. subst bu.
  exists b, b, vals. split; [reflexivity|]. split; [exact Eu|]. split; [exact Hk|].
  split; [exact Hvals|]. split; [exact Hz|].
  intros pre post got _ Hl Hpost Hdep. split; [now apply Hun|]. cbn [pemit pn_cm]. now apply opt_cm_laid_app.
Qed.

Lemma cfield_roundtrip v f k k' capc stc stc' capu outu stu' :
  kind_agree k k' = true -> field_canon v f k -> opt_all cm_keys (pn_cm stc) ->
  pack_field v f k capc stc = Ok stc' -> pack_field v f k capu (st0 outu) = Ok stu' ->
  cfield_post v f k k' stc stc' outu stu'.
Proof.
  intros Ha Hc Hk Hpc Hpu.
  destruct (name_kind k) eqn:Hnk.
  2:{ apply (cfield_of_emits v f k k' (pack_field v f k) capc stc stc' capu outu stu'); auto.
      now apply emits_field. }
  destruct (field_roundtrip_gen v f k k' capu outu stu' Ha Hc Hpu) as [bu [_ [Eu _]]].
  destruct k; try discriminate Hnk.
  - (* one name *)
    destruct k'; cbn [kind_agree] in Ha; try discriminate Ha.
    cbn [field_canon canon] in Hc. destruct Hc as [x [Hv [ls [-> Hls]]]].
    cbn [pack_field] in Hpc. rewrite Hv in Hpc. cbn [as_s] in Hpc.
    destruct (cname_roundtrip ls capc compress stc stc' Hls Hk Hpc) as [b [Hne [E [Hk' [_ C]]]]].
    exists b, bu, [V_s (show_name ls)]. split; [exact E|]. split; [exact Eu|]. split; [exact Hk'|].
    split; [repeat constructor; exact Hv|]. split; [congruence|].
    intros pre post got Hpre Hl _ _. destruct (C pre post Hpre Hl) as [Hu Hl']. split; [|exact Hl'].
    cbn [unpack_field]. cbv zeta. rewrite Hu. reflexivity.
  - (* a list of names, to the end of the RDATA *)
    destruct k'; cbn [kind_agree] in Ha; try discriminate Ha.
    cbn [field_canon canon] in Hc. destruct Hc as [x [Hv [lss [-> Hlss]]]].
    cbn [pack_field] in Hpc. rewrite Hv in Hpc. cbn [as_ss] in Hpc.
    destruct (cnames_roundtrip lss capc compress stc stc' Hlss Hk Hpc) as [b [E [Hk' [_ [Hz [Hlen C]]]]]].
    exists b, bu, [V_ss (map show_name lss)]. split; [exact E|]. split; [exact Eu|]. split; [exact Hk'|].
    split; [repeat constructor; exact Hv|].
    split. { intro Eb. rewrite (Hz Eb) in Hv. repeat constructor. exact Hv. }
    intros pre post got Hpre Hl Hpost _. rewrite (Hpost eq_refl), app_nil_r.
    destruct (C pre (S (length (pre ++ b))) [] Hpre Hl) as [Hu Hl'].
    { rewrite app_length. lia. }
    split; [|exact Hl'].
    cbn [unpack_field]. cbv zeta. unfold unpack_names. rewrite unpack_names_is_loop, Hu. reflexivity.
  - (* the gateway union *)
    destruct k'; cbn [kind_agree] in Ha; try discriminate Ha.
    pose proof Ha as Ha0.
    repeat (apply andb_prop in Ha; destruct Ha as [Ha ?]).
    repeat match goal with H : String.eqb _ _ = true |- _ => apply String.eqb_eq in H end.
    match goal with H : (_ =? _) = true |- _ => apply N.eqb_eq in H end. revert Eu. subst. intro Eu.
    pose proof Hc as Hc0. cbn [field_canon] in Hc. destruct Hc as [Hne [a [h [Hva [Hvh Hg]]]]].
    destruct Hg as [[Ety [Hl ->]]|[[Ety [Hl ->]]|[[Ety [-> [ls [-> Hls]]]]|[N1 [N2 [N3 [-> ->]]]]]]].
    + apply (cfield_of_emits v f _ _ (pack_a (as_b (vget v addrf0))) capc stc stc' capu outu stu'); auto.
      * apply emits_a.
      * intros cap st. cbn [pack_field]. rewrite Ety. reflexivity.
    + apply (cfield_of_emits v f _ _ (pack_aaaa (as_b (vget v addrf0))) capc stc stc' capu outu stu'); auto.
      * apply emits_aaaa.
      * intros cap st. cbn [pack_field]. rewrite Ety. reflexivity.
    + cbn [pack_field] in Hpc. rewrite Ety, Hvh in Hpc. cbn [N.eqb gw_v4 gw_v6 gw_host Pos.eqb as_s] in Hpc.
      destruct (cname_roundtrip ls capc compress stc stc' Hls Hk Hpc) as [b [Hneb [E [Hk' [_ C]]]]].
      exists b, bu, [V_b []; V_s (show_name ls)]. split; [exact E|]. split; [exact Eu|]. split; [exact Hk'|].
      cbn [knames kzero depends_on to_end].
      split; [repeat constructor; assumption|]. split; [congruence|].
      intros pre post got Hpre Hlaid _ Hdep. destruct (C pre post Hpre Hlaid) as [Hu Hl']. split; [|exact Hl'].
      cbn [unpack_field]. rewrite (Hdep _ eq_refl), Ety. cbn [N.eqb gw_v4 gw_v6 gw_host Pos.eqb].
      rewrite Hu. reflexivity.
    + apply (cfield_of_emits v f _ _ (fun _ st => Ok st) capc stc stc' capu outu stu'); auto.
      * apply emits_ret.
      * intros cap st. cbn [pack_field].
        replace (N.land (vget_n v tyf0) mask0 =? gw_v4) with false by lia.
        replace (N.land (vget_n v tyf0) mask0 =? gw_v6) with false by lia.
        replace (N.land (vget_n v tyf0) mask0 =? gw_host) with false by lia. reflexivity.
Qed.

(* ================= a field sequence ================= *)
Lemma cfields_roundtrip v ps : forall us seen got capc stc stc' capu outu stu',
  sides_agree ps us = true -> layout_ok seen ps = true ->
  fields_canon v ps -> got_inv v seen got -> opt_all cm_keys (pn_cm stc) ->
  pack_fields v ps capc stc = Ok stc' -> pack_fields v ps capu (st0 outu) = Ok stu' ->
  exists b ext, pn_out stc' = pn_out stc ++ b /\ opt_all cm_keys (pn_cm stc') /\
    (b = [] -> all_zero ps v) /\ (ps = [] -> b = []) /\ all_same ps (got ++ ext) v /\
    forall pre, lenN pre = lenN (pn_out stc) -> opt_all (cm_laid pre) (pn_cm stc) ->
      unpack_fields us got (pre ++ b) (lenN pre) = Ok (got ++ ext, lenN pre + lenN b) /\
      opt_all (cm_laid (pre ++ b)) (pn_cm stc').
Proof.
  induction ps as [|[f k] ps IH]; intros us seen got capc stc stc' capu outu stu' Hs Hl Hc Hi Hk Hpc Hpu.
  - destruct us; [|discriminate]. cbn in Hpc. injection Hpc as <-.
    exists [], []. rewrite !app_nil_r. split; [reflexivity|]. split; [exact Hk|].
    split; [intros _; constructor|]. split; [reflexivity|]. split; [constructor|].
    intros pre _ Hlaid. rewrite app_nil_r. cbn [unpack_fields]. split; [|exact Hlaid].
    f_equal. f_equal. rewrite lenN_nil. lia.
  - destruct us as [|u us]; [discriminate|]. cbn [sides_agree] in Hs.
    apply andb_prop in Hs. destruct Hs as [Hs Hs']. apply andb_prop in Hs. destruct Hs as [Hname Hka].
    apply String.eqb_eq in Hname.
    cbn [layout_ok] in Hl. apply andb_prop in Hl. destruct Hl as [Hl Hl'].
    apply andb_prop in Hl. destruct Hl as [Hl Hlast]. apply andb_prop in Hl. destruct Hl as [Hl Hsz].
    apply andb_prop in Hl. destruct Hl as [Hfresh Hdist].
    set (names := knames f k) in *.
    assert (Hnf : forall g, In g names -> ~ In g seen).
    { intros g Hg. rewrite forallb_forall in Hfresh. specialize (Hfresh g Hg).
      apply existsb_eqb_notin. now destruct (existsb _ seen). }
    pose proof (Forall_inv_tail Hc) as Hc'. apply Forall_inv in Hc. cbn [fst snd] in Hc.
    cbn [pack_fields] in Hpc, Hpu. inv_bind Hpc. inv_bind Hpu. rename a into c1. rename a0 into u1.
    destruct (cfield_roundtrip v f k (uf_kind u) capc stc c1 capu outu u1 Hka Hc Hk Ha Ha0)
      as [b1 [bu1 [vals [E1 [Eu1 [Hk1 [Hvals [Hz Hu]]]]]]]].
    fold names in Hvals, Hz. subst u1.
    assert (Hi' : got_inv v (names ++ seen) (got ++ combine names vals)).
    { apply got_inv_extend; try assumption. apply names_distinct_nodup, Hdist. }
    destruct (IH us (names ++ seen) (got ++ combine names vals) capc c1 stc' capu (outu ++ bu1) stu'
                 Hs' Hl' Hc' Hi' Hk1 Hpc Hpu)
      as [b2 [ext [E2 [Hk2 [Hz2 [Hnil [Hsame Hun]]]]]]].
    assert (Hpost : to_end k = true -> b2 = []).
    { intro Ht. destruct ps; [now apply Hnil|]. rewrite Ht in Hlast. discriminate. }
    assert (Hdep : forall s, depends_on k = Some s -> vget_n got s = vget_n v s).
    { intros s Es. rewrite Es in Hsz. apply existsb_eqb_in in Hsz. destruct Hi as [Hi1 _].
      apply vget_n_eq, Hi1, Hsz. }
    assert (Hzero : b1 ++ b2 = [] -> all_zero ((f, k) :: ps) v).
    { intro E. apply app_eq_nil in E. destruct E as [Eb1 Eb2]. constructor; [|now apply Hz2].
      cbn [fst snd]. now apply Hz. }
    assert (Hthis : forall ext', same_fields k names ((got ++ combine names vals) ++ ext') v).
    { intro ext'. unfold same_fields. rewrite Forall_forall. intros g Hg. left.
      destruct Hi' as [Hi'1 _]. destruct (Hi'1 g) as [y [Hy1 Hy2]]; [apply in_app_iff; now left|].
      now rewrite vget_app, Hy2, Hy1. }
    assert (Hstep : forall pre, lenN pre = lenN (pn_out stc) -> opt_all (cm_laid pre) (pn_cm stc) ->
      unpack_fields (u :: us) got (pre ++ b1 ++ b2) (lenN pre) =
      (if uf_exit u && (lenN pre + lenN b1 =? lenN (pre ++ b1 ++ b2))
       then Ok (got ++ combine names vals, lenN pre + lenN b1)
       else unpack_fields us (got ++ combine names vals) (pre ++ b1 ++ b2) (lenN pre + lenN b1)) /\
      opt_all (cm_laid (pre ++ b1)) (pn_cm c1)).
    { intros pre Hpre Hlaid. destruct (Hu pre b2 got Hpre Hlaid Hpost Hdep) as [Hu1 Hl1]. split; [|exact Hl1].
      cbn [unpack_fields]. rewrite Hu1. cbn [bind fst snd].
      rewrite (assigned_knames u f k Hka Hname). reflexivity. }
    destruct (uf_exit u && (lenN b2 =? 0)) eqn:Hex.
    + (* the RDATA is exhausted: unpack() returns early *)
      apply andb_prop in Hex. destruct Hex as [Hex1 Hex].
      assert (Eb2 : b2 = []) by (apply lenN_0; clear - Hex; lia). subst b2.
      exists (b1 ++ []), (combine names vals). split; [now rewrite E2, E1, app_assoc|]. split; [exact Hk2|].
      split; [exact Hzero|]. split; [discriminate|].
      split.
      { constructor.
        * cbn [fst snd]. specialize (Hthis []). now rewrite app_nil_r in Hthis.
        * specialize (Hz2 eq_refl). unfold all_zero, all_same, same_fields in *.
          rewrite Forall_forall in *. intros [f' k'] Hin. cbn [fst snd].
          specialize (Hz2 (f', k') Hin). cbn [fst snd] in Hz2. rewrite Forall_forall in *.
          intros g Hg. right. split; [|now apply Hz2].
          destruct Hi' as [_ Hi'2]. apply Hi'2. eapply layout_ok_fresh; eassumption. }
      intros pre Hpre Hlaid. destruct (Hstep pre Hpre Hlaid) as [Hst Hl1].
      assert (Hpre1 : lenN (pre ++ b1) = lenN (pn_out c1)) by (rewrite E1, !lenN_app, Hpre; reflexivity).
      destruct (Hun (pre ++ b1) Hpre1 Hl1) as [_ Hl2]. rewrite app_nil_r in Hl2.
      split; [|rewrite app_nil_r; exact Hl2].
      rewrite Hst, Hex1. rewrite !lenN_app, lenN_nil.
      rewrite N.add_0_r, N.eqb_refl. cbn [andb]. reflexivity.
    + exists (b1 ++ b2), (combine names vals ++ ext). split; [now rewrite E2, E1, app_assoc|].
      split; [exact Hk2|]. split; [exact Hzero|]. split; [discriminate|].
      split. { rewrite app_assoc. constructor; [|exact Hsame]. cbn [fst snd]. apply Hthis. }
      intros pre Hpre Hlaid. destruct (Hstep pre Hpre Hlaid) as [Hst Hl1].
      assert (Hpre1 : lenN (pre ++ b1) = lenN (pn_out c1)) by (rewrite E1, !lenN_app, Hpre; reflexivity).
      destruct (Hun (pre ++ b1) Hpre1 Hl1) as [Hun1 Hl2].
      rewrite (app_assoc pre b1 b2). split; [|exact Hl2].
      rewrite <- (app_assoc pre b1 b2), Hst.
      assert (Hexit : uf_exit u && (lenN pre + lenN b1 =? lenN (pre ++ b1 ++ b2)) = false).
      { rewrite !lenN_app. destruct (uf_exit u); [|reflexivity]. cbn [andb] in *. clear - Hex. lia. }
      rewrite Hexit. replace (lenN pre + lenN b1) with (lenN (pre ++ b1)) by apply lenN_app.
      rewrite (app_assoc pre b1 b2), Hun1. rewrite <- app_assoc. f_equal. f_equal. rewrite !lenN_app. clear. lia.
Qed.

(* ================= a record ================= *)
(* the record as written: owner octets bn (labels and possibly a pointer),
   TYPE, CLASS, TTL, RDLENGTH, RDATA *)
Definition crr_wire (bn : bytes) (r : rr) (rd : bytes) : bytes :=
  bn ++ u16 (rr_type r) ++ u16 (rr_class r) ++ u32 (rr_ttl r) ++ u16 (lenN rd) ++ rd.

Lemma len_crr_wire bn r rd : lenN (crr_wire bn r rd) = lenN bn + 10 + lenN rd.
Proof. unfold crr_wire. rewrite !lenN_app. cbn [u16 u32 lenN length N.of_nat]. lia. Qed.

Lemma unpack_rr_header_gen out bn nm r rd post :
  1 <= lenN bn ->
  (forall post', unpack_name (out ++ bn ++ post') (lenN out) = Ok (nm, lenN out + lenN bn)) ->
  rr_type r < 65536 -> rr_class r < 65536 -> rr_ttl r < 4294967296 -> lenN rd <= 65535 ->
  unpack_rr_header (out ++ crr_wire bn r rd ++ post) (lenN out) =
  Ok ({| h_name := nm; h_type := rr_type r; h_class := rr_class r; h_ttl := rr_ttl r;
         h_rdlength := lenN rd |},
      lenN out + lenN bn + 10, out ++ crr_wire bn r rd).
Proof.
  intros Hwn Hname Ht Hc Httl Hrd. unfold unpack_rr_header.
  assert (Hlen : lenN (out ++ crr_wire bn r rd ++ post) = lenN out + (lenN bn + 10 + lenN rd) + lenN post).
  { rewrite !lenN_app, len_crr_wire. lia. }
  rewrite Hlen. bfalse (lenN out =? lenN out + (lenN bn + 10 + lenN rd) + lenN post).
  set (T := u16 (rr_type r)). set (C := u16 (rr_class r)). set (TT := u32 (rr_ttl r)). set (RL := u16 (lenN rd)).
  set (msg := out ++ crr_wire bn r rd ++ post).
  assert (Hn : unpack_name msg (lenN out) = Ok (nm, lenN out + lenN bn)).
  { unfold msg, crr_wire. rewrite <- !app_assoc. apply Hname. }
  rewrite Hn. cbn [bind fst snd].
  rewrite (unpack_fixed_at msg (out ++ bn) T (C ++ TT ++ RL ++ rd ++ post));
    [|unfold msg, crr_wire; rewrite <- !app_assoc; reflexivity|now rewrite lenN_app|reflexivity].
  cbn [bind fst snd].
  rewrite (unpack_fixed_at msg (out ++ bn ++ T) C (TT ++ RL ++ rd ++ post));
    [|unfold msg, crr_wire; rewrite <- !app_assoc; reflexivity|rewrite !lenN_app; unfold T; cbn [u16 lenN length N.of_nat]; lia|reflexivity].
  cbn [bind fst snd].
  rewrite (unpack_fixed_at msg (out ++ bn ++ T ++ C) TT (RL ++ rd ++ post));
    [|unfold msg, crr_wire; rewrite <- !app_assoc; reflexivity|rewrite !lenN_app; unfold T, C; cbn [u16 lenN length N.of_nat]; lia|reflexivity].
  cbn [bind fst snd].
  rewrite (unpack_fixed_at msg (out ++ bn ++ T ++ C ++ TT) RL (rd ++ post));
    [|unfold msg, crr_wire; rewrite <- !app_assoc; reflexivity|rewrite !lenN_app; unfold T, C, TT; cbn [u16 u32 lenN length N.of_nat]; lia|reflexivity].
  cbn [bind fst snd].
  unfold T, C, TT, RL. rewrite !be_u16, be_u32 by lia.
  bfalse (lenN out + (lenN bn + 10 + lenN rd) + lenN post <? lenN out + lenN bn + 2 + 2 + 4 + 2 + lenN rd).
  f_equal. f_equal; [f_equal; lia|].
  unfold msg. rewrite app_assoc.
  replace (lenN out + lenN bn + 2 + 2 + 4 + 2 + lenN rd) with (lenN (out ++ crr_wire bn r rd))
    by (rewrite lenN_app, len_crr_wire; lia).
  apply takeN_app_exact.
Qed.

(* packRR with a compression map, then UnpackRR at the record's offset of any
   message that continues the octets written: the record comes back (rr_same).
   The second run (without a map) only serves to name the octets of the fields
   that are not names. *)
Theorem crr_roundtrip r L ls capc cpc stc stc' capu outu stu' post :
  find_layout layouts (rr_kind r) = Some L -> layout_ok [] (tl_pack L) = true ->
  rr_ok r ls -> fields_canon (rr_data r) (tl_pack L) ->
  st_inv stc -> lenN (pn_out stc) < capc -> lenN outu < capu ->
  pack_rr r capc cpc stc = Ok stc' -> pack_rr r capu false (st0 outu) = Ok stu' ->
  exists bn rd r',
    1 <= lenN bn /\
    pn_out stc' = pn_out stc ++ crr_wire bn r rd /\
    unpack_rr (pn_out stc' ++ post) (lenN (pn_out stc)) = Ok (r', lenN (pn_out stc')) /\
    rr_rdlength r' = lenN rd /\ rr_same L r' r /\
    exists bu, stu' = st0 (outu ++ bu).
Proof.
  intros Hfind Hlok Hrok Hcanon Hinv Hcapc Hcapu Hpc Hpu.
  assert (HU : exists bu, stu' = st0 (outu ++ bu)).
  { destruct (rr_roundtrip r L ls capu outu stu' [] Hfind Hlok Hrok Hcanon Hcapu Hpu) as [rdu [_ [E _]]].
    now exists (rr_wire ls r rdu). }
  destruct Hrok as [Hname [Hls [Ht [Hc [Httl Hkind]]]]].
  apply st_inv_split in Hinv. destruct Hinv as [Hkeys Hlaid].
  assert (Hsides : sides_agree (tl_pack L) (tl_unpack L) = true).
  { pose proof pack_unpack_sides_agree as H. rewrite forallb_forall in H. apply H. eapply find_layout_in; eauto. }
  set (out := pn_out stc) in *.
  (* the uncompressed run *)
  unfold pack_rr in Hpu. rewrite Hfind in Hpu. inv_bind Hpu. rename a into u1. rename Ha into Hu1.
  unfold pack_header in Hu1. rewrite poff_st0 in Hu1.
  replace (lenN outu =? capu) with false in Hu1 by lia.
  inv_bind Hu1. rewrite Hname in Ha. apply pack_name_show in Ha; [|exact Hls]. subst a.
  inv_bind Hu1. apply pack_fixed_ok in Ha. subst a.
  inv_bind Hu1. apply pack_fixed_ok in Ha. subst a.
  inv_bind Hu1. apply pack_fixed_ok in Ha. subst a.
  apply pack_fixed_ok in Hu1. subst u1.
  inv_bind Hpu. rename a into u2. rename Ha into Hu2. clear Hpu.
  match type of Hu2 with pack_fields _ _ _ (st0 ?x) = _ => set (U1 := x) in * end.
  (* the compressed run: header *)
  unfold pack_rr in Hpc. rewrite Hfind in Hpc. inv_bind Hpc. rename a into c1. rename Ha into Hc1.
  unfold pack_header in Hc1. replace (poff stc =? capc) with false in Hc1 by (unfold poff; fold out; lia).
  inv_bind Hc1. rename a into ca. rewrite Hname in Ha.
  destruct (cname_roundtrip ls capc cpc stc ca Hls Hkeys Ha) as [bn [Hbn [Ea [Hka [_ Cn]]]]].
  inv_bind Hc1. apply pack_fixed_pemit in Ha0. destruct Ha0 as [-> _].
  inv_bind Hc1. apply pack_fixed_pemit in Ha0. destruct Ha0 as [-> _].
  inv_bind Hc1. apply pack_fixed_pemit in Ha0. destruct Ha0 as [-> _].
  apply pack_fixed_pemit in Hc1. destruct Hc1 as [-> _].
  set (P := (((out ++ bn) ++ u16 (rr_type r)) ++ u16 (rr_class r)) ++ u32 (rr_ttl r)) in *.
  assert (Eo1 : pn_out (pemit (pemit (pemit (pemit ca (u16 (rr_type r))) (u16 (rr_class r))) (u32 (rr_ttl r))) (u16 0))
                = P ++ u16 0).
  { unfold pemit, P. cbn [pn_out]. rewrite Ea. reflexivity. }
  set (c1 := pemit (pemit (pemit (pemit ca (u16 (rr_type r))) (u16 (rr_class r))) (u32 (rr_ttl r))) (u16 0)) in *.
  assert (Ecm1 : pn_cm c1 = pn_cm ca) by reflexivity.
  assert (Hk1 : opt_all cm_keys (pn_cm c1)) by (rewrite Ecm1; exact Hka).
  (* fields *)
  inv_bind Hpc. rename a into c2. rename Ha0 into Hc2.
  destruct (cfields_roundtrip _ _ (tl_unpack L) [] [] capc c1 c2 capu U1 u2 Hsides Hlok Hcanon) as
    [rd [ext [E2 [Hk2 [Hzero [_ [Hsame Hun]]]]]]]; auto.
  { split; [intros g []|reflexivity]. }
  cbn [app] in Hsame, Hun.
  assert (Hbn1 : 1 <= lenN bn). { destruct bn; [congruence|]. rewrite lenN_cons. lia. }
  exists bn, rd.
  assert (L1 : lenN (pn_out c1) = lenN P + 2) by (rewrite Eo1, lenN_app; reflexivity).
  assert (D1 : poff c2 - poff c1 = lenN rd) by (unfold poff; rewrite E2, lenN_app; lia).
  rewrite D1 in Hpc. unfold poff in Hpc. rewrite L1 in Hpc.
  destruct (65535 <? lenN rd) eqn:Erd; [discriminate|].
  replace (lenN P + 2 <? 2) with false in Hpc by lia.
  injection Hpc as <-. cbn [pn_out pn_cm].
  assert (Eout : set_at (set_at (pn_out c2) (N.to_nat (lenN P + 2 - 2)) (lenN rd / 256))
                   (N.to_nat (lenN P + 2 - 1)) (lenN rd mod 256) = out ++ crr_wire bn r rd).
  { rewrite E2, Eo1.
    replace (N.to_nat (lenN P + 2 - 2)) with (length P) by (unfold lenN; lia).
    replace (N.to_nat (lenN P + 2 - 1)) with (length (P ++ [lenN rd / 256]))
      by (rewrite app_length; unfold lenN; cbn [length]; lia).
    change (u16 0) with [0; 0]. rewrite <- app_assoc. cbn [app]. rewrite set_at_exact.
    replace (P ++ lenN rd / 256 :: 0 :: rd) with ((P ++ [lenN rd / 256]) ++ 0 :: rd)
      by (rewrite <- app_assoc; reflexivity).
    rewrite set_at_exact. unfold crr_wire, P. rewrite <- (u16_small (lenN rd)) by lia.
    rewrite <- !app_assoc. reflexivity. }
  rewrite Eout. clear Eout.
  set (Hd := out ++ bn ++ u16 (rr_type r) ++ u16 (rr_class r) ++ u32 (rr_ttl r) ++ u16 (lenN rd)).
  assert (EHd : out ++ crr_wire bn r rd = Hd ++ rd) by (unfold Hd, crr_wire; rewrite <- !app_assoc; reflexivity).
  assert (LHd : lenN Hd = lenN out + lenN bn + 10).
  { unfold Hd. rewrite !lenN_app. cbn [u16 u32 lenN length N.of_nat]. lia. }
  (* the map entries are laid in the octets before the RDATA, RDLENGTH filled in *)
  destruct (Cn out [] eq_refl Hlaid) as [_ Hla].
  assert (HlHd : opt_all (cm_laid Hd) (pn_cm c1)).
  { rewrite Ecm1. unfold Hd. rewrite app_assoc. now apply opt_cm_laid_app. }
  assert (LHd1 : lenN Hd = lenN (pn_out c1)).
  { rewrite L1, LHd. unfold P. rewrite !lenN_app. cbn [u16 u32 lenN length N.of_nat]. lia. }
  destruct (Hun Hd LHd1 HlHd) as [Hunf _].
  pose (mk := fun d => {| rr_name := show_name ls; rr_type := rr_type r; rr_class := rr_class r;
                          rr_ttl := rr_ttl r; rr_rdlength := lenN rd; rr_kind := rr_kind r; rr_data := d |}).
  assert (Hres : exists d, unpack_rr ((out ++ crr_wire bn r rd) ++ post) (lenN out) =
                   Ok (mk d, lenN (out ++ crr_wire bn r rd)) /\
                 all_same (tl_pack L) d (rr_data r)).
  { unfold unpack_rr. rewrite <- app_assoc.
    rewrite (unpack_rr_header_gen out bn (show_name ls)); try assumption; try lia.
    2:{ intro post'. exact (proj1 (Cn out post' eq_refl Hlaid)). }
    cbn [bind]. unfold unpack_rr_with_header. cbn [h_type h_name h_class h_ttl h_rdlength].
    rewrite <- Hkind, Hfind, EHd, lenN_app, LHd.
    bfalse (lenN out + lenN bn + 10 + lenN rd <? lenN out + lenN bn + 10).
    bfalse (lenN out + lenN bn + 10 + lenN rd <? lenN out + lenN bn + 10 + lenN rd).
    destruct (lenN rd =? 0) eqn:E0.
    - exists []. split.
      + unfold mk. f_equal. f_equal. lia.
      + assert (rd = []) by (apply lenN_0; lia). specialize (Hzero H).
        unfold all_zero, all_same, same_fields in *. rewrite Forall_forall in *. intros fk Hin.
        specialize (Hzero fk Hin). rewrite Forall_forall in *. intros g Hg.
        right. split; [reflexivity|now apply Hzero].
    - exists ext. split; [|exact Hsame].
      rewrite <- LHd, Hunf. cbn [bind fst snd].
      btrue (lenN Hd + lenN rd =? lenN Hd + lenN rd). unfold mk. f_equal. }
  destruct Hres as [d [Hres Hf]].
  exists (mk d). split; [exact Hbn1|]. split; [reflexivity|]. split; [exact Hres|]. split; [reflexivity|].
  split. { unfold rr_same, mk. cbn. rewrite Hname. repeat split; auto. }
  exact HU.
Qed.
