(* Proofs/LenFieldProofs.v — octets written by each pack codec versus what the
   corresponding len() term adds (no compression on the Len side), and the
   "room" property: once the buffer is longer than the Len estimate the result
   of a codec does not depend on the buffer length at all. *)
From Dns Require Import Base.ListX Model.Len Spec.NameSpec Proofs.EscapeProofs Proofs.TokenProofs
  Proofs.NameWireProofs Proofs.LenNameProofs.
From Coq Require Import Lia ZifyN ZifyNat ZifyBool.
Open Scope N_scope.
Open Scope list_scope.

(* ================================================================== *)
(* 1. packDomainName                                                    *)
(* ================================================================== *)

(* the dot case of the scan loop, with its two compression-map actions named *)
Definition dot_root (lab r : bytes) : bool := match lab, r with [], [] => true | _, _ => false end.
Definition dot_hit (st : pn_state) (lab r lstart : bytes) : option N :=
  match pn_cm st with
  | Some cm => if dot_root lab r then None else cm_find cm lstart
  | None => None
  end.
Definition dot_st1 (st : pn_state) (lab r lstart : bytes) : pn_state :=
  match pn_cm st with
  | Some cm =>
    if dot_root lab r then st
    else match cm_find cm lstart with
         | Some _ => st
         | None => if lenN (pn_out st) <? max_compression_offset
                   then {| pn_out := pn_out st; pn_cm := Some ((lstart, lenN (pn_out st)) :: cm) |}
                   else st
         end
  | None => st
  end.

Lemma pn_go_dot r first lab lstart wd nl cap cp st :
  pn_go (46 :: r) first lab lstart wd nl cap cp st =
  if first && negb (match r with [] => true | _ => false end) then Err "rdata"%string
  else if wd then Err "rdata"%string
  else if 64 <=? lenN lab then Err "rdata"%string
  else if cap <? lenN (pn_out st) + 1 + lenN lab then Err "buf"%string
  else match dot_hit st lab r lstart, cp with
       | Some p, true =>
         if max_name_wire <? nl + escaped_name_len lstart + 1 then Err "longdomain"%string
         else Ok (PnPointer st p)
       | _, _ =>
         if max_name_wire <? nl + 1 + lenN lab + 1 then Err "longdomain"%string
         else pn_go r false [] r true (nl + 1 + lenN lab) cap cp
                {| pn_out := pn_out (dot_st1 st lab r lstart) ++ lenN lab :: lab;
                   pn_cm := pn_cm (dot_st1 st lab r lstart) |}
       end.
Proof. reflexivity. Qed.

Lemma dot_st1_out st lab r lstart : pn_out (dot_st1 st lab r lstart) = pn_out st.
Proof.
  unfold dot_st1. destruct (pn_cm st) as [cm|]; [|reflexivity].
  destruct (dot_root lab r); [reflexivity|].
  destruct (cm_find cm lstart); [reflexivity|].
  destruct (_ <? _); reflexivity.
Qed.

Lemma dot_hit_none st lab r lstart : pn_cm st = None -> dot_hit st lab r lstart = None.
Proof. unfold dot_hit. now intros ->. Qed.
Lemma dot_st1_none st lab r lstart : pn_cm st = None -> dot_st1 st lab r lstart = st.
Proof. unfold dot_st1. now intros ->. Qed.

Lemma pn_go_dangling first lab lstart wd nl cap cp st e :
  pn_go [92] first lab lstart wd nl cap cp st <> Ok e.
Proof. cbn [pn_go]. destruct (_ <? _); discriminate. Qed.

(* what the scan loop has written when it stops: at most one octet per token of
   the rest of the text plus the label under construction; when it stops at a
   compression pointer, at least one octet less *)
Definition pn_end_bound (b : N) (e : pn_end) : Prop :=
  match e with
  | PnDone st' => lenN (pn_out st') <= b
  | PnPointer st' _ => lenN (pn_out st') + 1 <= b
  end.
Lemma pn_end_bound_mono b b' e : pn_end_bound b e -> b <= b' -> pn_end_bound b' e.
Proof. destruct e; cbn; lia. Qed.

Lemma pn_go_size s : forall first lab lstart wd nl cap cp st e,
  pn_go s first lab lstart wd nl cap cp st = Ok e ->
  pn_end_bound (lenN (pn_out st) + escaped_name_len s + lenN lab) e.
Proof.
  induction s as [| a b c r3 Hd IH | a r1 Hd IH | | r IH | x r H1 H2 IH] using tok_ind;
    intros first lab lstart wd nl cap cp st e H.
  - cbn [pn_go] in H. injection H as <-. cbn. lia.
  - rewrite pn_go_ddd in H by auto. destruct (_ <? _); [discriminate|].
    apply IH in H. rewrite enl_ddd by auto. eapply pn_end_bound_mono; [exact H|].
    rewrite lenN_app, lenN_cons, lenN_nil. lia.
  - rewrite pn_go_esc in H by auto. destruct (_ <? _); [discriminate|].
    apply IH in H. rewrite enl_esc by auto. eapply pn_end_bound_mono; [exact H|].
    rewrite lenN_app, lenN_cons, lenN_nil. lia.
  - exfalso. exact (pn_go_dangling _ _ _ _ _ _ _ _ _ H).
  - rewrite pn_go_dot in H.
    destruct (first && _); [discriminate|]. destruct wd; [discriminate|].
    destruct (64 <=? lenN lab); [discriminate|]. destruct (cap <? _); [discriminate|].
    rewrite enl_plain by lia.
    assert (K : forall e, (if max_name_wire <? nl + 1 + lenN lab + 1 then Err "longdomain"%string
         else pn_go r false [] r true (nl + 1 + lenN lab) cap cp
                {| pn_out := pn_out (dot_st1 st lab r lstart) ++ lenN lab :: lab;
                   pn_cm := pn_cm (dot_st1 st lab r lstart) |}) = Ok e ->
         pn_end_bound (lenN (pn_out st) + (1 + escaped_name_len r) + lenN lab) e).
    { intros e' H'. destruct (max_name_wire <? nl + 1 + lenN lab + 1); [discriminate|].
      apply IH in H'. eapply pn_end_bound_mono; [exact H'|].
      cbn [pn_out]. rewrite dot_st1_out, lenN_app, lenN_cons, lenN_nil. lia. }
    destruct (dot_hit st lab r lstart) as [p|]; [destruct cp|]; auto.
    clear K. destruct (max_name_wire <? _); [discriminate|]. injection H as <-. cbn [pn_end_bound]. lia.
  - rewrite pn_go_plain in H by auto. apply IH in H. rewrite enl_plain by auto.
    eapply pn_end_bound_mono; [exact H|]. rewrite lenN_app, lenN_cons, lenN_nil. lia.
Qed.

(* without a pointer the count is exact when the text ends at an unescaped dot *)
Lemma pn_go_done_exact s : forall first lab lstart wd wd' nl cap cp st st',
  lid s wd' = true -> (wd' = true -> lab = []) ->
  pn_go s first lab lstart wd nl cap cp st = Ok (PnDone st') ->
  lenN (pn_out st') = lenN (pn_out st) + escaped_name_len s + lenN lab.
Proof.
  induction s as [| a b c r3 Hd IH | a r1 Hd IH | | r IH | x r H1 H2 IH] using tok_ind;
    intros first lab lstart wd wd' nl cap cp st st' Hl Hw H.
  - cbn [lid] in Hl. rewrite (Hw Hl). cbn [pn_go] in H. injection H as <-. cbn. lia.
  - rewrite pn_go_ddd in H by auto. destruct (_ <? _); [discriminate|].
    rewrite lid_ddd in Hl by auto.
    apply (IH _ _ _ _ false) in H; [|exact Hl|discriminate]. rewrite enl_ddd by auto.
    rewrite H, lenN_app, lenN_cons, lenN_nil. lia.
  - rewrite pn_go_esc in H by auto. destruct (_ <? _); [discriminate|].
    rewrite lid_esc in Hl by auto.
    apply (IH _ _ _ _ false) in H; [|exact Hl|discriminate]. rewrite enl_esc by auto.
    rewrite H, lenN_app, lenN_cons, lenN_nil. lia.
  - exfalso. exact (pn_go_dangling _ _ _ _ _ _ _ _ _ H).
  - rewrite pn_go_dot in H. cbn [lid] in Hl.
    destruct (first && _); [discriminate|]. destruct wd; [discriminate|].
    destruct (64 <=? lenN lab); [discriminate|]. destruct (cap <? _); [discriminate|].
    rewrite enl_plain by lia.
    assert (K : (if max_name_wire <? nl + 1 + lenN lab + 1 then Err "longdomain"%string
         else pn_go r false [] r true (nl + 1 + lenN lab) cap cp
                {| pn_out := pn_out (dot_st1 st lab r lstart) ++ lenN lab :: lab;
                   pn_cm := pn_cm (dot_st1 st lab r lstart) |}) = Ok (PnDone st') ->
         lenN (pn_out st') = lenN (pn_out st) + (1 + escaped_name_len r) + lenN lab).
    { intros H'. destruct (max_name_wire <? nl + 1 + lenN lab + 1); [discriminate|].
      apply (IH _ _ _ _ true) in H'; [|exact Hl|reflexivity]. rewrite H'.
      cbn [pn_out]. rewrite dot_st1_out, lenN_app, lenN_cons, lenN_nil. lia. }
    destruct (dot_hit st lab r lstart) as [p|]; [destruct cp|]; auto.
    clear K. destruct (max_name_wire <? _); discriminate.
  - rewrite pn_go_plain in H by auto. rewrite lid_plain in Hl by auto.
    apply (IH _ _ _ _ false) in H; [|exact Hl|discriminate]. rewrite enl_plain by auto.
    rewrite H, lenN_app, lenN_cons, lenN_nil. lia.
Qed.

(* no pointer without a map, or when the caller does not ask for compression *)
Lemma pn_go_no_pointer s : forall first lab lstart wd nl cap cp st st' p,
  pn_cm st = None \/ cp = false ->
  pn_go s first lab lstart wd nl cap cp st <> Ok (PnPointer st' p).
Proof.
  induction s as [| a b c r3 Hd IH | a r1 Hd IH | | r IH | x r H1 H2 IH] using tok_ind;
    intros first lab lstart wd nl cap cp st st' p Hc H.
  - discriminate.
  - rewrite pn_go_ddd in H by auto. destruct (_ <? _); [discriminate|]. eapply IH; eauto.
  - rewrite pn_go_esc in H by auto. destruct (_ <? _); [discriminate|]. eapply IH; eauto.
  - exact (pn_go_dangling _ _ _ _ _ _ _ _ _ H).
  - rewrite pn_go_dot in H.
    destruct (first && _); [discriminate|]. destruct wd; [discriminate|].
    destruct (64 <=? lenN lab); [discriminate|]. destruct (cap <? _); [discriminate|].
    assert (K : (if max_name_wire <? nl + 1 + lenN lab + 1 then Err "longdomain"%string
         else pn_go r false [] r true (nl + 1 + lenN lab) cap cp
                {| pn_out := pn_out (dot_st1 st lab r lstart) ++ lenN lab :: lab;
                   pn_cm := pn_cm (dot_st1 st lab r lstart) |}) = Ok (PnPointer st' p) -> False).
    { intros H'. destruct (max_name_wire <? nl + 1 + lenN lab + 1); [discriminate|].
      eapply IH; [|exact H']. destruct Hc as [Hc|Hc]; [left|right; exact Hc].
      cbn [pn_cm]. now rewrite dot_st1_none. }
    destruct (dot_hit st lab r lstart) as [q|] eqn:Eh; [destruct cp|]; auto.
    destruct Hc as [Hc|Hc]; [|discriminate]. rewrite dot_hit_none in Eh by exact Hc. discriminate.

  - rewrite pn_go_plain in H by auto. eapply IH; eauto.
Qed.

(* the estimate domainNameLen makes without a compression map *)
Definition name_est (s : bytes) : N :=
  if bytes_eqb s [] || bytes_eqb s [46] then 1
  else if has_backslash s then escaped_name_len s + 1 else lenN s + 1.

Lemma domain_name_len_none s off cp : domain_name_len s off None cp = (name_est s, None).
Proof.
  unfold domain_name_len, name_est. destruct (bytes_eqb s [] || bytes_eqb s [46]); reflexivity.
Qed.

Lemma bytes_eqb_false a b : a <> b -> bytes_eqb a b = false.
Proof. intro H. destruct (bytes_eqb a b) eqn:E; [|reflexivity]. apply bytes_eqb_eq in E. congruence. Qed.
Lemma bytes_eqb_refl a : bytes_eqb a a = true.
Proof. now apply bytes_eqb_eq. Qed.

Lemma name_est_ge s : s <> [] -> s <> [46] -> escaped_name_len s + 1 <= name_est s.
Proof.
  intros H1 H2. unfold name_est. rewrite !bytes_eqb_false by assumption. cbn [orb].
  destruct (has_backslash s); [lia|]. pose proof (enl_le s). lia.
Qed.
Lemma name_est_le s : name_est s <= lenN s + 1.
Proof.
  unfold name_est. destruct (bytes_eqb s [] || bytes_eqb s [46]); [lia|].
  destruct (has_backslash s); [|lia]. pose proof (enl_le s). lia.
Qed.
Lemma name_est_pos s : 1 <= name_est s.
Proof. unfold name_est. destruct (_ || _); [lia|]. destruct (has_backslash s); lia. Qed.

(* item 1: whatever the state (with or without a compression map, compressing
   or not) a packed name takes at most escapedNameLen + 1 octets *)
Lemma pack_name_size_le s cap cp st st' :
  pack_name s cap cp st = Ok st' ->
  lenN (pn_out st') <= lenN (pn_out st) + escaped_name_len s + 1.
Proof.
  unfold pack_name. destruct s as [|x r] eqn:Es; [intro H; injection H as <-; lia|].
  rewrite <- Es. destruct (negb (is_fqdn s)); [discriminate|].
  destruct (pn_go s true [] s false 0 cap cp st) as [e| | |] eqn:E; try discriminate.
  apply pn_go_size in E. rewrite lenN_nil in E. cbn [bind].
  destruct e as [st1|st1 p]; cbn [pn_end_bound] in E.
  - destruct (bytes_eqb s [46]); [intro H; injection H as <-; lia|].
    destruct (_ <? cap); [|discriminate]. intro H; injection H as <-. cbn [pn_out].
    rewrite lenN_app, lenN_cons, lenN_nil. lia.
  - destruct (bytes_eqb s [46]); [intro H; injection H as <-; lia|].
    destruct (cap <? _); [discriminate|]. intro H; injection H as <-. cbn [pn_out].
    rewrite lenN_app. change (lenN (u16 (p + 49152))) with 2. lia.
Qed.

(* ... hence at most what domainNameLen predicts without a map *)
Lemma pack_name_size_est s cap cp st st' :
  pack_name s cap cp st = Ok st' ->
  lenN (pn_out st') <= lenN (pn_out st) + name_est s.
Proof.
  intro H. destruct (list_eq_dec N.eq_dec s []) as [->|H1].
  { cbn in H. injection H as <-. pose proof (name_est_pos []). lia. }
  destruct (list_eq_dec N.eq_dec s [46]) as [->|H2].
  { change (name_est [46]) with 1. revert H. unfold pack_name. cbn [is_fqdn rev app bs_run Nat.even negb].
    rewrite pn_go_dot. cbn [andb negb]. rewrite lenN_nil.
    destruct (cap <? _); [discriminate|].
    assert (Eh : dot_hit st [] [] [46] = None).
    { unfold dot_hit. destruct (pn_cm st); reflexivity. }
    rewrite Eh. destruct (max_name_wire <? _); [discriminate|]. cbn [pn_go bind].
    rewrite bytes_eqb_refl. intro E; injection E as <-. cbn [pn_out].
    rewrite dot_st1_out, lenN_app, lenN_cons, lenN_nil. lia. }
  apply pack_name_size_le in H. pose proof (name_est_ge s H1 H2). lia.
Qed.

(* ... and exactly that many when no pointer can be written *)
Lemma pack_name_exact s cap cp st st' :
  pn_cm st = None \/ cp = false -> s <> [] -> s <> [46] ->
  pack_name s cap cp st = Ok st' ->
  lenN (pn_out st') = lenN (pn_out st) + escaped_name_len s + 1.
Proof.
  intros Hc H1 H2. unfold pack_name. destruct s as [|x r] eqn:Es; [congruence|].
  rewrite <- Es in *. destruct (is_fqdn s) eqn:Hf; [|discriminate]. cbn [negb].
  destruct (pn_go s true [] s false 0 cap cp st) as [e| | |] eqn:E; try discriminate.
  cbn [bind]. rewrite (bytes_eqb_false s [46]) by assumption.
  destruct e as [st1|st1 p].
  - apply (pn_go_done_exact s _ _ _ _ false) in E; [|now apply is_fqdn_lid|discriminate].
    rewrite lenN_nil in E.
    destruct (_ <? cap); [|discriminate]. intro H; injection H as <-. cbn [pn_out].
    rewrite lenN_app, lenN_cons, lenN_nil. lia.
  - exfalso. exact (pn_go_no_pointer _ _ _ _ _ _ _ _ _ _ _ Hc E).
Qed.

(* the scan loop does not look at the buffer length once the buffer is long
   enough for the uncompressed name *)
Lemma pn_go_indep s : forall first lab lstart wd nl cap cap' cp st,
  lenN (pn_out st) + escaped_name_len s + lenN lab + 1 <= cap ->
  lenN (pn_out st) + escaped_name_len s + lenN lab + 1 <= cap' ->
  pn_go s first lab lstart wd nl cap cp st = pn_go s first lab lstart wd nl cap' cp st.
Proof.
  induction s as [| a b c r3 Hd IH | a r1 Hd IH | | r IH | x r H1 H2 IH] using tok_ind;
    intros first lab lstart wd nl cap cap' cp st Hc Hc'.
  - reflexivity.
  - rewrite !pn_go_ddd by auto. rewrite enl_ddd in Hc, Hc' by auto.
    replace (cap <? lenN (pn_out st) + 1) with false by lia.
    replace (cap' <? lenN (pn_out st) + 1) with false by lia.
    apply IH; rewrite lenN_app, lenN_cons, lenN_nil; lia.
  - rewrite !pn_go_esc by auto. rewrite enl_esc in Hc, Hc' by auto.
    replace (cap <? lenN (pn_out st) + 1) with false by lia.
    replace (cap' <? lenN (pn_out st) + 1) with false by lia.
    apply IH; rewrite lenN_app, lenN_cons, lenN_nil; lia.
  - cbn [pn_go]. cbn [escaped_name_len] in Hc, Hc'.
    replace (cap <? lenN (pn_out st) + 1) with false by lia.
    replace (cap' <? lenN (pn_out st) + 1) with false by lia. reflexivity.
  - rewrite !pn_go_dot. rewrite enl_plain in Hc, Hc' by lia.
    replace (cap <? lenN (pn_out st) + 1 + lenN lab) with false by lia.
    replace (cap' <? lenN (pn_out st) + 1 + lenN lab) with false by lia.
    rewrite (IH false [] r true (nl + 1 + lenN lab) cap cap' cp); [reflexivity| |];
      cbn [pn_out]; rewrite dot_st1_out, lenN_app, lenN_cons, lenN_nil; lia.
  - rewrite !pn_go_plain by auto. rewrite enl_plain in Hc, Hc' by auto.
    apply IH; rewrite lenN_app, lenN_cons, lenN_nil; lia.
Qed.

Lemma enl_le_name_est s : s <> [] -> escaped_name_len s <= name_est s.
Proof.
  intro H1. destruct (list_eq_dec N.eq_dec s [46]) as [->|H2]; [cbn; lia|].
  pose proof (name_est_ge s H1 H2). lia.
Qed.

Lemma pack_name_indep s cap cap' cp st :
  lenN (pn_out st) + name_est s < cap -> lenN (pn_out st) + name_est s < cap' ->
  pack_name s cap cp st = pack_name s cap' cp st.
Proof.
  intros Hc Hc'. unfold pack_name. destruct s as [|x r] eqn:Es; [reflexivity|].
  rewrite <- Es in *. assert (Hne : s <> []) by (rewrite Es; discriminate).
  pose proof (enl_le_name_est s Hne) as Hle.
  destruct (negb (is_fqdn s)); [reflexivity|].
  rewrite (pn_go_indep s true [] s false 0 cap cap' cp st) by (rewrite lenN_nil; lia).
  destruct (pn_go s true [] s false 0 cap' cp st) as [e| | |] eqn:E; try reflexivity.
  apply pn_go_size in E. rewrite lenN_nil in E. cbn [bind].
  destruct e as [st1|st1 p]; cbn [pn_end_bound] in E.
  - destruct (bytes_eqb s [46]); [reflexivity|].
    replace (lenN (pn_out st1) <? cap) with true by lia.
    replace (lenN (pn_out st1) <? cap') with true by lia. reflexivity.
  - destruct (bytes_eqb s [46]); [reflexivity|].
    replace (cap <? lenN (pn_out st1) + 2) with false by lia.
    replace (cap' <? lenN (pn_out st1) + 2) with false by lia. reflexivity.
Qed.

(* ================================================================== *)
(* 2. the room predicate and its combinators                            *)
(* ================================================================== *)

(* [room P st B]: the packer P started in state st (a) never leaves the write
   offset beyond B when it succeeds and (b) returns the same result — value or
   error — for any two buffer lengths above B: it cannot fail for lack of space *)
Definition room (P : N -> pn_state -> res pn_state) (st : pn_state) (B : N) : Prop :=
  (forall cap st', P cap st = Ok st' -> poff st' <= B) /\
  (forall cap cap', B < cap -> B < cap' -> P cap st = P cap' st).

Lemma room_mono P st B B' : room P st B -> B <= B' -> room P st B'.
Proof.
  intros [H1 H2] HB. split.
  - intros cap st' H. apply H1 in H. lia.
  - intros cap cap' Hc Hc'. apply H2; lia.
Qed.

Lemma room_bind (P Q : N -> pn_state -> res pn_state) st B B' :
  room P st B -> B <= B' ->
  (forall cap st', P cap st = Ok st' -> room Q st' B') ->
  room (fun cap st => do x <- P cap st; Q cap x) st B'.
Proof.
  intros [P1 P2] HB HQ. split.
  - intros cap st' H. destruct (P cap st) as [st1| | |] eqn:E; try discriminate.
    cbn [bind] in H. destruct (HQ cap st1 E) as [Q1 _]. eapply Q1; eauto.
  - intros cap cap' Hc Hc'. rewrite (P2 cap cap') by lia.
    destruct (P cap' st) as [st1| | |] eqn:E; try reflexivity.
    cbn [bind]. destruct (HQ cap' st1 E) as [_ Q2]. apply Q2; assumption.
Qed.

Lemma room_ret st B : poff st <= B -> room (fun _ st => Ok st) st B.
Proof. intro H. split; [intros cap st' E; injection E as <-; exact H|reflexivity]. Qed.

Lemma room_ext (P Q : N -> pn_state -> res pn_state) st B :
  (forall cap, P cap st = Q cap st) -> room P st B -> room Q st B.
Proof.
  intros He [H1 H2]. split.
  - intros cap st' H. rewrite <- He in H. eauto.
  - intros cap cap' Hc Hc'. rewrite <- !He. auto.
Qed.

(* relabelling the error class of a codec keeps the property *)
Lemma room_relabel (P : N -> pn_state -> res pn_state) (c : string) st B :
  room P st B -> room (fun cap st => match P cap st with Err _ => Err c | r => r end) st B.
Proof.
  intros [H1 H2]. split.
  - intros cap st' H. destruct (P cap st) eqn:E; try discriminate. injection H as <-. eauto.
  - intros cap cap' Hc Hc'. now rewrite (H2 cap cap').
Qed.

Lemma poff_pemit st b : poff (pemit st b) = poff st + lenN b.
Proof. unfold poff, pemit. cbn [pn_out]. apply lenN_app. Qed.

Lemma room_fixed b st B : poff st + lenN b <= B -> room (pack_fixed b) st B.
Proof.
  intro H. split.
  - intros cap st'. unfold pack_fixed. destruct (_ <? _); [discriminate|].
    intro E; injection E as <-. rewrite poff_pemit. exact H.
  - intros cap cap' Hc Hc'. unfold pack_fixed.
    replace (cap <? poff st + lenN b) with false by lia.
    replace (cap' <? poff st + lenN b) with false by lia. reflexivity.
Qed.

Lemma room_name s cp st B : poff st + name_est s <= B -> room (fun cap => pack_name s cap cp) st B.
Proof.
  intro H. unfold poff in H. split.
  - intros cap st' E. apply pack_name_size_est in E. unfold poff. lia.
  - intros cap cap' Hc Hc'. apply pack_name_indep; lia.
Qed.

(* a variant of room_bind that also hands the reached offset to the continuation *)
Lemma room_bind' (P Q : N -> pn_state -> res pn_state) st B B' :
  room P st B -> B <= B' ->
  (forall st', poff st' <= B -> room Q st' B') ->
  room (fun cap st => do x <- P cap st; Q cap x) st B'.
Proof.
  intros HP HB HQ. apply (room_bind P Q st B B' HP HB).
  intros cap st' E. apply HQ. destruct HP as [P1 _]. eauto.
Qed.

(* ================================================================== *)
(* 3. character-strings                                                 *)
(* ================================================================== *)
Lemma ptx_go_ddd a b c r3 acc off0 cap : ddd3 a b c = true ->
  ptx_go (92 :: a :: b :: c :: r3) acc off0 cap =
  if cap <=? off0 + lenN acc then Err "buf"%string
  else ptx_go r3 (acc ++ [ddd_to_byte (a :: b :: c :: r3)]) off0 cap.
Proof. intro H. cbn [ptx_go]. unfold ddd3 in H. rewrite H. reflexivity. Qed.
Lemma ptx_go_esc a r1 acc off0 cap : is_ddd (a :: r1) = false ->
  ptx_go (92 :: a :: r1) acc off0 cap =
  if cap <=? off0 + lenN acc then Err "buf"%string else ptx_go r1 (acc ++ [a]) off0 cap.
Proof.
  intro H. destruct r1 as [|b [|c r3]]; try reflexivity.
  cbn [ptx_go]. unfold is_ddd in H. rewrite H. reflexivity.
Qed.
Lemma ptx_go_other x r acc off0 cap : x <> 92 ->
  ptx_go (x :: r) acc off0 cap =
  if cap <=? off0 + lenN acc then Err "buf"%string else ptx_go r (acc ++ [x]) off0 cap.
Proof. intro H. cbn [ptx_go]. replace (x =? 92) with false by lia. reflexivity. Qed.
Lemma ptx_go_dangling acc off0 cap :
  ptx_go [92] acc off0 cap = if cap <=? off0 + lenN acc then Err "buf"%string else Ok acc.
Proof. reflexivity. Qed.

Lemma ptx_go_len s : forall acc off0 cap d,
  ptx_go s acc off0 cap = Ok d -> lenN d <= lenN acc + lenN s.
Proof.
  induction s as [| a b c r3 Hd IH | a r1 Hd IH | | r IH | x r H1 H2 IH] using tok_ind;
    intros acc off0 cap d H.
  - injection H as <-. rewrite lenN_nil. lia.
  - rewrite ptx_go_ddd in H by auto. destruct (_ <=? _); [discriminate|]. apply IH in H.
    rewrite lenN_app in H. rewrite !lenN_cons in *. rewrite lenN_nil in H. lia.
  - rewrite ptx_go_esc in H by auto. destruct (_ <=? _); [discriminate|]. apply IH in H.
    rewrite lenN_app in H. rewrite !lenN_cons in *. rewrite lenN_nil in H. lia.
  - rewrite ptx_go_dangling in H. destruct (_ <=? _); [discriminate|]. injection H as <-.
    rewrite lenN_cons. lia.
  - rewrite ptx_go_other in H by lia. destruct (_ <=? _); [discriminate|]. apply IH in H.
    rewrite lenN_app in H. rewrite !lenN_cons in *. rewrite lenN_nil in H. lia.
  - rewrite ptx_go_other in H by auto. destruct (_ <=? _); [discriminate|]. apply IH in H.
    rewrite lenN_app in H. rewrite !lenN_cons in *. rewrite lenN_nil in H. lia.
Qed.

Lemma ptx_go_indep (s : bytes) : forall acc off0 cap cap',
  off0 + lenN acc + lenN s <= cap -> off0 + lenN acc + lenN s <= cap' ->
  ptx_go s acc off0 cap = ptx_go s acc off0 cap'.
Proof.
  induction s as [| a b c r3 Hd IH | a r1 Hd IH | | r IH | x r H1 H2 IH] using tok_ind;
    intros acc off0 cap cap' Hc Hc'.
  - reflexivity.
  - rewrite !ptx_go_ddd by auto. rewrite !lenN_cons in Hc, Hc'.
    replace (cap <=? off0 + lenN acc) with false by lia.
    replace (cap' <=? off0 + lenN acc) with false by lia.
    apply IH; rewrite lenN_app, lenN_cons, lenN_nil; lia.
  - rewrite !ptx_go_esc by auto. rewrite !lenN_cons in Hc, Hc'.
    replace (cap <=? off0 + lenN acc) with false by lia.
    replace (cap' <=? off0 + lenN acc) with false by lia.
    apply IH; rewrite lenN_app, lenN_cons, lenN_nil; lia.
  - rewrite !ptx_go_dangling. rewrite !lenN_cons in Hc, Hc'.
    replace (cap <=? off0 + lenN acc) with false by lia.
    replace (cap' <=? off0 + lenN acc) with false by lia. reflexivity.
  - rewrite !ptx_go_other by lia. rewrite !lenN_cons in Hc, Hc'.
    replace (cap <=? off0 + lenN acc) with false by lia.
    replace (cap' <=? off0 + lenN acc) with false by lia.
    apply IH; rewrite lenN_app, lenN_cons, lenN_nil; lia.
  - rewrite !ptx_go_other by auto. rewrite !lenN_cons in Hc, Hc'.
    replace (cap <=? off0 + lenN acc) with false by lia.
    replace (cap' <=? off0 + lenN acc) with false by lia.
    apply IH; rewrite lenN_app, lenN_cons, lenN_nil; lia.
Qed.

(* without a backslash the text is copied as it is *)
Lemma ptx_go_plain_text s : forall acc off0 cap d,
  has_backslash s = false -> ptx_go s acc off0 cap = Ok d -> d = acc ++ s.
Proof.
  induction s as [|x r IH]; intros acc off0 cap d Hb H.
  - injection H as <-. now rewrite app_nil_r.
  - unfold has_backslash in Hb. cbn [existsb] in Hb. apply orb_false_elim in Hb. destruct Hb as [Hx Hr].
    rewrite ptx_go_other in H by lia. destruct (_ <=? _); [discriminate|].
    apply IH in H; [|exact Hr]. rewrite H, <- app_assoc. reflexivity.
Qed.

Lemma room_txt_string s st B : poff st + lenN s + 1 <= B -> room (pack_txt_string s) st B.
Proof.
  intro H. split.
  - intros cap st'. unfold pack_txt_string. destruct (_ || _); [discriminate|].
    destruct (ptx_go s [] (poff st + 1) cap) as [d| | |] eqn:E; try discriminate. cbn [bind].
    destruct (255 <? lenN d); [discriminate|]. intro X; injection X as <-.
    apply ptx_go_len in E. rewrite lenN_nil in E. rewrite poff_pemit, lenN_cons. lia.
  - intros cap cap' Hc Hc'. unfold pack_txt_string.
    replace (cap <=? poff st) with false by lia. replace (cap' <=? poff st) with false by lia.
    cbn [orb]. destruct (1025 <? lenN s); [reflexivity|].
    rewrite (ptx_go_indep s [] (poff st + 1) cap cap') by (rewrite lenN_nil; lia). reflexivity.
Qed.

Lemma pack_txt_string_exact s cap st st' :
  has_backslash s = false -> pack_txt_string s cap st = Ok st' -> poff st' = poff st + lenN s + 1.
Proof.
  intros Hb. unfold pack_txt_string. destruct (_ || _); [discriminate|].
  destruct (ptx_go s [] (poff st + 1) cap) as [d| | |] eqn:E; try discriminate. cbn [bind].
  destruct (255 <? lenN d); [discriminate|]. intro X; injection X as <-.
  apply ptx_go_plain_text in E; [|exact Hb]. subst d. cbn [app]. rewrite poff_pemit, lenN_cons. lia.
Qed.

Fixpoint txts_est (l : list bytes) : N :=
  match l with [] => 0 | x :: r => lenN x + 1 + txts_est r end.
Lemma txts_fold l : forall a, fold_left (fun a x => a + lenN x + 1) l a = a + txts_est l.
Proof. induction l as [|x r IH]; intro a; cbn [fold_left txts_est]; [lia|]. rewrite IH. lia. Qed.

Lemma room_txts l : forall st B, poff st + txts_est l <= B -> room (pack_txts l) st B.
Proof.
  induction l as [|s r IH]; intros st B H; cbn [txts_est] in H.
  - apply room_ret. lia.
  - apply (room_bind' (pack_txt_string s) (pack_txts r) st (poff st + lenN s + 1) B).
    + apply room_txt_string. lia.
    + lia.
    + intros st' Hs. apply IH. lia.
Qed.

Lemma room_txt l st B : poff st + txts_est l <= B -> room (pack_txt l) st B.
Proof.
  intro H. destruct l as [|s r].
  - split.
    + intros cap st'. cbn [pack_txt]. destruct (_ <=? _); [discriminate|]. intro E; injection E as <-.
      cbn in H. lia.
    + intros cap cap' Hc Hc'. cbn [pack_txt]. cbn in H.
      replace (cap <=? poff st) with false by lia. replace (cap' <=? poff st) with false by lia. reflexivity.
  - apply (room_txts (s :: r)). exact H.
Qed.

Lemma pack_txts_exact l : forall cap st st',
  forallb (fun x => negb (has_backslash x)) l = true ->
  pack_txts l cap st = Ok st' -> poff st' = poff st + txts_est l.
Proof.
  induction l as [|s r IH]; intros cap st st' Hb H.
  - injection H as <-. cbn. lia.
  - cbn [forallb] in Hb. apply andb_prop in Hb. destruct Hb as [Hs Hr].
    cbn [pack_txts] in H. destruct (pack_txt_string s cap st) as [st1| | |] eqn:E; try discriminate.
    cbn [bind] in H. apply IH in H; [|exact Hr].
    apply pack_txt_string_exact in E; [|now destruct (has_backslash s)].
    cbn [txts_est]. lia.
Qed.
Lemma pack_txt_exact l cap st st' :
  forallb (fun x => negb (has_backslash x)) l = true ->
  pack_txt l cap st = Ok st' -> poff st' = poff st + txts_est l.
Proof.
  intros Hb. destruct l as [|s r].
  - cbn [pack_txt]. destruct (_ <=? _); [discriminate|]. intro E; injection E as <-. cbn. lia.
  - apply (pack_txts_exact (s :: r)). exact Hb.
Qed.

Lemma room_octet s st B : poff st + lenN s <= B -> room (pack_octet s) st B.
Proof.
  intro H. split.
  - intros cap st'. unfold pack_octet. destruct (_ || _); [discriminate|].
    destruct (ptx_go s [] (poff st) cap) as [d| | |] eqn:E; try discriminate. cbn [bind].
    intro X; injection X as <-.
    apply ptx_go_len in E. rewrite lenN_nil in E. rewrite poff_pemit. lia.
  - intros cap cap' Hc Hc'. unfold pack_octet.
    replace (cap <=? poff st) with false by lia. replace (cap' <=? poff st) with false by lia.
    cbn [orb]. destruct (1025 <? lenN s); [reflexivity|].
    rewrite (ptx_go_indep s [] (poff st) cap cap') by (rewrite lenN_nil; lia). reflexivity.
Qed.

(* ================================================================== *)
(* 4. addresses                                                         *)
(* ================================================================== *)
Lemma pack_a_4 a cap st : lenN a = 4 -> pack_a a cap st = pack_fixed a cap st.
Proof. intro H. unfold pack_a. now rewrite H. Qed.
Lemma pack_a_16 a cap st : lenN a = 16 ->
  pack_a a cap st = pack_fixed (if is_v4_mapped a then skipn 12 a else [0;0;0;0]) cap st.
Proof. intro H. unfold pack_a. now rewrite H. Qed.
Lemma pack_a_0 a cap st : lenN a = 0 -> pack_a a cap st = Ok st.
Proof. intro H. unfold pack_a. now rewrite H. Qed.
Lemma pack_a_other a cap st : lenN a <> 4 -> lenN a <> 16 -> lenN a <> 0 -> pack_a a cap st = Err "overflow"%string.
Proof.
  intros H1 H2 H3. unfold pack_a. destruct (lenN a) as [|p]; [congruence|].
  repeat (destruct p as [p|p|]; try reflexivity; try congruence).
Qed.
Lemma pack_aaaa_16 a cap st : lenN a = 16 -> pack_aaaa a cap st = pack_fixed a cap st.
Proof. intro H. unfold pack_aaaa. now rewrite H. Qed.
Lemma pack_aaaa_0 a cap st : lenN a = 0 -> pack_aaaa a cap st = Ok st.
Proof. intro H. unfold pack_aaaa. now rewrite H. Qed.
Lemma pack_aaaa_other a cap st : lenN a <> 16 -> lenN a <> 0 -> pack_aaaa a cap st = Err "overflow"%string.
Proof.
  intros H2 H3. unfold pack_aaaa. destruct (lenN a) as [|p]; [congruence|].
  repeat (destruct p as [p|p|]; try reflexivity; try congruence).
Qed.

Definition ifne_est (a : bytes) (n : N) : N := if lenN a =? 0 then 0 else n.

Lemma lenN_skipn_12_of_16 (a : bytes) : lenN a = 16 -> lenN (skipn 12 a) = 4.
Proof. unfold lenN. rewrite skipn_length. lia. Qed.

Lemma room_const_err (c : string) st B : room (fun _ _ => Err c) st B.
Proof. split; [discriminate|reflexivity]. Qed.

Lemma room_a a st B : poff st + ifne_est a 4 <= B -> room (pack_a a) st B.
Proof.
  unfold ifne_est. intro H.
  destruct (N.eq_dec (lenN a) 4) as [E4|N4].
  { rewrite E4 in H. apply (room_ext (pack_fixed a)); [intro; now rewrite pack_a_4|].
    apply room_fixed. cbn in H. lia. }
  destruct (N.eq_dec (lenN a) 16) as [E16|N16].
  { rewrite E16 in H.
    apply (room_ext (pack_fixed (if is_v4_mapped a then skipn 12 a else [0;0;0;0]))); [intro; now rewrite pack_a_16|].
    apply room_fixed. cbn in H. destruct (is_v4_mapped a); [rewrite lenN_skipn_12_of_16 by exact E16|cbn]; lia. }
  destruct (N.eq_dec (lenN a) 0) as [E0|N0].
  { rewrite E0 in H. apply (room_ext (fun _ st => Ok st)); [intro; now rewrite pack_a_0|].
    apply room_ret. cbn in H. lia. }
  apply (room_ext (fun _ _ => Err "overflow"%string)); [intro; now rewrite pack_a_other|]. apply room_const_err.
Qed.
Lemma room_aaaa a st B : poff st + ifne_est a 16 <= B -> room (pack_aaaa a) st B.
Proof.
  unfold ifne_est. intro H.
  destruct (N.eq_dec (lenN a) 16) as [E16|N16].
  { rewrite E16 in H. apply (room_ext (pack_fixed a)); [intro; now rewrite pack_aaaa_16|].
    apply room_fixed. cbn in H. lia. }
  destruct (N.eq_dec (lenN a) 0) as [E0|N0].
  { rewrite E0 in H. apply (room_ext (fun _ st => Ok st)); [intro; now rewrite pack_aaaa_0|].
    apply room_ret. cbn in H. lia. }
  apply (room_ext (fun _ _ => Err "overflow"%string)); [intro; now rewrite pack_aaaa_other|]. apply room_const_err.
Qed.

(* an address that packs takes exactly what len() counts *)
Lemma pack_fixed_exact b cap st st' : pack_fixed b cap st = Ok st' -> poff st' = poff st + lenN b.
Proof. unfold pack_fixed. destruct (_ <? _); [discriminate|]. intro E; injection E as <-. apply poff_pemit. Qed.
Lemma pack_a_exact a cap st st' : pack_a a cap st = Ok st' -> poff st' = poff st + ifne_est a 4.
Proof.
  unfold ifne_est.
  destruct (N.eq_dec (lenN a) 4) as [E4|N4].
  { rewrite pack_a_4 by exact E4. intro H. apply pack_fixed_exact in H. rewrite E4 in *. cbn. lia. }
  destruct (N.eq_dec (lenN a) 16) as [E16|N16].
  { rewrite pack_a_16 by exact E16. intro H. apply pack_fixed_exact in H. rewrite E16. cbn.
    destruct (is_v4_mapped a); [rewrite lenN_skipn_12_of_16 in H by exact E16|cbn in H]; lia. }
  destruct (N.eq_dec (lenN a) 0) as [E0|N0].
  { rewrite pack_a_0 by exact E0. intro H; injection H as <-. rewrite E0. cbn. lia. }
  rewrite pack_a_other by assumption. discriminate.
Qed.
Lemma pack_aaaa_exact a cap st st' : pack_aaaa a cap st = Ok st' -> poff st' = poff st + ifne_est a 16.
Proof.
  unfold ifne_est.
  destruct (N.eq_dec (lenN a) 16) as [E16|N16].
  { rewrite pack_aaaa_16 by exact E16. intro H. apply pack_fixed_exact in H. rewrite E16 in *. cbn. lia. }
  destruct (N.eq_dec (lenN a) 0) as [E0|N0].
  { rewrite pack_aaaa_0 by exact E0. intro H; injection H as <-. rewrite E0. cbn. lia. }
  rewrite pack_aaaa_other by assumption. discriminate.
Qed.

(* ================================================================== *)
(* 5. type bitmaps                                                      *)
(* ================================================================== *)
Lemma tbm_len_go_acc l : forall lw ll acc, tbm_len_go l lw ll acc = acc + tbm_len_go l lw ll 0.
Proof.
  induction l as [|t r IH]; intros lw ll acc; cbn [tbm_len_go]; [lia|].
  destruct ((lw <? t / 256) && negb (ll =? 0)).
  - destruct (_ || _); rewrite (IH _ _ (acc + ll + 2)), (IH _ _ (0 + ll + 2)); lia.
  - destruct (_ || _); [apply IH|apply IH].
Qed.
Lemma tbm_len_go_ge l : forall lw ll acc, acc + ll + 2 <= tbm_len_go l lw ll acc.
Proof.
  induction l as [|t r IH]; intros lw ll acc; cbn [tbm_len_go]; [lia|].
  destruct ((lw <? t / 256) && negb (ll =? 0)).
  - destruct (_ || _).
    + pose proof (IH lw 0 (acc + ll + 2)). lia.
    + pose proof (IH (t / 256) ((t - t / 256 * 256) / 8 + 1) (acc + ll + 2)). lia.
  - destruct ((t / 256 <? lw) || ((t - t / 256 * 256) / 8 + 1 <? ll)) eqn:E.
    + apply IH.
    + pose proof (IH (t / 256) ((t - t / 256 * 256) / 8 + 1) acc). lia.
Qed.

Lemma length_pad_to cur : forall n, length (pad_to cur n) = Nat.max (length cur) n.
Proof.
  induction cur as [|x r IH]; intro n.
  - induction n as [|k IHk]; [reflexivity|]. cbn [pad_to length]. rewrite IHk. cbn. lia.
  - destruct n as [|k]; [cbn; lia|]. cbn [pad_to length]. rewrite IH. lia.
Qed.
Lemma length_or_last cur k : length (or_last cur k) = length cur.
Proof.
  induction cur as [|x r IH]; [reflexivity|]. destruct r as [|y r']; [reflexivity|].
  change (or_last (x :: y :: r') k) with (x :: or_last (y :: r') k). cbn [length] in *. now rewrite IH.
Qed.
Lemma lenN_nsec_cur cur len k : lenN cur <= len -> lenN (or_last (pad_to cur (N.to_nat len)) k) = len.
Proof. unfold lenN. rewrite length_or_last, length_pad_to. lia. Qed.

Lemma room_nsec_go l : forall lw cur st B,
  tbm_len_go l lw (lenN cur) (poff st) <= B -> room (nsec_go l lw cur) st B.
Proof.
  induction l as [|t r IH]; intros lw cur st B H.
  - cbn [tbm_len_go] in H. split.
    + intros cap st' E. cbn [nsec_go] in E. injection E as <-. rewrite poff_pemit, !lenN_cons. lia.
    + reflexivity.
  - cbn [tbm_len_go] in H.
    set (window := t / 256) in *. set (len := (t - window * 256) / 8 + 1) in *.
    assert (U : forall cap, nsec_go (t :: r) lw cur cap st =
      let '(st1, cur1) := if (lw <? window) && negb (lenN cur =? 0)
                          then (pemit st (lw :: lenN cur :: cur), []) else (st, cur) in
      if (window <? lw) || (len <? lenN cur1) then Err "nsecorder"%string
      else if cap <? poff st1 + 2 + len then Err "overflow"%string
      else nsec_go r window (or_last (pad_to cur1 (N.to_nat len)) (t mod 8)) cap st1) by reflexivity.
    destruct ((lw <? window) && negb (lenN cur =? 0)) eqn:Efl.
    + (* a new window: the block collected so far is flushed *)
      assert (Hp : poff (pemit st (lw :: lenN cur :: cur)) = poff st + lenN cur + 2).
      { rewrite poff_pemit, !lenN_cons. lia. }
      destruct ((window <? lw) || (len <? 0)) eqn:Eo.
      * apply (room_ext (fun _ _ => Err "nsecorder"%string)); [|apply room_const_err].
        intro cap. rewrite U. cbv beta iota zeta. rewrite ?lenN_nil, ?Eo. reflexivity.
      * pose proof (tbm_len_go_ge r window len (poff st + lenN cur + 2)) as Hge.
        assert (IH' := IH window (or_last (pad_to [] (N.to_nat len)) (t mod 8)) (pemit st (lw :: lenN cur :: cur)) B).
        rewrite lenN_nsec_cur, Hp in IH' by (rewrite lenN_nil; lia). specialize (IH' H).
        destruct IH' as [I1 I2]. split.
        -- intros cap st'. rewrite U. cbv beta iota zeta. rewrite ?lenN_nil, ?Eo. destruct (cap <? _); [discriminate|]. apply I1.
        -- intros cap cap' Hc Hc'. rewrite !U. cbv beta iota zeta. rewrite ?lenN_nil, ?Eo, ?Hp.
           replace (cap <? poff st + lenN cur + 2 + 2 + len) with false by lia.
           replace (cap' <? poff st + lenN cur + 2 + 2 + len) with false by lia. apply I2; assumption.
    + destruct ((window <? lw) || (len <? lenN cur)) eqn:Eo.
      * apply (room_ext (fun _ _ => Err "nsecorder"%string)); [|apply room_const_err].
        intro cap. rewrite U. cbv beta iota zeta. rewrite ?Eo. reflexivity.
      * pose proof (tbm_len_go_ge r window len (poff st)) as Hge.
        assert (IH' := IH window (or_last (pad_to cur (N.to_nat len)) (t mod 8)) st B).
        rewrite lenN_nsec_cur in IH' by lia. specialize (IH' H).
        destruct IH' as [I1 I2]. split.
        -- intros cap st'. rewrite U. cbv beta iota zeta. rewrite ?Eo. destruct (cap <? _); [discriminate|]. apply I1.
        -- intros cap cap' Hc Hc'. rewrite !U. cbv beta iota zeta. rewrite ?Eo.
           replace (cap <? poff st + 2 + len) with false by lia.
           replace (cap' <? poff st + 2 + len) with false by lia. apply I2; assumption.
Qed.

Lemma room_nsec l st B : poff st + type_bitmap_len l <= B -> room (pack_nsec l) st B.
Proof.
  intro H. destruct l as [|t r].
  - apply room_ret. lia.
  - assert (H' : tbm_len_go (t :: r) 0 0 (poff st) <= B) by (rewrite tbm_len_go_acc; exact H).
    clear H. rename H' into H.
    pose proof (tbm_len_go_ge (t :: r) 0 0 (poff st)) as Hge.
    destruct (room_nsec_go (t :: r) 0 [] st B) as [I1 I2]; [exact H|].
    split.
    + intros cap st'. unfold pack_nsec. destruct (cap <? _); [discriminate|]. apply I1.
    + intros cap cap' Hc Hc'. unfold pack_nsec.
      replace (cap <? poff st) with false by lia. replace (cap' <? poff st) with false by lia.
      apply I2; assumption.
Qed.

(* ================================================================== *)
(* 6. EDNS0 options, SVCB parameters                                    *)
(* ================================================================== *)
Definition pair_ok (p : N * bytes * N) : Prop := lenN (snd (fst p)) <= snd p.
Fixpoint pairs_est (l : list (N * bytes * N)) : N :=
  match l with [] => 0 | p :: r => 4 + snd p + pairs_est r end.
Lemma pairs_fold l : forall a, fold_left (fun a (p : N * bytes * N) => a + 4 + snd p) l a = a + pairs_est l.
Proof. induction l as [|x r IH]; intro a; cbn [fold_left pairs_est]; [lia|]. rewrite IH. lia. Qed.

Lemma lenN_u16 n : lenN (u16 n) = 2.
Proof. reflexivity. Qed.

Lemma room_opts l : forall st B, Forall pair_ok l -> poff st + pairs_est l <= B -> room (pack_opts l) st B.
Proof.
  induction l as [|[[code b] n] r IH]; intros st B Hok H.
  - apply room_ret. cbn in H. lia.
  - inversion Hok as [|? ? Hp Hr]; subst. unfold pair_ok in Hp. cbn [fst snd] in Hp.
    cbn [pairs_est snd] in H.
    assert (Hq : poff (pemit st (u16 code ++ u16 (lenN b) ++ b)) = poff st + 4 + lenN b).
    { rewrite poff_pemit, !lenN_app, !lenN_u16. lia. }
    destruct (IH (pemit st (u16 code ++ u16 (lenN b) ++ b)) B Hr) as [I1 I2]; [lia|].
    split.
    + intros cap st'. cbn [pack_opts]. destruct (cap <? _); [discriminate|]. destruct (cap <? _); [discriminate|]. apply I1.
    + intros cap cap' Hc Hc'. cbn [pack_opts].
      replace (cap <? poff st + 4) with false by lia. replace (cap' <? poff st + 4) with false by lia.
      replace (cap <? poff st + 4 + lenN b) with false by lia. replace (cap' <? poff st + 4 + lenN b) with false by lia.
      apply I2; assumption.
Qed.

Lemma room_pairs_go l : forall prev st B, Forall pair_ok l -> poff st + pairs_est l <= B ->
  room (pack_pairs_go l prev) st B.
Proof.
  induction l as [|[[code b] n] r IH]; intros prev st B Hok H.
  - apply room_ret. cbn in H. lia.
  - inversion Hok as [|? ? Hp Hr]; subst. unfold pair_ok in Hp. cbn [fst snd] in Hp.
    cbn [pairs_est snd] in H.
    assert (Hq : poff (pemit st (u16 code ++ u16 (lenN b) ++ b)) = poff st + 4 + lenN b).
    { rewrite poff_pemit, !lenN_app, !lenN_u16. lia. }
    destruct (IH code (pemit st (u16 code ++ u16 (lenN b) ++ b)) B Hr) as [I1 I2]; [lia|].
    split.
    + intros cap st'. cbn [pack_pairs_go]. destruct (code =? prev); [discriminate|].
      destruct (cap <? _); [discriminate|]. destruct (cap <? _); [discriminate|].
      destruct (cap <? _); [discriminate|]. apply I1.
    + intros cap cap' Hc Hc'. cbn [pack_pairs_go]. destruct (code =? prev); [reflexivity|].
      replace (cap <? poff st + 2) with false by lia. replace (cap' <? poff st + 2) with false by lia.
      replace (cap <? poff st + 4) with false by lia. replace (cap' <? poff st + 4) with false by lia.
      replace (cap <? poff st + 4 + lenN b) with false by lia. replace (cap' <? poff st + 4 + lenN b) with false by lia.
      apply I2; assumption.
Qed.

Lemma pairs_est_ins p l : pairs_est (ins_pair p l) = 4 + snd p + pairs_est l.
Proof.
  induction l as [|q r IH]; [reflexivity|]. cbn [ins_pair]. destruct (_ <=? _); cbn [pairs_est]; [rewrite IH|]; lia.
Qed.
Lemma Forall_ins (P : N * bytes * N -> Prop) p l : P p -> Forall P l -> Forall P (ins_pair p l).
Proof.
  intros Hp Hl. induction Hl as [|q r Hq Hr IH]; cbn [ins_pair]; [auto|].
  destruct (_ <=? _); auto.
Qed.
Lemma sort_pairs_gen l : forall acc,
  pairs_est (fold_left (fun acc p => ins_pair p acc) l acc) = pairs_est l + pairs_est acc /\
  (Forall pair_ok l -> Forall pair_ok acc -> Forall pair_ok (fold_left (fun acc p => ins_pair p acc) l acc)).
Proof.
  induction l as [|p r IH]; intro acc; cbn [fold_left pairs_est]; [split; [lia|auto]|].
  destruct (IH (ins_pair p acc)) as [I1 I2]. split.
  - rewrite I1, pairs_est_ins. lia.
  - intros Hl Ha. inversion Hl; subst. apply I2; [assumption|]. now apply Forall_ins.
Qed.

Lemma room_svcb l st B : Forall pair_ok l -> poff st + pairs_est l <= B -> room (pack_svcb l) st B.
Proof.
  intros Hok H. unfold pack_svcb, sort_pairs. destruct (sort_pairs_gen l []) as [I1 I2].
  apply room_pairs_go; [now apply I2|]. rewrite I1. cbn [pairs_est]. lia.
Qed.

(* ================================================================== *)
(* 7. APL                                                               *)
(* ================================================================== *)
Lemma length_trim_zeros_rev l : (length (trim_zeros_rev l) <= length l)%nat.
Proof.
  induction l as [|x r IH]; [cbn; lia|]. cbn [trim_zeros_rev].
  destruct x; cbn [length] in *; lia.
Qed.
Lemma lenN_trim l : lenN (trim_trailing_zeros l) <= lenN l.
Proof.
  unfold lenN, trim_trailing_zeros. rewrite rev_length.
  pose proof (length_trim_zeros_rev (rev l)). rewrite rev_length in H. lia.
Qed.
Lemma lenN_takeN {A} n (l : list A) : lenN (takeN n l) <= n.
Proof. unfold lenN, takeN. rewrite firstn_length. lia. Qed.

Definition apl_one_est (p : bool * N * bytes) : N := 4 + (snd (fst p) + 7) / 8.
Fixpoint apl_est (l : list (bool * N * bytes)) : N :=
  match l with [] => 0 | p :: r => apl_one_est p + apl_est r end.
Lemma apl_fold l : forall a,
  fold_left (fun a (p : bool * N * bytes) => a + 4 + (snd (fst p) + 7) / 8) l a = a + apl_est l.
Proof. induction l as [|x r IH]; intro a; cbn [fold_left apl_est]; [lia|]. rewrite IH. unfold apl_one_est. lia. Qed.

Lemma room_apl_prefix p st B : poff st + apl_one_est p <= B -> room (pack_apl_prefix p) st B.
Proof.
  destruct p as [[neg prefix] ip]. unfold apl_one_est. cbn [fst snd]. intro H.
  unfold pack_apl_prefix.
  set (addr := trim_trailing_zeros (takeN ((prefix + 7) / 8) (mask_bytes ip prefix))).
  assert (Ha : lenN addr <= (prefix + 7) / 8).
  { unfold addr. pose proof (lenN_trim (takeN ((prefix + 7) / 8) (mask_bytes ip prefix))).
    pose proof (lenN_takeN ((prefix + 7) / 8) (mask_bytes ip prefix)). lia. }
  destruct (match lenN ip with 4 => Some 1 | 16 => Some 2 | _ => None end) as [f|]; [|apply room_const_err].
  apply (room_bind' (pack_fixed (u16 f)) _ st (poff st + 2) B); [apply room_fixed; rewrite lenN_u16; lia|lia|].
  intros st1 H1.
  apply (room_bind' (pack_fixed (u8 prefix)) _ st1 (poff st + 3) B); [apply room_fixed; cbn; lia|lia|].
  intros st2 H2.
  apply (room_bind' (pack_fixed (u8 ((if neg then 128 else 0) + lenN addr mod 128))) _ st2 (poff st + 4) B);
    [apply room_fixed; cbn; lia|lia|].
  intros st3 H3. apply room_fixed. lia.
Qed.

Lemma room_apl l : forall st B, poff st + apl_est l <= B -> room (pack_apl l) st B.
Proof.
  induction l as [|p r IH]; intros st B H; cbn [apl_est] in H.
  - apply room_ret. lia.
  - apply (room_bind' (pack_apl_prefix p) (pack_apl r) st (poff st + apl_one_est p) B).
    + apply room_apl_prefix. lia.
    + lia.
    + intros st' Hs. apply IH. lia.
Qed.

(* ================================================================== *)
(* 8. lists of names                                                    *)
(* ================================================================== *)
Fixpoint names_est (l : list bytes) : N :=
  match l with [] => 0 | x :: r => name_est x + names_est r end.
Lemma names_fold l : forall a off cp,
  fold_left (fun (a : N * option lset) x =>
               let '(n, c') := domain_name_len x (off + fst a) (snd a) cp in (fst a + n, c'))
            l (a, None) = (a + names_est l, None).
Proof.
  induction l as [|x r IH]; intros a off cp; cbn [fold_left names_est fst snd]; [f_equal; lia|].
  rewrite domain_name_len_none. rewrite IH. f_equal. lia.
Qed.

Lemma room_names l cp : forall st B, poff st + names_est l <= B -> room (fun cap => pack_names l cap cp) st B.
Proof.
  induction l as [|s r IH]; intros st B H; cbn [names_est] in H.
  - apply room_ret. lia.
  - apply (room_bind' (fun cap => pack_name s cap cp) (fun cap => pack_names r cap cp) st (poff st + name_est s) B).
    + apply room_name. lia.
    + lia.
    + intros st' Hs. apply IH. lia.
Qed.

(* ================================================================== *)
(* 9. one len() term without a compression map, one pack statement      *)
(* ================================================================== *)
Definition gateway_est (v : rdata) (tyf : string) (mask : N) (hostf : string) (v4 v6 host : N) : N :=
  let ty := N.land (vget_n v tyf) mask in
  if ty =? v4 then 4 else if ty =? v6 then 16
  else if ty =? host then lenN (as_s (vget v hostf)) + 1 else 0.

Definition term_est (v : rdata) (t : lterm) : N :=
  match t with
  | L_const n => n
  | L_strlen1 f => lenN (as_s (vget v f)) + 1
  | L_len f => lenN (as_s (vget v f))
  | L_half f => lenN (as_enc (vget v f))
  | L_b64 f => b64_decoded_len (lenN (as_enc (vget v f)))
  | L_b32 f => b32_decoded_len (lenN (as_enc (vget v f)))
  | L_b32text f => (lenN (as_enc (vget v f)) * 8 + 4) / 5
  | L_name f _ => name_est (as_s (vget v f))
  | L_txts f => txts_est (as_ss (vget v f))
  | L_names f _ => names_est (as_ss (vget v f))
  | L_elems_len f => apl_est (as_apl (vget v f))
  | L_pairs f => pairs_est (as_pairs (vget v f))
  | L_ifnonempty f n => ifne_est (as_b (vget v f)) n
  | L_nsec f => type_bitmap_len (as_ns (vget v f))
  | L_gateway tyf mask hostf v4 v6 host => gateway_est v tyf mask hostf v4 v6 host
  end.
Fixpoint terms_est (v : rdata) (ts : list lterm) : N :=
  match ts with [] => 0 | t :: r => term_est v t + terms_est v r end.

Lemma len_term_none v t off l : len_term v t off l None = (l + term_est v t, None).
Proof.
  destruct t; cbn [len_term term_est]; try reflexivity.
  - f_equal. lia.
  - now rewrite domain_name_len_none.
  - now rewrite txts_fold.
  - apply names_fold.
  - now rewrite apl_fold.
  - now rewrite pairs_fold.
  - unfold ifne_est. destruct (_ =? 0); f_equal; lia.
  - unfold gateway_est. cbv zeta. destruct (_ =? v4); [reflexivity|]. destruct (_ =? v6); [reflexivity|].
    destruct (_ =? host); f_equal; lia.
Qed.
Lemma len_terms_none v ts : forall off l, len_terms v ts off l None = (l + terms_est v ts, None).
Proof.
  induction ts as [|t r IH]; intros off l; cbn [len_terms terms_est]; [f_equal; lia|].
  rewrite len_term_none, IH. f_equal. lia.
Qed.

(* the value's own len() must not be smaller than what its pack() returns:
   third component of V_pairs (filled by the harness from the Go len()) *)
Definition pairs_okb (l : list (N * bytes * N)) : bool := forallb (fun p => lenN (snd (fst p)) <=? snd p) l.
Definition rdata_pairs_ok (v : rdata) : bool :=
  forallb (fun fx : string * fval => match snd fx with V_pairs l => pairs_okb l | _ => true end) v.

Lemma pairs_okb_Forall l : pairs_okb l = true -> Forall pair_ok l.
Proof.
  unfold pairs_okb. rewrite forallb_forall, Forall_forall. intros H p Hp. apply H in Hp. cbv beta in Hp. unfold pair_ok. apply N.leb_le. exact Hp.
Qed.
Lemma rdata_pairs_ok_get v f : rdata_pairs_ok v = true -> Forall pair_ok (as_pairs (vget v f)).
Proof.
  induction v as [|[g x] r IH]; intro H; [constructor|].
  cbn [rdata_pairs_ok forallb snd] in H. apply andb_prop in H. destruct H as [Hx Hr].
  cbn [vget]. destruct (String.eqb f g); [|apply IH, Hr].
  destruct x; try constructor. cbn [as_pairs]. now apply pairs_okb_Forall.
Qed.

Lemma b64_len_ge n : n <= b64_decoded_len n.
Proof.
  unfold b64_decoded_len. pose proof (N.div_mod (n + 2) 3). pose proof (N.mod_lt (n + 2) 3). lia.
Qed.
Lemma b32text_len_ge n : n <= (n * 8 + 4) / 5.
Proof. pose proof (N.div_mod (n * 8 + 4) 5). pose proof (N.mod_lt (n * 8 + 4) 5). lia. Qed.
Lemma b32_len_ge n : n <= b32_decoded_len n.
Proof.
  unfold b32_decoded_len.
  pose proof (N.div_mod (n * 8 + 4) 5). pose proof (N.mod_lt (n * 8 + 4) 5).
  set (q := (n * 8 + 4) / 5) in *.
  pose proof (N.div_mod (q * 5) 8). pose proof (N.mod_lt (q * 5) 8). lia.
Qed.

Definition kind_fixed (k : fkind) : option N :=
  match k with
  | K_u8 => Some 1 | K_u16 => Some 2 | K_u32 => Some 4 | K_u48 => Some 6 | K_u64 => Some 8
  | _ => None
  end.

(* which len() term accounts for which pack statement *)
Definition kind_term (f : string) (k : fkind) (t : lterm) : bool :=
  match k, t with
  | K_name c, L_name g c' => String.eqb f g && Bool.eqb c c'
  | K_string, L_strlen1 g => String.eqb f g
  | K_txt, L_txts g => String.eqb f g
  | K_octet, L_len g => String.eqb f g
  | K_any, L_len g => String.eqb f g
  | K_hex _, L_half g => String.eqb f g
  | K_hexdash _, L_half g => String.eqb f g
  | K_b64 _, L_b64 g => String.eqb f g
  | K_b32 _, L_b32 g => String.eqb f g
  | K_b32 _, L_b32text g => String.eqb f g
  | K_a, L_ifnonempty g n => String.eqb f g && (n =? 4)
  | K_aaaa, L_ifnonempty g n => String.eqb f g && (n =? 16)
  | K_nsec, L_nsec g => String.eqb f g
  | K_opt, L_pairs g => String.eqb f g
  | K_svcb, L_pairs g => String.eqb f g
  | K_apl, L_elems_len g => String.eqb f g
  | K_names c, L_names g c' => String.eqb f g && Bool.eqb c c'
  | K_gateway tyf _ hostf mask _, L_gateway tyf' mask' hostf' v4 v6 host =>
    String.eqb tyf tyf' && String.eqb hostf hostf' && (mask =? mask')
    && (v4 =? gw_v4) && (v6 =? gw_v6) && (host =? gw_host)
  | _, _ => false
  end.

Lemma fixed_is_fixed v f k n :
  kind_fixed k = Some n -> exists b, lenN b = n /\ forall cap st, pack_field v f k cap st = pack_fixed b cap st.
Proof.
  destruct k; cbn [kind_fixed]; intro E; try discriminate; injection E as <-; eexists; (split; [|reflexivity]); reflexivity.
Qed.

Lemma room_gateway v f tyf addrf hostf mask c st B :
  poff st + gateway_est v tyf mask hostf gw_v4 gw_v6 gw_host <= B ->
  room (pack_field v f (K_gateway tyf addrf hostf mask c)) st B.
Proof.
  unfold gateway_est. cbv zeta. intro H.
  apply (room_ext (fun cap st =>
    if N.land (vget_n v tyf) mask =? gw_v4 then pack_a (as_b (vget v addrf)) cap st
    else if N.land (vget_n v tyf) mask =? gw_v6 then pack_aaaa (as_b (vget v addrf)) cap st
    else if N.land (vget_n v tyf) mask =? gw_host then pack_name (as_s (vget v hostf)) cap c st
    else Ok st)); [reflexivity|].
  destruct (N.land (vget_n v tyf) mask =? gw_v4).
  { apply (room_a (as_b (vget v addrf))). unfold ifne_est. destruct (_ =? 0); lia. }
  destruct (N.land (vget_n v tyf) mask =? gw_v6).
  { apply (room_aaaa (as_b (vget v addrf))). unfold ifne_est. destruct (_ =? 0); lia. }
  destruct (N.land (vget_n v tyf) mask =? gw_host).
  { apply (room_name (as_s (vget v hostf)) c). pose proof (name_est_le (as_s (vget v hostf))). lia. }
  apply room_ret. lia.
Qed.

Lemma kind_term_room v f k t st B :
  kind_term f k t = true -> rdata_pairs_ok v = true ->
  poff st + term_est v t <= B -> room (pack_field v f k) st B.
Proof.
  intros Hk Hv.
  destruct k, t; cbn [kind_term] in Hk; try discriminate;
    repeat (apply andb_prop in Hk; let H := fresh "Hk" in destruct Hk as [Hk H]);
    try (apply String.eqb_eq in Hk; subst); cbn [term_est pack_field]; intro H.
  - (* name *) apply (room_name (as_s (vget v f0)) compress). exact H.
  - (* string *) apply (room_relabel (pack_txt_string (as_s (vget v f0)))). apply room_txt_string. lia.
  - (* txt *) apply (room_relabel (pack_txt (as_ss (vget v f0)))). now apply room_txt.
  - (* octet *) apply (room_relabel (pack_octet (as_s (vget v f0)))). now apply room_octet.
  - (* any *) apply room_fixed. exact H.
  - (* hex *) apply room_fixed. exact H.
  - (* hexdash *) apply room_fixed. exact H.
  - (* b64 *) apply room_fixed. pose proof (b64_len_ge (lenN (as_enc (vget v f0)))). lia.
  - (* b32 *) apply room_fixed. pose proof (b32_len_ge (lenN (as_enc (vget v f0)))). lia.
  - (* b32 text *) apply room_fixed. pose proof (b32text_len_ge (lenN (as_enc (vget v f0)))). lia.
  - (* a *) apply N.eqb_eq in Hk0. subst. now apply room_a.
  - (* aaaa *) apply N.eqb_eq in Hk0. subst. now apply room_aaaa.
  - (* nsec *) now apply room_nsec.
  - (* opt *) apply room_opts; [now apply rdata_pairs_ok_get|exact H].
  - (* svcb *) apply room_svcb; [now apply rdata_pairs_ok_get|exact H].
  - (* apl *) now apply room_apl.
  - (* names *) apply (room_names (as_ss (vget v f0)) compress). exact H.
  - (* gateway *)
    apply String.eqb_eq in Hk4. apply N.eqb_eq in Hk3, Hk2, Hk1, Hk0. subst.
    apply room_gateway. exact H.
Qed.

(* ================================================================== *)
(* 10. exactness of the plain kinds; the compression map stays absent   *)
(* ================================================================== *)
Lemma pn_go_cm_none s : forall first lab lstart wd nl cap cp st st',
  pn_cm st = None -> pn_go s first lab lstart wd nl cap cp st = Ok (PnDone st') -> pn_cm st' = None.
Proof.
  induction s as [| a b c r3 Hd IH | a r1 Hd IH | | r IH | x r H1 H2 IH] using tok_ind;
    intros first lab lstart wd nl cap cp st st' Hc H.
  - cbn [pn_go] in H. injection H as <-. exact Hc.
  - rewrite pn_go_ddd in H by auto. destruct (_ <? _); [discriminate|]. eapply IH; eauto.
  - rewrite pn_go_esc in H by auto. destruct (_ <? _); [discriminate|]. eapply IH; eauto.
  - exfalso. exact (pn_go_dangling _ _ _ _ _ _ _ _ _ H).
  - rewrite pn_go_dot in H.
    destruct (first && _); [discriminate|]. destruct wd; [discriminate|].
    destruct (64 <=? lenN lab); [discriminate|]. destruct (cap <? _); [discriminate|].
    rewrite dot_hit_none, dot_st1_none in H by exact Hc.
    destruct (max_name_wire <? _); [discriminate|]. eapply IH; [|exact H]. exact Hc.
  - rewrite pn_go_plain in H by auto. eapply IH; eauto.
Qed.

Lemma pack_name_cm_none s cap cp st st' :
  pn_cm st = None -> pack_name s cap cp st = Ok st' -> pn_cm st' = None.
Proof.
  intros Hc. unfold pack_name. destruct s as [|x r] eqn:Es; [intro H; injection H as <-; exact Hc|].
  rewrite <- Es. destruct (negb (is_fqdn s)); [discriminate|].
  destruct (pn_go s true [] s false 0 cap cp st) as [e| | |] eqn:E; try discriminate. cbn [bind].
  destruct e as [st1|st1 p].
  - apply pn_go_cm_none in E; [|exact Hc].
    destruct (bytes_eqb s [46]); [intro H; injection H as <-; exact E|].
    destruct (_ <? cap); [|discriminate]. intro H; injection H as <-. exact E.
  - exfalso. exact (pn_go_no_pointer _ _ _ _ _ _ _ _ _ _ _ (or_introl Hc) E).
Qed.

Lemma pack_name_root cap cp st st' :
  pack_name [46] cap cp st = Ok st' -> lenN (pn_out st') = lenN (pn_out st) + 1.
Proof.
  unfold pack_name. cbn [is_fqdn rev app bs_run Nat.even negb].
  rewrite pn_go_dot. cbn [andb negb]. rewrite lenN_nil.
  destruct (cap <? _); [discriminate|].
  assert (Eh : dot_hit st [] [] [46] = None).
  { unfold dot_hit. destruct (pn_cm st); reflexivity. }
  rewrite Eh. destruct (max_name_wire <? _); [discriminate|]. cbn [pn_go bind].
  rewrite bytes_eqb_refl. intro E; injection E as <-. cbn [pn_out].
  rewrite dot_st1_out, lenN_app, lenN_cons, lenN_nil. lia.
Qed.

Lemma name_est_plain s : s <> [] -> has_backslash s = false -> name_est s = escaped_name_len s + 1 \/ s = [46].
Proof.
  intros H1 Hb. destruct (list_eq_dec N.eq_dec s [46]) as [->|H2]; [now right|left].
  unfold name_est. rewrite !bytes_eqb_false by assumption. cbn [orb]. rewrite Hb.
  now rewrite enl_no_backslash.
Qed.

(* a non-empty name without escapes, packed without compression map, takes
   exactly what domainNameLen predicts *)
Lemma pack_name_plain_exact s cap cp st st' :
  pn_cm st = None -> s <> [] -> has_backslash s = false ->
  pack_name s cap cp st = Ok st' -> poff st' = poff st + name_est s.
Proof.
  intros Hc H1 Hb H. unfold poff.
  destruct (name_est_plain s H1 Hb) as [E | ->].
  - destruct (list_eq_dec N.eq_dec s [46]) as [->|H2].
    + apply pack_name_root in H. change (name_est [46]) with 1. lia.
    + apply pack_name_exact in H; auto. lia.
  - apply pack_name_root in H. change (name_est [46]) with 1. lia.
Qed.

Lemma pack_fixed_cm b cap st st' : pack_fixed b cap st = Ok st' -> pn_cm st' = pn_cm st.
Proof. unfold pack_fixed. destruct (_ <? _); [discriminate|]. intro E; injection E as <-. reflexivity. Qed.
Lemma pack_txt_string_cm s cap st st' : pack_txt_string s cap st = Ok st' -> pn_cm st' = pn_cm st.
Proof.
  unfold pack_txt_string. destruct (_ || _); [discriminate|].
  destruct (ptx_go _ _ _ _); try discriminate. cbn [bind]. destruct (255 <? _); [discriminate|].
  intro E; injection E as <-. reflexivity.
Qed.
Lemma pack_txts_cm l : forall cap st st', pack_txts l cap st = Ok st' -> pn_cm st' = pn_cm st.
Proof.
  induction l as [|s r IH]; intros cap st st' H; [injection H as <-; reflexivity|].
  cbn [pack_txts] in H. destruct (pack_txt_string s cap st) as [st1| | |] eqn:E; try discriminate.
  cbn [bind] in H. apply IH in H. apply pack_txt_string_cm in E. congruence.
Qed.
Lemma pack_txt_cm l cap st st' : pack_txt l cap st = Ok st' -> pn_cm st' = pn_cm st.
Proof.
  destruct l as [|s r]; [|apply (pack_txts_cm (s :: r))].
  cbn [pack_txt]. destruct (_ <=? _); [discriminate|]. intro E; injection E as <-. reflexivity.
Qed.
Lemma pack_a_cm a cap st st' : pack_a a cap st = Ok st' -> pn_cm st' = pn_cm st.
Proof.
  destruct (N.eq_dec (lenN a) 4) as [E4|N4]; [rewrite pack_a_4 by exact E4; apply pack_fixed_cm|].
  destruct (N.eq_dec (lenN a) 16) as [E16|N16]; [rewrite pack_a_16 by exact E16; apply pack_fixed_cm|].
  destruct (N.eq_dec (lenN a) 0) as [E0|N0]; [rewrite pack_a_0 by exact E0; intro E; injection E as <-; reflexivity|].
  rewrite pack_a_other by assumption. discriminate.
Qed.
Lemma pack_aaaa_cm a cap st st' : pack_aaaa a cap st = Ok st' -> pn_cm st' = pn_cm st.
Proof.
  destruct (N.eq_dec (lenN a) 16) as [E16|N16]; [rewrite pack_aaaa_16 by exact E16; apply pack_fixed_cm|].
  destruct (N.eq_dec (lenN a) 0) as [E0|N0]; [rewrite pack_aaaa_0 by exact E0; intro E; injection E as <-; reflexivity|].
  rewrite pack_aaaa_other by assumption. discriminate.
Qed.

(* the kinds of the exactness clause and what "needs no escape" means per kind *)
Definition exact_kind (k : fkind) : bool :=
  match k with K_name _ | K_string | K_txt | K_a | K_aaaa => true | _ => false end.
Definition no_bs (s : bytes) : bool := negb (has_backslash s).
Definition plain_field (v : rdata) (f : string) (k : fkind) : bool :=
  match k with
  | K_name _ => no_bs (as_s (vget v f)) && negb (bytes_eqb (as_s (vget v f)) [])
  | K_string => no_bs (as_s (vget v f))
  | K_txt => forallb no_bs (as_ss (vget v f))
  | _ => true
  end.

Lemma kind_term_exact v f k t cap st st' :
  kind_term f k t = true -> exact_kind k = true -> plain_field v f k = true -> pn_cm st = None ->
  pack_field v f k cap st = Ok st' -> poff st' = poff st + term_est v t /\ pn_cm st' = None.
Proof.
  intros Hk He Hp Hc.
  destruct k; try discriminate He; destruct t; cbn [kind_term] in Hk; try discriminate;
    repeat (apply andb_prop in Hk; let H := fresh "Hk" in destruct Hk as [Hk H]);
    apply String.eqb_eq in Hk; subst; cbn [term_est pack_field plain_field] in *; intro H.
  - apply andb_prop in Hp. destruct Hp as [Hb Hn]. unfold no_bs in Hb.
    split; [|eapply pack_name_cm_none; eauto].
    eapply pack_name_plain_exact; eauto.
    + intro E. rewrite E in Hn. discriminate.
    + now destruct (has_backslash _).
  - unfold pack_string in H. destruct (pack_txt_string _ _ _) eqn:E; try discriminate. injection H as <-.
    split; [|apply pack_txt_string_cm in E; congruence].
    apply pack_txt_string_exact in E; [lia|]. unfold no_bs in Hp. now destruct (has_backslash _).
  - destruct (pack_txt _ _ _) eqn:E; try discriminate. injection H as <-.
    split; [|apply pack_txt_cm in E; congruence]. apply (pack_txt_exact _ _ _ _ Hp) in E. exact E.
  - apply N.eqb_eq in Hk0. subst. split; [exact (pack_a_exact _ _ _ _ H)|apply pack_a_cm in H; congruence].
  - apply N.eqb_eq in Hk0. subst. split; [exact (pack_aaaa_exact _ _ _ _ H)|apply pack_aaaa_cm in H; congruence].
Qed.
