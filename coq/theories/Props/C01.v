(* Props/C01.v — property C01: wire encoding is lossless and matches the RFC
   layouts.  Only statements; proofs in Proofs/LayoutProofs.v, HeaderProofs.v,
   NameRoundtripProofs.v.

   The per-type field sequences (Gen/Layouts.v) are regenerated from zmsg.go on
   every run; Spec/RfcLayouts.v is the frozen RFC table.  The field codecs that
   interpret a layout (Model/Rdata.v) are tied to msg_helpers.go by the
   correspondence check for every type on every run; the generic round-trip
   theorem over all field kinds is work in progress (partial) — names, the
   header word and the RCODE split are proved below. *)
From Dns Require Import Model.Msg Spec.RfcLayouts Proofs.LayoutProofs Proofs.HeaderProofs
  Proofs.NameRoundtripProofs Gen.Layouts Gen.Registry.
Open Scope N_scope.

(* every type's pack() walks exactly the fields the RFCs prescribe, in order,
   with the prescribed widths and compression flags *)
Theorem layouts_match_the_rfcs :
  map (fun L => (tl_name L, tl_pack L)) layouts = rfc_layouts.
Proof. exact layouts_are_rfc. Qed.

(* unpack() of every type reads the same fields in the same order as pack() writes *)
Theorem pack_and_unpack_walk_the_same_fields :
  forallb (fun L => sides_agree (tl_pack L) (tl_unpack L)) layouts = true.
Proof. exact pack_unpack_sides_agree. Qed.

(* every registered type code has a field layout and a length description *)
Theorem every_registered_type_has_a_layout :
  forallb (fun tk : N * string =>
             match find_layout layouts (base_kind (snd tk)), len_terms_of (base_kind (snd tk)) with
             | Some _, Some _ => true | _, _ => false end) type_to_rr = true.
Proof. exact registry_complete. Qed.

(* all 2^16 flag/opcode/RCODE words: unpacking the word and packing the header
   fields again gives the word back *)
Theorem header_word_roundtrip :
  forall (w id : N) qs an ns ex,
    w < 65536 -> hdr_word (msg_of_bits id w qs an ns ex (w mod 16)) = w.
Proof. intros w id qs an ns ex H. exact (hdr_word_roundtrip w id qs an ns ex H). Qed.

(* every combination of the eight flags, opcode 0..15 and low RCODE 0..15
   survives pack followed by unpack *)
Theorem header_fields_roundtrip :
  forallb (fun q => forallb (fun a => forallb (fun t => forallb (fun r => forallb (fun v => forallb (fun z =>
  forallb (fun d => forallb (fun c => forallb (fun op => forallb (fun rc =>
    let m := flag_msg q a t r v z d c op rc in
    flags_eq (msg_of_bits 0 (hdr_word m) [] [] [] [] (hdr_word m mod 16)) m)
  (upto 16)) (upto 16)) bools) bools) bools) bools) bools) bools) bools) bools = true.
Proof. exact flags_sweep. Qed.

(* the 12-bit RCODE: the upper eight bits written into the OPT TTL by Pack are
   what Unpack reads back, the other OPT TTL bits are untouched, and joining them
   with the low four header bits gives the RCODE again, for all 0..4095 *)
Theorem extended_rcode_split_and_rejoined :
  forall (r : rr) (rc : N),
    rc < 4096 ->
    N.lor (rc mod 16) (ext_rcode_of_ttl (rr_ttl (set_ext_rcode r rc))) = rc /\
    rr_ttl (set_ext_rcode r rc) mod 16777216 = rr_ttl r mod 16777216.
Proof.
  intros r rc H. split; [rewrite ext_rcode_set_get; apply rcode_rejoin, H|apply set_ext_rcode_keeps_low_bits].
Qed.

(* names: wire -> text -> wire is the identity on every valid name (C03) *)
Theorem names_roundtrip :
  forall (ls : list label) (cap : N) (post : bytes),
    valid_wire ls = true -> 320 <= cap ->
    pack_name_plain (show_name ls) cap = Ok (wire_name ls) /\
    unpack_name (wire_name ls ++ post) 0 = Ok (show_name ls, wire_len ls).
Proof. intros ls cap post Hv Hc. split; [apply pack_show_name; assumption|apply unpack_wire_name, Hv]. Qed.
