(* Corr/C13.v — trace acceptance by the server life-cycle LTS.
   fn   = lts
   args = mode (tcp | udp), then one string per observed event:
     si.i  start call i invoked          se.i  start call i returned the already-started error
     n     NotifyStartedFunc called      ao.c  Accept returned connection c
     fs    the serving start call returned the PacketConnReader error (failed start)
     fl.i  start call i returned an error of its own before srv.started was set (bad network,
           no TLS certificates, listen error, no listeners)
     ae    Accept returned an error      pk.p  ReadFrom returned packet p
     re    ReadFrom returned an error    sf    non-temporary listener error injected
     ps.p  ReadFrom returned datagram p of fewer than 12 octets (no worker is created)
     ig.c  the server is about to drop / reject the message read on connection c (packet c)
           without calling the handler (no header, MsgAcceptFunc, body does not unpack)
     sr.v  serve call returned (0 nil, 1 error)
     rq.c  request read on connection c  rx.c  read on connection c failed
     he.c  handler entered               rp.c  reply written      hx.c  handler about to return
     hj.c  handler about to return after it hijacked connection c (tcp)
     wc.c  connection c closed by the server
     di.j  Shutdown call j invoked       dc.j  its context cancelled
     dr.j.r  it returned (0 nil, 1 context error, 2 not-started error)
   out  = ok | rej:<index of the first event no execution can produce> | fuel
          (logs of up to 18 events are judged by the full hidden-step closure
          and by the reduced acceptor, which must agree; longer ones by the
          reduced acceptor)
   fn   = lts_lives
   args = mode, then the event logs of consecutive lives of ONE Server value
          (start ... Shutdown, serve call returned; start again ...), separated
          by the pseudo event ep
   out  = ok | rej:<life>:<index> | notover:<life> (at the restart the log of
          that life allows a state in which it is not over) | fuel *)
From Dns Require Import Model.ServerLts.
Open Scope nat_scope.

Fixpoint split_dot (s : string) : list string :=
  match s with
  | EmptyString => [EmptyString]
  | String a r =>
    let l := split_dot r in
    if Ascii.eqb a "."%char then EmptyString :: l
    else match l with h :: t => String a h :: t | [] => [String a EmptyString] end
  end.

Definition parse_event (s : string) : option label :=
  let f := split_dot s in
  let k := arg f 0 in
  let a := undecn (arg f 1) in
  let b := undecn (arg f 2) in
  if String.eqb k "si" then Some (StInvoke a)
  else if String.eqb k "se" then Some (StReturnErr a)
  else if String.eqb k "n" then Some Notify
  else if String.eqb k "fs" then Some SFailStart
  else if String.eqb k "fl" then Some (StFail a)
  else if String.eqb k "ao" then Some (SAcceptOk a)
  else if String.eqb k "ae" then Some SAcceptErr
  else if String.eqb k "pk" then Some (SPacket a)
  else if String.eqb k "ps" then Some (SPacketShort a)
  else if String.eqb k "ig" then Some (WDrop a)
  else if String.eqb k "re" then Some SReadErr
  else if String.eqb k "sf" then Some SFatal
  else if String.eqb k "sr" then Some (SReturn (match a with O => RNil | _ => RErr end))
  else if String.eqb k "rq" then Some (Req a)
  else if String.eqb k "rx" then Some (ReadErr a)
  else if String.eqb k "he" then Some (HEnter a)
  else if String.eqb k "rp" then Some (Reply a)
  else if String.eqb k "hx" then Some (HExit a)
  else if String.eqb k "hj" then Some (HExitHj a)
  else if String.eqb k "wc" then Some (WClose a)
  else if String.eqb k "di" then Some (SdInvoke a)
  else if String.eqb k "dc" then Some (SdCtx a)
  else if String.eqb k "dr" then Some (SdReturn a (match b with O => ResNil | 1 => ResCtx | _ => ResNotStarted end))
  else None.

Fixpoint parse_events (l : list string) : option (list label) :=
  match l with
  | [] => Some []
  | x :: t => match parse_event x, parse_events t with
              | Some e, Some r => Some (e :: r)
              | _, _ => None
              end
  end.

(* split at the pseudo event ep *)
Fixpoint split_ep (l : list string) : list (list string) :=
  match l with
  | [] => [[]]
  | x :: t =>
    let r := split_ep t in
    if String.eqb x "ep" then [] :: r
    else match r with h :: t' => (x :: h) :: t' | [] => [[x]] end
  end.
Fixpoint parse_lives (l : list (list string)) : option (list (list label)) :=
  match l with
  | [] => Some []
  | x :: t => match parse_events x, parse_lives t with
              | Some e, Some r => Some (e :: r)
              | _, _ => None
              end
  end.

Definition run (fn : string) (args : list string) : string :=
  if String.eqb fn "lts" then
    let m := if String.eqb (arg args 0) "udp" then UDP else TCP in
    match parse_events (tl args) with
    | None => "bad-event"%string
    | Some obs =>
      let show (r : nat + option nat) : string :=
          match r with
          | inl i => "rej:"%string +++ decn i
          | inr None => "fuel"%string
          | inr (Some _) => "ok"%string
          end in
      (* long logs: the reduced acceptor; short logs: both must agree *)
      let r := show (accepts_red m obs) in
      if Nat.leb (length obs) 18 then
        let r' := show (accepts m obs) in
        if String.eqb r r' then r else ("acceptors-disagree:"%string +++ r +++ "/"%string +++ r')
      else r
    end
  else if String.eqb fn "lts_lives" then
    let m := if String.eqb (arg args 0) "udp" then UDP else TCP in
    match parse_lives (split_ep (tl args)) with
    | None => "bad-event"%string
    | Some lives =>
      match accepts_lives m lives 0 with
      | LOk => "ok"%string
      | LRej k i => "rej:"%string +++ decn k +++ ":"%string +++ decn i
      | LNotOver k => "notover:"%string +++ decn k
      | LFuel => "fuel"%string
      end
    end
  else "unknown-fn"%string.
