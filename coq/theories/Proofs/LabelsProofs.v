(* Proofs/LabelsProofs.v — lemmas about Model/Labels.v *)
From Dns Require Import Base.ListX Model.Labels.
From Coq Require Import Lia ZifyN ZifyNat ZifyBool.
Open Scope N_scope.

(* ---- IsFqdn: a trailing dot preceded by an even number of backslashes ---- *)
Lemma is_fqdn_spec s :
  is_fqdn s = true <->
  exists p k, s = p ++ repeat 92 k ++ [46] /\ Nat.even k = true /\
              (forall q, p <> q ++ [92]).
Proof.
  unfold is_fqdn. split.
  - destruct (rev s) as [|c r] eqn:Hr; [discriminate|].
    destruct (N.eqb_spec c 46) as [->|Hc].
    2:{ destruct c as [|p]; [discriminate|]. repeat (destruct p as [p|p|]; try discriminate). congruence. }
    intro Hev.
    assert (Hs : s = rev r ++ [46]).
    { rewrite <- (rev_involutive s), Hr. reflexivity. }
    clear Hr. revert Hev Hs.
    generalize (eq_refl (bs_run r)).
    generalize (bs_run r) at 2 3 as k. intros k Hk Hev Hs.
    assert (Hsplit : exists t, r = repeat 92 k ++ t /\ (forall t', t <> 92 :: t')).
    { clear Hs Hev. revert k Hk. induction r as [|b r IH]; intros k Hk; cbn in Hk.
      - subst k. exists []. split; [reflexivity|]. intros t' H; discriminate.
      - destruct (N.eqb_spec b 92) as [->|Hb].
        + destruct k as [|k]; [discriminate|]. injection Hk as Hk.
          destruct (IH k Hk) as [t [-> Ht]]. exists t. split; [reflexivity|exact Ht].
        + subst k. exists (b :: r). split; [reflexivity|]. intros t' H. congruence. }
    destruct Hsplit as [t [-> Ht]].
    exists (rev t), k. split; [|split; [exact Hev|]].
    + rewrite Hs, rev_app_distr, rev_repeat, <- app_assoc. reflexivity.
    + intros q Hq. apply (Ht (rev q)).
      rewrite <- (rev_involutive t), Hq, rev_app_distr. reflexivity.
  - intros [p [k [-> [Hev Hp]]]].
    rewrite !rev_app_distr. cbn [rev app].
    rewrite rev_repeat.
    assert (Hrun : bs_run (repeat 92 k ++ rev p) = k).
    { clear Hev. induction k as [|k IH]; cbn.
      - destruct (rev p) as [|b t] eqn:Hrp; [reflexivity|]. cbn.
        destruct (N.eqb_spec b 92) as [->|]; [|reflexivity].
        exfalso. apply (Hp (rev t)). rewrite <- (rev_involutive p), Hrp. reflexivity.
      - now rewrite IH. }
    rewrite Hrun. exact Hev.
Qed.

(* ================= NextLabel on printed names ================= *)
From Dns Require Import Proofs.EscapeProofs.

Lemma nl_go_cons pre c r i : r <> [] ->
  nl_go pre (c :: r) i =
  if (c =? 46) && Nat.even (bs_run pre) then (S i, false) else nl_go (c :: pre) r (S i).
Proof. destruct r; [congruence|reflexivity]. Qed.

(* reading a separator-free segment L that is followed by an unescaped dot and
   more text: NextLabel stops just after that dot *)
Lemma nl_go_mid P L R :
  has_sep (scan false P) L = false -> scan (scan false P) L = false -> R <> [] ->
  nl_go (rev P) (L ++ 46 :: R) (length P) = (length P + length L + 1, false)%nat.
Proof.
  revert P. induction L as [|c L IH]; intros P Hs Hf HR.
  - cbn in Hf. cbn [app nl_go]. destruct R as [|r R]; [congruence|].
    rewrite bs_run_even, Hf. cbn. f_equal. lia.
  - cbn [app]. rewrite nl_go_cons by (destruct L; discriminate).
    cbn [has_sep] in Hs. apply orb_false_elim in Hs. destruct Hs as [Hs1 Hs2].
    rewrite bs_run_even.
    assert (Hc : (c =? 46) && negb (scan false P) = false).
    { rewrite andb_comm. exact Hs1. }
    rewrite Hc.
    replace (c :: rev P) with (rev (P ++ [c])) by (rewrite rev_app_distr; reflexivity).
    replace (S (length P)) with (length (P ++ [c])) by (rewrite app_length; cbn; lia).
    rewrite IH.
    + rewrite app_length. cbn. f_equal. lia.
    + rewrite scan_app. exact Hs2.
    + rewrite scan_app. exact Hf.
    + exact HR.
Qed.

(* reading the last segment: no separator before the final octet, which is
   never examined; NextLabel reports the end at len(s) *)
Lemma nl_go_last P L x :
  has_sep (scan false P) L = false ->
  nl_go (rev P) (L ++ [x]) (length P) = (length P + length L + 1, true)%nat.
Proof.
  revert P. induction L as [|c L IH]; intros P Hs.
  - cbn. f_equal. lia.
  - cbn [app]. rewrite nl_go_cons by (destruct L; discriminate).
    cbn [has_sep] in Hs. apply orb_false_elim in Hs. destruct Hs as [Hs1 Hs2].
    rewrite bs_run_even.
    assert (Hc : (c =? 46) && negb (scan false P) = false).
    { rewrite andb_comm. exact Hs1. }
    rewrite Hc.
    replace (c :: rev P) with (rev (P ++ [c])) by (rewrite rev_app_distr; reflexivity).
    replace (S (length P)) with (length (P ++ [c])) by (rewrite app_length; cbn; lia).
    rewrite IH.
    + rewrite app_length. cbn. f_equal. lia.
    + rewrite scan_app. exact Hs2.
Qed.

(* well-formed label lists: non-empty labels of octets *)
Definition labels_wf (ls : list label) : Prop := Forall (fun l => l <> [] /\ wfb l) ls.

Lemma show_labels_scan ls : labels_wf ls -> scan false (show_labels ls) = false.
Proof.
  unfold show_labels. induction 1 as [|l ls [_ Hl] _ IH]; cbn; [reflexivity|].
  rewrite <- app_assoc, !scan_app. destruct (show_label_scan l Hl) as [H1 _].
  rewrite H1. cbn. exact IH.
Qed.

Lemma show_labels_cons l ls : show_labels (l :: ls) = show_label l ++ 46 :: show_labels ls.
Proof. unfold show_labels. cbn. now rewrite <- app_assoc. Qed.

Lemma show_labels_app a b : show_labels (a ++ b) = show_labels a ++ show_labels b.
Proof. unfold show_labels. now rewrite flat_map_app. Qed.

Lemma show_labels_nonempty l ls : show_labels (l :: ls) <> [].
Proof. rewrite show_labels_cons. destruct (show_label l); discriminate. Qed.

(* the presentation forms of a non-root name: with and without the final dot *)
Definition name_form (fq : bool) (ls : list label) : bytes :=
  if fq then show_labels ls else removelast (show_labels ls).

Lemma show_labels_snoc_form ls l :
  show_labels (ls ++ [l]) = show_labels ls ++ show_label l ++ [46].
Proof. rewrite show_labels_app, show_labels_cons. reflexivity. Qed.

Lemma removelast_snoc {A} (a : list A) x : removelast (a ++ [x]) = a.
Proof. now rewrite removelast_app, app_nil_r by discriminate. Qed.

(* NextLabel at the start of label i (before: pre, label: l, after: post) *)
Lemma next_label_mid pre l post s :
  labels_wf pre -> l <> [] /\ wfb l -> post <> [] ->
  s = show_labels pre ++ show_label l ++ 46 :: post ->
  next_label s (length (show_labels pre)) =
  (length (show_labels pre) + length (show_label l) + 1, false)%nat.
Proof.
  intros Hpre [Hne Hl] Hpost ->. unfold next_label.
  destruct (show_labels pre ++ show_label l ++ 46 :: post) eqn:Hs.
  { destruct (show_labels pre); [|discriminate]. destruct (show_label l); discriminate. }
  rewrite <- Hs. rewrite firstn_app_exact, skipn_app_exact.
  destruct (show_label_scan l Hl) as [H1 H2].
  apply nl_go_mid; rewrite ?show_labels_scan; auto.
Qed.

Lemma next_label_last pre L x s :
  labels_wf pre -> has_sep false L = false ->
  s = show_labels pre ++ L ++ [x] ->
  next_label s (length (show_labels pre)) = (length s, true).
Proof.
  intros Hpre HL ->. unfold next_label.
  destruct (show_labels pre ++ L ++ [x]) eqn:Hs.
  { destruct (show_labels pre); [|discriminate]. destruct L; discriminate. }
  rewrite <- Hs. rewrite firstn_app_exact, skipn_app_exact.
  rewrite nl_go_last by (rewrite show_labels_scan; auto).
  rewrite !app_length. cbn. f_equal. lia.
Qed.

(* ================= Split / CountLabel ================= *)
Fixpoint label_starts (off : nat) (ls : list label) : list nat :=
  match ls with
  | [] => []
  | l :: r => off :: label_starts (off + length (show_label l) + 1) r
  end.
Fixpoint nexts (p : nat) (ls : list label) : list nat :=
  match ls with
  | [] => []
  | l :: r => let p' := (p + length (show_label l) + 1)%nat in p' :: nexts p' r
  end.
Lemma label_starts_snoc p mid last : label_starts p (mid ++ [last]) = p :: nexts p mid.
Proof.
  revert p; induction mid as [|l r IH]; intros p; cbn; [reflexivity|].
  now rewrite IH.
Qed.

(* a name whose last segment is L ++ [x] (x is the final dot of the FQDN form,
   or the last octet of the last label in the form without the final dot) *)
Definition seg_name (pre mid : list label) (L : bytes) (x : N) : bytes :=
  show_labels pre ++ show_labels mid ++ L ++ [x].

Lemma labels_wf_app a b : labels_wf a -> labels_wf b -> labels_wf (a ++ b).
Proof. unfold labels_wf. intros. apply Forall_app; auto. Qed.

Lemma split_go_spec mid : forall pre L x fuel acc,
  labels_wf pre -> labels_wf mid -> has_sep false L = false ->
  (length mid < fuel)%nat ->
  split_go fuel (seg_name pre mid L x) (length (show_labels pre)) acc =
  Some (rev acc ++ nexts (length (show_labels pre)) mid).
Proof.
  induction mid as [|l mid IH]; intros pre L x fuel acc Hpre Hmid HL Hfuel.
  - destruct fuel as [|fuel]; [cbn in Hfuel; lia|]. cbn [split_go].
    unfold seg_name. cbn [show_labels flat_map app].
    rewrite (next_label_last pre L x) by auto. now rewrite app_nil_r.
  - destruct fuel as [|fuel]; [cbn in Hfuel; lia|]. cbn [split_go].
    inversion Hmid as [|? ? Hl Hmid']; subst.
    unfold seg_name. rewrite show_labels_cons, <- app_assoc. cbn [app].
    rewrite (next_label_mid pre l (show_labels mid ++ L ++ [x])); auto.
    2:{ destruct (show_labels mid); [destruct L|]; discriminate. }
    cbn [nexts].
    assert (Hlen : (length (show_labels pre) + length (show_label l) + 1)%nat
                   = length (show_labels (pre ++ [l]))).
    { rewrite show_labels_snoc_form, !app_length. cbn. lia. }
    rewrite Hlen.
    replace (show_labels pre ++ show_label l ++ 46 :: show_labels mid ++ L ++ [x])
      with (seg_name (pre ++ [l]) mid L x).
    2:{ unfold seg_name. rewrite show_labels_snoc_form, <- !app_assoc. reflexivity. }
    rewrite IH; auto.
    + cbn [rev]. now rewrite <- app_assoc.
    + apply labels_wf_app; auto. constructor; auto.
    + cbn in Hfuel. lia.
Qed.

Lemma count_go_spec mid : forall pre L x fuel acc,
  labels_wf pre -> labels_wf mid -> has_sep false L = false ->
  (length mid < fuel)%nat ->
  count_go fuel (seg_name pre mid L x) (length (show_labels pre)) acc =
  Some (acc + length mid + 1)%nat.
Proof.
  induction mid as [|l mid IH]; intros pre L x fuel acc Hpre Hmid HL Hfuel.
  - destruct fuel as [|fuel]; [cbn in Hfuel; lia|]. cbn [count_go].
    unfold seg_name. cbn [show_labels flat_map app].
    rewrite (next_label_last pre L x) by auto. f_equal. cbn. lia.
  - destruct fuel as [|fuel]; [cbn in Hfuel; lia|]. cbn [count_go].
    inversion Hmid as [|? ? Hl Hmid']; subst.
    unfold seg_name. rewrite show_labels_cons, <- app_assoc. cbn [app].
    rewrite (next_label_mid pre l (show_labels mid ++ L ++ [x])); auto.
    2:{ destruct (show_labels mid); [destruct L|]; discriminate. }
    assert (Hlen : (length (show_labels pre) + length (show_label l) + 1)%nat
                   = length (show_labels (pre ++ [l]))).
    { rewrite show_labels_snoc_form, !app_length. cbn. lia. }
    rewrite Hlen.
    replace (show_labels pre ++ show_label l ++ 46 :: show_labels mid ++ L ++ [x])
      with (seg_name (pre ++ [l]) mid L x).
    2:{ unfold seg_name. rewrite show_labels_snoc_form, <- !app_assoc. reflexivity. }
    rewrite IH; auto.
    + f_equal. cbn. lia.
    + apply labels_wf_app; auto. constructor; auto.
    + cbn in Hfuel. lia.
Qed.

(* every presentation form of a non-root name is a seg_name *)
Lemma has_sep_prefix st a b : has_sep st (a ++ b) = false -> has_sep st a = false.
Proof. rewrite has_sep_app. intro H. now apply orb_false_elim in H. Qed.

Lemma name_form_seg fq mid last :
  labels_wf mid -> last <> [] /\ wfb last ->
  exists L x, name_form fq (mid ++ [last]) = seg_name [] mid L x /\ has_sep false L = false.
Proof.
  intros Hmid [Hne Hl]. destruct (show_label_scan last Hl) as [_ Hsep].
  destruct fq; unfold name_form, seg_name; cbn [show_labels flat_map app];
    fold (show_labels mid); rewrite show_labels_snoc_form.
  - exists (show_label last), 46. auto.
  - rewrite app_assoc, removelast_snoc.
    destruct (exists_last (show_label_nonempty last Hne)) as [L [x HLx]].
    exists L, x. rewrite HLx in *. split; [reflexivity|].
    eapply has_sep_prefix; eauto.
Qed.

Lemma show_label_hd_not_dot l : l <> [] -> wfb l -> hd 0 (show_label l) <> 46.
Proof.
  destruct l as [|b l]; [congruence|]. intros _ Hw. inversion Hw as [|? ? Hb _]; subst.
  unfold show_label. cbn [flat_map].
  assert (H : negb (hd 0 (show_octet b) =? 46) = true).
  { clear Hw. revert b Hb. apply octet_sweep. vm_compute. reflexivity. }
  pose proof (show_octet_nonempty b) as Hn.
  destruct (show_octet b) as [|y t]; [congruence|]. cbn in *.
  intro E. rewrite E in H. discriminate.
Qed.

Lemma name_form_not_root fq mid last :
  labels_wf mid -> last <> [] /\ wfb last -> is_root (name_form fq (mid ++ [last])) = false.
Proof.
  intros Hmid [Hne Hl].
  destruct (is_root _) eqn:E; [|reflexivity]. exfalso.
  apply bytes_eqb_eq in E.
  (* the first label of the name *)
  assert (Hfirst : exists f rest, mid ++ [last] = f :: rest /\ f <> [] /\ wfb f).
  { destruct mid as [|m mid]; cbn.
    - exists last, []. auto.
    - inversion Hmid as [|? ? [Hmne Hmw] _]; subst. exists m, (mid ++ [last]). auto. }
  destruct Hfirst as [f [rest [Hfr [Hfne Hfw]]]].
  pose proof (show_label_hd_not_dot f Hfne Hfw) as Hh.
  pose proof (show_label_nonempty f Hfne) as Hn.
  unfold name_form in E. rewrite Hfr, show_labels_cons in E.
  destruct (show_label f) as [|a t] eqn:Hm; [congruence|]. cbn [hd] in Hh.
  destruct fq.
  - cbn in E. injection E as E1 E2. congruence.
  - cbn [app] in E.
    destruct (t ++ 46 :: show_labels rest) as [|y Y] eqn:Ht.
    { destruct t; discriminate. }
    cbn [removelast] in E. injection E as E1 _. congruence.
Qed.

Lemma show_labels_length_ge ls : (length ls <= length (show_labels ls))%nat.
Proof.
  induction ls as [|l r IH]; [cbn; lia|].
  rewrite show_labels_cons, app_length. cbn [length]. lia.
Qed.

Theorem split_spec fq mid last :
  labels_wf mid -> last <> [] /\ wfb last ->
  split (name_form fq (mid ++ [last])) = Some (label_starts 0 (mid ++ [last])).
Proof.
  intros Hmid Hlast. unfold split. rewrite name_form_not_root by auto.
  destruct (name_form_seg fq mid last Hmid Hlast) as [L [x [HE HL]]].
  rewrite HE.
  pose proof (split_go_spec mid [] L x (S (length (seg_name [] mid L x))) [0%nat]) as H.
  cbn [show_labels flat_map length] in H.
  rewrite H by first [ assumption | apply Forall_nil | (unfold seg_name; cbn [show_labels flat_map app]; rewrite !app_length;
                   pose proof (show_labels_length_ge mid); cbn; lia) ].
  rewrite label_starts_snoc. reflexivity.
Qed.

Theorem count_label_spec fq mid last :
  labels_wf mid -> last <> [] /\ wfb last ->
  count_label (name_form fq (mid ++ [last])) = Some (length (mid ++ [last])).
Proof.
  intros Hmid Hlast. unfold count_label. rewrite name_form_not_root by auto.
  destruct (name_form_seg fq mid last Hmid Hlast) as [L [x [HE HL]]].
  rewrite HE.
  pose proof (count_go_spec mid [] L x (S (length (seg_name [] mid L x))) 0%nat) as H.
  cbn [show_labels flat_map length] in H.
  rewrite H by first [ assumption | apply Forall_nil | (unfold seg_name; cbn [show_labels flat_map app]; rewrite !app_length;
                   pose proof (show_labels_length_ge mid); cbn; lia) ].
  rewrite app_length. cbn [length]. f_equal; lia.
Qed.

(* ================= Fqdn / CanonicalName on printed names ================= *)
Lemma is_fqdn_show_labels mid last :
  labels_wf mid -> last <> [] /\ wfb last -> is_fqdn (show_labels (mid ++ [last])) = true.
Proof.
  intros Hmid [Hne Hl]. unfold is_fqdn.
  rewrite show_labels_snoc_form, app_assoc, rev_app_distr. cbn [rev app].
  rewrite bs_run_even, scan_app, show_labels_scan by auto.
  destruct (show_label_scan last Hl) as [-> _]. reflexivity.
Qed.

Lemma is_fqdn_name_form_false mid last :
  labels_wf mid -> last <> [] /\ wfb last -> is_fqdn (name_form false (mid ++ [last])) = false.
Proof.
  intros Hmid [Hne Hl]. unfold name_form.
  rewrite show_labels_snoc_form, app_assoc, removelast_snoc.
  destruct (exists_last (show_label_nonempty last Hne)) as [L [x HLx]].
  unfold is_fqdn. rewrite HLx, app_assoc, rev_app_distr. cbn [rev app].
  destruct (N.eqb_spec x 46) as [->|Hx].
  - rewrite bs_run_even, scan_app, show_labels_scan by auto.
    destruct (show_label_scan last Hl) as [_ Hsep]. rewrite HLx, has_sep_app in Hsep.
    apply orb_false_elim in Hsep. destruct Hsep as [_ Hsep]. cbn in Hsep.
    rewrite orb_false_r, andb_true_r in Hsep. now rewrite Hsep.
  - destruct x as [|p]; [reflexivity|].
    repeat (destruct p as [p|p|]; try reflexivity). congruence.
Qed.

Theorem fqdn_spec fq mid last :
  labels_wf mid -> last <> [] /\ wfb last ->
  fqdn (name_form fq (mid ++ [last])) = show_labels (mid ++ [last]).
Proof.
  intros Hmid Hlast. unfold fqdn. destruct fq.
  - unfold name_form. now rewrite is_fqdn_show_labels.
  - rewrite is_fqdn_name_form_false by auto. unfold name_form.
    rewrite show_labels_snoc_form, app_assoc, removelast_snoc, <- app_assoc. reflexivity.
Qed.

Lemma lower_show_labels ls : labels_wf ls ->
  lower_bytes (show_labels ls) = show_labels (map lower_bytes ls).
Proof.
  induction 1 as [|l ls [_ Hl] _ IH]; [reflexivity|].
  cbn [map]. rewrite !show_labels_cons. unfold lower_bytes in *. rewrite map_app. cbn [map].
  rewrite IH. f_equal. apply lower_show_label, Hl.
Qed.

Theorem canonical_name_spec fq mid last :
  labels_wf mid -> last <> [] /\ wfb last ->
  canonical_name (name_form fq (mid ++ [last])) = show_labels (map lower_bytes (mid ++ [last])).
Proof.
  intros Hmid Hlast. unfold canonical_name. rewrite fqdn_spec by auto.
  apply lower_show_labels. apply labels_wf_app; auto. constructor; auto.
Qed.

(* NextLabel steps from each label start to the next, and reports the end at the last *)
Theorem next_label_visits fq pre l post :
  labels_wf pre -> l <> [] /\ wfb l -> labels_wf post ->
  next_label (name_form fq (pre ++ l :: post)) (length (show_labels pre)) =
  match post with
  | [] => (length (name_form fq (pre ++ [l])), true)
  | _ => ((length (show_labels pre) + length (show_label l) + 1)%nat, false)
  end.
Proof.
  intros Hpre Hl Hpost. unfold label, bytes in *. destruct post as [|p post].
  - destruct (name_form_seg fq pre l Hpre Hl) as [L [x [HE HL]]].
    unfold label, bytes in *. rewrite !HE. unfold seg_name. cbn [show_labels flat_map app].
    exact (next_label_last pre L x (show_labels pre ++ L ++ [x]) Hpre HL eq_refl).
  - (* a middle label: what follows the dot is non-empty in both forms *)
    destruct (exists_last (l:=p :: post) ltac:(discriminate)) as [mid' [last' Hml]].
    assert (Hwf' : labels_wf mid' /\ (last' <> [] /\ wfb last')).
    { rewrite Hml in Hpost. apply Forall_app in Hpost. destruct Hpost as [H1 H2].
      split; [exact H1|]. now inversion H2. }
    destruct Hwf' as [Hmid' Hlast'].
    assert (Hform : exists R, R <> [] /\
              name_form fq (pre ++ l :: p :: post) = show_labels pre ++ show_label l ++ 46 :: R).
    { rewrite Hml.
      replace (pre ++ l :: mid' ++ [last']) with ((pre ++ l :: mid') ++ [last'])
        by (rewrite <- app_assoc; reflexivity).
      destruct (name_form_seg fq (pre ++ l :: mid') last') as [L [x [HE HL]]]; auto.
      { apply labels_wf_app; auto. constructor; auto. }
      exists (show_labels mid' ++ L ++ [x]). split.
      { destruct (show_labels mid'); [destruct L|]; discriminate. }
      transitivity (seg_name [] (pre ++ l :: mid') L x); [exact HE|].
      unfold seg_name. cbn [show_labels flat_map app].
      fold (show_labels (pre ++ l :: mid')).
      rewrite show_labels_app, show_labels_cons, <- !app_assoc. reflexivity. }
    destruct Hform as [R [HR HE]]. rewrite HE.
    apply (next_label_mid pre l R); auto.
Qed.

(* non-vacuity: a three-label name with an escaped dot, a backslash and a
   non-printable octet satisfies the hypotheses and the helpers compute the
   expected values *)
Example labels_example :
  let mid := [[97; 46; 98]; [92]] in let last := [0; 65] in
  labels_wf mid /\ (last <> [] /\ wfb last) /\
  split (name_form true (mid ++ [last])) = Some [0; 5; 8]%nat /\
  count_label (name_form false (mid ++ [last])) = Some 3%nat.
Proof.
  cbn zeta. repeat split; try discriminate; try reflexivity.
  - repeat constructor; try discriminate; reflexivity.
  - repeat constructor; reflexivity.
Qed.
